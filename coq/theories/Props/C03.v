(* C03 — reward blocks pay each proven prover its proportional share exactly once.

   Model: Model/Rewards.v (RunRewardBlock after repairs 8521cdfa and c877e2c0).  Quantification:
   every height, every file (any sizes, windows, prover list and proof records) satisfying the
   C17 invariant [wf_file] (listed keys distinct, each with its proof record, positive proof
   interval), every tracker / burn-counter / bank state, every set of released coins.

   "Met its proof obligation" is [ok_slot h f k]: the file is still in its first window at height
   h, or the record's LastProven is not older than the start of the previous proof window.

   "Share": the code divides by total = sum over ALL files of size * (number of listed provers at
   the start of the block), including slots that fail in this block.  The share of a counted
   prover is therefore credited * C / total with that denominator; the part of the release that
   belongs to failing slots stays in the module account (the property only asks sum <= released).
   With C below 10^18 base units the payment is within one base unit of floor(credited*C/total);
   in general within 1 + C/10^18.  The sum bound needs n * C < 2 * 10^18 (n counted provers):
   beyond it the 18-digit rounding of n shares can add up to more than C (Example at the end). *)
From Coq Require Import ZArith NArith List Bool Lia.
From JK Require Import Base.Dec Base.AList Model.Rewards Proofs.RewardsProofs Proofs.RewardBlockProofs.
From JK Require Import Model.Gauge Proofs.GaugeProofs Proofs.RewardGaugeBridge.
Import ListNotations.
Open Scope Z_scope.

(* RemoveProverWithKey, with Go's slice aliasing, removes exactly the key from a duplicate-free list *)
Theorem C03_remove_prover_exact :
  forall k l, NoDup l -> remove_key k l = Some (filter (fun x => negb (N.eqb x k)) l).
Proof. exact remove_key_nodup. Qed.
Print Assumptions C03_remove_prover_exact.

(* one file: new list = provers that met their obligation, in order; records of the others deleted;
   tracker + size exactly once per counted prover; burn counter + 1 exactly once per missed slot;
   nothing else changes.  Any tracker, any burn counters. *)
Theorem C03_manage_file_counts_exactly_once :
  forall h f tr bu, wf_file f ->
  exists f',
    manage_file h {| ms_file := f; ms_tr := tr; ms_burn := bu |} =
      Ok {| ms_file := f'; ms_tr := tr_spec (f_size f) (verdict_of h f) (f_proofs f) tr;
            ms_burn := bu_spec (verdict_of h f) (f_proofs f) bu |} /\
    f_proofs f' = filter (ok_slot h f) (f_proofs f) /\
    f_start f' = f_start f /\ f_interval f' = f_interval f /\ f_size f' = f_size f /\ f_live f' = f_live f /\
    (forall k, aget N.eqb (f_recs f') k =
               if nmem k (f_proofs f) && negb (ok_slot h f k) then None else aget N.eqb (f_recs f) k) /\
    (forall p, aval N.eqb (tr_spec (f_size f) (verdict_of h f) (f_proofs f) tr) p =
               if nmem p (f_proofs f) && ok_slot h f p then wrap64 (aval N.eqb tr p + f_size f) else aval N.eqb tr p) /\
    (forall q, aget N.eqb (bu_spec (verdict_of h f) (f_proofs f) bu) q =
               if nmem q (f_proofs f) && negb (ok_slot h f q) then bump_burn (aget N.eqb bu q) else aget N.eqb bu q).
Proof. exact manage_file_counts_exactly_once. Qed.
Print Assumptions C03_manage_file_counts_exactly_once.

(* all files of a block (any number, any order): the loop does not panic; every file is left as
   [post_file]; the denominator is the (int64) sum of size * listed slots; each prover's tracker
   entry is the (int64) sum over files of size * [listed and met]; each registered provider's
   burn counter rose by the number of files it was dropped from. *)
Theorem C03_block_counts_exactly_once :
  forall h files bu, Forall wf_file files -> bu_in64 bu ->
  exists a,
    manage_all h files bu = Ok a /\
    rev (as_done a) = map (post_file h) files /\
    as_total a = wrap64 (total_size files) /\
    (forall p, aval N.eqb (as_tr a) p = wrap64 (credited h files p)) /\
    (forall q, aget N.eqb (as_burn a) q = option_map (fun b => wrap64 (b + failed h files q)) (aget N.eqb bu q)).
Proof. exact manage_all_counts. Qed.
Print Assumptions C03_block_counts_exactly_once.

(* the payout never fails or panics under [good_payout], and every balance is determined *)
Theorem C03_payout_balances :
  forall macct accts T tr coins b, good_payout macct accts T tr coins b ->
  exists b', reward_all macct accts T tr coins b = Ok b' /\
    (forall x d, bal b' x d = bal b x d + sumz (fun p => recv accts T tr coins x p d) (akeys tr)
                 - (if N.eqb x macct then sumz (fun p => po accts T tr coins p d) (akeys tr) else 0)) /\
    (forall d C, In (d, C) coins -> sumz (fun p => po accts T tr coins p d) (akeys tr) <= C).
Proof. exact reward_all_exact. Qed.
Print Assumptions C03_payout_balances.

(* a counted prover (credited w > 0, its string denotes account a, no other counted prover denotes a)
   receives pay = trunc(Quo(w, total) * C) with  w*C/total - 1 - C/10^18 < pay <= w*C/total + C/10^18 *)
Theorem C03_payout_share_bounds :
  forall macct accts T tr coins b b' p a d C,
  good_payout macct accts T tr coins b -> reward_all macct accts T tr coins b = Ok b' ->
  In p (akeys tr) -> 0 < aval N.eqb tr p -> aget N.eqb accts p = Some a ->
  (forall q, In q (akeys tr) -> q <> p -> aget N.eqb accts q = Some a -> aval N.eqb tr q <= 0) ->
  In (d, C) coins ->
  let w := aval N.eqb tr p in
  let pay := bal b' a d - bal b a d in
  pay = owed w T C /\
  P18 * T * pay <= P18 * (w * C) + T * C /\
  P18 * (w * C) - T * C < P18 * T * (pay + 1).
Proof. exact payout_share_bounds. Qed.
Print Assumptions C03_payout_share_bounds.

(* releases of at most 10^18 base units: within one base unit of the floored size-weighted share *)
Theorem C03_payout_within_one_unit :
  forall macct accts T tr coins b b' p a d C,
  good_payout macct accts T tr coins b -> reward_all macct accts T tr coins b = Ok b' ->
  In p (akeys tr) -> 0 < aval N.eqb tr p -> aget N.eqb accts p = Some a ->
  (forall q, In q (akeys tr) -> q <> p -> aget N.eqb accts q = Some a -> aval N.eqb tr q <= 0) ->
  In (d, C) coins -> C <= P18 ->
  let w := aval N.eqb tr p in
  let pay := bal b' a d - bal b a d in
  (w * C) / T - 1 <= pay <= (w * C) / T + 1.
Proof. exact payout_within_one_unit. Qed.
Print Assumptions C03_payout_within_one_unit.

(* any set of accounts other than the module account receives, together, at most the release *)
Theorem C03_payout_sum_le_released :
  forall macct accts T tr coins b b', good_payout macct accts T tr coins b ->
  reward_all macct accts T tr coins b = Ok b' ->
  forall xs d C, NoDup xs -> ~ In macct xs -> In (d, C) coins ->
  sumz (fun x => bal b' x d - bal b x d) xs <= C.
Proof. exact payout_sum_le. Qed.
Print Assumptions C03_payout_sum_le_released.

Theorem C03_uncounted_get_nothing :
  forall macct accts T tr coins b b', good_payout macct accts T tr coins b ->
  reward_all macct accts T tr coins b = Ok b' ->
  forall x d, x <> macct ->
  (forall p, In p (akeys tr) -> aget N.eqb accts p = Some x -> aval N.eqb tr p <= 0) ->
  bal b' x d = bal b x d.
Proof. exact payout_uncounted. Qed.
Print Assumptions C03_uncounted_get_nothing.

Theorem C03_unreleased_denominations_untouched :
  forall macct accts T tr coins b b', good_payout macct accts T tr coins b ->
  reward_all macct accts T tr coins b = Ok b' ->
  forall x d, ~ In d (akeys coins) -> bal b' x d = bal b x d.
Proof. exact payout_other_denom. Qed.
Print Assumptions C03_unreleased_denominations_untouched.

(* the link between the two halves: at a reward block over well-formed files with non-negative
   sizes whose total listed size fits int64, the tracker handed to the payout holds exactly the
   credited sizes, the denominator is the total listed size, and [good_payout] holds — so the four
   payout theorems above apply with w = credited h files p and T = total_size files.
   ([b] is the bank after pullTokensFromGauges moved the release into the module account.) *)
Theorem C03_block_payout_hypotheses_hold :
  forall macct accts h files bu coins b a,
  Forall wf_file files -> bu_in64 bu -> Forall (fun f => 0 <= f_size f) files ->
  0 < total_size files <= int64_max ->
  NoDup (akeys coins) -> (forall d C, In (d, C) coins -> 0 <= C) ->
  (forall d C, In (d, C) coins -> Z.of_nat (slots files) * C < 2 * P18) ->
  (forall d C, In (d, C) coins -> C <= bal b macct d) ->
  (forall p x, aget N.eqb accts p = Some x -> x <> macct) ->
  manage_all h files bu = Ok a ->
  as_total a = total_size files /\
  (forall p, aval N.eqb (as_tr a) p = credited h files p) /\
  good_payout macct accts (total_size files) (as_tr a) coins b.
Proof. exact block_tracker_good. Qed.
Print Assumptions C03_block_payout_hypotheses_hold.

(* THE WHOLE BLOCK.  run_reward_block = RunRewardBlock: the CheckWindow/height test, the loop over
   all files, the credit of the released coins to the module account, the payout.  For every
   state whose files satisfy the C17 invariant, with non-negative sizes whose listed total fits
   int64, int64 burn counters, every released coin set with one non-negative entry per
   denomination and slots * C < 2*10^18, a module account that is not in debt in the released
   denominations and is not denoted by a prover string:
   - at a height that is not a reward height nothing changes;
   - at a reward height the block does not panic; every file keeps exactly the slots that met
     their obligation (in order; the records of the others are deleted; start, interval and size
     are untouched; an old file that had no prover left is removed); each registered provider's
     burn counter rises by the number of files it was dropped from;
   - with w p = bytes credited to prover p in this block (sum over files of size * [listed and
     met]) and T = the denominator (sum of size * listed slots), per released denomination (d, C):
     a counted prover (w p > 0) whose account no other counted prover denotes receives exactly
     pay = trunc(Quo(w p, T) * C), with w*C/T - 1 - C/10^18 < pay <= w*C/T + C/10^18 (within one
     base unit of floor(w*C/T) when C <= 10^18); every other account except the module account
     receives nothing; no balance moves in a denomination that was not released; any set of
     accounts other than the module account receives together at most C; the module account
     keeps the rest.
   The released coins are the block's input here; C03_block_pays_at_most_what_the_gauges_release
   below instantiates them with what the gauge model (C12) releases. *)
Theorem C03_reward_block_pays_each_counted_prover_its_share_once :
  forall macct accts cw h coins s,
  cw <> 0 ->
  Forall wf_file (b_files s) -> bu_in64 (b_burn s) ->
  Forall (fun f => 0 <= f_size f) (b_files s) ->
  total_size (b_files s) <= int64_max ->
  NoDup (akeys coins) -> (forall d C, In (d, C) coins -> 0 <= C) ->
  (forall d C, In (d, C) coins -> Z.of_nat (slots (b_files s)) * C < 2 * P18) ->
  (forall d, In d (akeys coins) -> 0 <= bal (b_bank s) macct d) ->
  (forall p x, aget N.eqb accts p = Some x -> x <> macct) ->
  let files := b_files s in
  let T := total_size files in
  let w := credited h files in
  (0 < Z.rem h cw -> run_reward_block macct accts cw h coins s = Ok s) /\
  (Z.rem h cw <= 0 ->
   exists s', run_reward_block macct accts cw h coins s = Ok s' /\
     Forall2 (fun f f' =>
        f_proofs f' = filter (ok_slot h f) (f_proofs f) /\
        f_start f' = f_start f /\ f_interval f' = f_interval f /\ f_size f' = f_size f /\
        f_live f' = (match f_proofs f with [] => is_young f h && f_live f | _ => f_live f end) /\
        (forall k, aget N.eqb (f_recs f') k =
                   if nmem k (f_proofs f) && negb (ok_slot h f k) then None else aget N.eqb (f_recs f) k))
       files (b_files s') /\
     (forall q, aget N.eqb (b_burn s') q =
                option_map (fun b => wrap64 (b + failed h files q)) (aget N.eqb (b_burn s) q)) /\
     (forall p a d C, 0 < w p -> aget N.eqb accts p = Some a ->
        (forall q, q <> p -> aget N.eqb accts q = Some a -> w q <= 0) ->
        In (d, C) coins ->
        let pay := bal (b_bank s') a d - bal (b_bank s) a d in
        pay = owed (w p) T C /\ 0 <= pay /\
        P18 * T * pay <= P18 * (w p * C) + T * C /\
        P18 * (w p * C) - T * C < P18 * T * (pay + 1) /\
        (C <= P18 -> (w p * C) / T - 1 <= pay <= (w p * C) / T + 1)) /\
     (forall x d, x <> macct -> (forall p, aget N.eqb accts p = Some x -> w p <= 0) ->
        bal (b_bank s') x d = bal (b_bank s) x d) /\
     (forall x d, ~ In d (akeys coins) -> bal (b_bank s') x d = bal (b_bank s) x d) /\
     (forall xs d C, NoDup xs -> ~ In macct xs -> In (d, C) coins ->
        sumz (fun x => bal (b_bank s') x d - bal (b_bank s) x d) xs <= C) /\
     (forall d C, In (d, C) coins ->
        bal (b_bank s) macct d <= bal (b_bank s') macct d <= bal (b_bank s) macct d + C)).
Proof. exact reward_block_spec. Qed.
Print Assumptions C03_reward_block_pays_each_counted_prover_its_share_once.

(* ---------- the released coins are what the gauges of C12 release ----------
   Model/Gauge.v (property C12) models pullTokensFromGauges gauge by gauge; its reward_block moves
   the releases into gs_pool (the module account).  Translation (Proofs/RewardGaugeBridge.v):
   gauges_release gs now = the moved coins of all gauges added up per denomination,
   to_released = without the zero entries (the [coins] argument of run_reward_block),
   pool_agrees macct b pool = row macct of Rewards' bank holds what Gauge's pool holds,
   closed_release now g acct d = cum_at(start, end, recorded, now) - (recorded - balance) for a
   gauge this block looks at (not past its end, account not empty), 0 otherwise,
   release_sum now gs d = sum of closed_release over the gauges of gs.

   For every state satisfying Gauge's invariant and every block time not before the last one:
   the translated release has one entry per denomination, every entry is positive and equals the
   sum over the gauges of C12's closed form, denominations without an entry release 0; Gauge's
   reward block does not panic, and after the credit run_reward_block performs Rewards' module
   account agrees with Gauge's pool after its reward block, so the release is in the module
   account when the payout runs. *)
Theorem C03_gauge_release_meets_payout_hypotheses :
  forall tl gs now, Inv tl gs -> tl <= now ->
  let coins := to_released (gauges_release gs now) in
  NoDup (akeys coins) /\
  (forall d C, In (d, C) coins -> 0 < C /\ C = release_sum now gs d) /\
  (forall d, ~ In d (akeys coins) -> release_sum now gs d = 0) /\
  (forall d, relof coins d = release_sum now gs d) /\
  exists gs', reward_block gs now = Some gs' /\
    forall macct b, pool_agrees macct b (gs_pool gs) ->
      pool_agrees macct (pull macct coins b) (gs_pool gs') /\
      ((forall d, 0 <= cval (gs_pool gs) d) ->
       forall d C, In (d, C) coins -> C <= bal (pull macct coins b) macct d).
Proof. exact gauge_release_meets_payout_hypotheses. Qed.
Print Assumptions C03_gauge_release_meets_payout_hypotheses.

(* what arrives in Gauge's pool is exactly gauges_release, i.e. the sum of the closed forms *)
Theorem C03_gauge_pool_gains_the_closed_form_sum :
  forall tl gs now, Inv tl gs -> tl <= now ->
  exists gs', reward_block gs now = Some gs' /\
    (forall d, cval (gs_pool gs') d = cval (gs_pool gs) d + cval (gauges_release gs now) d) /\
    NoDup (map fst (gauges_release gs now)) /\
    (forall d, cval (gauges_release gs now) d =
               sumz (fun ig => closed_release now (snd ig) (escrow_of gs (fst ig)) d) (gs_gauges gs)) /\
    (forall d, 0 <= release_sum now gs d).
Proof. exact gauge_release_spec. Qed.
Print Assumptions C03_gauge_pool_gains_the_closed_form_sum.

(* COROLLARY: the reward block with its gauge side (state gs satisfying C12's invariant, block
   time now) and its file side (state s with C17-well-formed files, reward height h): neither
   model panics, and per denomination the accounts other than the module account — in particular
   all provers — receive together at most the sum over the gauges of the closed-form release;
   the module account keeps the rest. *)
Theorem C03_block_pays_at_most_what_the_gauges_release :
  forall macct accts cw h tl now gs s,
  Inv tl gs -> tl <= now ->
  cw <> 0 -> Z.rem h cw <= 0 ->
  Forall wf_file (b_files s) -> bu_in64 (b_burn s) ->
  Forall (fun f => 0 <= f_size f) (b_files s) ->
  total_size (b_files s) <= int64_max ->
  (forall d, Z.of_nat (slots (b_files s)) * release_sum now gs d < 2 * P18) ->
  (forall d, 0 <= bal (b_bank s) macct d) ->
  (forall p x, aget N.eqb accts p = Some x -> x <> macct) ->
  exists gs' s',
    reward_block gs now = Some gs' /\
    run_reward_block macct accts cw h (to_released (gauges_release gs now)) s = Ok s' /\
    (forall xs d, NoDup xs -> ~ In macct xs ->
       sumz (fun x => bal (b_bank s') x d - bal (b_bank s) x d) xs <=
       sumz (fun ig => closed_release now (snd ig) (escrow_of gs (fst ig)) d) (gs_gauges gs)) /\
    (forall d, bal (b_bank s) macct d <= bal (b_bank s') macct d <= bal (b_bank s) macct d + release_sum now gs d).
Proof. exact block_pays_at_most_gauge_release. Qed.
Print Assumptions C03_block_pays_at_most_what_the_gauges_release.

(* the same with the release written as C12's cum_at difference.  [synced lp gs]: every listed
   gauge id has released, per denomination, exactly cum_at at the instant lp id (recorded -
   balance = cum_at(start, end, recorded, lp id)).  It holds right after every reward block with
   lp = the block's time, a creation keeps it with lp id = the gauge's start, and so some lp
   satisfies it along every history that C12 accepts (next two theorems). *)
Theorem C03_block_pays_at_most_cum_at_difference :
  forall macct accts cw h tl now lp gs s,
  Inv tl gs -> synced lp gs -> tl <= now ->
  cw <> 0 -> Z.rem h cw <= 0 ->
  Forall wf_file (b_files s) -> bu_in64 (b_burn s) ->
  Forall (fun f => 0 <= f_size f) (b_files s) ->
  total_size (b_files s) <= int64_max ->
  (forall d, Z.of_nat (slots (b_files s)) * release_diff now lp gs d < 2 * P18) ->
  (forall d, 0 <= bal (b_bank s) macct d) ->
  (forall p x, aget N.eqb accts p = Some x -> x <> macct) ->
  exists gs' s',
    reward_block gs now = Some gs' /\ synced (fun _ => now) gs' /\
    run_reward_block macct accts cw h (to_released (gauges_release gs now)) s = Ok s' /\
    forall xs d, NoDup xs -> ~ In macct xs ->
      sumz (fun x => bal (b_bank s') x d - bal (b_bank s) x d) xs <=
      sumz (fun ig : N * gauge =>
              let g := snd ig in
              if gauge_live now g (escrow_of gs (fst ig))
              then cum_at (g_start g) (g_end g) (cval (g_coins g) d) now
                   - cum_at (g_start g) (g_end g) (cval (g_coins g) d) (lp (fst ig))
              else 0) (gs_gauges gs).
Proof. exact block_pays_at_most_cum_at_difference. Qed.
Print Assumptions C03_block_pays_at_most_cum_at_difference.

Theorem C03_synced_after_reward_block_and_creation :
  (forall tl s now s', Inv tl s -> tl <= now -> reward_block s now = Some s' -> synced (fun _ => now) s') /\
  (forall tl s id now e cs lp, Inv tl s -> synced lp s -> op_ok tl s (OpCreate id now e cs) ->
     synced (fun i => if N.eqb i id then now else lp i) (create_gauge s id now e cs)).
Proof. exact (conj synced_after_block synced_create). Qed.
Print Assumptions C03_synced_after_reward_block_and_creation.

Theorem C03_gauge_histories_keep_invariant_and_synced :
  forall t0 ops, hist_ok t0 gempty ops ->
  exists gs, grun gempty ops = Some gs /\ Inv (end_time t0 ops) gs /\ exists lp, synced lp gs.
Proof. exact history_synced. Qed.
Print Assumptions C03_gauge_histories_keep_invariant_and_synced.

(* realistic magnitudes meet the side conditions: 10^6 listed slots, a release of 10^12 base units *)
Example C03_ex_side_condition : 1000000 * 10 ^ 12 < 2 * P18.
Proof. vm_compute. reflexivity. Qed.

(* ---------- non-vacuity and documentation ---------- *)

Definition ex_file (lasts : list (N * Z)) : file :=
  {| f_start := 10; f_interval := 50; f_size := 1000;
     f_proofs := map fst lasts;
     f_recs := map (fun kl => (fst kl, {| pr_prover := fst kl; pr_last := snd kl |})) lasts;
     f_live := true |}.
(* the size hypothesis of the block theorems is what stateless validation provides: a file admitted by
   MsgPostFile.ValidateBasic ([post_admissible], tied to the code on every run) that lists at most MaxProofs
   provers contributes a footprint that is non-negative, fits int64 and is not changed by Go's wrap-around *)
Theorem C03_admitted_file_footprint_fits_int64 :
  forall size maxproofs n,
    post_admissible size maxproofs = true -> 0 <= n <= maxproofs ->
    0 <= size * n <= int64_max /\ wrap64 (size * n) = size * n.
Proof. exact admissible_footprint_fits. Qed.
Print Assumptions C03_admitted_file_footprint_fits_int64.

(* height 300: the previous window starts at 210; A = 1 fails by one block, B = 2 and C = 3 pass *)
Definition ex_abc : file := ex_file [(1%N, 209); (2%N, 210); (3%N, 299)].

Example C03_ex_wf : wf_file ex_abc.
Proof.
  constructor.
  - repeat constructor; cbn; intuition discriminate.
  - discriminate.
  - intros k [<-|[<-|[<-|[]]]]; eexists; split; reflexivity.
Qed.

Example C03_ex_repaired_loop :
  match manage_file 300 {| ms_file := ex_abc; ms_tr := []; ms_burn := [(1%N, 0); (2%N, 0); (3%N, 0)] |} with
  | Ok s => (f_proofs (ms_file s), ms_tr s, ms_burn s)
  | Panic => ([], [], [])
  end = ([2; 3]%N, [(2%N, 1000); (3%N, 1000)], [(1%N, 1); (2%N, 0); (3%N, 0)]).
Proof. vm_compute. reflexivity. Qed.

(* what the monitors guard against: the loop before repair 8521cdfa skips B and counts C twice *)
Theorem C03_old_loop_refuted :
  exists h f tr bu s, wf_file f /\
    manage_file_aliased h {| ms_file := f; ms_tr := tr; ms_burn := bu |} = Ok s /\
    f_proofs (ms_file s) = filter (ok_slot h f) (f_proofs f) /\
    aval N.eqb (ms_tr s) 2%N = 0 /\ aval N.eqb (ms_tr s) 3%N = 2 * f_size f /\
    ok_slot h f 2%N = true.
Proof.
  exists 300, ex_abc, [], [(1%N, 0); (2%N, 0); (3%N, 0)]. eexists. split; [exact C03_ex_wf|].
  split; [vm_compute; reflexivity|]. vm_compute. repeat split; reflexivity.
Qed.
Print Assumptions C03_old_loop_refuted.

(* a payout state satisfying [good_payout]: three provers with 1000, 1000, 2000 of 5000 bytes *)
Definition ex_tr : tracker := [(2%N, 1000); (3%N, 1000); (5%N, 2000)].
Definition ex_accts : list (N * N) := [(2, 12); (3, 13); (5, 15)]%N.
Definition ex_coins : list (N * Z) := [(1%N, 77); (3%N, 6000000)].
Definition ex_bank : bank := [((900%N, 1%N), 77); ((900%N, 3%N), 6000000 + 5)].

Example C03_ex_good_payout : good_payout 900%N ex_accts 5000 ex_tr ex_coins ex_bank.
Proof.
  constructor.
  - reflexivity.
  - intros p. unfold aval, ex_tr. cbn. repeat (destruct (N.eqb p _); [discriminate|]). discriminate.
  - repeat constructor; cbn; intuition discriminate.
  - discriminate.
  - repeat constructor; cbn; intuition discriminate.
  - intros d C [[= <- <-]|[[= <- <-]|[]]]; discriminate.
  - intros d C [[= <- <-]|[[= <- <-]|[]]]; reflexivity.
  - intros d C [[= <- <-]|[[= <- <-]|[]]]; vm_compute; discriminate.
  - intros p a. unfold ex_accts. cbn. repeat (destruct (N.eqb p _); [intros [= <-]; discriminate|]). discriminate.
Qed.

Example C03_ex_payout :
  match reward_all 900%N ex_accts 5000 ex_tr ex_coins ex_bank with
  | Ok b => (bal b 12 3, bal b 13 3, bal b 15 3, bal b 900 3, bal b 15 1)%N
  | Panic => (0, 0, 0, 0, 0)
  end = (1200000, 1200000, 2400000, 1200005, 30).
Proof. vm_compute. reflexivity. Qed.

(* outside n*C < 2*10^18 the sum bound fails: six provers holding one sixth each of a release of
   6*10^18 base units are paid 10^18 + 2 each (Quo rounds 1/6 up in the 18th digit); the twelve
   extra units come out of whatever else the module account holds. *)
Example C03_side_condition_needed :
  let tr := [(1%N, 1); (2%N, 1); (3%N, 1); (4%N, 1); (5%N, 1); (6%N, 1)] in
  let accts := [(1, 11); (2, 12); (3, 13); (4, 14); (5, 15); (6, 16)]%N in
  let C := 6 * 10 ^ 18 in
  match reward_all 900%N accts 6 tr [(1%N, C)] [((900%N, 1%N), C + 1000)] with
  | Ok b => bal b 900%N 1%N
  | Panic => 0
  end = 1000 - 12.
Proof. vm_compute. reflexivity. Qed.

(* ---------- the whole block on a concrete state: two files, three provers ----------
   height 300, CheckWindow 100.  File 1 (start 10, window 50, 1000 bytes) lists provers 1, 2, 3:
   1 last proved at 209 (one block before the previous window: dropped), 2 and 3 pass.
   File 2 (start 20, window 50, 500 bytes) lists 2 and 3: its previous window starts at 220,
   2 proved at 250 (passes), 3 at 100 (dropped).  Credited: w 1 = 0, w 2 = 1500, w 3 = 1000;
   T = 3*1000 + 2*500 = 4000.  Released: 8000 of denomination 1 and 77 of denomination 3. *)
Definition ex_file2 : file :=
  {| f_start := 20; f_interval := 50; f_size := 500;
     f_proofs := [2; 3]%N;
     f_recs := [(2%N, {| pr_prover := 2; pr_last := 250 |}); (3%N, {| pr_prover := 3; pr_last := 100 |})];
     f_live := true |}.
Definition ex_block : bstate :=
  {| b_files := [ex_abc; ex_file2];
     b_burn := [(1%N, 0); (2%N, 4); (3%N, 0)];
     b_bank := [((900%N, 1%N), 5); ((12%N, 1%N), 100)] |}.
Definition ex_block_accts : list (N * N) := [(1, 11); (2, 12); (3, 13)]%N.
Definition ex_released : list (N * Z) := [(1%N, 8000); (3%N, 77)].

Example C03_ex_block_hypotheses :
  100 <> 0 /\ Forall wf_file (b_files ex_block) /\ bu_in64 (b_burn ex_block) /\
  Forall (fun f => 0 <= f_size f) (b_files ex_block) /\
  total_size (b_files ex_block) <= int64_max /\
  NoDup (akeys ex_released) /\ (forall d C, In (d, C) ex_released -> 0 <= C) /\
  (forall d C, In (d, C) ex_released -> Z.of_nat (slots (b_files ex_block)) * C < 2 * P18) /\
  (forall d, In d (akeys ex_released) -> 0 <= bal (b_bank ex_block) 900%N d) /\
  (forall p x, aget N.eqb ex_block_accts p = Some x -> x <> 900%N).
Proof.
  split; [discriminate|].
  split.
  { constructor; [exact C03_ex_wf|]. constructor; [|constructor]. constructor.
    - repeat constructor; cbn; intuition discriminate.
    - discriminate.
    - intros k [<-|[<-|[]]]; eexists; split; reflexivity. }
  split.
  { intros q b. unfold ex_block. cbn [b_burn aget].
    repeat (destruct (N.eqb q _); [intros [= <-]; vm_compute; split; discriminate|]). discriminate. }
  split; [repeat constructor; discriminate|].
  split; [vm_compute; discriminate|].
  split; [repeat constructor; cbn; intuition discriminate|].
  split; [intros d C [[= <- <-]|[[= <- <-]|[]]]; discriminate|].
  split; [intros d C [[= <- <-]|[[= <- <-]|[]]]; vm_compute; reflexivity|].
  split; [intros d [<-|[<-|[]]]; vm_compute; discriminate|].
  intros p x. unfold ex_block_accts. cbn [aget].
  repeat (destruct (N.eqb p _); [intros [= <-]; discriminate|]). discriminate.
Qed.

(* the theorem applied to it (300 is a reward height for CheckWindow 100) ... *)
Example C03_ex_block_instance :
  exists s', run_reward_block 900%N ex_block_accts 100 300 ex_released ex_block = Ok s' /\
    Forall2 (file_after 300) (b_files ex_block) (b_files s') /\
    (forall q, aget N.eqb (b_burn s') q =
               option_map (fun b => wrap64 (b + failed 300 (b_files ex_block) q)) (aget N.eqb (b_burn ex_block) q)) /\
    bank_after 900%N ex_block_accts ex_released (credited 300 (b_files ex_block)) (total_size (b_files ex_block))
               (b_bank ex_block) (b_bank s').
Proof.
  destruct C03_ex_block_hypotheses as (H1 & H2 & H3 & H4 & H5 & H6 & H7 & H8 & H9 & H10).
  apply (proj2 (C03_reward_block_pays_each_counted_prover_its_share_once
                  900%N ex_block_accts 100 300 ex_released ex_block H1 H2 H3 H4 H5 H6 H7 H8 H9 H10)).
  vm_compute. intros C. discriminate C.
Qed.

(* ... and the values it speaks about: prover lists, burn counters, credited bytes and
   denominator, the payments 1500/4000*8000 = 3000, 1000/4000*8000 = 2000, trunc(0.375*77) = 28,
   trunc(0.25*77) = 19, nothing for the dropped prover 1 (account 11), the rest in the module account *)
Example C03_ex_block_run :
  match run_reward_block 900%N ex_block_accts 100 300 ex_released ex_block with
  | Ok s' => (map f_proofs (b_files s'), b_burn s',
              map (fun x => (bal (b_bank s') x 1%N - bal (b_bank ex_block) x 1%N,
                             bal (b_bank s') x 3%N - bal (b_bank ex_block) x 3%N)) [11; 12; 13; 900]%N)
  | Panic => ([], [], [])
  end = ([[2; 3]; [2]]%N, [(1%N, 1); (2%N, 4); (3%N, 1)], [(0, 0); (3000, 28); (2000, 19); (3000, 30)]) /\
  map (credited 300 (b_files ex_block)) [1; 2; 3]%N = [0; 1500; 1000] /\
  total_size (b_files ex_block) = 4000 /\
  run_reward_block 900%N ex_block_accts 100 301 ex_released ex_block = Ok ex_block.
Proof. vm_compute. repeat split; reflexivity. Qed.

(* ---------- the block with its gauge side: one gauge of 80000 over 1000 s, 10 % elapsed ----------
   the gauge releases cum_at(now) - cum_at(start) = 8000 of denomination 1, which is the release
   of the example above without denomination 3 *)
Definition ex_gs : gstate := create_gauge gempty 1 1000 1000000001000 [(1%N, 80000)].
Definition ex_now : Z := 100000001000.
Definition ex_lp : N -> Z := fun i => if N.eqb i 1 then 1000 else 0.

Example C03_ex_gauge_state : Inv 1000 ex_gs /\ synced ex_lp ex_gs.
Proof.
  assert (O : op_ok 1000 gempty (OpCreate 1 1000 1000000001000 [(1%N, 80000)])).
  { unfold op_ok. replace (aget N.eqb (gs_gauges gempty) 1%N) with (@None gauge) by reflexivity.
    split; [lia|]. split; [unfold wf_interval, max_dur; lia|].
    split; [constructor; [intros []|constructor]|].
    split; [intros d x [[= <- <-]|[]]; lia|].
    split; [reflexivity|]. intros d. unfold cval, aval. cbn [aget].
    destruct (N.eqb d 1); unfold int64_max; lia. }
  split.
  - exact (create_ok 1000 gempty 1 1000 1000000001000 _ (inv_empty 1000) O).
  - exact (synced_create 1000 gempty 1 1000 1000000001000 _ (fun _ => 0) (inv_empty 1000) (synced_empty _) O).
Qed.

Example C03_ex_gauge_block_instance :
  exists gs' s',
    reward_block ex_gs ex_now = Some gs' /\ synced (fun _ => ex_now) gs' /\
    run_reward_block 900%N ex_block_accts 100 300 (to_released (gauges_release ex_gs ex_now)) ex_block = Ok s' /\
    forall xs d, NoDup xs -> ~ In 900%N xs ->
      sumz (fun x => bal (b_bank s') x d - bal (b_bank ex_block) x d) xs <= release_diff ex_now ex_lp ex_gs d.
Proof.
  destruct C03_ex_gauge_state as [HI SY].
  destruct C03_ex_block_hypotheses as (H1 & H2 & H3 & H4 & H5 & _ & _ & _ & _ & H10).
  assert (TL : 1000 <= ex_now) by (vm_compute; intros C; discriminate C).
  assert (RH : Z.rem 300 100 <= 0) by (vm_compute; intros C; discriminate C).
  apply (block_pays_at_most_cum_at_difference 900%N ex_block_accts 100 300 1000 ex_now ex_lp ex_gs ex_block
           HI SY TL H1 RH H2 H3 H4 H5); [| |exact H10].
  - intros d. rewrite <- (release_sum_synced ex_now ex_lp ex_gs d (proj1 HI) SY).
    destruct (gauge_release_spec 1000 ex_gs ex_now HI TL) as (_ & _ & _ & _ & CL & _).
    rewrite <- CL. replace (gauges_release ex_gs ex_now) with [(1%N, 8000)] by (vm_compute; reflexivity).
    unfold cval, aval. cbn [aget]. destruct (N.eqb d 1); vm_compute; reflexivity.
  - intros d. unfold bal, aval, ex_block. cbn [b_bank aget]. unfold peqb. cbn [fst snd].
    change (N.eqb 900 900) with true. change (N.eqb 900 12) with false. cbn [andb].
    destruct (N.eqb d 1); lia.
Qed.

Example C03_ex_gauge_block_run :
  to_released (gauges_release ex_gs ex_now) = [(1%N, 8000)] /\
  release_sum ex_now ex_gs 1 = 8000 /\ release_diff ex_now ex_lp ex_gs 1 = 8000 /\
  release_sum ex_now ex_gs 3 = 0 /\
  option_map (fun gs' => (cval (gs_pool gs') 1, cval (escrow_of gs' 1) 1)) (reward_block ex_gs ex_now)
    = Some (8000 - 80000, 72000) /\
  match run_reward_block 900%N ex_block_accts 100 300 (to_released (gauges_release ex_gs ex_now)) ex_block with
  | Ok s' => map (fun x => bal (b_bank s') x 1%N - bal (b_bank ex_block) x 1%N) [11; 12; 13; 900]%N
  | Panic => []
  end = [0; 3000; 2000; 3000].
Proof. vm_compute. repeat split; reflexivity. Qed.

(* ---------------------------------------------------------------------------------------------
   Tie to the code by translation + proof: the functions below are GENERATED on every run from /repo's
   current Go source (translator/gen_gofuncs.go -> Gen/GoWindows.v); the theorems say that the hand-written model the
   property theorems above are about computes what the generated function computes, for all arguments. *)
From Coq Require Import String.
From JK Require Import Base.GoSem Gen.GoWindows Proofs.GoTieWindows.

(* the per-prover step of Model/Rewards.v follows the verdict keeper.manageProof (generated from the current source)
   takes: the size tracker grows exactly on Keep, by the file size, for the prover named by the record *)
Theorem C03_code_tie_manageProof :
  forall h s k size, small h -> small (Rewards.f_start (ms_file s)) -> small (Rewards.f_interval (ms_file s)) ->
    let f := ms_file s in
    gen_manageProof (Rewards.f_start f) (Rewards.f_interval f) h size (rw_found f k) (rw_last f k)
    = gmap (verdict_events size) (spec_verdict (Rewards.f_start f) (Rewards.f_interval f) h (rw_found f k) (rw_last f k)) /\
    visit h s k
    = match spec_verdict (Rewards.f_start f) (Rewards.f_interval f) h (rw_found f k) (rw_last f k) with
      | GPanic => Rewards.Panic
      | GVal VRemove =>
          obind (remove_prover f k) (fun f' => Rewards.Ok {| ms_file := f'; ms_tr := ms_tr s; ms_burn := ms_burn s |})
      | GVal VBurn =>
          obind (remove_prover f k)
            (fun f' => Rewards.Ok {| ms_file := f'; ms_tr := ms_tr s; ms_burn := burn_contract (ms_burn s) k |})
      | GVal VKeep =>
          Rewards.Ok {| ms_file := f;
                ms_tr := aset N.eqb (ms_tr s) (rw_prover f k) (wrap64 (aval N.eqb (ms_tr s) (rw_prover f k) + Rewards.f_size f));
                ms_burn := ms_burn s |}
      end.
Proof.
  intros h s k size Hh Hs Hp. cbv zeta.
  exact (conj (gen_manageProof_spec _ _ h size _ _ Hh Hs Hp) (rewards_visit h s k)).
Qed.
Print Assumptions C03_code_tie_manageProof.

From JK Require Import Gen.GoReward Proofs.GoTieReward.

(* keeper.rewardAllProviders, generated from the current source in three units (the guard on the total, one prover,
   one released coin for one prover): the payout model of Model/Rewards.v does what the generated units announce *)
Theorem C03_code_tie_payout :
  forall macct accts total tr coins b,
    reward_all macct accts total tr coins b
    = match gen_rewardGuard total with
      | GVal [] => Rewards.Ok b
      | _ => ofold (pay_prover macct accts total tr coins) (nsort (akeys tr)) b
      end /\
    (forall p, 0 < total ->
       pay_prover macct accts total tr coins b p
       = match gen_rewardProver (aval N.eqb tr p) (dec total)
                 (match aget N.eqb accts p with Some _ => true | None => false end) with
         | GVal [Ev _ [share]] =>
             match aget N.eqb accts p with Some a => ofold (pay_coin macct a share) coins b | None => Rewards.Ok b end
         | _ => Rewards.Ok b
         end) /\
    (forall to share c,
       pay_coin macct to share b c
       = match gen_rewardCoin (snd c) share true with
         | GPanic => Rewards.Panic
         | GVal [Ev _ [owed]] =>
             if owed =? 0 then Rewards.Ok b
             else if owed <=? bal b macct (fst c)
                  then Rewards.Ok (credit (credit b macct (fst c) (- owed)) to (fst c) owed) else Rewards.Ok b
         | GVal _ => Rewards.Ok b
         end).
Proof.
  intros macct accts total tr coins b.
  exact (conj (reward_all_follows macct accts total tr coins b)
        (conj (fun p Ht => pay_prover_follows macct accts total tr coins b p Ht)
              (fun to share c => pay_coin_follows macct to share b c))).
Qed.
Print Assumptions C03_code_tie_payout.

(* and what each unit computes, in closed form *)
Theorem C03_code_tie_payout_units :
  forall total worth ok amount pct,
    gen_rewardGuard total = GVal (if total <=? 0 then [] else [Ev "pay-provers-of"%string [dec total]]) /\
    (0 < total ->
     gen_rewardProver worth (dec total) ok
     = GVal (if worth <=? 0 then [] else if ok then [Ev "pay-share"%string [dquo (dec worth) (dec total)]] else [])) /\
    gen_rewardCoin amount pct ok
    = (let owed := dtrunc (dmul pct (dec amount)) in if owed <? 0 then GPanic else GVal [Ev "pay"%string [owed]]).
Proof.
  intros total worth ok amount pct.
  exact (conj (gen_rewardGuard_spec total) (conj (gen_rewardProver_spec worth total ok) (gen_rewardCoin_spec amount pct ok))).
Qed.
Print Assumptions C03_code_tie_payout_units.
