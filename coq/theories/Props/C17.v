(* C17 — stored-file indexes and prover lists stay mutually consistent.
   Quantification: every history (list of operations) of PostFile, DeleteFile, PostProof, Attest,
   Report, form requests, provider init / shutdown and reward blocks, with ALL inputs of every
   step arbitrary (signers, keys, heights, sizes, the verification verdict, the drawn challenge,
   the chosen form members, the payment outcome), from the empty store — and, step-wise, from
   every state satisfying the invariant. *)
From Coq Require Import ZArith NArith List Bool.
From JK Require Import Base.AList Model.StorageFiles Proofs.StorageFilesProofs Corr.C17 Proofs.StorageFilesInvB.
Import ListNotations.
Open Scope Z_scope.

(* The invariant [Inv] (Proofs/StorageFilesProofs.v): both indexes have duplicate-free keys and
   answer every lookup identically; every entry sits under the key built from its own fields;
   every stored file's prover list is duplicate-free, no longer than max(MaxProofs,0), and every
   listed key belongs to that file and has a proof record whose fields rebuild the key. *)

Theorem C17_inv_init : Inv init.
Proof. exact inv_init. Qed.
Print Assumptions C17_inv_init.

Theorem C17_inv_step : forall s o, Inv s -> Inv (step s o).
Proof. exact inv_step. Qed.
Print Assumptions C17_inv_step.

Theorem C17_inv_all_histories : forall ops s, Inv s -> Inv (run s ops).
Proof. exact inv_run. Qed.
Print Assumptions C17_inv_all_histories.

(* The correspondence (Corr/C17.v, c17_ok) evaluates the boolean [inv_b] on the pre- and the
   post-state of every observed step of the real app.  It is sound for [Inv]: every observed
   state on which it answered true is a state the step-wise theorems above (and those of C01)
   speak about. *)
Theorem C17_observed_states_satisfy_the_invariant : forall s, inv_b s = true -> Inv s.
Proof. exact inv_b_sound. Qed.
Print Assumptions C17_observed_states_satisfy_the_invariant.

Theorem C17_accepted_steps_start_and_end_in_the_invariant :
  forall pre o out_seen succ post paid,
  c17_ok (Step pre o out_seen succ post paid) = true -> Inv (state_of pre) /\ Inv (state_of post).
Proof. exact c17_ok_states_inv. Qed.
Print Assumptions C17_accepted_steps_start_and_end_in_the_invariant.

(* the property, spelled out on every reachable state *)

(* every file is found by either route, with identical contents *)
Theorem C17_indexes_answer_identically :
  forall ops m o st, get_file (run init ops) (m, o, st) = get2 (run init ops) (o, m, st).
Proof. intros ops. exact (inv_idx _ (inv_history ops)). Qed.
Print Assumptions C17_indexes_answer_identically.

(* the two listings hold exactly the same files, none of them twice *)
Theorem C17_listings_hold_the_same_files :
  forall ops, let s := run init ops in
    (forall f, In f (map snd (files1 s)) <-> In f (map snd (files2 s))) /\
    NoDup (map fst (files1 s)) /\ NoDup (map fst (files2 s)).
Proof.
  intros ops s. exact (conj (same_listing s (inv_history ops))
                            (conj (inv_nd1 s (inv_history ops)) (inv_nd2 s (inv_history ops)))).
Qed.
Print Assumptions C17_listings_hold_the_same_files.

(* no duplicates, never beyond the replication limit *)
Theorem C17_prover_list_bounded_and_duplicate_free :
  forall ops k f, get_file (run init ops) k = Some f ->
    NoDup (f_proofs f) /\ Z.of_nat (length (f_proofs f)) <= Z.max (f_max f) 0.
Proof.
  intros ops k f G. exact (conj (proj1 (inv_file _ (inv_history ops) k f G))
                                (proj1 (proj2 (inv_file _ (inv_history ops) k f G)))).
Qed.
Print Assumptions C17_prover_list_bounded_and_duplicate_free.

(* every listed prover has a retrievable proof record that refers back to that file *)
Theorem C17_listed_prover_has_record_of_this_file :
  forall ops k f x, get_file (run init ops) k = Some f -> In x (f_proofs f) ->
    x = mk_pkey f (pk_prover x) /\ exists r, get_proof (run init ops) x = Some r /\ pk_of r = x.
Proof. intros ops k f x. exact (listed_has_record _ k f x (inv_history ops)). Qed.
Print Assumptions C17_listed_prover_has_record_of_this_file.

(* non-vacuity: a history with two files of the same content, three provers, a re-post, a report
   that removes a prover and a reward block that drops a stale prover reaches a state with
   non-empty prover lists on which the statements above speak *)
Definition c17_demo : list op := [
  InitProvider 10 true; InitProvider 11 true;
  PostFile 1 100 5 0 4096 2 10 0 7 true;
  PostFile 2 100 5 0 4096 3 10 0 7 true;
  PostProof 10 100 1 5 6 0 true 3 1024;
  PostProof 11 100 1 5 6 0 true 1 1024;
  PostProof 12 100 1 5 6 0 true 1 1024;        (* full: refused *)
  PostProof 10 100 2 5 7 0 true 2 1024;
  PostProof 11 100 2 5 7 0 false 2 1024;       (* does not verify: refused *)
  ReqReport 11 100 1 5 (Some [20; 21]%N);
  Report 20 11 100 1 5 1;                        (* quorum of one: prover 11 is removed *)
  RewardBlock 100 100 ]%N.

Definition c17_view (s : sstate) := (map (fun kf => (fst kf, f_proofs (snd kf))) (files1 s), map fst (proofs s), burns s).
Example C17_demo_states :
  c17_view (run init (firstn 11 c17_demo)) =
    ([((100%N, 1%N, 5), [(10%N, 1%N, 100%N, 5)]); ((100%N, 2%N, 5), [(10%N, 2%N, 100%N, 5)])],
     [(10%N, 1%N, 100%N, 5); (10%N, 2%N, 100%N, 5)], [(10%N, 0); (11%N, 0)]) /\
  c17_view (run init c17_demo) =
    ([((100%N, 1%N, 5), []); ((100%N, 2%N, 5), [])], [], [(10%N, 2); (11%N, 0)]).
Proof. vm_compute. split; reflexivity. Qed.

(* non-vacuity of C17_observed_states_satisfy_the_invariant: the boolean answers true on the
   states the demo history reaches (non-empty indexes, prover lists and proof records), and
   false on a state whose by-owner index lost an entry *)
Example C17_demo_inv_b :
  inv_b (run init (firstn 11 c17_demo)) = true /\ inv_b (run init c17_demo) = true /\
  inv_b (with_files (run init (firstn 11 c17_demo)) (files1 (run init (firstn 11 c17_demo))) []) = false.
Proof. vm_compute. repeat split. Qed.

(* ---------------------------------------------------------------------------------------------
   Tie to the code by translation + proof: the PostProof handler (with Prove / SetProven / ResetChunkWithProof) and
   the reward block's per-prover step are GENERATED on every run from /repo's current Go source
   (translator/gen_gofuncs.go -> Gen/GoWindows.v); the model of these theorems follows the generated code. *)
From Coq Require Import String.
From JK Require Import Base.Dec Base.GoSem Gen.GoWindows Proofs.GoTieWindows Proofs.GoTiePostProof.

(* a prover is added to a file's list only by a PostProof that found room (fewer listed keys than seats), named the
   newcomer's challenge and verified; the generated handler and the model agree on exactly when *)
Theorem C17_code_tie_PostProof :
  forall found nproofs maxp getprover_ok listed to_prove challenge start pi h last size chunk draw verified,
    small h -> small start -> int64_min < size <= int64_max ->
    gen_PostProof found nproofs maxp getprover_ok listed to_prove challenge start pi h last size chunk draw verified
    = postproof_spec found nproofs maxp getprover_ok listed to_prove challenge pi h size chunk draw verified.
Proof. exact gen_PostProof_spec. Qed.
Print Assumptions C17_code_tie_PostProof.

Theorem C17_code_tie_model_post_proof_follows :
  forall s creator merkle owner start height to_prove verified new_chunk chunk_size size draw,
    let fo := get_file s (merkle, owner, start) in
    let nproofs := match fo with Some f => len f | None => 0 end in
    let maxp := match fo with Some f => f_max f | None => 0 end in
    let gp := match fo with Some f => get_prover s f creator | None => None end in
    let listed := match fo with Some f => contains_prover f creator | None => false end in
    let pi := match fo with Some f => f_interval f | None => 0 end in
    let chal := if (nproofs =? maxp) || listed then match gp with Some p => p_chunk p | None => 0 end else 0 in
    let model := post_proof s creator merkle owner start height to_prove verified new_chunk chunk_size in
    model = pp_verdict s (postproof_spec (GoTiePostProof.is_some fo) nproofs maxp (GoTiePostProof.is_some gp) listed to_prove chal pi height size chunk_size draw verified) model.
Proof. exact storagefiles_post_proof_follows. Qed.
Print Assumptions C17_code_tie_model_post_proof_follows.
