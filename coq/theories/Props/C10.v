(* C10 — file-tree entries change only by their owner or, for posts, the folder's editors.

   Quantification: every hash function H, every JSON parser [parse] and renderer [render]
   (Go's encoding/json in the implementation), every history of provision / post / delete /
   change-owner / add / remove / reset viewers+editors messages with arbitrary byte strings in
   every field (slashes, empty strings, hex look-alikes included), starting from the empty tree.
   [Inv], [permitted], [effect], [authorised], [trace], [step_ok], [frame], [named_entry] are
   defined in Proofs/FiletreeProofs.v; the model of the handlers in Model/Filetree.v.

   Hash-dependent statements are reductions: they conclude with the claim or with two explicit,
   distinct strings having the same hash ([collide]). *)
From Coq Require Import NArith List Bool.
From JK Require Import Base.Bytes Base.AList Hash.Sha256 Model.Paths Model.Filetree Proofs.FiletreeProofs.
Import ListNotations.
Open Scope N_scope.

(* the invariant holds initially and after every history *)
Theorem C10_invariant_all_histories :
  forall H parse render ms, Inv H (run_all H parse render ms []).
Proof. intros H parse render ms. exact (Inv_run_all H parse render ms [] (Inv_nil H)). Qed.
Print Assumptions C10_invariant_all_histories.

(* stored_keys_wellformed: after every history every stored entry sits under the raw key
   Address/Owner/ and both are 64 lower-case hex characters (H produces 32 bytes) *)
Theorem C10_stored_keys_wellformed :
  forall H parse render, hash_ok H -> forall ms k f,
    In (k, f) (run_all H parse render ms []) ->
    k = files_key (f_addr f) (f_owner f) /\ hex64 (f_addr f) /\ hex64 (f_owner f).
Proof.
  intros H parse render HK ms k f.
  exact (stored_wellformed H _ k f HK (Inv_run_all H parse render ms [] (Inv_nil H))).
Qed.
Print Assumptions C10_stored_keys_wellformed.

(* key_aliasing_impossible, strings: ANY probe strings (a', o'), slashes included, give the
   store key of a slash-free pair (a, o) only if a' = a and o' = o *)
Theorem C10_key_aliasing_impossible :
  forall a o a' o', has_slash a = false -> has_slash o = false ->
    files_key a' o' = files_key a o -> a' = a /\ o' = o.
Proof. exact files_key_inj. Qed.
Print Assumptions C10_key_aliasing_impossible.

(* key_aliasing_impossible, store: after every history a lookup with ANY two strings returns
   an entry only if they are exactly that entry's address and owner *)
Theorem C10_lookup_hits_only_named_entry :
  forall H parse render ms a' o' f,
    get_file (run_all H parse render ms []) a' o' = Some f -> f_addr f = a' /\ f_owner f = o'.
Proof.
  intros H parse render ms a' o' f.
  exact (lookup_hits_only_named H _ a' o' f (Inv_run_all H parse render ms [] (Inv_nil H))).
Qed.
Print Assumptions C10_lookup_hits_only_named_entry.

(* the master statement: in every history every message either leaves the tree unchanged and
   is not Ok, or is Ok and has exactly the effect [effect] allows for its kind: the named entry
   exists under exactly the named address and owner, the signer is its owner by hashed identity
   (for posts: has edit access to the named parent), only the named key(s) change, the new value
   is the old one changed in the named field at the named ids *)
Theorem C10_every_step_permitted :
  forall H parse render ms, Forall (step_ok H parse render) (trace H parse render [] ms).
Proof. intros H parse render ms. exact (trace_ok H parse render ms [] (Inv_nil H)). Qed.
Print Assumptions C10_every_step_permitted.

(* mutation_requires_owner: delete / change-owner / add / remove / reset change the tree only
   when the named entry exists and the signer hashes to its owner; then [effect] holds *)
Theorem C10_mutation_requires_owner :
  forall H parse render s cv o s' out a ow,
    Inv H s -> op_target H o = Some (a, ow) -> run H parse render s cv o = (s', out) -> s' <> s ->
    out = Ok /\
    (exists f, named_entry s a ow f /\ is_owner H f (op_creator o) = true) /\
    effect H parse render s o s'.
Proof. exact mutation_requires_owner. Qed.
Print Assumptions C10_mutation_requires_owner.

(* ... and alter nothing but the named entry (every message kind) *)
Theorem C10_only_named_keys_change :
  forall H parse render s cv o s' out,
    Inv H s -> run H parse render s cv o = (s', out) -> frame s s' (op_touched H o).
Proof. exact only_named_keys_change. Qed.
Print Assumptions C10_only_named_keys_change.

(* the named ids: what an accepted add / remove / reset does to the named access list *)
Theorem C10_acl_messages_change_exactly_named_ids :
  forall H parse render s cv s' k c ids keys a fo,
    Inv H s ->
    (run H parse render s cv (AddAcl k c ids keys a fo) = (s', Ok) ->
     exists f m m', named_entry s a fo f /\ is_owner H f c = true /\ parse (acl_of k f) = PMap m /\
       sget s' (files_key a fo) = Some (with_acl k f (render m')) /\ frame s s' [files_key a fo] /\
       (forall id, ~ In id (split_comma ids) -> oget m' id = oget m id) /\
       (forall id, In id (split_comma ids) -> exists i key,
           nth_error (split_comma ids) i = Some id /\ nth_error (split_comma keys) i = Some key /\
           oget m' id = Some key)) /\
    (run H parse render s cv (RemoveAcl k c ids a fo) = (s', Ok) ->
     exists f m m', named_entry s a fo f /\ is_owner H f c = true /\ parse (acl_of k f) = PMap m /\
       sget s' (files_key a fo) = Some (with_acl k f (render m')) /\ frame s s' [files_key a fo] /\
       (forall id, ~ In id (split_comma ids) -> oget m' id = oget m id) /\
       (forall id, In id (split_comma ids) -> oget m' id = None)) /\
    (run H parse render s cv (ResetAcl k c a fo) = (s', Ok) ->
     exists f m, named_entry s a fo f /\ is_owner H f c = true /\ parse (acl_of k f) = PMap m /\
       let mine := acl_addr H k (f_track f) c in
       let key := match oget m mine with Some v => v | None => [] end in
       sget s' (files_key a fo) = Some (with_acl k f (render (Some [(mine, key)]))) /\
       frame s s' [files_key a fo]).
Proof. exact acl_messages_exact. Qed.
Print Assumptions C10_acl_messages_change_exactly_named_ids.

(* "the signer is the owner" is a statement about hashed identities: whichever account string
   explains the stored owner field, an accepted signer hashes to it; two accepted signers are
   the same string -- or explicit distinct strings collide under H *)
Theorem C10_owner_is_hashed_identity :
  forall H f c acct, is_owner H f c = true -> f_owner f = make_owner H (f_addr f) acct ->
    hexH H c = acct \/ collide H (111 :: f_addr f ++ hexH H c) (111 :: f_addr f ++ acct).
Proof. exact owner_account_unique. Qed.
Print Assumptions C10_owner_is_hashed_identity.

Theorem C10_owner_signer_unique :
  forall H f c1 c2, is_owner H f c1 = true -> is_owner H f c2 = true ->
    c1 = c2 \/ collide H c1 c2 \/
    collide H (111 :: f_addr f ++ hexH H c1) (111 :: f_addr f ++ hexH H c2).
Proof. exact owner_signer_unique. Qed.
Print Assumptions C10_owner_signer_unique.

(* post_requires_edit_access_and_keeps_account *)
Theorem C10_post_requires_edit_access_and_keeps_account :
  forall H parse render s cv c acct hp hc ct v e t s' out,
    Inv H s -> run H parse render s cv (Post c acct hp hc ct v e t) = (s', out) ->
    (s' = s /\ out <> Ok) \/
    (out = Ok /\
     exists pf m, named_entry s hp (make_owner H hp acct) pf /\
       parse (f_edit pf) = PMap m /\ oget m (make_editor H (f_track pf) c) <> None /\
       let a' := add_to_merkle H hp hc in
       let o' := make_owner H a' acct in
       sget s' (files_key a' o') = Some (mkFile a' ct o' v e t) /\ frame s s' [files_key a' o']).
Proof. intros H parse render s cv c acct hp hc ct v e t s' out. exact (step_permitted H parse render s cv _ s' out). Qed.
Print Assumptions C10_post_requires_edit_access_and_keeps_account.

(* the posted entry is owned by the folder's account: signers accepted as owner of the folder
   and of the new entry coincide (or explicit strings collide) *)
Theorem C10_posted_entry_owned_by_folder_owner :
  forall H acct pf f' c1 c2,
    f_owner pf = make_owner H (f_addr pf) acct -> f_owner f' = make_owner H (f_addr f') acct ->
    is_owner H pf c1 = true -> is_owner H f' c2 = true ->
    c1 = c2 \/ collide H c1 c2 \/
    collide H (111 :: f_addr pf ++ hexH H c1) (111 :: f_addr pf ++ acct) \/
    collide H (111 :: f_addr f' ++ hexH H c2) (111 :: f_addr f' ++ acct).
Proof. exact posted_entry_same_owner. Qed.
Print Assumptions C10_posted_entry_owned_by_folder_owner.

(* make_root_writes_only_own_root *)
Theorem C10_make_root_writes_only_own_root :
  forall H parse render s cv c v e t s' out,
    Inv H s -> run H parse render s cv (Provision c v e t) = (s', out) ->
    (s' = s /\ out <> Ok) \/
    (out = Ok /\
     let own := make_owner H (root_path H) (hexH H c) in
     let f' := mkFile (root_path H) [] own v e t in
     sget s' (files_key (root_path H) own) = Some f' /\ is_owner H f' c = true /\
     frame s s' [files_key (root_path H) own]).
Proof. intros H parse render s cv c v e t s' out. exact (step_permitted H parse render s cv _ s' out). Qed.
Print Assumptions C10_make_root_writes_only_own_root.

(* unauthorised_is_noop: a signer lacking the right gets Fail and the tree is unchanged; any
   message that does not end Ok (failure or the index panic) leaves the tree unchanged *)
Theorem C10_unauthorised_is_noop :
  forall H parse render s cv o, ~ authorised H parse s o -> run H parse render s cv o = (s, Fail).
Proof. exact unauthorised_noop. Qed.
Print Assumptions C10_unauthorised_is_noop.

Theorem C10_failed_message_is_noop :
  forall H parse render s cv o, Inv H s ->
    snd (run H parse render s cv o) <> Ok -> fst (run H parse render s cv o) = s.
Proof. exact failure_noop. Qed.
Print Assumptions C10_failed_message_is_noop.

Theorem C10_unauthorised_is_noop_all_histories :
  forall H parse render ms,
    Forall (fun t => let '(s0, o, s1, out) := t in ~ authorised H parse s0 o -> s1 = s0 /\ out = Fail)
           (trace H parse render [] ms).
Proof. intros H parse render ms. exact (trace_unauthorised H parse render ms [] (Inv_nil H)). Qed.
Print Assumptions C10_unauthorised_is_noop_all_histories.

(* ---------- non-vacuity: the hypotheses are met by the real hash and a non-trivial tree ---------- *)

(* the executable SHA-256 satisfies the hypothesis on H *)
Example C10_sha256_is_a_valid_hash : hash_ok sha256.
Proof. exact sha256_hash_ok. Qed.

Module Ex.
  Definition alice : bytes := [106;107;108;49;97;108;105;99;101].   (* "jkl1alice" *)
  Definition bob : bytes := [106;107;108;49;98;111;98].             (* "jkl1bob" *)
  Definition tn : bytes := [116].                                   (* "t" *)
  Definition empty_map : bytes := [123;125].                        (* "{}" *)
  Definition editors : acl := [(make_editor sha256 tn alice, [107]); (make_editor sha256 tn bob, [107])].
  Definition editors_s : bytes := json_render editors.
  (* a parser that knows the two access strings of the example *)
  Definition parse (s : bytes) : parsed :=
    if beqb s editors_s then PMap (Some (sort_acl editors))
    else if beqb s empty_map then PMap (Some []) else PErr.
  Definition acct : bytes := hexH sha256 alice.
  Definition child : bytes := hexH sha256 [102].                    (* "f" *)
  Definition history : list (bool * op) :=
    [ (true, Provision alice empty_map editors_s tn);
      (true, Post bob acct (root_path sha256) child [99] empty_map empty_map tn) ].   (* bob is an editor *)
  Definition tree : store := run_all sha256 parse json_render_opt history [].
  Definition posted : bytes := add_to_merkle sha256 (root_path sha256) child.
End Ex.

(* a tree with a root and a file posted by an editor satisfies the invariant; on it the owner's
   delete / change of owner / access-list messages are accepted and change the tree, the same
   messages by the editor or with a crafted key fail, and the index panic is reachable *)
Example C10_hyps_met :
  Inv sha256 Ex.tree /\ length Ex.tree = 2%nat /\
  (let r := run sha256 Ex.parse json_render_opt Ex.tree true (Delete Ex.alice Ex.posted Ex.acct) in
   snd r = Ok /\ length (fst r) = 1%nat) /\
  (let r := run sha256 Ex.parse json_render_opt Ex.tree true (Delete Ex.bob Ex.posted Ex.acct) in
   snd r = Fail /\ length (fst r) = 2%nat) /\
  (let r := run sha256 Ex.parse json_render_opt Ex.tree true
              (ChangeOwner Ex.alice Ex.posted Ex.acct (hexH sha256 Ex.bob)) in
   snd r = Ok /\ get_file (fst r) Ex.posted (make_owner sha256 Ex.posted (hexH sha256 Ex.bob)) <> None) /\
  (let r := run sha256 Ex.parse json_render_opt Ex.tree true
              (RemoveAcl KEdit Ex.alice (make_editor sha256 Ex.tn Ex.bob)
                         (root_path sha256) (make_owner sha256 (root_path sha256) Ex.acct)) in
   snd r = Ok /\ fst r <> Ex.tree) /\
  (let r := run sha256 Ex.parse json_render_opt Ex.tree true
              (AddAcl KView Ex.alice [97;44;98] [107] Ex.posted (make_owner sha256 Ex.posted Ex.acct)) in
   snd r = Panic) /\
  (let r := run sha256 Ex.parse json_render_opt Ex.tree true
              (ResetAcl KEdit Ex.alice (Ex.posted ++ [47])
                        (make_owner sha256 Ex.posted Ex.acct)) in
   snd r = Fail) /\
  ~ authorised sha256 Ex.parse Ex.tree (Delete Ex.bob Ex.posted Ex.acct).
Proof.
  split; [exact (Inv_run_all sha256 Ex.parse json_render_opt Ex.history [] (Inv_nil sha256))|].
  split; [vm_compute; reflexivity|].
  split; [vm_compute; split; reflexivity|].
  split; [vm_compute; split; reflexivity|].
  split; [vm_compute; split; [reflexivity | discriminate]|].
  split; [vm_compute; split; [reflexivity | discriminate]|].
  split; [vm_compute; reflexivity|].
  split; [vm_compute; reflexivity|].
  intros [f [G O]]. vm_compute in G. injection G as <-. vm_compute in O. discriminate O.
Qed.

(* ---------------------------------------------------------------------------------------------
   Tie to the code by translation + proof: the functions below are GENERATED on every run from /repo's
   current Go source (translator/gen_gofuncs.go -> Gen/GoFiletree.v); the theorems say that the hand-written model the
   property theorems above are about computes what the generated function computes, for all arguments. *)
From Coq Require Import String.
From JK Require Import Base.GoSem Gen.GoFiletree Proofs.GoTieFiletree.

(* the nine filetree handlers, generated from the current source, in closed form: nothing is written before the entry
   was found and the ownership test (for a post: the folder's edit-access test) passed *)
Theorem C10_code_tie_handlers_write_only_after_their_tests :
  forall found own target pfound has_edit access_ok parse_ok marshal_ok,
    gen_DeleteFile found own = GVal (if found && own then ([Ev "remove-entry"%string []], true) else ([], false)) /\
    gen_ChangeOwner found own target
    = GVal (if found && own && negb target
            then ([Ev "owner-becomes-new-owner"%string []; Ev "set-entry"%string []; Ev "remove-old-entry"%string []], true) else ([], false)) /\
    gen_FtPostFile pfound has_edit access_ok
    = GVal (if pfound && access_ok && has_edit then ([Ev "set-entry-under-parent"%string []], true) else ([], false)) /\
    gen_AddViewers found own parse_ok marshal_ok = acl_spec "merge-ids-into-list" found own parse_ok marshal_ok /\
    gen_AddEditors found own parse_ok marshal_ok = acl_spec "merge-ids-into-list" found own parse_ok marshal_ok /\
    gen_RemoveViewers found own parse_ok marshal_ok = acl_spec "delete-ids-from-list" found own parse_ok marshal_ok /\
    gen_RemoveEditors found own parse_ok marshal_ok = acl_spec "delete-ids-from-list" found own parse_ok marshal_ok /\
    gen_ResetViewers found own parse_ok marshal_ok = acl_spec "list-becomes-the-signers-own-entry" found own parse_ok marshal_ok /\
    gen_ResetEditors found own parse_ok marshal_ok = acl_spec "list-becomes-the-signers-own-entry" found own parse_ok marshal_ok.
Proof.
  intros. split; [exact (gen_DeleteFile_spec found own)|]. split; [exact (gen_ChangeOwner_spec found own target)|].
  split; [exact (gen_FtPostFile_spec pfound has_edit access_ok)|]. exact (gen_acl_specs found own parse_ok marshal_ok).
Qed.
Print Assumptions C10_code_tie_handlers_write_only_after_their_tests.

(* and the model's handlers are the interpretations of those skeletons, for every hash function, JSON parser and
   JSON printer, on the reads taken from the model's store *)
Theorem C10_code_tie_model_delete_chown_post :
  forall (H : bytes -> bytes) (parse : bytes -> parsed) s creator a b c contents viewers editors track,
    (let owner := make_owner H a b in
     let f := get_file s a owner in
     delete_file H s creator a b
     = if ok_of (gen_DeleteFile (GoTieFiletree.is_some f) (match f with Some x => is_owner H x creator | None => false end))
       then (remove_file s a owner, Ok) else (s, Fail)) /\
    (let current := make_owner H a b in
     let newo := make_owner H a c in
     let f := get_file s a current in
     change_owner H s creator a b c
     = if ok_of (gen_ChangeOwner (GoTieFiletree.is_some f) (match f with Some x => is_owner H x creator | None => false end)
                                 (GoTieFiletree.is_some (get_file s a newo)))
       then match f with Some x => (remove_file (set_file s (with_owner x newo)) a current, Ok) | None => (s, Fail) end
       else (s, Fail)) /\
    (let parent := get_file s b (make_owner H b a) in
     let acc := match parent with Some p => has_access H parse KEdit p creator | None => None end in
     post_file H parse s creator a b c contents viewers editors track
     = if ok_of (gen_FtPostFile (GoTieFiletree.is_some parent) (match acc with Some x => x | None => false end) (GoTieFiletree.is_some acc))
       then let full := add_to_merkle H b c in
            (set_file s (mkFile full contents (make_owner H full a) viewers editors track), Ok)
       else (s, Fail)).
Proof.
  intros H parse s creator a b c contents viewers editors track.
  exact (conj (delete_file_is_the_interpretation H s creator a b)
        (conj (change_owner_is_the_interpretation H s creator a b c)
              (post_file_is_the_interpretation H parse s creator a b c contents viewers editors track))).
Qed.
Print Assumptions C10_code_tie_model_delete_chown_post.

Theorem C10_code_tie_model_access_lists :
  forall (H : bytes -> bytes) (parse : bytes -> parsed) (render : option acl -> bytes) k s creator ids keys address fileowner,
    let f := get_file s address fileowner in
    let own := match f with Some x => is_owner H x creator | None => false end in
    let pok := match f with Some x => match parse (acl_of k x) with PMap _ => true | PErr => false end | None => false end in
    let go := ok_of (acl_spec "x" (GoTieFiletree.is_some f) own pok true) in
    (go = false -> add_acl H parse render k s creator ids keys address fileowner = (s, Fail) /\
                   remove_acl H parse render k s creator ids address fileowner = (s, Fail) /\
                   reset_acl H parse render k s creator address fileowner = (s, Fail)) /\
    (go = true -> exists x m, f = Some x /\ parse (acl_of k x) = PMap m /\ is_owner H x creator = true /\
       remove_acl H parse render k s creator ids address fileowner
         = (set_file s (with_acl k x (render (del_all_opt m (split_comma ids)))), Ok) /\
       reset_acl H parse render k s creator address fileowner
         = (set_file s (with_acl k x (render (Some (reset_map H k x creator m)))), Ok) /\
       add_acl H parse render k s creator ids keys address fileowner
         = match add_all_opt m (split_comma ids) (split_comma keys) with
           | None => (s, Panic)
           | Some m' => (set_file s (with_acl k x (render m')), Ok)
           end).
Proof. exact acl_handlers_follow_the_skeleton. Qed.
Print Assumptions C10_code_tie_model_access_lists.
