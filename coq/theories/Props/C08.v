(* C08 — a live name changes owner only with its current owner's consent, who is paid.
   Quantification: every history (list of operations: all thirteen RNS messages by any signers in
   any spelling on any names with any parse results, and block-height changes in any direction),
   from EVERY state (no reachability or invariant assumption is needed for the first and third
   theorem), every step of the history, every name that is live before the step
   (live s k r: record r stored under k and height < Expires: the reading under which Register and
   Init may take a lapsed name over).  Owners are compared as accounts, whatever their spelling.
   trace s0 ops lists (state before, operation, state after) for every step of the history. *)
From Coq Require Import ZArith NArith List Bool Lia.
From JK Require Import Base.AList Model.Rns Proofs.RnsProofs.
Import ListNotations.
Open Scope Z_scope.

(* If a live name has another owner (or none) after a step, the step is a Transfer or AcceptBid signed
   by the previous owner's account for that name, or a Buy of that name through a listing whose
   recorded creator is the previous owner's account. *)
Theorem C08_owner_change_requires_consent :
  forall s0 ops, Forall (holds_on consent_prop) (trace s0 ops).
Proof. exact owner_change_requires_consent. Qed.
Print Assumptions C08_owner_change_requires_consent.

(* Whenever the owner of a live name changes through Buy, the previous owner's balance rises by exactly
   the listed price (and the buyer's falls by it); through AcceptBid, by exactly the accepted bid.
   Assumption wf_op: the module account never signs (it has no key). *)
Theorem C08_payment_reaches_previous_owner :
  forall s0 ops, Forall wf_op ops -> Forall (holds_on payment_prop) (trace s0 ops).
Proof. exact payment_reaches_previous_owner. Qed.
Print Assumptions C08_payment_reaches_previous_owner.

(* A message signed by any account other than the owner of a live name — a previous owner, the holder
   of a stale listing, anyone — leaves that name's record (owner, data, records, expiry, lock) exactly as
   it was and, if it is about that name, leaves the whole listings table as it was; the only exception
   is the purchase through a listing created by the owner. *)
Theorem C08_foreign_messages_change_nothing :
  forall s0 ops, Forall (holds_on foreign_prop) (trace s0 ops).
Proof. exact foreign_messages_change_nothing. Qed.
Print Assumptions C08_foreign_messages_change_nothing.

(* The repaired defect stated directly: a listing whose creator is not the current owner never sells. *)
Theorem C08_stale_listing_cannot_sell :
  forall s vb sg n k sl w,
    nm_key n = Some k -> get_sale s (nm_full n) = Some sl -> get_name s k = Some w ->
    n_value w <> f_owner sl -> handle s (Buy vb sg n) = None.
Proof. exact stale_listing_cannot_sell. Qed.
Print Assumptions C08_stale_listing_cannot_sell.

(* ---- non-vacuity: concrete histories of the model (the same ones the harness replays on the app) *)

(* A registers, lists for 777, transfers to B: the name is live and owned by B, the listing is still there,
   and C's purchase is refused *)
Example C08_stale_listing_history :
  let s := run [ex_reg ex_A; ListName true ex_A ex_n1 (Some (ujkl, 777)); Transfer true ex_A ex_n1 ex_B]
               (genesis ex_bank 2) in
  (exists r, live s 1%N r /\ n_value r = ex_B) /\
  (exists sl, get_sale s 1%N = Some sl /\ f_owner sl = ex_A) /\
  handle s (Buy true ex_C ex_n1) = None.
Proof.
  vm_compute. split; [|split].
  - eexists. split; [split; reflexivity | reflexivity].
  - eexists. split; reflexivity.
  - reflexivity.
Qed.

(* B lists the name it owns and C buys: the owner changes with consent and B receives exactly 777 *)
Example C08_purchase_pays_owner :
  let s := run [ex_reg ex_A; Transfer true ex_A ex_n1 ex_B; ListName true ex_B ex_n1 (Some (ujkl, 777))]
               (genesis ex_bank 2) in
  let s' := next s (Buy true ex_C ex_n1) in
  (exists r, live s 1%N r /\ owner_acct r = 3%N) /\
  (exists r', get_name s' 1%N = Some r' /\ owner_acct r' = 4%N) /\
  bal (bank_of s') 3%N ujkl = bal (bank_of s) 3%N ujkl + 777 /\
  bal (bank_of s') 4%N ujkl = bal (bank_of s) 4%N ujkl - 777 /\
  bal (bank_of s') rns_mod ujkl = 0.
Proof.
  vm_compute. split; [|split; [|split; [|split]]]; try reflexivity.
  - eexists. split; [split; reflexivity | reflexivity].
  - eexists. split; reflexivity.
Qed.

Example C08_example_ops_wellformed :
  Forall wf_op [ex_reg ex_A; Transfer true ex_A ex_n1 ex_B; ListName true ex_B ex_n1 (Some (ujkl, 777)); Buy true ex_C ex_n1].
Proof. repeat constructor; cbn; discriminate. Qed.

(* ---------------------------------------------------------------------------------------------
   Tie to the code by translation + proof: the functions below are GENERATED on every run from /repo's
   current Go source (translator/gen_gofuncs.go -> Gen/GoRnsOwn.v); the theorems say that the hand-written model the
   property theorems above are about computes what the generated function computes, for all arguments. *)
From Coq Require Import String.
From JK Require Import Base.GoSem Gen.GoRnsOwn Proofs.GoTieRnsOwn.

(* the three handlers that change a name's owner, generated from the current source: every refusal comes before the
   first effect; a purchase needs a listing, a live name that is not the buyer's and whose holder is the listing's
   creator, and pays that creator the listed price; accepting a bid and transferring need the live name's holder as
   signer.  The model's step is the interpretation of the generated handler on the reads taken from its state *)
Theorem C08_code_tie_BuyName :
  forall s (sg : addr) n,
    let sl := get_sale s (nm_full n) in
    let w := the_name s n in
    let price := match sl with Some x => f_price x | None => None end in
    let cs := match price with Some p => new_coins p | None => [] end in
    let b1 := send (bank_of s) (fst sg) rns_mod cs in
    let b2 := match b1, sl with Some b, Some x => send b rns_mod (fst (f_owner x)) cs | _, _ => None end in
    do_buy s sg n
    = if ok_of (gen_BuyName true (GoTieRnsOwn.is_some sl) (GoTieRnsOwn.is_some (nm_key n)) (GoTieRnsOwn.is_some w) (height s)
                  (match w with Some r => n_expires r | None => 0 end)
                  (match w with Some r => addr_eqb (n_value r) sg | None => false end)
                  (match w, sl with Some r, Some x => negb (addr_eqb (n_value r) (f_owner x)) | _, _ => false end)
                  (GoTieRnsOwn.is_some price) (GoTieRnsOwn.is_some b1) (GoTieRnsOwn.is_some b2))
      then match b2, nm_key n, w with
           | Some b, Some k, Some r =>
               Some (set_names (set_forsale (set_bank s b) (adel N.eqb (forsale s) (nm_full n)))
                               (aset N.eqb (names s) k (with_owner_reset r sg)))
           | _, _, _ => None
           end
      else None.
Proof. exact do_buy_is_the_interpretation. Qed.
Print Assumptions C08_code_tie_BuyName.

Theorem C08_code_tie_AcceptOneBid_and_TransferName :
  forall s (sg : addr) n (other : addr),
    (let w := the_name s n in
     let idx := (other, nm_full n) in
     let bd := get_bid s idx in
     let b1 := match bd with Some x => send (bank_of s) rns_mod (fst sg) (b_price x) | None => None end in
     do_accept s sg n other
     = if ok_of (gen_AcceptOneBid true (GoTieRnsOwn.is_some (nm_key n)) (GoTieRnsOwn.is_some w) (height s)
                   (match w with Some r => n_expires r | None => 0 end)
                   (match w with Some r => negb (addr_eqb (n_value r) (canon sg)) | None => false end)
                   (match w with Some r => n_locked r | None => 0 end)
                   (GoTieRnsOwn.is_some bd) true (GoTieRnsOwn.is_some b1))
       then match b1, nm_key n, w, bd with
            | Some b, Some k, Some r, Some x =>
                Some (set_names (set_bids (set_bank s b) (adel bidkey_eqb (bids s) idx))
                                (aset N.eqb (names s) k (with_owner_reset r (b_bidder x))))
            | _, _, _, _ => None
            end
       else None) /\
    (let w := the_name s n in
     do_transfer s sg n other
     = if ok_of (gen_TransferName true (GoTieRnsOwn.is_some (nm_key n)) (GoTieRnsOwn.is_some w) (height s)
                   (match w with Some r => n_expires r | None => 0 end)
                   (match w with Some r => negb (addr_eqb (n_value r) (canon sg)) | None => false end)
                   (match w with Some r => n_locked r | None => 0 end))
       then match nm_key n, w with
            | Some k, Some r => Some (set_names s (aset N.eqb (names s) k (with_owner_reset r other)))
            | _, _ => None
            end
       else None).
Proof. intros s sg n other. exact (conj (do_accept_is_the_interpretation s sg n other) (do_transfer_is_the_interpretation s sg n other)). Qed.
Print Assumptions C08_code_tie_AcceptOneBid_and_TransferName.


(* listing needs the live, unlocked name's holder as signer and no listing yet; a listing is withdrawn only by its
   creator while that creator still holds the name (the same stale-listing test a purchase makes) *)
Theorem C08_code_tie_List_and_Delist :
  forall s (sg : addr) n price,
    (let w := the_name s n in
     do_list s sg n price
     = if ok_of (gen_List (GoTieRnsOwn.is_some (get_sale s (nm_full n))) (GoTieRnsOwn.is_some (nm_key n)) (GoTieRnsOwn.is_some w)
                   (match w with Some r => negb (addr_eqb (n_value r) sg) | None => false end) (height s)
                   (match w with Some r => n_locked r | None => 0 end) (match w with Some r => n_expires r | None => 0 end))
       then Some (set_forsale s (aset N.eqb (forsale s) (nm_full n) {| f_price := price; f_owner := sg |}))
       else None) /\
    (let sl := get_sale s (nm_full n) in
     let w := the_name s n in
     do_delist s sg n
     = if ok_of (gen_Delist (GoTieRnsOwn.is_some sl) (GoTieRnsOwn.is_some (nm_key n)) (GoTieRnsOwn.is_some w)
                   (match sl with Some x => negb (addr_eqb (f_owner x) sg) | None => false end)
                   (match w, sl with Some r, Some x => negb (addr_eqb (n_value r) (f_owner x)) | _, _ => false end))
       then Some (set_forsale s (adel N.eqb (forsale s) (nm_full n)))
       else None).
Proof. intros s sg n price. exact (conj (do_list_is_the_interpretation s sg n price) (do_delist_is_the_interpretation s sg n)). Qed.
Print Assumptions C08_code_tie_List_and_Delist.


(* a name's data and its records change only through UpdateName / AddRecord / DelRecord signed by the holder of the
   live name (generated from the current source): every refusal comes before the one write *)
Theorem C08_code_tie_Update_and_records :
  forall s (sg : addr) n data rec_raw rec_lower value value_has_dot sub,
    (let w := the_name s n in
     do_update s sg n data
     = if ok_of (gen_UpdateName (GoTieRnsOwn.is_some (nm_key n)) (GoTieRnsOwn.is_some w) true
                   (match w with Some r => negb (addr_eqb (n_value r) (canon sg)) | None => false end)
                   (height s) (match w with Some r => n_expires r | None => 0 end))
       then match nm_key n, w with
            | Some k, Some r => Some (set_names s (aset N.eqb (names s) k (with_data r data)))
            | _, _ => None
            end
       else None) /\
    (let w := the_name s n in
     do_add_record s sg n rec_raw rec_lower value value_has_dot data
     = if ok_of (gen_AddRecord (GoTieRnsOwn.is_some (nm_key n)) (GoTieRnsOwn.is_some w) (height s) (match w with Some r => n_expires r | None => 0 end)
                   (match w with Some r => negb (addr_eqb sg (n_value r)) | None => false end) value_has_dot
                   (match w with Some r => existsb (fun sd => N.eqb (sr_name sd) rec_raw) (n_subs r) | None => false end))
       then match nm_key n, w with
            | Some k, Some r =>
                Some (set_names s (aset N.eqb (names s) k
                       (with_subs r (n_subs r ++ [{| sr_name := rec_lower; sr_value := value; sr_data := data; sr_expires := n_expires r |}]))))
            | _, _ => None
            end
       else None) /\
    (let w := match nm_key n, sub with Some _, Some (_, k) => get_name s k | _, _ => None end in
     do_del_record s sg n sub
     = if ok_of (gen_DelRecord (GoTieRnsOwn.is_some (nm_key n)) (GoTieRnsOwn.is_some sub) (GoTieRnsOwn.is_some w) (height s) (match w with Some r => n_expires r | None => 0 end)
                   (match w with Some r => negb (addr_eqb sg (n_value r)) | None => false end)
                   (match w, sub with Some r, Some (label, _) => existsb (fun sd => N.eqb (sr_name sd) label) (n_subs r) | _, _ => false end))
       then match sub, w with
            | Some (label, k), Some r =>
                Some (set_names s (aset N.eqb (names s) k (with_subs r (filter (fun sd => negb (N.eqb (sr_name sd) label)) (n_subs r)))))
            | _, _ => None
            end
       else None).
Proof.
  intros s sg n data rec_raw rec_lower value value_has_dot sub.
  exact (conj (do_update_is_the_interpretation s sg n data)
          (conj (do_add_record_is_the_interpretation s sg n rec_raw rec_lower value value_has_dot data)
                (do_del_record_is_the_interpretation s sg n sub))).
Qed.
Print Assumptions C08_code_tie_Update_and_records.
