(* C11 — every message is authenticated as its creator and touches only its own resources.

   First sentence (program text as a finite object): the table Gen/MsgTable.v is regenerated from
   the Go sources on every run (translator/gen_msgtable.go: every request type of every custom
   module's _Msg_serviceDesc and every type passed to RegisterImplementations for sdk.Msg); the
   theorem below is re-proved against it by computation over all rows.  No row count is asserted.
   The table is tied to the running app by the harness (InterfaceRegistry, MsgServiceRouter,
   GetSigners on instances with distinct addresses in every field; set equality both ways).

   Second sentence: frames of the handlers that manage an owner-stamped resource, on the models
   of Model/OwnResource.v, for all states, signers, messages, and lifted over all histories.
   Signers are (account, spelling) because msg.Creator is a string and bech32 has two spellings.
   (Provider-record frames belong to another work package.)  Signature verification itself is
   the SDK ante handler: trusted, and exercised by the harness with wrongly signed transactions. *)
From Coq Require Import ZArith NArith List String Bool.
From JK Require Import Base.AList.
From JK Require Import Base.Dec.
From JK Require Import Model.MsgTable.
From JK Require Import Gen.MsgTable.
From JK Require Import Proofs.MsgTableProofs.
From JK Require Import Model.SignBytes.
From JK Require Import Proofs.SignBytesProofs.
From JK Require Import Model.OwnResource.
From JK Require Import Proofs.OwnResourceProofs.
Import ListNotations.
Open Scope Z_scope.

(* ------------------------------------------------------------------ the message table *)
Theorem C11_every_msg_signed_by_creator_and_routable :
  Forall (fun r => m_signers r = SignerFields ["Creator"%string] /\ m_has_creator_field r = true /\
                   registered r /\ has_handler r /\ m_validate_checks_creator r = true) msg_table.
Proof. exact msg_table_wf. Qed.
Print Assumptions C11_every_msg_signed_by_creator_and_routable.

(* every type URL the running registry can resolve inside the table names a well-formed row
   (the harness shows the registry's URLs and the table's URLs are the same set) *)
Theorem C11_registered_url_is_well_formed :
  forall url r, find_row msg_table url = Some r ->
    m_url r = url /\ m_signers r = SignerFields ["Creator"%string] /\ registered r /\ has_handler r.
Proof. exact registered_url_is_well_formed_thm. Qed.
Print Assumptions C11_registered_url_is_well_formed.

(* a signature belongs to one message: whatever two different message types hold in their fields, the JSON values
   they contribute to the amino-JSON document an account signs are different (every type signs under an amino name,
   no two under the same: re-checked on the table generated from this run's sources), and the signed value
   determines every field *)
Theorem C11_signed_document_names_the_message_type :
  forall r1 r2 f1 f2, In r1 msg_table -> In r2 msg_table -> m_url r1 <> m_url r2 ->
    sign_doc (m_amino r1) f1 <> sign_doc (m_amino r2) f2.
Proof. exact sign_docs_of_different_types_differ_thm. Qed.
Print Assumptions C11_signed_document_names_the_message_type.

Theorem C11_signed_document_determines_the_fields :
  forall a f1 f2, sign_doc a f1 = sign_doc a f2 -> f1 = f2.
Proof. exact sign_doc_determines_fields. Qed.
Print Assumptions C11_signed_document_determines_the_fields.

(* the defect that was repaired: without a name two types with the same fields sign the same value *)
Example C11_bare_documents_collide :
  forall f, sign_doc None f = sign_doc None f /\
            sign_doc (Some "storage/Attest"%string) f <> sign_doc (Some "storage/Report"%string) f.
Proof. exact bare_sign_docs_collide. Qed.

Example C11_table_not_empty : msg_table <> [].
Proof. exact msg_table_nonempty. Qed.

(* ------------------------------------------------------------------ oracle feeds *)
(* an accepted UpdateFeed was signed with exactly the address string that created the feed;
   every other message leaves every feed of another owner exactly as it was; a rejected message
   changes nothing *)
Theorem C11_update_feed_only_by_feed_creator :
  forall st s name data now st',
    ostep st (OUpdate s name data now) = (st', Ok) ->
    (exists f, aget N.eqb st name = Some f /\ f_owner f = s) /\
    (forall n, n <> name -> aget N.eqb st' n = aget N.eqb st n).
Proof. exact update_feed_only_by_feed_creator_thm. Qed.
Print Assumptions C11_update_feed_only_by_feed_creator.

Theorem C11_feed_untouched_by_other_accounts :
  forall ops st name f,
    aget N.eqb st name = Some f ->
    Forall (fun op => acct (oop_signer op) <> acct (f_owner f)) ops ->
    aget N.eqb (orun st ops) name = Some f.
Proof. exact feed_untouched_by_other_accounts_thm. Qed.
Print Assumptions C11_feed_untouched_by_other_accounts.

Theorem C11_feed_owner_never_changes :
  forall ops st name f,
    aget N.eqb st name = Some f ->
    exists f', aget N.eqb (orun st ops) name = Some f' /\ f_owner f' = f_owner f.
Proof. exact feed_owner_never_changes_thm. Qed.
Print Assumptions C11_feed_owner_never_changes.

Theorem C11_created_feed_belongs_to_its_creator :
  forall st s name funds now st',
    ostep st (OCreate s name funds now) = (st', Ok) ->
    aget N.eqb st name = None /\
    aget N.eqb st' name = Some {| f_owner := s; f_data := 0%N; f_time := now |}.
Proof. exact ocreate_ok_owned. Qed.
Print Assumptions C11_created_feed_belongs_to_its_creator.

Theorem C11_oracle_rejected_message_changes_nothing :
  forall st op st', ostep st op = (st', Fail) -> st' = st.
Proof. exact ostep_fail_unchanged. Qed.
Print Assumptions C11_oracle_rejected_message_changes_nothing.

(* non-vacuity: 1 creates a feed; 2 (and 1 in the upper-case spelling) are refused; 1 updates *)
Example C11_oracle_example :
  let s1 := (1%N, false) in let s1u := (1%N, true) in let s2 := (2%N, false) in
  let ops := [OCreate s1 7%N true 10; OUpdate s2 7%N 5%N 11; OUpdate s1u 7%N 6%N 12; OCreate s2 7%N true 13] in
  orun [] ops = [(7%N, {| f_owner := s1; f_data := 0%N; f_time := 10 |})] /\
  orun [] (ops ++ [OUpdate s1 7%N 9%N 14]) = [(7%N, {| f_owner := s1; f_data := 9%N; f_time := 14 |})].
Proof. vm_compute. split; reflexivity. Qed.

(* ------------------------------------------------------------------ rns primary-name pointer *)
(* MakePrimary writes only the pointer stored under the signer's own address string *)
Theorem C11_make_primary_only_own_pointer :
  forall st s parsed k, k <> s ->
    aget sp_eqb (fst (pstep st (PMake s parsed))) k = aget sp_eqb st k.
Proof. exact make_primary_only_own_pointer_thm. Qed.
Print Assumptions C11_make_primary_only_own_pointer.

(* every RNS message (Register, Transfer, Buy, Bid, AcceptBid, ...) leaves the primary-name pointers of every
   other account alone: in particular a transfer signed by the sender never writes the receiver's pointer *)
Theorem C11_rns_messages_touch_only_own_primary_pointer :
  forall st op k, acct k <> acct (pop_signer op) ->
    aget sp_eqb (fst (pstep st op)) k = aget sp_eqb st k.
Proof. exact rns_messages_touch_only_own_primary_pointer_thm. Qed.
Print Assumptions C11_rns_messages_touch_only_own_primary_pointer.

Theorem C11_primary_pointers_untouched_by_other_accounts :
  forall ops st a,
    Forall (fun op => acct (pop_signer op) <> a) ops ->
    forall k, acct k = a -> aget sp_eqb (prun st ops) k = aget sp_eqb st k.
Proof. exact prun_frame_acct. Qed.
Print Assumptions C11_primary_pointers_untouched_by_other_accounts.

Example C11_primary_example :
  let st := [((1%N, false), 40%N); ((2%N, false), 41%N)] in
  prun st [PMake (2%N, false) (Some 40%N); PMake (2%N, true) (Some 42%N); PMake (3%N, false) None] =
  [((1%N, false), 40%N); ((2%N, false), 40%N); ((2%N, true), 42%N)].
Proof. vm_compute. reflexivity. Qed.

(* ------------------------------------------------------------------ storage DeleteFile *)
(* DeleteFile removes at most the file stored under (merkle, the signer's address string, start);
   every file under another key — in particular every file of another account, even with the
   same merkle root and start — is untouched; the space accounting of every other address is
   untouched (files are keyed by their own Owner field: an invariant of the store layout,
   preserved by the step and checked on every observed state) *)
Theorem C11_storage_delete_only_own_files :
  forall st s merkle start,
    (forall k, k <> (merkle, s, start) ->
       aget fkey_eqb (s_files (fst (sstep st (SDelete s merkle start)))) k = aget fkey_eqb (s_files st) k) /\
    (files_keyed_by_owner st -> forall a, a <> s ->
       aget sp_eqb (s_pay (fst (sstep st (SDelete s merkle start)))) a = aget sp_eqb (s_pay st) a) /\
    (files_keyed_by_owner st -> files_keyed_by_owner (fst (sstep st (SDelete s merkle start)))).
Proof. exact storage_delete_only_own_files_thm. Qed.
Print Assumptions C11_storage_delete_only_own_files.

Theorem C11_files_untouched_by_other_signers :
  forall ops st a,
    files_keyed_by_owner st -> Forall (fun op => sop_signer op <> a) ops ->
    (forall k, fkey_owner k = a -> aget fkey_eqb (s_files (srun st ops)) k = aget fkey_eqb (s_files st) k) /\
    aget sp_eqb (s_pay (srun st ops)) a = aget sp_eqb (s_pay st) a.
Proof. exact srun_frame. Qed.
Print Assumptions C11_files_untouched_by_other_signers.

(* only proof records listed in the deleted file itself disappear *)
Theorem C11_delete_keeps_foreign_proof_records :
  forall st s merkle start x,
    In x (s_proofs st) ->
    (forall f, aget fkey_eqb (s_files st) (merkle, s, start) = Some f -> ~ In x (sf_proofs f)) ->
    In x (s_proofs (fst (sstep st (SDelete s merkle start)))).
Proof. exact sstep_proofs_frame. Qed.
Print Assumptions C11_delete_keeps_foreign_proof_records.

Example C11_storage_example :
  let a := (1%N, false) in let b := (2%N, false) in
  let fa := {| sf_owner := a; sf_size := 100; sf_maxproofs := 3; sf_expires := 0; sf_proofs := [5%N] |} in
  let fb := {| sf_owner := b; sf_size := 70; sf_maxproofs := 3; sf_expires := 0; sf_proofs := [6%N] |} in
  let st := {| s_files := [((9%N, a, 10), fa); ((9%N, b, 10), fb)]; s_proofs := [5%N; 6%N];
               s_pay := [(a, 1000); (b, 1000)] |} in
  files_keyed_by_owner_b st = true /\
  srun st [SDelete b 9%N 10; SDelete (2%N, true) 9%N 10] =
  {| s_files := [((9%N, a, 10), fa)]; s_proofs := [5%N]; s_pay := [(a, 1000); (b, 790)] |}.
Proof. vm_compute. split; reflexivity. Qed.

(* ------------------------------------------------------------------ wasm binding *)
(* PerformPostFile reaches the storage PostFile handler only with Creator equal to the canonical
   address string of the calling contract (and only after ValidateBasic); whatever it does, files
   stored under any other owner string are untouched *)
Theorem C11_wasm_post_file_only_in_contract_name :
  forall contract msg c, wasm_guard contract msg = Some c -> c = (contract, false).
Proof. exact wasm_guard_only_contract. Qed.
Print Assumptions C11_wasm_post_file_only_in_contract_name.

Theorem C11_wasm_post_touches_only_contract_files :
  forall files contract msg merkle height posted k,
    fkey_owner k <> (contract, false) ->
    aget fkey_eqb (fst (wstep files contract msg merkle height posted)) k = aget fkey_eqb files k.
Proof. exact wstep_frame. Qed.
Print Assumptions C11_wasm_post_touches_only_contract_files.

Example C11_wasm_example :
  let f := {| sf_owner := (50%N, false); sf_size := 1; sf_maxproofs := 3; sf_expires := 0; sf_proofs := [] |} in
  wasm_guard 50 (Some ((50%N, false), true)) = Some (50%N, false) /\
  wasm_guard 50 (Some ((50%N, true), true)) = None /\
  wasm_guard 50 (Some ((1%N, false), true)) = None /\
  wasm_guard 50 (Some ((50%N, false), false)) = None /\
  wstep [] 50 (Some ((50%N, false), true)) 8%N 30 (Some f) = ([((8%N, (50%N, false), 30), f)], Ok).
Proof. vm_compute. repeat split; reflexivity. Qed.

(* ------------------------------------------------------------------ notifications *)
(* DeleteNotification removes at most the named entry of the signer's own inbox and never a block
   entry; BlockSenders adds entries to the signer's own block list only (and nothing if one of
   the targets does not resolve) *)
Theorem C11_delete_notification_only_own_inbox :
  forall st s from time,
    (forall a, a <> acct s -> inbox (fst (nstep st (NDelete s from time))) a = inbox st a) /\
    n_blocks (fst (nstep st (NDelete s from time))) = n_blocks st /\
    (forall n, In n (n_notes st) -> n <> (acct s, from, time) ->
               In n (n_notes (fst (nstep st (NDelete s from time))))).
Proof. exact delete_notification_only_own_inbox_thm. Qed.
Print Assumptions C11_delete_notification_only_own_inbox.

Theorem C11_block_list_only_own :
  forall st s targets,
    (forall a, a <> acct s -> blocklist (fst (nstep st (NBlock s targets))) a = blocklist st a) /\
    n_notes (fst (nstep st (NBlock s targets))) = n_notes st.
Proof. exact block_list_only_own_thm. Qed.
Print Assumptions C11_block_list_only_own.

Theorem C11_inbox_and_block_list_untouched_by_other_accounts :
  forall ops st a,
    Forall (fun op => acct (nop_signer op) <> a) ops ->
    inbox (nrun st ops) a = inbox st a /\ blocklist (nrun st ops) a = blocklist st a.
Proof. exact nrun_frame. Qed.
Print Assumptions C11_inbox_and_block_list_untouched_by_other_accounts.

Example C11_notifications_example :
  let st := {| n_notes := [(1%N, 20%N, 5); (2%N, 20%N, 5)]; n_blocks := [(1%N, 3%N)] |} in
  nrun st [NDelete (2%N, true) 20%N 5; NBlock (2%N, false) [Some 1%N; Some 1%N]; NBlock (3%N, false) [Some 1%N; None]] =
  {| n_notes := [(1%N, 20%N, 5)]; n_blocks := [(1%N, 3%N); (2%N, 1%N)] |}.
Proof. vm_compute. reflexivity. Qed.

(* ---------------------------------------------------------------------------------------------
   Tie to the code by translation + proof: the two oracle handlers are GENERATED on every run from /repo's current
   Go source (translator/gen_gofuncs.go -> Gen/GoOracle.v); the feed model of the theorems above is their
   interpretation. *)
From JK Require Import Base.GoSem Gen.GoOracle Proofs.GoTieOracle.

(* CreateFeed stores the feed exactly when it reports success, as its last effect, and success means: the name was
   free, the creator parses and pays the deposit, the deposit account parses and receives it *)
Theorem C11_code_tie_CreateFeed :
  forall taken c1 c2 c3 c4,
    gen_CreateFeed taken c1 c2 c3 c4 =
    GVal (if taken then [] else if negb c1 then [] else
          app [Ev "charge-deposit"%string []] (if negb c2 then [] else if negb c3 then [] else
          app [Ev "forward-deposit"%string []] (if negb c4 then [] else [Ev "store-feed"%string []])),
          negb taken && c1 && c2 && c3 && c4).
Proof. exact gen_CreateFeed_spec. Qed.
Print Assumptions C11_code_tie_CreateFeed.

(* UpdateFeed writes only when the feed exists and its recorded owner string is the signer's *)
Theorem C11_code_tie_UpdateFeed :
  forall found not_owner,
    gen_UpdateFeed found not_owner =
    GVal (if found && negb not_owner then [Ev "set-data"%string []; Ev "set-time"%string []; Ev "store-feed"%string []] else [],
          found && negb not_owner).
Proof. exact gen_UpdateFeed_spec. Qed.
Print Assumptions C11_code_tie_UpdateFeed.

(* the model's feed steps are the interpretations of the generated handlers on the reads taken from the model's state *)
Theorem C11_code_tie_model_feed_steps :
  forall st s name c1 c2 c3 c4 data now,
    ostep st (OCreate s name (c1 && c2 && c3 && c4) now) =
      match gen_CreateFeed (GoTieOracle.is_some (aget N.eqb st name)) c1 c2 c3 c4 with
      | GVal (_, true) => (aset N.eqb st name {| f_owner := s; f_data := 0%N; f_time := now |}, Ok)
      | _ => (st, Fail)
      end /\
    ostep st (OUpdate s name data now) =
      match aget N.eqb st name with
      | Some f =>
          match gen_UpdateFeed true (negb (sp_eqb (f_owner f) s)) with
          | GVal (_, true) => (aset N.eqb st name {| f_owner := f_owner f; f_data := data; f_time := now |}, Ok)
          | _ => (st, Fail)
          end
      | None => match gen_UpdateFeed false false with GVal (_, true) => (st, Ok) | _ => (st, Fail) end
      end.
Proof. intros. split; [apply ocreate_is_the_interpretation | apply oupdate_is_the_interpretation]. Qed.
Print Assumptions C11_code_tie_model_feed_steps.
