(* C15 — provider collateral is fully backed and returned exactly once.

   Quantification: every state satisfying the inductive invariant [Inv] (the escrow module
   account's balance equals the sum of the collateral records, collateral keys are unique and
   belong to provider records, the escrow is a blocked recipient of bank sends — all of which
   hold in a chain without providers, [C15_genesis_good]), and every sequence of operations
   (InitProvider, ShutdownProvider, governance changes of CollateralPrice, the five
   record-management messages, bank sends aimed at the escrow) by any signers under any
   bech32 spelling, with any parameters.  The one assumption on histories, [signed_ok]: no
   operation is signed by the escrow module account itself (it has no key).  Records are
   keyed by the raw creator string: the lower- and the upper-case spelling of one account are
   two signers that may own two provider records backed by two collaterals. *)
From Coq Require Import ZArith NArith List Bool.
From JK Require Import Base.AList Model.Collateral Proofs.CollateralProofs.
Import ListNotations.
Open Scope Z_scope.

(* ---- the escrow holds exactly the sum of the recorded collaterals, after every interleaving ---- *)
Theorem C15_escrow_equals_recorded_collateral :
  forall ops s, Inv s -> Forall signed_ok ops ->
    bal (st_bank (run s ops)) escrow = asum (st_coll (run s ops)).
Proof. exact escrow_backed_over_histories. Qed.
Print Assumptions C15_escrow_equals_recorded_collateral.

(* in particular from any chain without providers whose escrow account is empty *)
Theorem C15_escrow_equals_recorded_collateral_from_genesis :
  forall price b blocked supply ops, bal b escrow = 0 -> In escrow blocked -> Forall signed_ok ops ->
    let s := run (genesis price b blocked supply) ops in bal (st_bank s) escrow = asum (st_coll s).
Proof. exact escrow_backed_from_genesis. Qed.
Print Assumptions C15_escrow_equals_recorded_collateral_from_genesis.

(* the whole invariant (and non-negativity of the recorded amounts) is preserved, so every
   one-step theorem below applies after every history *)
Theorem C15_invariant_over_histories :
  forall ops s, Inv s -> nonneg s -> Forall signed_ok ops -> Inv (run s ops) /\ nonneg (run s ops).
Proof. exact good_over_histories. Qed.
Print Assumptions C15_invariant_over_histories.

Theorem C15_genesis_good :
  forall price b blocked supply, bal b escrow = 0 -> In escrow blocked ->
    Inv (genesis price b blocked supply) /\ nonneg (genesis price b blocked supply).
Proof. exact genesis_good. Qed.
Print Assumptions C15_genesis_good.

(* ---- registering locks exactly the price in force ---- *)
Theorem C15_init_locks_current_price :
  forall s c vb ipok ip space kb, acct c <> escrow ->
  let s' := fst (init_provider s c vb ipok ip space kb) in
  let o := snd (init_provider s c vb ipok ip space kb) in
  (o = Ok ->
     vb = true /\ ipok = true /\ get_prov s c = None /\ 0 <= st_price s /\
     bal (st_bank s') (acct c) = bal (st_bank s) (acct c) - st_price s /\
     bal (st_bank s') escrow = bal (st_bank s) escrow + st_price s /\
     (forall a, a <> acct c -> a <> escrow -> bal (st_bank s') a = bal (st_bank s) a) /\
     get_coll s' c = Some (st_price s) /\
     (exists p, get_prov s' c = Some p /\ p_addr p = c /\ p_creator p = c) /\
     (forall d, d <> c -> get_coll s' d = get_coll s d /\ get_prov s' d = get_prov s d) /\
     st_price s' = st_price s) /\
  (o <> Ok -> s' = s).
Proof. exact init_locks. Qed.
Print Assumptions C15_init_locks_current_price.

(* a well-formed registration under the canonical spelling, without a record, that can pay the price
   succeeds (since the repair 8a326f28 the upper-case spelling of an address no longer registers) *)
Theorem C15_init_succeeds_when_affordable :
  forall s c ip space kb, snd c = false -> get_prov s c = None -> 0 <= st_price s <= bal (st_bank s) (acct c) ->
    snd (init_provider s c true true ip space kb) = Ok.
Proof. exact init_succeeds. Qed.
Print Assumptions C15_init_succeeds_when_affordable.

(* an accepted registration was signed with the canonical spelling: one account, one provider record *)
Theorem C15_registration_only_under_canonical_spelling :
  forall s c vb ipok ip space kb s', init_provider s c vb ipok ip space kb = (s', Ok) -> snd c = false.
Proof. exact init_ok_canonical. Qed.
Print Assumptions C15_registration_only_under_canonical_spelling.

(* ---- shutting down returns the recorded amount and removes provider and record ---- *)
Theorem C15_shutdown_returns_recorded_amount_and_removes :
  forall s c vb, acct c <> escrow ->
  let s' := fst (shutdown_provider s c vb) in
  let o := snd (shutdown_provider s c vb) in
  (o = Ok ->
     vb = true /\ get_prov s c <> None /\
     get_prov s' c = None /\ get_coll s' c = None /\
     bal (st_bank s') (acct c) = bal (st_bank s) (acct c) + recorded s c /\
     bal (st_bank s') escrow = bal (st_bank s) escrow - recorded s c /\
     (forall a, a <> acct c -> a <> escrow -> bal (st_bank s') a = bal (st_bank s) a) /\
     (forall d, d <> c -> get_coll s' d = get_coll s d /\ get_prov s' d = get_prov s d) /\
     st_price s' = st_price s) /\
  (o <> Ok -> s' = s).
Proof. exact shutdown_returns. Qed.
Print Assumptions C15_shutdown_returns_recorded_amount_and_removes.

(* the refund is independent of the price in force at shutdown *)
Theorem C15_shutdown_independent_of_current_price :
  forall s c vb v,
    shutdown_provider (with_price s v) c vb =
    (with_price (fst (shutdown_provider s c vb)) v, snd (shutdown_provider s c vb)).
Proof. exact shutdown_ignores_price. Qed.
Print Assumptions C15_shutdown_independent_of_current_price.

(* after ANY history from a good state, every provider with a recorded collateral (whose account
   is not a blocked module account) can shut down, is credited exactly the recorded amount,
   and the record is gone *)
Theorem C15_recorded_collateral_claimable_after_any_history :
  forall ops s c amt, Inv s -> nonneg s -> Forall signed_ok ops ->
  let s1 := run s ops in
  get_prov s1 c <> None -> get_coll s1 c = Some amt ->
  is_blocked s1 (acct c) = false -> acct c <> escrow ->
  snd (shutdown_provider s1 c true) = Ok /\
  bal (st_bank (fst (shutdown_provider s1 c true))) (acct c) = bal (st_bank s1) (acct c) + amt /\
  get_coll (fst (shutdown_provider s1 c true)) c = None.
Proof. exact claimable_after_any_history. Qed.
Print Assumptions C15_recorded_collateral_claimable_after_any_history.

(* the reward block's strike against a prover that missed its window (keeper.burnContract, run from BeginBlock)
   is part of every history above ([OBurn]); by itself it keeps the provider record, every collateral record and
   every balance: a struck provider can still shut down and is still owed exactly what it locked *)
Theorem C15_reward_block_strike_keeps_record_and_collateral :
  forall s c, addr_ok s ->
  st_coll (burn s c) = st_coll s /\ st_bank (burn s c) = st_bank s /\ st_price (burn s c) = st_price s /\
  (forall d, get_prov (burn s c) d = None <-> get_prov s d = None) /\
  (forall d, d <> c -> get_prov (burn s c) d = get_prov s d).
Proof. exact burn_keeps_record_and_money. Qed.
Print Assumptions C15_reward_block_strike_keeps_record_and_collateral.

(* ---- neither twice nor by anyone else ---- *)
Theorem C15_no_second_or_foreign_claim :
  (* a spelling that owns no provider record gets nothing, whatever state *)
  (forall s c vb, get_prov s c = None -> shutdown_provider s c vb = (s, Fail)) /\
  (* in particular the second shutdown after a successful one *)
  (forall s c vb vb', snd (shutdown_provider s c vb) = Ok ->
     let s' := fst (shutdown_provider s c vb) in shutdown_provider s' c vb' = (s', Fail)) /\
  (* a shutdown signed by any other signer d — another account, or the SAME account under the
     other spelling — leaves c's records alone, and c's balance too unless d is c's own account *)
  (forall s c d vb, d <> c ->
     let s' := fst (shutdown_provider s d vb) in
     get_coll s' c = get_coll s c /\ get_prov s' c = get_prov s c /\
     (acct d <> acct c -> acct c <> escrow -> bal (st_bank s') (acct c) = bal (st_bank s) (acct c))).
Proof. exact (conj shutdown_without_record (conj second_shutdown_fails foreign_shutdown_harmless)). Qed.
Print Assumptions C15_no_second_or_foreign_claim.

(* history level: for every account, liquid balance plus everything locked under its two spellings
   is the same after every interleaving — nobody's collateral ends up with anyone else, none is
   paid out twice (the payer would be the escrow, which stays exactly backed) *)
Theorem C15_account_wealth_conserved :
  forall ops s a, Inv s -> Forall signed_ok ops -> a <> escrow -> wealth (run s ops) a = wealth s a.
Proof. exact run_wealth. Qed.
Print Assumptions C15_account_wealth_conserved.

(* ------------------------------------------------------------------ non-vacuity *)

Definition ex_genesis : state :=
  genesis 10000000000 [(1%N, 25000000000); (2%N, 9999999999); (3%N, 10000000000)] [0%N; 7%N] 45000000000.

Definition ex_ops : list op :=
  [ OInit (1%N, false) true true 5%N 100 6%N;       (* account 1, lower case: locks 10^10 *)
    OInit (2%N, false) true true 5%N 100 6%N;       (* one coin short: fails *)
    OSetPrice 7000000;
    OInit (1%N, true) true true 5%N 100 6%N;        (* the same account in upper case: refused since the repair 8a326f28 *)
    OSetPrice 1;                                    (* refused *)
    OShutdown (1%N, false) true;                    (* gets 10^10 back although the price is now 7*10^6 *)
    OShutdown (1%N, false) true;                    (* second claim: fails *)
    OShutdown (3%N, false) true;                    (* never registered: fails *)
    ODonate 3%N 5;                                  (* refused: module accounts are blocked *)
    OInit (3%N, false) true true 5%N 100 6%N ].

Example C15_ex_genesis_good : Inv ex_genesis /\ nonneg ex_genesis /\ Forall signed_ok ex_ops.
Proof.
  split; [apply genesis_Inv; [reflexivity | left; reflexivity]|]. split; [constructor|].
  repeat constructor; unfold signed_ok; cbn; discriminate.
Qed.

(* a non-trivial reachable state: account 1 registered, was refused a second record under its
   upper-case spelling, and got its 10^10 back after the price fell; account 3 registered at 7*10^6 *)
Example C15_ex_run :
  let s := run ex_genesis ex_ops in
  st_coll s = [((3%N, false), 7000000)] /\
  bal (st_bank s) escrow = 7000000 /\ bal (st_bank s) 1%N = 25000000000 /\
  bal (st_bank s) 3%N = 9993000000 /\ st_price s = 7000000 /\
  map (fun n => snd (step (run ex_genesis (firstn n ex_ops)) (nth n ex_ops (OSetPrice 0)))) (seq 0 10)
    = [Ok; Fail; Ok; Fail; Fail; Ok; Fail; Fail; Fail; Ok].
Proof. vm_compute. repeat split; reflexivity. Qed.

(* ... and the hypotheses of the claimability theorem are met by account 3's record *)
Example C15_ex_claimable :
  let s1 := run ex_genesis ex_ops in
  get_prov s1 (3%N, false) <> None /\ get_coll s1 (3%N, false) = Some 7000000 /\
  is_blocked s1 3%N = false /\ get_prov s1 (1%N, true) = None.
Proof. vm_compute. repeat split; try reflexivity. discriminate. Qed.

(* ---------------------------------------------------------------------------------------------
   Tie to the code by translation + proof: the functions below are GENERATED on every run from /repo's
   current Go source (translator/gen_gofuncs.go -> Gen/GoCollat.v); the theorems say that the hand-written model the
   property theorems above are about computes what the generated function computes, for all arguments. *)
From Coq Require Import String.
From JK Require Import Base.GoSem Gen.GoCollat Proofs.GoTieCollat.

(* InitProvider, generated from the current source, refuses before any effect (existing provider, unparsable or
   non-canonical creator), locks exactly the current collateral price, records exactly that amount and writes the
   provider record; the model's step is the interpretation of these events with its bank's answer *)
Theorem C15_code_tie_InitProvider :
  forall s c ip space kb,
    let lock := send (st_bank s) (acct c) escrow (st_price s) in
    init_provider s c true true ip space kb
    = match gen_InitProvider (GoTieCollat.is_some (get_prov s c)) (st_price s) true (snd c) (GoTieCollat.is_some lock) with
      | GPanic => (s, Panic)
      | GVal (_, false) => (s, Fail)
      | GVal ([Ev _ [locked]; Ev _ [recorded]; _], true) =>
          match lock with
          | Some b =>
              let rec := {| p_addr := c; p_ip := ip; p_space := space; p_creator := c; p_burned := 0;
                            p_keybase := kb; p_claimers := [] |} in
              (with_money s (aset sg_eqb (st_prov s) c rec) (aset sg_eqb (st_coll s) c recorded) b, Ok)
          | None => (s, Fail)
          end
      | GVal (_, true) => (s, Fail)
      end.
Proof. exact init_provider_is_the_interpretation. Qed.
Print Assumptions C15_code_tie_InitProvider.

(* ShutdownProvider returns exactly the recorded amount and removes both records, once *)
Theorem C15_code_tie_ShutdownProvider :
  forall s c,
    let amount := match get_coll s c with Some a => a | None => 0 end in
    let back := if is_blocked s (acct c) then None else send (st_bank s) escrow (acct c) amount in
    shutdown_provider s c true
    = match gen_ShutdownProvider (GoTieCollat.is_some (get_prov s c)) (GoTieCollat.is_some (get_coll s c)) amount true (GoTieCollat.is_some back) with
      | GPanic => (s, Panic)
      | GVal (_, false) => (s, Fail)
      | GVal ([Ev _ []], true) => (with_prov s (adel sg_eqb (st_prov s) c), Ok)
      | GVal (_, true) =>
          match back with
          | Some b => (with_money s (adel sg_eqb (st_prov s) c) (adel sg_eqb (st_coll s) c) b, Ok)
          | None => (s, Fail)
          end
      end.
Proof. exact shutdown_provider_is_the_interpretation. Qed.
Print Assumptions C15_code_tie_ShutdownProvider.

Theorem C15_code_tie_closed_forms :
  forall found price creator_ok not_canonical ok_lock prov_found coll_found amount ok_return,
    gen_InitProvider found price creator_ok not_canonical ok_lock
    = (if found then GVal ([], false)
       else if price <? 0 then GPanic
       else if negb creator_ok then GVal ([], false)
       else if not_canonical then GVal ([], false)
       else if negb ok_lock then GVal ([Ev "lock-collateral"%string [price]], false)
       else GVal ([Ev "lock-collateral"%string [price]; Ev "record-collateral"%string [price]; Ev "set-provider"%string []], true)) /\
    gen_ShutdownProvider prov_found coll_found amount creator_ok ok_return
    = (if negb prov_found then GVal ([], false)
       else if negb coll_found then GVal ([Ev "remove-provider"%string []], true)
       else if amount <? 0 then GPanic
       else if negb creator_ok then GVal ([], false)
       else if negb ok_return then GVal ([Ev "return-collateral"%string [amount]], false)
       else GVal ([Ev "return-collateral"%string [amount]; Ev "remove-collateral"%string []; Ev "remove-provider"%string []], true)).
Proof.
  intros. exact (conj (gen_InitProvider_spec found price creator_ok not_canonical ok_lock)
                      (gen_ShutdownProvider_spec prov_found coll_found amount creator_ok ok_return)).
Qed.
Print Assumptions C15_code_tie_closed_forms.
