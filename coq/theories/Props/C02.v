(* C02 — honest provers can always prove and are never dropped or burned.
   Quantification: every file size >= 1 and chunk size >= 1 and every RNG draw in the range the
   code asks for; every non-empty list of chunks, every existing index and ANY two hash
   functions; every file start height, proof window >= 1, check window >= 1, join height and
   placement of the prover's one-proof-per-window, every reward height.
   Assumed (documented in checks/C02.json): the file's declared size is its real size and the
   ChunkSize parameter is the one the tree was cut with; the file has at most 2^64 chunks (the
   proof index is a uint64); heights are far from the int64 range. *)
From Coq Require Import NArith ZArith List Bool Lia.
From JK Require Import Base.Bytes Hash.Sha256 Hash.Keccak Model.Merkle Model.Windows
                       Proofs.MerkleProofs Proofs.WindowsProofs.
Import ListNotations.
Open Scope Z_scope.

(* (1) the initial challenge 0 and every challenge ResetChunk(WithProof) picks designate an
   existing chunk, whatever Int63n returns inside the range it is asked for; Int63n is never
   called with a non-positive bound (reset_chunk consults draw only for p > 0) and the call
   cannot panic for positive sizes *)
Theorem C02_challenge_designates_existing_chunk :
  forall size chunk draw, 1 <= size -> 1 <= chunk ->
    (forall p, 0 < p -> 0 <= draw p < p) ->
    0 < num_chunks size chunk /\
    exists c, reset_chunk size chunk draw = Val c /\ 0 <= c < num_chunks size chunk.
Proof. exact challenge_in_range. Qed.
Print Assumptions C02_challenge_designates_existing_chunk.

Example C02_challenge_example :
  reset_chunk 2049 1024 (fun p => p - 1) = Val 1 /\ num_chunks 2049 1024 = 3 /\
  reset_chunk 1024 1024 (fun p => p - 1) = Val 0 /\ num_chunks 1024 1024 = 1.
Proof. vm_compute. auto. Qed.

(* (2) Merkle completeness of the library layout, for any hash function, any padding length:
   the proof generated for leaf i of a tree over any non-empty data list verifies against
   the tree's root with the data of leaf i *)
Theorem C02_honest_proof_accepted :
  forall (H : bytes -> bytes) (hlen : nat) data t i,
    build H hlen data = Some t -> (i < length data)%nat ->
    (N.of_nat (length data) <= 18446744073709551616)%N ->
    verify_proof H (root H t) (nth i data []) (gen_proof H t (N.of_nat i)) (N.of_nat i) = true.
Proof. exact honest_proof_accepted_lib. Qed.
Print Assumptions C02_honest_proof_accepted.

(* ... and through the repo's wrapper (UnifiedFile.VerifyProof with the "%d%x" leaf encoding
   of utils.BuildTree), for any two hash functions: the holder's proof for chunk i is accepted *)
Theorem C02_honest_file_proof_accepted :
  forall (H256 H512 : bytes -> bytes) (hlen : nat) chunks t i,
    build_file H256 H512 hlen chunks = Some t -> (i < length chunks)%nat ->
    (N.of_nat (length chunks) <= 18446744073709551616)%N ->
    verify_file_proof H256 H512 (root H512 t) (Z.of_nat i) (nth i chunks [])
                      (gen_proof H512 t (N.of_nat i)) (N.of_nat i) = true.
Proof. exact honest_file_proof_accepted. Qed.
Print Assumptions C02_honest_file_proof_accepted.

Theorem C02_every_nonempty_file_has_a_tree :
  forall (H256 H512 : bytes -> bytes) hlen chunks, chunks <> [] ->
    exists t, build_file H256 H512 hlen chunks = Some t.
Proof. exact build_file_some. Qed.
Print Assumptions C02_every_nonempty_file_has_a_tree.

(* non-vacuity, with the executable hashes: a three-chunk file (padded to four leaves) *)
Example C02_three_chunk_file :
  match build_file_exec [[1;2;3]; [4;5;6]; [7]]%N with
  | Some t => verify_file_proof_exec (root sha3_512 t) 2 [7]%N (gen_proof sha3_512 t 2) 2 = true /\
              verify_file_proof_exec (root sha3_512 t) 2 [8]%N (gen_proof sha3_512 t 2) 2 = false /\
              length (gen_proof sha3_512 t 2) = 2%nat
  | None => False
  end.
Proof. vm_compute. auto. Qed.

(* the stored challenge designates an existing chunk after every history of the prover's steps
   whose re-draws come from ResetChunkWithProof, whatever the RNG returns *)
Theorem C02_stored_challenge_always_designates_existing_chunk :
  forall size chunk start pi cw ops,
    1 <= size -> 1 <= chunk -> Forall (hop_drawn size chunk) ops ->
    0 <= challenge (hrun start pi cw ops) < num_chunks size chunk.
Proof. exact challenge_stays_in_range. Qed.
Print Assumptions C02_stored_challenge_always_designates_existing_chunk.

(* (1)+(2) through PostProof: for the chunk c the prover's record designates (0 for a new
   prover), the holder's submission (chunk c, library proof for leaf c) is accepted: the prover
   is listed and LastProven becomes the current height *)
Theorem C02_honest_postproof_accepted :
  forall (H256 H512 : bytes -> bytes) hlen chunks t s h next,
    build_file H256 H512 hlen chunks = Some t ->
    (N.of_nat (length chunks) <= 18446744073709551616)%N ->
    (listed s = true -> has_rec s = true) ->
    let c := if listed s then challenge s else 0 in
    0 <= c < Z.of_nat (length chunks) ->
    let valid := verify_file_proof H256 H512 (root H512 t) c (nth (Z.to_nat c) chunks [])
                                   (gen_proof H512 t (Z.to_N c)) (Z.to_N c) in
    post_proof s h c valid next =
      ({| listed := true; has_rec := true; last_proven := h; challenge := next;
          is_provider := is_provider s; burned := burned s |}, true).
Proof. exact honest_postproof_accepted. Qed.
Print Assumptions C02_honest_postproof_accepted.

(* (3) the decision of manageProof at any reward height h after the join j: with one accepted
   proof in every window [start+k*pi, start+(k+1)*pi) from the join window up to the window
   before h's, and LastProven the latest proving height below h, the prover is kept *)
Theorem C02_honest_prover_never_dropped :
  forall start pi cw h j P,
    1 <= pi -> 1 <= cw -> start <= j -> j < h -> In j P ->
    covered start pi P j h ->
    reward_runs cw h = Val true ->
    manage_proof start pi h true (last_before P h) = Val Keep.
Proof. exact manage_keeps_honest. Qed.
Print Assumptions C02_honest_prover_never_dropped.

Example C02_schedule_example :
  covered 5 3 [6; 8; 13] 6 16 /\ reward_runs 4 16 = Val true /\ last_before [6; 8; 13] 16 = 13 /\
  manage_proof 5 3 16 true 13 = Val Keep /\
  (* without the proof at 13 the same prover is burned at 16 *)
  manage_proof 5 3 16 true (last_before [6; 8] 16) = Val Burn.
Proof.
  split; [|vm_compute; auto].
  intros k Hk. unfold window_of in *.
  change ((6 - 5) / 3) with 0 in Hk. change ((16 - 5) / 3) with 3 in Hk.
  assert (E : k = 0 \/ k = 1 \/ k = 2) by lia.
  destruct E as [E|[E|E]]; subst k; [exists 6|exists 8|exists 13]; (split; [cbn; auto|reflexivity]).
Qed.

(* the same over whole histories of PostProof / reward-block steps (fold_left over the
   operation list from the state of an unlisted provider): after every prefix that contains a
   proof, the prover is listed, has its record, and its burn counter is still zero *)
Theorem C02_honest_history_never_dropped :
  forall start pi cw pre post,
    1 <= pi -> 1 <= cw -> honest start pi (pre ++ post) -> proves pre <> [] ->
    let s := hrun start pi cw pre in
    listed s = true /\ has_rec s = true /\ burned s = 0.
Proof. exact honest_history_prefix_never_dropped. Qed.
Print Assumptions C02_honest_history_never_dropped.

Example C02_history_example :
  honest 5 3 [HProve 6 0; HReward 8; HProve 8 1] /\
  hrun 5 3 4 [HProve 6 0; HReward 8; HProve 8 1] =
    {| listed := true; has_rec := true; last_proven := 8; challenge := 1; is_provider := true; burned := 0 |} /\
  (* a prover that stops after height 8 is burned by the reward block at 16 *)
  burned (fold_left (pstep 5 3) [OProve 6 0 true 0; OProve 8 0 true 0; OReward 12; OReward 16] pinit) = 1.
Proof.
  split; [|vm_compute; auto].
  apply (honest_prove 5 3 [HProve 6 0; HReward 8] 8 1).
  - apply (honest_reward 5 3 [HProve 6 0] 8).
    + apply (honest_prove 5 3 [] 6 0); [constructor|intros o []|lia].
    + intros o [E|[]]; subst o; cbn; lia.
    + intros _ k Hk. unfold window_of, join_of in Hk. cbn in Hk.
      change ((6 - 5) / 3) with 0 in Hk. change ((8 - 5) / 3) with 1 in Hk.
      exists 6. split; [cbn; auto|]. unfold window_of. assert (k = 0) by lia. subst k. reflexivity.
  - intros o [E|[E|[]]]; subst o; cbn; lia.
  - lia.
Qed.

(* ---------------------------------------------------------------------------------------------
   Tie to the code by translation + proof: the functions below are GENERATED on every run from /repo's
   current Go source (translator/gen_gofuncs.go -> Gen/GoWindows.v); the theorems say that the hand-written model the
   property theorems above are about computes what the generated function computes, for all arguments. *)
From Coq Require Import String.
From JK Require Import Base.Dec Base.GoSem Gen.GoWindows Proofs.GoTieWindows.

(* getRoundedWindow / ProvenLastBlock / ProvenThisBlock / IsYoung of x/storage/types/file.go are the window
   predicates of Model/Windows.v (heights, starts and intervals of magnitude at most 2^60) *)
Theorem C02_code_tie_window_predicates :
  forall start pi h last, small h -> small start -> small pi ->
    gen_getRoundedWindow h start pi = of_res (Windows.rounded_window h start pi) /\
    gen_ProvenLastBlock start pi h last = of_res (Windows.proven_last_block start pi h last) /\
    gen_ProvenThisBlock start pi h last = of_res (Windows.proven_this_block start pi h last) /\
    gen_IsYoung start pi h = GVal (Windows.is_young start pi h).
Proof.
  intros start pi h last Hh Hs Hp.
  rewrite windows_rounded, windows_proven_last, windows_proven_this, windows_young.
  exact (conj (gen_getRoundedWindow_spec h start pi Hh Hs)
        (conj (gen_ProvenLastBlock_spec start pi h last Hh Hs Hp)
        (conj (gen_ProvenThisBlock_spec start pi h last Hh Hs) (gen_IsYoung_spec start pi h Hs Hp)))).
Qed.
Print Assumptions C02_code_tie_window_predicates.

(* keeper.manageProof takes the decision of Model/Windows.v's manage_proof (a missing record reads as the zero
   record) and performs exactly: credit the file size / remove the prover / remove and burn *)
Theorem C02_code_tie_manageProof :
  forall start pi h size found last, small h -> small start -> small pi ->
    gen_manageProof start pi h size found (if found then last else 0)
    = gmap (fun d => verdict_events size (of_decision d)) (of_res (Windows.manage_proof start pi h found last)).
Proof.
  intros start pi h size found last Hh Hs Hp.
  rewrite (gen_manageProof_spec start pi h size found _ Hh Hs Hp), <- windows_manage_proof.
  destruct (Windows.manage_proof start pi h found last); reflexivity.
Qed.
Print Assumptions C02_code_tie_manageProof.

(* ResetChunkWithProof stores the challenge Model/Windows.v's reset_chunk computes (a chunk index below the
   number of pieces), and RunRewardBlock runs ManageRewards exactly at the heights of reward_runs *)
Theorem C02_code_tie_challenge_and_trigger :
  forall size chunk draw cw h, int64_min < size <= int64_max ->
    gen_ResetChunkWithProof size chunk draw
    = gmap (fun c => ([Ev "set-challenge"%string [c]], true)) (of_res (Windows.reset_chunk size chunk (fun _ => draw))) /\
    gen_RunRewardBlock cw h
    = gmap (fun b : bool => if b then [Ev "manage-rewards"%string []] else []) (of_res (Windows.reward_runs cw h)).
Proof. intros size chunk draw cw h Hs. exact (conj (windows_reset_chunk size chunk draw Hs) (windows_reward_runs cw h)). Qed.
Print Assumptions C02_code_tie_challenge_and_trigger.
