(* C06 — state transitions are deterministic across nodes.

   Full statement (properties.jsonl): executing the same ordered history of blocks and transactions from
   the same genesis on independent node instances yields, after every block, identical application
   hashes, transaction results and emitted events in identical order; no result depends on map
   iteration order, wall-clock time, process-local randomness or scheduling.

   What is PROVED here, and what is not (the claim is partial by nature):
   (1) inventory — every syntactic site in the consensus-reachable code of the custom modules at which
       the Go code consults something nodes do not share (map range, clock, RNG, goroutine/select,
       environment, reflect map iteration, map formatting/marshalling, floats, unsafe/%p) is listed in
       the table Gen/NondetSites.v, regenerated from /repo on every run, and every one of them falls in
       a class recognised as benign; a new site of class Other breaks C06_sites_all_benign;
   (2) for the order-/environment-sensitive paths that DO exist (reward payout over the sizeTracker map,
       the file-tree ACL maps, the challenge index and provider shuffle RNGs, the begin blockers' clock
       read) the result is proved independent of the adversarial input, for all inputs;
   (3) NOT provable by any model: nondeterminism inside the Go runtime, the Cosmos SDK, IAVL, or the cgo
       wasmvm.  For those the check executes every generated history on two app instances in two OS
       processes and compares AppHash / tx results / events after every block (harness/c06.go). *)
From Coq Require Import ZArith NArith List Bool String Permutation Sorting.Sorted.
From JK Require Import Base.Dec Model.Nondet Model.OrderIndep Proofs.OrderIndepProofs Gen.NondetSites.
Import ListNotations.

(* ---- (1) the inventory ---- *)
Theorem C06_sites_all_benign : forallb benign nondet_sites = true.
Proof. vm_compute. reflexivity. Qed.
Print Assumptions C06_sites_all_benign.

Theorem C06_every_site_benign : forall s, In s nondet_sites -> benign s = true.
Proof. exact (proj1 (forallb_forall benign nondet_sites) C06_sites_all_benign). Qed.
Print Assumptions C06_every_site_benign.

(* no site that runs inside a block is left unclassified *)
Theorem C06_no_consensus_site_unclassified : forall s, In s nondet_sites -> s_class s <> Other.
Proof.
  intros s H E. pose proof (C06_every_site_benign s H) as B. unfold benign in B. rewrite E in B.
  destruct (s_kind s); discriminate.
Qed.
Print Assumptions C06_no_consensus_site_unclassified.

(* non-vacuity: the table is not empty and contains sites that run inside blocks, of each class that
   the order-independence theorems below are about *)
Example C06_inventory_nonempty :
  (0 <? count_class MapKeysThenSort nondet_sites)%N && (0 <? count_class JsonMarshalSorted nondet_sites)%N &&
  (0 <? count_class SeededFromBlock nondet_sites)%N && (0 <? count_class TelemetryOnly nondet_sites)%N &&
  (100 <? nondet_files_scanned)%N = true.
Proof. vm_compute. reflexivity. Qed.

(* ---- (2) order independence of the paths that exist ---- *)

(* Go's string order on keys is a strict total order *)
Theorem C06_key_order_strict_total :
  (forall a, lex_ltb a a = false) /\
  (forall a b c, lex_ltb a b = true -> lex_ltb b c = true -> lex_ltb a c = true) /\
  (forall a b, lex_ltb a b = false -> lex_ltb b a = false -> a = b).
Proof. exact (conj lex_ltb_irrefl (conj lex_ltb_trans lex_ltb_total)). Qed.
Print Assumptions C06_key_order_strict_total.

(* rewards.go: whatever order two nodes' runtimes iterate the sizeTracker map in (t1, t2: the same
   duplicate-free entries in two arbitrary orders), the reward block issues the same bank sends — same
   recipients, denominations, amounts — in the same sequence; for every total size, coin set,
   address-validity predicate and tracker content *)
Theorem C06_payout_order_independent : forall valid total coins t1 t2,
  NoDup (map fst t1) -> Permutation t1 t2 ->
  reward_sends valid total coins t1 = reward_sends valid total coins t2.
Proof. exact payout_order_independent. Qed.
Print Assumptions C06_payout_order_independent.

(* … and that sequence is in ascending address order *)
Theorem C06_payout_in_address_order : forall valid total coins t,
  StronglySorted lex_le (map send_to (reward_sends valid total coins t)).
Proof. exact payout_in_address_order. Qed.
Print Assumptions C06_payout_in_address_order.

Example C06_payout_nonvacuous :
  let t1 := [(k_b, 2%Z); (k_a, 1%Z)] in let t2 := [(k_a, 1%Z); (k_b, 2%Z)] in
  reward_sends (fun _ => true) 3 [(ujkl, 10%Z)] t1 = [Send k_a ujkl 3; Send k_b ujkl 6] /\
  reward_sends (fun _ => true) 3 [(ujkl, 10%Z)] t2 = [Send k_a ujkl 3; Send k_b ujkl 6].
Proof. vm_compute. split; reflexivity. Qed.

(* the sort in providerList is what makes it so: the same loop directly over the map is order dependent *)
Theorem C06_payout_without_sort_depends_on_order :
  exists valid total coins t1 t2, NoDup (map fst t1) /\ Permutation t1 t2 /\
    reward_sends_unsorted valid total coins t1 <> reward_sends_unsorted valid total coins t2.
Proof. exact payout_without_sort_depends_on_order. Qed.
Print Assumptions C06_payout_without_sort_depends_on_order.

(* filetree: the access lists are Go maps serialised with encoding/json; the stored string does not
   depend on the iteration order of the map *)
Theorem C06_acl_marshal_order_independent : forall m1 m2 : gomap key,
  NoDup (map fst m1) -> Permutation m1 m2 -> acl_marshal m1 = acl_marshal m2.
Proof. exact acl_marshal_order_independent. Qed.
Print Assumptions C06_acl_marshal_order_independent.

(* Add{Viewers,Editors} / Remove{Viewers,Editors} as a whole, the runtime's map layout being an
   arbitrary permutation-valued function *)
Theorem C06_acl_add_order_independent : forall order1 order2 old ids_keys,
  (forall m, Permutation m (order1 m)) -> (forall m, Permutation m (order2 m)) -> NoDup (map fst old) ->
  acl_add order1 old ids_keys = acl_add order2 old ids_keys.
Proof. exact acl_add_order_independent. Qed.
Print Assumptions C06_acl_add_order_independent.

Theorem C06_acl_remove_order_independent : forall order1 order2 old ids,
  (forall m, Permutation m (order1 m)) -> (forall m, Permutation m (order2 m)) -> NoDup (map fst old) ->
  acl_remove order1 old ids = acl_remove order2 old ids.
Proof. exact acl_remove_order_independent. Qed.
Print Assumptions C06_acl_remove_order_independent.

Example C06_acl_nonvacuous :
  acl_add (@rev _) [(k_b, k_a)] [(k_a, k_b)] = acl_add (fun m => m) [(k_b, k_a)] [(k_a, k_b)] /\
  acl_add (@rev _) [(k_b, k_a)] [(k_a, k_b)] =
    [123; 34; 97; 34; 58; 34; 98; 34; 44; 34; 98; 34; 58; 34; 97; 34; 125]%N.   (* {"a":"b","b":"a"} *)
Proof. vm_compute. split; reflexivity. Qed.

(* file_deal.go: the chunk a prover is challenged with depends only on block height, block gas and the
   file — not on the OS entropy rand.NewRand() starts from nor on the clock; for every RNG function *)
Theorem C06_challenge_is_function_of_block : forall int63n e1 e2 file_size chunk_size,
  e_height e1 = e_height e2 -> e_block_gas e1 = e_block_gas e2 ->
  reset_chunk int63n e1 file_size chunk_size = reset_chunk int63n e2 file_size chunk_size.
Proof. exact challenge_is_function_of_block. Qed.
Print Assumptions C06_challenge_is_function_of_block.

(* providers.go: the attestation-form provider shuffle depends only on block height and the stored list *)
Theorem C06_shuffle_is_function_of_block : forall int63n A e1 e2 (providers : list A),
  e_height e1 = e_height e2 ->
  randomized_providers int63n e1 providers = randomized_providers int63n e2 providers.
Proof. exact shuffle_is_function_of_block. Qed.
Print Assumptions C06_shuffle_is_function_of_block.

Example C06_rng_nonvacuous :
  let f := fun (s : Z) (k : nat) (n : Z) => ((s + Z.of_nat k * 5 + Z.of_nat k / 3) mod n)%Z in
  let e1 := {| e_height := 7; e_block_gas := 100; e_wallclock := 1; e_entropy := 11 |} in
  let e2 := {| e_height := 7; e_block_gas := 100; e_wallclock := 999; e_entropy := 42 |} in
  reset_chunk f e1 5000 1024 = 3%Z /\ reset_chunk f e2 5000 1024 = 3%Z /\
  randomized_providers f e1 [1; 2; 3; 4]%N = [4; 1; 3; 2]%N /\
  randomized_providers f e2 [1; 2; 3; 4]%N = [4; 1; 3; 2]%N.
Proof. vm_compute. repeat split; reflexivity. Qed.

(* abci.go: the wall clock read by the begin blockers reaches only the metrics sink *)
Theorem C06_begin_blocker_state_ignores_clock : forall S M (work : S -> S) (measure : Z -> M) e1 e2 s,
  fst (begin_blocker work measure e1 s) = fst (begin_blocker work measure e2 s).
Proof. exact begin_blocker_state_ignores_clock. Qed.
Print Assumptions C06_begin_blocker_state_ignores_clock.
