(* C14 — attestations and reports act only on a quorum of the providers named on the form.

   Quantification: every state satisfying the inductive invariant `Inv` (it holds initially and
   is preserved by every operation) and every history of
     RequestAttestationForm / Attest / RequestReportForm / Report messages (any signer strings, any keys),
     changes of (AttestFormSize, AttestMinToPass) to ANY integers (no validator assumption is needed),
     arbitrary single writes / deletions in the Providers, Files and FileProof stores
       (whatever the rest of the module does between two of these messages),
   with every shuffle the height-seeded generator may produce (any rearrangement of the eligible
   providers; an op carrying something else is rejected by the model as OOracleBad and changes nothing).

   `glog (ga g) k` / `glog (gr g) k` is the ghost log: the raw signer strings of the Attest / Report
   messages addressed to form key k since that form was last created (Model.Forms.gstep: reset to []
   by the request that creates the form, extended by every signature message; it never reads the
   Complete flags).  AttestMinToPass is read when a signature is processed, so the minimum in the
   theorems is the one in force in the state the deciding message reads.

   Explicit modelling assumptions (stated in checks/C14.json): address strings are '/'-free and
   prefix-free (equal-length bech32), so the '/'-joined store keys are injective and the
   "FileProof/value/<address>" prefix scan finds exactly that address's records; a stored proof
   record's own fields agree with the key it is stored under. *)
From Coq Require Import ZArith NArith List Bool.
From JK Require Import Base.AList Model.Forms Proofs.FormsProofs.
Import ListNotations.
Open Scope Z_scope.

(* the invariant: every stored form names pairwise distinct providers and each Complete flag
   belongs to a listed provider whose signature is in the log since creation; provider keys are
   distinct.  It holds in the initial state and along every history. *)
Theorem C14_invariant_initially : Inv (init, {| ga := []; gr := [] |}).
Proof. exact Inv_init. Qed.
Print Assumptions C14_invariant_initially.

Theorem C14_invariant_along_every_history : forall ops sg, Inv sg -> Inv (grun sg ops).
Proof. exact Inv_run. Qed.
Print Assumptions C14_invariant_along_every_history.

(* MAIN.  In every history, at every Attest (resp. Report) step that acts — or merely changes
   anything in the FileProof records (LastProven) or in the files' prover lists — the form exists,
   the signer is named on it, and the number of DISTINCT providers NAMED ON THAT FORM that signed
   since it was created (this signer included) is at least the AttestMinToPass in force. *)
Theorem C14_action_only_on_quorum :
  forall ops sg, Inv sg -> Forall step_respects_quorum (gtrace sg ops).
Proof. exact action_only_on_quorum. Qed.
Print Assumptions C14_action_only_on_quorum.

(* what acting means: the prover's LastProven becomes the current height, no other record and no
   file changes, the form is consumed *)
Theorem C14_attest_acted_refreshes_only_that_record :
  forall s c p fk h s', attest s c p fk h = (s', OActed) ->
    aget pkey_eqb (proofs s') (p, fk) = Some h /\ aget pkey_eqb (aforms s') (p, fk) = None /\
    (forall k, k <> (p, fk) -> aget pkey_eqb (proofs s') k = aget pkey_eqb (proofs s) k) /\ files s' = files s.
Proof. exact attest_acted_refreshes. Qed.
Print Assumptions C14_attest_acted_refreshes_only_that_record.

(* a report that acts on a file listing the prover once removes exactly that entry and the
   prover's record, and consumes the form (RemoveProverWithKey's in-place walk included) *)
Theorem C14_report_acted_removes_the_prover :
  forall s c p fk s' l1 l2,
    aget fkey_eqb (files s) fk = Some (l1 ++ p :: l2) -> ~ In p l1 -> ~ In p l2 ->
    do_report s c p fk = (s', OActed) ->
    aget fkey_eqb (files s') fk = Some (l1 ++ l2) /\ aget pkey_eqb (proofs s') (p, fk) = None /\
    aget pkey_eqb (rforms s') (p, fk) = None.
Proof. exact report_acted_removes. Qed.
Print Assumptions C14_report_acted_removes_the_prover.

(* a signature addressed to a form that does not exist (never created, or consumed), by a string
   not named on the form, or repeated by a provider whose entry is already complete (while the
   stored count is below the minimum in force) changes NOTHING in the whole state *)
Theorem C14_foreign_repeated_or_consumed_attest_is_noop :
  forall s c p fk h,
    aget pkey_eqb (aforms s) (p, fk) = None \/
    (exists f, aget pkey_eqb (aforms s) (p, fk) = Some f /\ listed f c = false) \/
    (exists f, aget pkey_eqb (aforms s) (p, fk) = Some f /\ already_signed f c /\ completes f < min_to_pass s) ->
    fst (step s (Attest c p fk h)) = s.
Proof. exact attest_noop. Qed.
Print Assumptions C14_foreign_repeated_or_consumed_attest_is_noop.

Theorem C14_foreign_repeated_or_consumed_report_is_noop :
  forall s c p fk,
    aget pkey_eqb (rforms s) (p, fk) = None \/
    (exists f, aget pkey_eqb (rforms s) (p, fk) = Some f /\ listed f c = false) \/
    (exists f, aget pkey_eqb (rforms s) (p, fk) = Some f /\ already_signed f c /\ completes f < min_to_pass s) ->
    fst (step s (Report c p fk)) = s.
Proof. exact report_noop. Qed.
Print Assumptions C14_foreign_repeated_or_consumed_report_is_noop.

(* the side condition of the repeated case: what a recorded signature leaves in the store is below
   the minimum that was in force; only a later lowering of AttestMinToPass (or an effect that
   failed because the file / prover was missing) can make a repeated signature the trigger — and
   then C14_action_only_on_quorum still applies to it *)
Theorem C14_recorded_form_is_below_the_minimum :
  forall forms s c k s' o, sign_shape forms s c k s' o -> o = ORecorded ->
    exists f', aget pkey_eqb (forms s') k = Some f' /\ completes f' < min_to_pass s.
Proof. exact recorded_below_minimum. Qed.
Print Assumptions C14_recorded_form_is_below_the_minimum.

(* a created form names exactly AttestFormSize pairwise distinct providers, each registered,
   holding at least one proof record, with a two-label host outside the prover's (domain, tld),
   and none of them is the prover's own address string — for every admissible shuffle *)
Theorem C14_attestation_form_names_only_registered_active_nonprover :
  forall s c fk perm s' chosen,
    NoDup (akeys (providers s)) -> step s (ReqAttest c fk perm) = (s', OCreated chosen) ->
    aget pkey_eqb (aforms s') (c, fk) = Some (blank chosen) /\
    Z.of_nat (length chosen) = form_size s /\ NoDup chosen /\ forall p, In p chosen -> named_ok s c p.
Proof. exact request_attestation_names. Qed.
Print Assumptions C14_attestation_form_names_only_registered_active_nonprover.

Theorem C14_report_form_names_only_registered_active_nonprover :
  forall s c p0 fk perm s' chosen,
    NoDup (akeys (providers s)) -> step s (ReqReport c p0 fk perm) = (s', OCreated chosen) ->
    aget pkey_eqb (rforms s') (p0, fk) = Some (blank chosen) /\
    Z.of_nat (length chosen) = form_size s /\ NoDup chosen /\ forall p, In p chosen -> named_ok s p0 p.
Proof. exact request_report_names_step. Qed.
Print Assumptions C14_report_form_names_only_registered_active_nonprover.

(* account level, since the repair 8a326f28 (InitProvider registers a provider only under the canonical,
   lower-case spelling of its address): no provider named on a form is the prover's own ACCOUNT under
   any spelling.  The harness checks [providers_canonical] on every observed state of the real app
   (monitor request/*/names-the-prover-account-in-another-spelling). *)
Theorem C14_attestation_form_never_names_the_provers_account :
  forall s c fk perm s' chosen,
    NoDup (akeys (providers s)) -> providers_canonical s ->
    step s (ReqAttest c fk perm) = (s', OCreated chosen) ->
    forall p, In p chosen -> same_account p c = false.
Proof. exact attestation_form_other_accounts. Qed.
Print Assumptions C14_attestation_form_never_names_the_provers_account.

Theorem C14_report_form_never_names_the_provers_account :
  forall s c p0 fk perm s' chosen,
    NoDup (akeys (providers s)) -> providers_canonical s ->
    step s (ReqReport c p0 fk perm) = (s', OCreated chosen) ->
    forall p, In p chosen -> same_account p p0 = false.
Proof. exact report_form_other_accounts. Qed.
Print Assumptions C14_report_form_never_names_the_provers_account.

(* a request answered with Success=false (or failing) writes nothing *)
Theorem C14_refused_request_writes_nothing :
  forall s o s' out, (exists c fk perm, o = ReqAttest c fk perm) \/ (exists c p fk perm, o = ReqReport c p fk perm) ->
    step s o = (s', out) -> (forall l, out <> OCreated l) -> s' = s.
Proof. exact refused_request_writes_nothing. Qed.
Print Assumptions C14_refused_request_writes_nothing.

(* ---- non-vacuity and edges, on concrete worlds (Proofs/FormsProofs.v: five providers in five
   domains, P and A prove file F, B C D prove file G) *)

(* FormSize 3, Min 2: the form names C A B; A signs, A repeats, D (unlisted) signs, an outsider
   signs, A's upper-case spelling signs — nothing acts; B's signature is the second distinct
   listed one and acts; afterwards C signs a consumed form: ignored *)
Example C14_run_acts_at_second_distinct_listed_signature :
  outcomes (ex_world 3 2)
    [ReqAttest xP xF [xC; xA; xB; xD]; Attest xA xP xF 10; Attest xA xP xF 11; Attest xD xP xF 12;
     Attest xOut xP xF 12; Attest (1%N, true) xP xF 12; Attest xB xP xF 13; Attest xC xP xF 14]
  = [OCreated [xC; xA; xB]; ORecorded; ORecorded; OIgnored; OIgnored; OIgnored; OActed; OIgnored]
  /\ aget pkey_eqb (proofs (fst (grun (ex_world 3 2, ex_ghost0)
       [ReqAttest xP xF [xC; xA; xB; xD]; Attest xA xP xF 10; Attest xA xP xF 11; Attest xD xP xF 12; Attest xB xP xF 13])))
       (xP, xF) = Some 13.
Proof. vm_compute. split; reflexivity. Qed.

(* the state in the middle of that run has a live form with a complete entry and satisfies Inv *)
Example C14_invariant_nontrivial :
  let sg := grun (ex_world 3 2, ex_ghost0) [ReqAttest xP xF [xC; xA; xB; xD]; Attest xA xP xF 10; Attest xD xP xF 11] in
  Inv sg /\ aget pkey_eqb (aforms (fst sg)) (xP, xF) = Some [(xC, false); (xA, true); (xB, false)] /\
  glog (ga (snd sg)) (xP, xF) = [xD; xA].
Proof.
  split; [apply Inv_run; split; [|split]; cbn; try discriminate; repeat constructor; cbn; intuition discriminate
         | vm_compute; split; reflexivity].
Qed.

(* reports: FormSize 2, Min 2, anybody may request; C signs twice (one counts), A's signature acts
   and removes P from the file; a further signature fails *)
Example C14_report_run :
  outcomes (ex_world 2 2)
    [ReqReport xOut xP xF [xC; xA; xB; xD]; Report xC xP xF; Report xC xP xF; Report xA xP xF; Report xA xP xF]
  = [OCreated [xC; xA]; ORecorded; ORecorded; OActed; OFail]
  /\ aget fkey_eqb (files (fst (grun (ex_world 2 2, ex_ghost0)
       [ReqReport xOut xP xF [xC; xA; xB; xD]; Report xC xP xF; Report xC xP xF; Report xA xP xF]))) xF = Some [xA].
Proof. vm_compute. split; reflexivity. Qed.

(* EDGE (mirrors the code; AttestMinToPass is read at signing time): with Min 3, A and B have signed;
   governance lowers Min to 2; A's REPEATED signature now triggers the action.  The quorum theorem
   holds at that step (two distinct listed signers, minimum in force 2); the no-op theorem does not
   apply because the stored count 2 is no longer below the minimum. *)
Example C14_repeated_signature_after_lowering_the_minimum_acts :
  outcomes (ex_world 3 3)
    [ReqAttest xP xF [xC; xA; xB; xD]; Attest xA xP xF 10; Attest xB xP xF 11; SetParams 3 2; Attest xA xP xF 12]
  = [OCreated [xC; xA; xB]; ORecorded; ORecorded; ODone; OActed].
Proof. vm_compute. reflexivity. Qed.

(* The defect repaired by 8a326f28, kept as a statement about states OUTSIDE [providers_canonical] (today
   reachable only through a genesis file that carries an upper-case provider record): providers are keyed
   by the raw address string, so with one account registered twice — lower- and upper-case spelled, in two
   domains — a form for the lower-case prover names the upper-case spelling of the SAME account, whose
   signature counts towards the quorum (monitor C14/request/*/names-the-prover-account-in-another-spelling). *)
Example C14_form_may_name_the_provers_own_account_in_its_other_spelling_refuted :
  exists s c fk perm s' p,
    NoDup (akeys (providers s)) /\ step s (ReqAttest c fk perm) = (s', OCreated [p]) /\
    same_account p c = true /\ p <> c /\
    snd (step s' (Attest p c fk 50)) = OActed.
Proof.
  exists ex_world_double, xP, xF, [xP_up; xA; xB; xC; xD],
         (fst (step ex_world_double (ReqAttest xP xF [xP_up; xA; xB; xC; xD]))), xP_up.
  split; [cbn; repeat constructor; cbn; intuition discriminate|].
  vm_compute. repeat split; try reflexivity. discriminate.
Qed.

(* ---------------------------------------------------------------------------------------------
   Tie to the code by translation + proof: the functions below are GENERATED on every run from /repo's
   current Go source (translator/gen_gofuncs.go -> Gen/GoForms.v); the theorems say that the hand-written model the
   property theorems above are about computes what the generated function computes, for all arguments. *)
From Coq Require Import String.
From JK Require Import Base.GoSem Gen.GoForms Proofs.GoTieForms.

(* Keeper.Attest and Keeper.DoReport, generated from the current source (the marking-and-counting loop is a read: is
   the signer named on the form, the count after marking): nothing is written for an absent form or an unnamed signer;
   below the minimum only the marked form is stored; at the minimum -- and only there -- the proof height is
   refreshed (the prover removed) and the form consumed; when the file or the prover is missing at that moment nothing
   at all is written.  The model's handlers are the interpretations of those events *)
Theorem C14_code_tie_Attest :
  forall s creator prover fk h,
    let fo := aget pkey_eqb (aforms s) (prover, fk) in
    let named := match fo with Some f => listed f creator | None => false end in
    let count := match fo with Some f => completes (mark f creator) | None => 0 end in
    let prs := aget fkey_eqb (files s) fk in
    let pv := match prs with Some l => GoTieForms.is_some (get_prover s l prover fk) | None => false end in
    attest s creator prover fk h
    = match gen_Attest (GoTieForms.is_some fo) named count (min_to_pass s) (GoTieForms.is_some prs) pv h 0, fo with
      | GVal ([Ev _ []; Ev _ []], true), Some f =>
          (set_aforms s (aset pkey_eqb (aforms s) (prover, fk) (mark f creator)), ORecorded)
      | GVal ([Ev _ [hh]; _; _], true), Some _ =>
          let s1 := set_proofs s (aset pkey_eqb (proofs s) (prover, fk) hh) in
          (set_aforms s1 (adel pkey_eqb (aforms s1) (prover, fk)), OActed)
      | _, _ => (s, OIgnored)
      end.
Proof. exact attest_is_the_interpretation. Qed.
Print Assumptions C14_code_tie_Attest.

Theorem C14_code_tie_closed_forms :
  forall form_found named count min file_found prover_ok h start,
    gen_Attest form_found named count min file_found prover_ok h start
    = (if negb (form_found && named) then GVal ([], false)
       else if count <? min then GVal ([Ev "marks-onto-form"%string []; Ev "store-form"%string []], true)
       else if negb (file_found && prover_ok) then GVal ([], false)
       else GVal ([Ev "refresh-last-proven"%string [h]; Ev "set-proof"%string []; Ev "consume-form"%string []], true)) /\
    gen_DoReport form_found named count min file_found start
    = (if negb (form_found && named) then GVal ([], false)
       else if count <? min then GVal ([Ev "marks-onto-form"%string []; Ev "store-form"%string []], true)
       else if negb file_found then GVal ([], false)
       else GVal ([Ev "consume-form"%string []; Ev "remove-prover"%string []], true)).
Proof.
  intros. exact (conj (gen_Attest_spec form_found named count min file_found prover_ok h start)
                      (gen_DoReport_spec form_found named count min file_found start)).
Qed.
Print Assumptions C14_code_tie_closed_forms.

Theorem C14_code_tie_DoReport :
  forall s creator prover fk,
    let fo := aget pkey_eqb (rforms s) (prover, fk) in
    let named := match fo with Some f => listed f creator | None => false end in
    let count := match fo with Some f => completes (mark f creator) | None => 0 end in
    let prs := aget fkey_eqb (files s) fk in
    do_report s creator prover fk
    = match gen_DoReport (GoTieForms.is_some fo) named count (min_to_pass s) (GoTieForms.is_some prs) 0, fo, prs with
      | GVal ([Ev _ []; Ev _ []], true), Some f, _ =>
          if completes (mark f creator) <? min_to_pass s
          then (set_rforms s (aset pkey_eqb (rforms s) (prover, fk) (mark f creator)), ORecorded)
          else match prs with
               | Some l =>
                   let s1 := set_rforms s (adel pkey_eqb (rforms s) (prover, fk)) in
                   match remove_prover l prover with
                   | None => (s, OPanic)
                   | Some None => (s1, OActed)
                   | Some (Some l') =>
                       let s2 := set_proofs s1 (adel pkey_eqb (proofs s1) (prover, fk)) in
                       (set_files s2 (aset fkey_eqb (files s2) fk l'), OActed)
                   end
               | None => (s, OFail)
               end
      | _, _, _ => (s, OFail)
      end.
Proof. exact do_report_is_the_interpretation. Qed.
Print Assumptions C14_code_tie_DoReport.
