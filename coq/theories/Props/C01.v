(* C01 — no storage reward or prover status without a valid proof of the challenged chunk.
   The Merkle verification itself is Model/Merkle.v (another package): here its verdict is the
   input [verified] of PostProof, arbitrary in every theorem.
   Quantification: all states and all messages for the two frame theorems; all histories of all
   operations (arbitrary inputs, including verdicts, drawn challenges, payment outcomes) from the
   empty store for the reward theorem. *)
From Coq Require Import ZArith NArith List Bool.
From JK Require Import Base.AList Model.StorageFiles Proofs.StorageFilesProofs.
Import ListNotations.
Open Scope Z_scope.

(* For all states and all PostProof messages: an answer Success=false leaves the state as it was;
   and if any file entry (hence any prover list) or any proof record differs afterwards, then the
   file was found, was not full for this sender (already listed, or room left), ToProve equals
   the stored challenge (the listed prover's ChunkToProve, 0 for a newcomer) and the proof
   verified. *)
Theorem C01_postproof_effects_only_on_valid_proof :
  forall s creator merkle owner start height to_prove verified new_chunk chunk_size,
  let r := post_proof s creator merkle owner start height to_prove verified new_chunk chunk_size in
  (r_success r = false -> r_state r = s) /\
  ((exists fk, get_file (r_state r) fk <> get_file s fk) \/ (exists k, get_proof (r_state r) k <> get_proof s k) ->
   exists f, get_file s (merkle, owner, start) = Some f /\
             (contains_prover f creator = true \/ len f < f_max f) /\
             to_prove = stored_challenge s f creator /\ verified = true).
Proof. exact postproof_effects. Qed.
Print Assumptions C01_postproof_effects_only_on_valid_proof.

(* An attestation never touches a file entry, and changes a proof record only when the form of
   the named (prover, file) exists, lists the attester and reaches AttestMinToPass with this
   attestation; the record changed is the one of that prover, who is listed on that file, and
   only its LastProven moves (to the current height). *)
Theorem C01_attest_refreshes_only_listed_prover_on_quorum :
  forall s creator prover merkle owner start height min_pass, Inv s ->
  let s' := r_state (attest s creator prover merkle owner start height min_pass) in
  (forall k, get_file s' k = get_file s k) /\
  (forall k, get_proof s' k <> get_proof s k ->
     exists fm f r, aget k4_eqb (attests s) (prover, merkle, owner, start) = Some fm /\
       is_listed creator (fm_atts fm) = true /\ min_pass <= count_complete (mark creator (fm_atts fm)) /\
       get_file s (fm_merkle fm, fm_owner fm, fm_start fm) = Some f /\
       In (mk_pkey f (fm_prover fm)) (f_proofs f) /\ k = mk_pkey f (fm_prover fm) /\
       get_proof s k = Some r /\
       get_proof s' k = Some {| p_prover := p_prover r; p_merkle := p_merkle r; p_owner := p_owner r;
                                p_start := p_start r; p_last := height; p_chunk := p_chunk r |}).
Proof. exact attest_effects. Qed.
Print Assumptions C01_attest_refreshes_only_listed_prover_on_quorum.

(* In every reachable state, whoever is listed as a prover of a file had a PostProof on that file
   accepted with a verifying proof at an earlier step of the history. *)
Theorem C01_listed_only_after_valid_proof :
  forall ops p fk, Listed (run init ops) p fk ->
    exists ops1 o ops2, ops = ops1 ++ o :: ops2 /\ accepted_valid (run init ops1) o (p, fk).
Proof.
  intros ops p fk L.
  destruct (ever_valid_history (p, fk) ops init inv_init (proj1 (ginv_history ops) p fk L)) as [[] | H]. exact H.
Qed.
Print Assumptions C01_listed_only_after_valid_proof.

(* For every history and every reward block after it: every (prover, file) the block credits
   (sizeTracker[prover] += FileSize, the only source of a payout) is a prover listed on that file,
   and an earlier step of the history is a PostProof by that prover on that file that was
   answered Success and whose proof verified. *)
Theorem C01_no_reward_without_valid_proof :
  forall ops height check_window p fk,
    In (p, fk) (credited (run init ops) (RewardBlock height check_window)) ->
    Listed (run init ops) p fk /\
    exists ops1 o ops2, ops = ops1 ++ o :: ops2 /\ accepted_valid (run init ops1) o (p, fk).
Proof. exact credited_only_after_valid_proof. Qed.
Print Assumptions C01_no_reward_without_valid_proof.

(* non-vacuity: a stranger's rejected submission (wrong chunk, then a proof that does not verify)
   leaves him unlisted and uncredited; the honest prover is credited in the first reward block
   and dropped, burned and no longer credited once his proof is a window old *)
Definition c01_demo : list op := [
  InitProvider 10 true;
  PostFile 1 100 5 0 4096 3 10 0 7 true;
  PostProof 20 100 1 5 6 7 true 0 1024;       (* ToProve 7, challenge 0: refused although it "verifies" *)
  PostProof 20 100 1 5 6 0 false 0 1024;      (* right chunk, proof does not verify: refused *)
  PostProof 10 100 1 5 6 0 true 2 1024 ]%N.

Example C01_demo_credit :
  credited (run init c01_demo) (RewardBlock 10 10) = [(10%N, (100%N, 1%N, 5))] /\
  ever_valid (run init c01_demo) = [(10%N, (100%N, 1%N, 5))] /\
  credited (run init (c01_demo ++ [RewardBlock 10 10])) (RewardBlock 30 10) = [] /\
  burns (run init (c01_demo ++ [RewardBlock 10 10; RewardBlock 30 10])) = [(10%N, 1)].
Proof. vm_compute. repeat split. Qed.

Example C01_demo_refusals :
  map (fun o => r_success (msg_step (run init (firstn 2 c01_demo)) o)) (firstn 2 (skipn 2 c01_demo)) = [false; false] /\
  run init (firstn 4 c01_demo) = run init (firstn 2 c01_demo).
Proof. vm_compute. split; reflexivity. Qed.
