(* C01 — no storage reward or prover status without a valid proof of the challenged chunk.
   The Merkle verification itself is Model/Merkle.v (another package): here its verdict is the
   input [verified] of PostProof, arbitrary in every theorem.
   Quantification: all states and all messages for the two frame theorems; all histories of all
   operations (arbitrary inputs, including verdicts, drawn challenges, payment outcomes) from the
   empty store for the reward theorem. *)
From Coq Require Import ZArith NArith List Bool.
From JK Require Import Base.Dec Base.AList Model.StorageFiles Proofs.StorageFilesProofs Proofs.StorageFilesFrame Proofs.StorageFilesRecency Proofs.StorageFilesJudged Proofs.RewardBridge.
Import ListNotations.
Open Scope Z_scope.

(* For all states and all PostProof messages: an answer Success=false leaves the state as it was;
   and if any file entry (hence any prover list) or any proof record differs afterwards, then the
   file was found, was not full for this sender (already listed, or room left), ToProve equals
   the stored challenge (the listed prover's ChunkToProve, 0 for a newcomer) and the proof
   verified. *)
Theorem C01_postproof_effects_only_on_valid_proof :
  forall s creator merkle owner start height to_prove verified new_chunk chunk_size,
  let r := post_proof s creator merkle owner start height to_prove verified new_chunk chunk_size in
  (r_success r = false -> r_state r = s) /\
  ((exists fk, get_file (r_state r) fk <> get_file s fk) \/ (exists k, get_proof (r_state r) k <> get_proof s k) ->
   exists f, get_file s (merkle, owner, start) = Some f /\
             (contains_prover f creator = true \/ len f < f_max f) /\
             to_prove = stored_challenge s f creator /\ verified = true).
Proof. exact postproof_effects. Qed.
Print Assumptions C01_postproof_effects_only_on_valid_proof.

(* A proof message concerns one (prover, file) pair: on every state of the C17 invariant, whatever the
   payload and the verdict, every proof record other than the sender's own record on the addressed file and
   every file entry other than the addressed one is left as it was.  In particular a prover is not kept
   "proven" on one stored copy of a merkle root by proving another copy. *)
Theorem C01_postproof_touches_only_its_own_pair :
  forall s creator merkle owner start height to_prove verified new_chunk chunk_size,
  Inv s ->
  let r := post_proof s creator merkle owner start height to_prove verified new_chunk chunk_size in
  (forall k, k <> (creator, owner, merkle, start) -> get_proof (r_state r) k = get_proof s k) /\
  (forall fk, fk <> (merkle, owner, start) -> get_file (r_state r) fk = get_file s fk).
Proof. exact postproof_frame. Qed.
Print Assumptions C01_postproof_touches_only_its_own_pair.

(* "Stays credited as a prover only by submitting a proof (or by a completed attestation quorum)": the reward block
   judges a listed prover by the LastProven of its proof record ([proven_last_block]); along every history from
   genesis, every LastProven value of every proof record is the height of an earlier step that was either an
   accepted PostProof with a verifying proof by that prover for that file, or an Attest that completed the quorum
   on the form of that prover and file.  Posting and deleting files, form requests, reports, provider
   registration and shutdown, and reward blocks never create a proof record nor move a LastProven
   ([step_last], [pshrinks_*] in Proofs/StorageFilesRecency.v). *)
Theorem C01_every_last_proven_is_the_height_of_a_valid_proof_or_quorum :
  forall k ops r,
    get_proof (run init ops) k = Some r ->
    exists ops1 o ops2, ops = ops1 ++ o :: ops2 /\ refreshed_by (run init ops1) o k (p_last r).
Proof. exact last_proven_from_genesis. Qed.
Print Assumptions C01_every_last_proven_is_the_height_of_a_valid_proof_or_quorum.

(* ... and one step at a time, from any state of the invariant: the record's LastProven is the old one, or the
   step is such a proof / quorum at the step's own height *)
Theorem C01_a_step_keeps_or_justifies_every_last_proven :
  forall s o k r', Inv s -> get_proof (step s o) k = Some r' ->
    (exists r, get_proof s k = Some r /\ p_last r = p_last r') \/ refreshed_by s o k (p_last r').
Proof. exact step_last. Qed.
Print Assumptions C01_a_step_keeps_or_justifies_every_last_proven.

(* An attestation never touches a file entry, and changes a proof record only when the form of
   the named (prover, file) exists, lists the attester and reaches AttestMinToPass with this
   attestation; the record changed is the one of that prover, who is listed on that file, and
   only its LastProven moves (to the current height). *)
Theorem C01_attest_refreshes_only_listed_prover_on_quorum :
  forall s creator prover merkle owner start height min_pass, Inv s ->
  let s' := r_state (attest s creator prover merkle owner start height min_pass) in
  (forall k, get_file s' k = get_file s k) /\
  (forall k, get_proof s' k <> get_proof s k ->
     exists fm f r, aget k4_eqb (attests s) (prover, merkle, owner, start) = Some fm /\
       is_listed creator (fm_atts fm) = true /\ min_pass <= count_complete (mark creator (fm_atts fm)) /\
       get_file s (fm_merkle fm, fm_owner fm, fm_start fm) = Some f /\
       In (mk_pkey f (fm_prover fm)) (f_proofs f) /\ k = mk_pkey f (fm_prover fm) /\
       get_proof s k = Some r /\
       get_proof s' k = Some {| p_prover := p_prover r; p_merkle := p_merkle r; p_owner := p_owner r;
                                p_start := p_start r; p_last := height; p_chunk := p_chunk r |}).
Proof. exact attest_effects. Qed.
Print Assumptions C01_attest_refreshes_only_listed_prover_on_quorum.

(* In every reachable state, whoever is listed as a prover of a file had a PostProof on that file
   accepted with a verifying proof at an earlier step of the history. *)
Theorem C01_listed_only_after_valid_proof :
  forall ops p fk, Listed (run init ops) p fk ->
    exists ops1 o ops2, ops = ops1 ++ o :: ops2 /\ accepted_valid (run init ops1) o (p, fk).
Proof.
  intros ops p fk L.
  destruct (ever_valid_history (p, fk) ops init inv_init (proj1 (ginv_history ops) p fk L)) as [[] | H]. exact H.
Qed.
Print Assumptions C01_listed_only_after_valid_proof.

(* For every history and every reward block after it: every (prover, file) the block credits
   (sizeTracker[prover] += FileSize, the only source of a payout) is a prover listed on that file,
   and an earlier step of the history is a PostProof by that prover on that file that was
   answered Success and whose proof verified. *)
Theorem C01_no_reward_without_valid_proof :
  forall ops height check_window p fk,
    In (p, fk) (credited (run init ops) (RewardBlock height check_window)) ->
    Listed (run init ops) p fk /\
    exists ops1 o ops2, ops = ops1 ++ o :: ops2 /\ accepted_valid (run init ops1) o (p, fk).
Proof. exact credited_only_after_valid_proof. Qed.
Print Assumptions C01_no_reward_without_valid_proof.

(* "stays credited … only by submitting a proof": for EVERY state, height and check window, whoever a reward block
   credits for a file is credited for a key that file lists as the block finds it, and either the file is still in
   its first proof interval, or the record stored under that key when the block began names the credited prover and
   carries a LastProven no older than the start of the file's last closed proof interval; by
   C01_every_last_proven_is_the_height_of_a_valid_proof_or_quorum that LastProven is the height of an accepted
   verifying proof by that prover on that file (or of a completed quorum) *)
Theorem C01_credited_only_with_a_proof_in_the_judged_interval :
  forall s h cw s' cr p fk,
    reward_block s h cw = Some (s', cr) -> In (p, fk) cr ->
    exists k0 f key, In (k0, f) (files1 s) /\ fk1 f = fk /\ In key (f_proofs f) /\
      (f_start f + f_interval f >= h \/
       exists r, get_proof s key = Some r /\ p_prover r = p /\
                 p_last r >= f_start f + ((h - f_start f) - Z.rem (h - f_start f) (f_interval f)) - f_interval f).
Proof. exact credited_only_when_judged_proven. Qed.
Print Assumptions C01_credited_only_with_a_proof_in_the_judged_interval.

(* non-vacuity: a stranger's rejected submission (wrong chunk, then a proof that does not verify)
   leaves him unlisted and uncredited; the honest prover is credited in the first reward block
   and dropped, burned and no longer credited once his proof is a window old *)
Definition c01_demo : list op := [
  InitProvider 10 true;
  PostFile 1 100 5 0 4096 3 10 0 7 true;
  PostProof 20 100 1 5 6 7 true 0 1024;       (* ToProve 7, challenge 0: refused although it "verifies" *)
  PostProof 20 100 1 5 6 0 false 0 1024;      (* right chunk, proof does not verify: refused *)
  PostProof 10 100 1 5 6 0 true 2 1024 ]%N.

Example C01_demo_credit :
  credited (run init c01_demo) (RewardBlock 10 10) = [(10%N, (100%N, 1%N, 5))] /\
  ever_valid (run init c01_demo) = [(10%N, (100%N, 1%N, 5))] /\
  credited (run init (c01_demo ++ [RewardBlock 10 10])) (RewardBlock 30 10) = [] /\
  burns (run init (c01_demo ++ [RewardBlock 10 10; RewardBlock 30 10])) = [(10%N, 1)].
Proof. vm_compute. repeat split. Qed.

Example C01_demo_refusals :
  map (fun o => r_success (msg_step (run init (firstn 2 c01_demo)) o)) (firstn 2 (skipn 2 c01_demo)) = [false; false] /\
  run init (firstn 4 c01_demo) = run init (firstn 2 c01_demo).
Proof. vm_compute. split; reflexivity. Qed.

(* ---------- C01 composed with C03: who is PAID ----------
   Model/StorageFiles.v models who the reward block credits, Model/Rewards.v (property C03) the size
   tracker and the payout of the same Go function (keeper/rewards.go).  Proofs/RewardBridge.v reads the
   input of the Rewards model off a StorageFiles state ([project]: per file of the primary index its
   Start / ProofInterval / FileSize, the prover strings of its listed keys, the FileProof records stored
   under those keys) and proves, by simulation of manageProof / ManageRewards over the file list and the
   copied prover list, on every state satisfying the C17 invariant:
   the two walks panic together, and otherwise the tracker Rewards builds is the replay
   (sizeTracker[prover] += FileSize, oldest first) of the credit list StorageFiles builds. *)
Theorem C01_reward_models_walk_alike :
  forall s h bu, Inv s ->
  match manage_files h (s, []) (map snd (files1 s)) with
  | Some (s', cr) => exists a, R.manage_all h (project s) bu = R.Ok a /\ R.as_tr a = replay (size_at s) cr /\
                       ((forall k f, get_file s k = Some f -> 0 <= f_size f) ->
                        credit_total (size_at s) cr <= slot_total (map snd (files1 s)))
  | None => R.manage_all h (project s) bu = R.Panic
  end.
Proof. exact bridge_tracker. Qed.
Print Assumptions C01_reward_models_walk_alike.

(* hence: every prover string with a non-zero tracker entry in the Rewards model is in StorageFiles' credit
   list; and when every stored file has a positive size and the listed total fits int64 (the hypothesis of
   C03_block_payout_hypotheses_hold on the denominator) the provers with a positive entry are exactly the
   credited ones *)
Theorem C01_counted_provers_are_the_credited_ones :
  forall s h bu s' cr a, Inv s ->
  manage_files h (s, []) (map snd (files1 s)) = Some (s', cr) -> R.manage_all h (project s) bu = R.Ok a ->
  R.as_tr a = replay (size_at s) cr /\
  (forall p, aval N.eqb (R.as_tr a) p <> 0 -> In p (map fst cr)) /\
  ((forall k f, get_file s k = Some f -> 0 < f_size f) -> RP.total_size (project s) <= int64_max ->
   forall p, In p (map fst cr) <-> 0 < aval N.eqb (R.as_tr a) p).
Proof. exact bridge_counted_credited. Qed.
Print Assumptions C01_counted_provers_are_the_credited_ones.

(* on the states histories reach, stored sizes are positive (PostFile refuses the others, nobody else
   changes a size), so only the int64 bound on the listed total remains *)
Theorem C01_stored_file_sizes_positive :
  forall ops k f, get_file (run init ops) k = Some f -> 0 < f_size f.
Proof. exact StorageFilesSizes.sp_history. Qed.
Print Assumptions C01_stored_file_sizes_positive.

Theorem C01_counted_provers_are_the_credited_ones_on_histories :
  forall ops h bu s' cr a, let s := run init ops in
  manage_files h (s, []) (map snd (files1 s)) = Some (s', cr) -> R.manage_all h (project s) bu = R.Ok a ->
  RP.total_size (project s) <= int64_max ->
  forall p, In p (map fst cr) <-> 0 < aval N.eqb (R.as_tr a) p.
Proof. exact bridge_counted_credited_history. Qed.
Print Assumptions C01_counted_provers_are_the_credited_ones_on_histories.

(* the well-formedness C03 assumes of every file (RP.wf_file: "invariant of C17") IS the C17 invariant read
   through the projection, up to the non-zero proof window, which [Inv] does not contain (PostFile copies
   the ProofWindow parameter unchecked; both models panic on a listed prover of a file with window 0) *)
Theorem C01_projection_meets_the_C03_assumption :
  forall s, Inv s -> (forall k f, get_file s k = Some f -> f_interval f <> 0) -> Forall RP.wf_file (project s).
Proof. exact project_wf. Qed.
Print Assumptions C01_projection_meets_the_C03_assumption.

(* so with non-zero windows neither walk panics and C03's closed form (C03_block_counts_exactly_once) gives
   the tracker that StorageFiles' credit list replays to *)
Theorem C01_credit_list_replays_to_the_C03_tracker :
  forall s h bu, Inv s -> (forall k f, get_file s k = Some f -> f_interval f <> 0) -> RP.bu_in64 bu ->
  exists s' cr a,
    manage_files h (s, []) (map snd (files1 s)) = Some (s', cr) /\
    R.manage_all h (project s) bu = R.Ok a /\ R.as_tr a = replay (size_at s) cr /\
    (forall p, aval N.eqb (replay (size_at s) cr) p = wrap64 (RP.credited h (project s) p)).
Proof. exact bridge_closed_form. Qed.
Print Assumptions C01_credit_list_replays_to_the_C03_tracker.

(* rewardAllProviders (Rewards.reward_all) raises a balance only for an account denoted by a prover string
   with a positive tracker entry — for every tracker, denominator, coin list and bank *)
Theorem C01_payout_raises_only_counted_accounts :
  forall macct accts total tr coins b b' x d,
  R.reward_all macct accts total tr coins b = R.Ok b' -> R.bal b x d < R.bal b' x d ->
  exists p, 0 < aval N.eqb tr p /\ aget N.eqb accts p = Some x.
Proof. exact reward_all_increase. Qed.
Print Assumptions C01_payout_raises_only_counted_accounts.

(* No account is ever paid storage rewards at a reward block for a file it has never validly proven.
   For every history [ops] from the empty store, every height and CheckWindow, every module account, every
   table [accts] from prover strings to the accounts they denote, every released coin list, every burn
   counters and every bank: if RunRewardBlock as computed by the Rewards model on the projection of the
   state reached by [ops] ends with a higher balance (any denomination) for an account x other than the
   storage module account, then x is denoted by a prover string p that the reward block credits for a file
   fk, p is listed on fk, and an earlier step of [ops] is a PostProof by p on fk that was answered Success
   and whose proof verified. *)
Theorem C01_paid_only_after_valid_proof :
  forall ops macct accts cw h coins bu bank st' x d,
  let s := run init ops in
  R.run_reward_block macct accts cw h coins {| R.b_files := project s; R.b_burn := bu; R.b_bank := bank |} = R.Ok st' ->
  x <> macct -> R.bal bank x d < R.bal (R.b_bank st') x d ->
  exists p fk, aget N.eqb accts p = Some x /\
    In (p, fk) (credited s (RewardBlock h cw)) /\ Listed s p fk /\
    exists ops1 o ops2, ops = ops1 ++ o :: ops2 /\ accepted_valid (run init ops1) o (p, fk).
Proof. exact paid_only_after_valid_proof. Qed.
Print Assumptions C01_paid_only_after_valid_proof.

(* non-vacuity: after c01_demo the projection is one file of 4096 bytes with prover 10 and his record;
   a reward block at height 10 releasing 1000 units of denomination 1 pays account 110 (denoted by prover
   string 10) all of it and nothing to 120 (string 20, whose two submissions were refused); the hypotheses
   of C01_paid_only_after_valid_proof hold for x = 110 *)
Definition c01_pay :=
  R.run_reward_block 900%N [(10, 110); (20, 120)]%N 10 10 [(1%N, 1000)]
    {| R.b_files := project (run init c01_demo); R.b_burn := burns (run init c01_demo); R.b_bank := [] |}.

Example C01_demo_projection :
  project (run init c01_demo) =
    [ {| R.f_start := 5; R.f_interval := 10; R.f_size := 4096; R.f_proofs := [10%N];
         R.f_recs := [(10%N, {| R.pr_prover := 10%N; R.pr_last := 6 |})]; R.f_live := true |} ].
Proof. vm_compute. reflexivity. Qed.

Example C01_demo_paid :
  match c01_pay with
  | R.Ok st => (R.bal (R.b_bank st) 110 1, R.bal (R.b_bank st) 120 1, R.bal (R.b_bank st) 900 1)%N
  | R.Panic => (0, 0, 0)
  end = (1000, 0, 0).
Proof. vm_compute. reflexivity. Qed.

Example C01_demo_paid_hypotheses :
  exists st', c01_pay = R.Ok st' /\ 110%N <> 900%N /\ R.bal [] 110%N 1%N < R.bal (R.b_bank st') 110%N 1%N.
Proof. eexists. split; [vm_compute; reflexivity|]. split; [discriminate | vm_compute; reflexivity]. Qed.

Example C01_demo_tracker_is_replay :
  match manage_files 10 (run init c01_demo, []) (map snd (files1 (run init c01_demo))),
        R.manage_all 10 (project (run init c01_demo)) (burns (run init c01_demo)) with
  | Some (_, cr), R.Ok a => (cr, R.as_tr a, replay (size_at (run init c01_demo)) cr, R.as_total a)
  | _, _ => ([], [], [], 0)
  end = ([(10%N, (100%N, 1%N, 5))], [(10%N, 4096)], [(10%N, 4096)], 4096).
Proof. vm_compute. reflexivity. Qed.

(* ---------------------------------------------------------------------------------------------
   Tie to the code by translation + proof: the functions below are GENERATED on every run from /repo's
   current Go source (translator/gen_gofuncs.go -> Gen/GoWindows.v); the theorems say that the hand-written model the
   property theorems above are about computes what the generated function computes, for all arguments. *)
From Coq Require Import String.
From JK Require Import Base.GoSem Gen.GoWindows Proofs.GoTieWindows.

(* keeper.manageProof, as generated from the current source, performs the events of one verdict, and the walk of
   Model/StorageFiles.v (the model of the C01/C17 theorems) does to its state what that verdict says: nothing is
   credited without the verdict Keep, which requires a proof record inside the judged interval or a young file *)
Theorem C01_code_tie_manageProof :
  forall h w key size, small h -> small (f_start (w_file w)) -> small (f_interval (w_file w)) ->
    let s := w_state w in let f := w_file w in
    gen_manageProof (f_start f) (f_interval f) h size (sf_found s key) (sf_last s key)
    = gmap (verdict_events size) (spec_verdict (f_start f) (f_interval f) h (sf_found s key) (sf_last s key)) /\
    manage_proof h w key
    = match spec_verdict (f_start f) (f_interval f) h (sf_found s key) (sf_last s key) with
      | GPanic => None
      | GVal VRemove =>
          match remove_prover_with_key s f key with
          | None => None
          | Some (s', f') => Some {| w_state := s'; w_file := f'; w_credits := w_credits w |}
          end
      | GVal VBurn =>
          match remove_prover_with_key s f key with
          | None => None
          | Some (s', f') => Some {| w_state := burn_contract s' (pk_prover key); w_file := f'; w_credits := w_credits w |}
          end
      | GVal VKeep => Some {| w_state := s; w_file := f; w_credits := (sf_who s key, fk1 f) :: w_credits w |}
      end.
Proof.
  intros h w key size Hh Hs Hp. cbv zeta.
  exact (conj (gen_manageProof_spec _ _ h size _ _ Hh Hs Hp) (storagefiles_manage_proof h w key)).
Qed.
Print Assumptions C01_code_tie_manageProof.

From JK Require Import Proofs.GoTiePostProof.

(* the whole PostProof handler (with UnifiedFile.Prove, SetProven and ResetChunkWithProof), generated from the current
   source: who may submit (a listed prover whose record is found, or a newcomer while there is room), the challenge
   named must be the stored one, the proof must verify -- and only then anything at all is written: the proof height,
   the next challenge, the newcomer's listing, the record.  A refusal answers Success=false with no event before it *)
Theorem C01_code_tie_PostProof :
  forall found nproofs maxp getprover_ok listed to_prove challenge start pi h last size chunk draw verified,
    small h -> small start -> int64_min < size <= int64_max ->
    gen_PostProof found nproofs maxp getprover_ok listed to_prove challenge start pi h last size chunk draw verified
    = postproof_spec found nproofs maxp getprover_ok listed to_prove challenge pi h size chunk draw verified.
Proof. exact gen_PostProof_spec. Qed.
Print Assumptions C01_code_tie_PostProof.

(* the model of the C01 / C17 theorems follows that closed form on the reads taken from its own state *)
Theorem C01_code_tie_model_post_proof_follows :
  forall s creator merkle owner start height to_prove verified new_chunk chunk_size size draw,
    let fo := get_file s (merkle, owner, start) in
    let nproofs := match fo with Some f => len f | None => 0 end in
    let maxp := match fo with Some f => f_max f | None => 0 end in
    let gp := match fo with Some f => get_prover s f creator | None => None end in
    let listed := match fo with Some f => contains_prover f creator | None => false end in
    let pi := match fo with Some f => f_interval f | None => 0 end in
    let chal := if (nproofs =? maxp) || listed then match gp with Some p => p_chunk p | None => 0 end else 0 in
    let model := post_proof s creator merkle owner start height to_prove verified new_chunk chunk_size in
    model = pp_verdict s (postproof_spec (GoTiePostProof.is_some fo) nproofs maxp (GoTiePostProof.is_some gp) listed to_prove chal pi height size chunk_size draw verified) model.
Proof. exact storagefiles_post_proof_follows. Qed.
Print Assumptions C01_code_tie_model_post_proof_follows.
