(* C20 — hashed file-tree paths keep the parent/child relation; a trailing slash is
   neutral; distinct segment sequences give distinct addresses (or an explicit hash
   collision).  Every theorem holds for an arbitrary hash function H. *)
From Coq Require Import NArith List Bool.
From JK Require Import Base.Bytes Hash.Sha256 Model.Paths Proofs.PathsProofs.
Import ListNotations.
Open Scope N_scope.

Theorem C20_child_address_relation :
  forall (H : bytes -> bytes) (parent child : bytes),
    child <> [] -> has_slash child = false -> ends_with_slash parent = false ->
    merkle_path H (parent ++ slash :: child)
    = add_to_merkle H (merkle_path H parent) (hexH H child).
Proof. exact child_relation. Qed.
Print Assumptions C20_child_address_relation.

Theorem C20_child_address_relation_trailing_slash :
  forall (H : bytes -> bytes) (parent child : bytes),
    child <> [] -> has_slash child = false -> ends_with_slash parent = false ->
    merkle_path H ((parent ++ slash :: child) ++ [slash])
    = add_to_merkle H (merkle_path H parent) (hexH H child).
Proof. exact child_relation_trailing. Qed.
Print Assumptions C20_child_address_relation_trailing_slash.

Theorem C20_trailing_slash_neutral :
  forall (H : bytes -> bytes) (p : bytes),
    ends_with_slash p = false -> merkle_path H (p ++ [slash]) = merkle_path H p.
Proof. exact trailing_neutral. Qed.
Print Assumptions C20_trailing_slash_neutral.

Theorem C20_post_file_returns_path_address :
  forall (H : bytes -> bytes) (parent child : bytes),
    child <> [] -> has_slash child = false -> ends_with_slash parent = false ->
    post_file_path H (merkle_path H parent) (hexH H child)
    = merkle_path H (parent ++ slash :: child).
Proof. exact post_file_address. Qed.
Print Assumptions C20_post_file_returns_path_address.

(* what a client derives from the plain path parent/child (types.MerkleHelper, the CLI's merkleHelper):
   exactly the parent's address and the hash of the child segment, and posting with them returns the
   address computed from the plain path *)
Theorem C20_client_derives_parent_and_child :
  forall (H : bytes -> bytes) (parent child : bytes),
    child <> [] -> has_slash child = false -> ends_with_slash parent = false ->
    client_split H (parent ++ slash :: child) = (merkle_path H parent, hexH H child).
Proof. exact client_split_parts. Qed.
Print Assumptions C20_client_derives_parent_and_child.

Theorem C20_client_post_returns_plain_path_address :
  forall (H : bytes -> bytes) (parent child : bytes),
    child <> [] -> has_slash child = false -> ends_with_slash parent = false ->
    let (hp, hc) := client_split H (parent ++ slash :: child) in
    post_file_path H hp hc = merkle_path H (parent ++ slash :: child).
Proof. exact client_split_recombines. Qed.
Print Assumptions C20_client_post_returns_plain_path_address.

Theorem C20_distinct_segments_distinct_addresses :
  forall (H : bytes -> bytes), (forall x, length (H x) = 32%nat) ->
  forall l1 l2 : list bytes, l1 <> [] -> l2 <> [] ->
    fold_segments H l1 = fold_segments H l2 -> l1 = l2 \/ collision H.
Proof. intros H HL l1 l2 N1 N2 E. exact (segments_injective H HL l1 l2 E N1 N2). Qed.
Print Assumptions C20_distinct_segments_distinct_addresses.

(* non-vacuity: the hypotheses are met by concrete paths, and the statement computes
   on them with the real hash *)
Example C20_hyps_met :
  let parent := [104; 111; 109; 101] (* "home" *) in
  let child := [112; 101; 112; 101] (* "pepe" *) in
  child <> [] /\ has_slash child = false /\ ends_with_slash parent = false /\
  merkle_path sha256 (parent ++ slash :: child)
  = add_to_merkle sha256 (merkle_path sha256 parent) (hexH sha256 child).
Proof.
  cbv zeta. split; [discriminate|]. split; [vm_compute; reflexivity|].
  split; [vm_compute; reflexivity|]. vm_compute. reflexivity.
Qed.
