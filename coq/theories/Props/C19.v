(* C19 — exporting and re-importing genesis preserves every custom module's state.

   Model (Model/Genesis.v): a module store maps a record kind (store prefix, Go type) to a finite map
   key -> value; ExportGenesis reads the kinds its getters list, InitGenesis is the fold of its setters
   (each writing the primary kind and its secondary indexes, keyed by the setter's key functions of the
   value) into an empty store; the keepers act on the store by set / delete through those setters'
   key functions, or by writes to kinds genesis does not list.  Key functions are interpreted by an
   ARBITRARY function of their name: the theorems hold for every such interpretation.

   Quantification: every genesis specification without clashes (spec_ok), every interpretation of the key
   functions under which the key functions of one record's indexes identify the same records
   (mirrors_equiv: FilesPrimaryKey / FilesSecondaryKey over Merkle, Owner, Start), every history of keeper
   operations.  The instance theorems quantify over every module of the table REGENERATED FROM THE GO
   SOURCES on this run (Gen/GenesisKinds.v) and are re-proved against it.

   On the unchanged tree the property is violated for five record kinds (known findings C19-1..5, protobuf
   schema changes needed); C19_roundtrip_except_known proves the round trip for every history avoiding
   exactly those, C19_omitted_kinds_are_exactly_the_known_ones pins the list to the source, and the
   ..._refuted theorems exhibit each loss on the model. *)
From Coq Require Import String List Bool.
From JK Require Import Base.AList.
From JK Require Import Model.Genesis.
From JK Require Import Proofs.GenesisProofs.
From JK Require Import Gen.GenesisKinds.
From JK Require Import Proofs.GenesisTableProofs.
Import ListNotations.
Open Scope string_scope.

(* import (export s) = s as finite maps, for every store satisfying the keepers' invariant *)
Theorem C19_roundtrip_generic :
  forall (K V : Type) (Keqb : K -> K -> bool), (forall a b, Keqb a b = true <-> a = b) ->
  forall (keyf : string -> V -> K) spec s,
    spec_ok spec = true -> mirrors_equiv K V keyf spec -> store_inv K V Keqb keyf spec s ->
    store_eq K V Keqb (import K V Keqb keyf spec (export K V spec s)) s.
Proof. exact roundtrip_generic. Qed.
Print Assumptions C19_roundtrip_generic.

(* export (import g) = g, list by list, for a genesis without duplicated indexes (what Validate checks) *)
Theorem C19_export_import_generic :
  forall (K V : Type) (Keqb : K -> K -> bool), (forall a b, Keqb a b = true <-> a = b) ->
  forall (keyf : string -> V -> K) spec g ks,
    spec_ok spec = true -> valid_gen K V keyf spec g -> In ks spec ->
    gget V (export K V spec (import K V Keqb keyf spec g)) (k_field ks) = gget V g (k_field ks).
Proof. exact export_import. Qed.
Print Assumptions C19_export_import_generic.

(* the invariant is not an assumption about reachable states: every history of set / delete operations on
   genesis-listed kinds establishes it, hence makes the round trip, and exporting again gives the same genesis *)
Theorem C19_roundtrip_every_history :
  forall (K V : Type) (Keqb : K -> K -> bool), (forall a b, Keqb a b = true <-> a = b) ->
  forall (keyf : string -> V -> K) spec ops,
    spec_ok spec = true -> mirrors_equiv K V keyf spec -> forallb (fun o => negb (is_raw K V o)) ops = true ->
    store_eq K V Keqb (import K V Keqb keyf spec (export K V spec (run K V Keqb keyf spec ops))) (run K V Keqb keyf spec ops) /\
    export K V spec (import K V Keqb keyf spec (export K V spec (run K V Keqb keyf spec ops))) = export K V spec (run K V Keqb keyf spec ops).
Proof. exact roundtrip_reachable. Qed.
Print Assumptions C19_roundtrip_every_history.

(* a record of any kind genesis does not list is readable before and gone after *)
Theorem C19_unlisted_kind_is_lost :
  forall (K V : Type) (Keqb : K -> K -> bool), (forall a b, Keqb a b = true <-> a = b) ->
  forall (keyf : string -> V -> K) spec s k key v,
    ~ In k (all_kids spec) ->
    lookup K V Keqb (import K V Keqb keyf spec (export K V spec (swrite K V Keqb s k key v))) k key = None /\
    lookup K V Keqb (swrite K V Keqb s k key v) k key = Some v.
Proof. exact raw_write_lost. Qed.
Print Assumptions C19_unlisted_kind_is_lost.

(* ---- on the table regenerated from the sources *)

(* the six modules are present, each module's specification is free of clashes, every secondary index is a
   checked mirror, and every record kind a live keeper function writes is either round-tripped or omitted *)
Theorem C19_table_well_formed :
  map m_name genesis_table = ["storage"; "rns"; "filetree"; "notifications"; "oracle"; "jklmint"] /\
  forallb module_ok genesis_table = true.
Proof. exact (conj table_modules table_modules_ok). Qed.
Print Assumptions C19_table_well_formed.

(* every written record kind of every module is exported and re-imported under the writer's key function,
   EXCEPT exactly these (the literal list of known_findings.json): a new omitted kind, or a kind dropped from
   ExportGenesis / InitGenesis by a code change, makes this equation false *)
Theorem C19_omitted_kinds_are_exactly_the_known_ones :
  omitted_names genesis_table =
  [("storage", "FileProof"); ("storage", "ActiveProviders"); ("rns", "PrimaryName");
   ("notifications", "Block"); ("jklmint", "MintedBlock")].
Proof. exact table_omitted_exactly_known. Qed.
Print Assumptions C19_omitted_kinds_are_exactly_the_known_ones.

(* for every module of the table: every history of keeper operations whose writes outside genesis avoid the
   known omitted kinds is restored exactly by export + import, and the second export equals the first *)
Theorem C19_roundtrip_except_known :
  forall (K V : Type) (Keqb : K -> K -> bool), (forall a b, Keqb a b = true <-> a = b) ->
  forall (keyf : string -> V -> K) m ops,
    In m genesis_table ->
    mirrors_equiv K V keyf (spec_of m) ->
    (forall k, In k (raw_kinds K V ops) -> In k (omitted m)) ->
    (forall k, In k (raw_kinds K V ops) ->
       ~ In (m_name m, kind_name k)
            [("storage", "FileProof"); ("storage", "ActiveProviders"); ("rns", "PrimaryName");
             ("notifications", "Block"); ("jklmint", "MintedBlock")]) ->
    let s := run K V Keqb keyf (spec_of m) ops in
    store_eq K V Keqb (import K V Keqb keyf (spec_of m) (export K V (spec_of m) s)) s /\
    export K V (spec_of m) (import K V Keqb keyf (spec_of m) (export K V (spec_of m) s)) = export K V (spec_of m) s.
Proof. exact roundtrip_except_known. Qed.
Print Assumptions C19_roundtrip_except_known.

(* the known kinds really are lost: one write of one record, export, import, the record is gone *)
Theorem C19_roundtrip_storage_refuted :
  refutes gk_storage ("FileProof/value/", "FileProof") = true /\
  refutes gk_storage ("ActiveProviders/value/", "ActiveProviders") = true.
Proof. exact (conj refuted_storage_FileProof refuted_storage_ActiveProviders). Qed.
Print Assumptions C19_roundtrip_storage_refuted.

Theorem C19_roundtrip_rns_refuted :
  existsb (fun k => String.eqb (kind_name k) "PrimaryName" && String.eqb (fst k) "PrimaryName/value/" && refutes gk_rns k) (omitted gk_rns) = true.
Proof. exact refuted_rns_PrimaryName. Qed.
Print Assumptions C19_roundtrip_rns_refuted.

Theorem C19_roundtrip_notifications_refuted : refutes gk_notifications ("Notification/", "Block") = true.
Proof. exact refuted_notifications_Block. Qed.
Print Assumptions C19_roundtrip_notifications_refuted.

Theorem C19_roundtrip_jklmint_refuted : refutes gk_jklmint ("last_block_minted", "MintedBlock") = true.
Proof. exact refuted_jklmint_MintedBlock. Qed.
Print Assumptions C19_roundtrip_jklmint_refuted.

Theorem C19_every_omitted_kind_refuted : forallb (fun m => forallb (refutes m) (omitted m)) genesis_table = true.
Proof. exact every_omitted_kind_refuted. Qed.
Print Assumptions C19_every_omitted_kind_refuted.

(* non-vacuity: the hypotheses of the theorems above are met by a concrete non-trivial storage history
   (two files with both indexes, a provider, a gauge, a removal, an overwrite, parameters) under the
   interpretation "a record is its own index", for which mirrors_equiv holds *)
Example C19_witness_history :
  (let s := wrun gk_storage demo_ops in
   wlook s ("FilesByOwner/value/", "UnifiedFile") "f2" = Some "f2" /\
   wlook s ("FilesByMerkle/value/", "UnifiedFile") "f1" = None /\
   wlook (wtrip gk_storage s) ("FilesByOwner/value/", "UnifiedFile") "f2" = Some "f2" /\
   export string string (spec_of gk_storage) (wtrip gk_storage s) = export string string (spec_of gk_storage) s /\
   length (all_kids (spec_of gk_storage)) = 9) /\
  forallb (fun o => negb (is_raw string string o)) demo_ops = true /\
  mirrors_equiv string string wkey (spec_of gk_storage).
Proof. split; [exact demo_nontrivial | split; [vm_compute; reflexivity | exact (wkey_equiv gk_storage)]]. Qed.
