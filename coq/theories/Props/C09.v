(* C09 — bid escrow is conserved: each escrowed token is refunded or paid to the seller.
   Quantification: every history of RNS operations (all messages, any signers / spellings / names /
   parse results, repeated bids on one slot in any denominations, height changes) from every state
   satisfying the inductive invariant Inv:
     bid keys are unique; for EVERY denomination the rns module balance equals the sum of the open bids;
     open bids hold non-negative coins; no listing was created by the module account.
   Inv holds in every genesis state whose module account is empty (C09_invariant_initial) and is
   preserved by every step (C09_invariant_step), hence in every reachable state.
   Assumptions on operations (wf_op): the module account never signs (it has no key), and the coins
   returned by sdk.ParseCoinsNormalized are non-negative (the harness checks Coins.IsValid on every parse). *)
From Coq Require Import ZArith NArith List Bool Lia.
From JK Require Import Base.AList Model.Rns Proofs.RnsProofs.
Import ListNotations.
Open Scope Z_scope.

Theorem C09_invariant_initial :
  forall b h, (forall d, bal b rns_mod d = 0) -> Inv (genesis b h).
Proof. exact Inv_genesis. Qed.
Print Assumptions C09_invariant_initial.

Theorem C09_invariant_step : forall s o, Inv s -> wf_op o -> Inv (next s o).
Proof. exact Inv_step. Qed.
Print Assumptions C09_invariant_step.

Theorem C09_invariant_reachable : forall ops s, Inv s -> Forall wf_op ops -> Inv (run ops s).
Proof. exact Inv_run. Qed.
Print Assumptions C09_invariant_reachable.

(* after every step of every history the module account holds exactly the sum of the open bids, per denom *)
Theorem C09_escrow_equals_open_bids :
  forall s0 ops, Inv s0 -> Forall wf_op ops -> Forall (holds_on escrow_prop) (trace s0 ops).
Proof. exact escrow_equals_open_bids. Qed.
Print Assumptions C09_escrow_equals_open_bids.

(* in every state satisfying Inv (every reachable one) cancelling an open bid cannot fail, returns exactly
   the escrowed coins to the bidder, takes exactly them out of the module account and closes the bid *)
Theorem C09_cancel_refunds_exactly :
  forall s (sg : addr) n bd,
    Inv s -> fst sg <> rns_mod -> get_bid s (sg, nm_full n) = Some bd ->
    exists s', handle s (CancelBid true sg n) = Some s' /\
      paid (bank_of s) (bank_of s') (fst sg) (b_price bd) /\
      (forall d, bal (bank_of s') rns_mod d = bal (bank_of s) rns_mod d - amt d (b_price bd)) /\
      get_bid s' (sg, nm_full n) = None.
Proof. exact cancel_refunds_exactly. Qed.
Print Assumptions C09_cancel_refunds_exactly.

(* accepting: when the owner's checks pass the payout cannot fail, the owner receives exactly the
   escrowed coins, the bid is gone, the name goes to the bidder *)
Theorem C09_accept_pays_owner_exactly_and_removes :
  forall s (sg : addr) n (from : addr) k w bd,
    Inv s -> fst sg <> rns_mod ->
    nm_key n = Some k -> get_name s k = Some w -> height s <= n_expires w ->
    n_value w = canon sg -> n_locked w <= height s ->
    get_bid s (from, nm_full n) = Some bd ->
    exists s', handle s (AcceptBid true sg n from) = Some s' /\
      paid (bank_of s) (bank_of s') (fst sg) (b_price bd) /\
      (forall d, bal (bank_of s') rns_mod d = bal (bank_of s) rns_mod d - amt d (b_price bd)) /\
      get_bid s' (from, nm_full n) = None /\
      get_name s' k = Some (with_owner_reset w (b_bidder bd)).
Proof. exact accept_pays_owner_exactly_and_removes. Qed.
Print Assumptions C09_accept_pays_owner_exactly_and_removes.

(* a successful bid takes exactly (new bid - replaced bid) from the bidder and is the open bid of the slot *)
Theorem C09_bid_moves_exactly_difference :
  forall s (sg : addr) n p s',
    fst sg <> rns_mod -> handle s (Bid true sg n (Some p)) = Some s' ->
    (forall d, bal (bank_of s') (fst sg) d =
               bal (bank_of s) (fst sg) d - amt d p + old_amt d (bids s) (canon sg, nm_full n)) /\
    get_bid s' (canon sg, nm_full n) = Some {| b_bidder := canon sg; b_price := p |}.
Proof. exact bid_moves_exactly_difference. Qed.
Print Assumptions C09_bid_moves_exactly_difference.

(* registrations, purchases and every other message that is no bid / cancel / accept leave the module
   balance (every denom) and the open bids exactly as they were, at every step of every history *)
Theorem C09_register_and_buy_leave_no_residue :
  forall s0 ops, Inv s0 -> Forall wf_op ops -> Forall (holds_on residue_prop) (trace s0 ops).
Proof. exact register_and_buy_leave_no_residue. Qed.
Print Assumptions C09_register_and_buy_leave_no_residue.

(* the key of a bid in the Go code is bidder ++ name: for bidder strings of one length it determines the pair *)
Theorem C09_bid_key_injective :
  forall (a a' n n' : list N), length a = length a' -> a ++ n = a' ++ n' -> a = a' /\ n = n'.
Proof. exact bid_key_injective. Qed.
Print Assumptions C09_bid_key_injective.

(* ---- non-vacuity *)
Example C09_genesis_satisfies_invariant : Inv (genesis ex_bank 2).
Proof. apply Inv_genesis. intros d. reflexivity. Qed.

Example C09_example_ops_wellformed : Forall wf_op (ex_bids ++ [CancelBid true ex_C ex_n1]).
Proof.
  repeat constructor; cbn; try discriminate; lia.
Qed.

(* the history that used to strand 100: bid 100, bid 50 on the same slot, cancel *)
Example C09_rebid_then_cancel :
  let s := run ex_bids (genesis ex_bank 2) in
  let s' := next s (CancelBid true ex_C ex_n1) in
  bal (bank_of s) rns_mod ujkl = 50 /\ bid_sum ujkl (bids s) = 50 /\
  bal (bank_of s) 4%N ujkl = 100000000 - 50 /\
  bal (bank_of s') rns_mod ujkl = 0 /\ bids s' = [] /\ bal (bank_of s') 4%N ujkl = 100000000.
Proof. vm_compute. repeat split; reflexivity. Qed.

(* ---------------------------------------------------------------------------------------------
   Tie to the code by translation + proof: the functions below are GENERATED on every run from /repo's
   current Go source (translator/gen_gofuncs.go -> Gen/GoRnsOwn.v); the theorems say that the hand-written model the
   property theorems above are about computes what the generated function computes, for all arguments. *)
From Coq Require Import String.
From JK Require Import Base.GoSem Gen.GoRnsOwn Proofs.GoTieRnsOwn.

(* the escrow handlers, generated from the current source: a bid escrows the new amount first, then refunds a bid it
   replaces, then writes the record; a cancellation refunds the stored amount to the sender and removes the record;
   nothing is written when a transfer fails.  The model's steps are the interpretations of the generated handlers *)
Theorem C09_code_tie_AddBid_and_CancelOneBid :
  forall s (sg : addr) n price,
    (let idx := (canon sg, nm_full n) in
     let old := get_bid s idx in
     let b1 := match price with Some p => send (bank_of s) (fst sg) rns_mod p | None => None end in
     let b2 := match b1, old with Some b, Some o => send b rns_mod (fst sg) (b_price o) | Some b, None => Some b | None, _ => None end in
     do_bid s sg n price
     = if ok_of (gen_AddBid true (GoTieRnsOwn.is_some price) (GoTieRnsOwn.is_some b1) (GoTieRnsOwn.is_some old) true (GoTieRnsOwn.is_some b2))
       then match b2, price with
            | Some b, Some p => Some (set_bids (set_bank s b) (aset bidkey_eqb (bids s) idx {| b_bidder := canon sg; b_price := p |}))
            | _, _ => None
            end
       else None) /\
    (let idx := (sg, nm_full n) in
     let bd := get_bid s idx in
     let b1 := match bd with Some x => send (bank_of s) rns_mod (fst sg) (b_price x) | None => None end in
     do_cancel s sg n
     = if ok_of (gen_CancelOneBid true (GoTieRnsOwn.is_some bd) true (GoTieRnsOwn.is_some b1))
       then match b1 with Some b => Some (set_bids (set_bank s b) (adel bidkey_eqb (bids s) idx)) | None => None end
       else None).
Proof. intros s sg n price. exact (conj (do_bid_is_the_interpretation s sg n price) (do_cancel_is_the_interpretation s sg n)). Qed.
Print Assumptions C09_code_tie_AddBid_and_CancelOneBid.
