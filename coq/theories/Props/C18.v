(* C18 — an inbox lists exactly the notifications sent to it, not blocked and not deleted.
   Quantification: every history (list of create / delete / block-senders messages, any signers in any
   spelling - parseable or not -, address and name targets with their resolution at send time given as
   glue, any block times, any from/time strings in deletes) run from the empty store through
   ValidateBasic + handler + cache context.
   Only assumption (wf_op): the canonical spellings produced by AccAddress.String() contain no '/'.
   The concrete model keeps ONE byte-keyed store with notifications (to/from/%d time) and block entries
   (owner/blocked) side by side, iterates by prefix with the bytes.Count(key,"/")==2 filter, and is related
   to the abstract specification (set of live notifications, set of (owner, sender) blocks). *)
From Coq Require Import ZArith NArith List Bool.
From JK Require Import Base.Bytes Base.AList Model.Notifications Proofs.NotificationsProofs.
Import ListNotations.

(* ---- key layout: the string-level facts the shared prefix relies on *)
Theorem C18_notification_keys_determine_their_fields :
  forall a f t a' b' t', nosl a -> nosl a' -> nosl b' ->
    nkey a f t = nkey a' b' t' -> a = a' /\ f = b' /\ t = t'.
Proof. exact nkey_inj. Qed.
Print Assumptions C18_notification_keys_determine_their_fields.

Theorem C18_notification_and_block_keys_disjoint :
  forall a f t o b, nosl o -> nosl b ->
    nkey a f t <> bkey o b /\ is_note_key (bkey o b) = false /\ (nosl a -> nosl f -> is_note_key (nkey a f t) = true).
Proof. exact keys_disjoint. Qed.
Print Assumptions C18_notification_and_block_keys_disjoint.

Theorem C18_prefix_scan_selects_one_recipient :
  forall a a' b t, nosl a -> nosl a' -> (is_prefix (a ++ [slash]) (nkey a' b t) = true <-> a = a').
Proof. exact prefix_nkey. Qed.
Print Assumptions C18_prefix_scan_selects_one_recipient.

(* ---- invariant and refinement *)
Theorem C18_invariant_over_histories :
  forall ops, Forall wf_op ops -> Inv (run ops).
Proof. exact run_Inv. Qed.
Print Assumptions C18_invariant_over_histories.

(* every handler commutes with the specification step (as sets: notifications, blocks) and gives the same outcome *)
Theorem C18_refinement_step :
  forall s o, Inv s -> wf_op o ->
    spec_equiv (abs (fst (step s o))) (fst (spec_step (abs s) o)) /\ snd (step s o) = snd (spec_step (abs s) o).
Proof. exact refinement_step. Qed.
Print Assumptions C18_refinement_step.

Theorem C18_refinement_histories :
  forall ops, Forall wf_op ops ->
    spec_equiv (abs (run ops)) (spec_run ops) /\ outs [] ops = spec_outs spec_init ops.
Proof. exact refinement_run. Qed.
Print Assumptions C18_refinement_histories.

(* the listing of an address IS the abstract inbox (same list, same order), each entry once *)
Theorem C18_inbox_query_is_abstract_inbox :
  forall s a, Inv s -> nosl a -> q_by_address s a = inbox (abs s) a /\ NoDup (q_by_address s a).
Proof. exact inbox_query_is_abstract_inbox. Qed.
Print Assumptions C18_inbox_query_is_abstract_inbox.

(* ---- the property over all histories *)
(* the inbox of a lists exactly the notifications successfully sent to a (recipient = what the target
   resolved to at send time, sender = the signer's account, time = block time, contents as given) that a
   has not deleted since *)
Theorem C18_inbox_is_sent_minus_deleted :
  forall ops a n, Forall wf_op ops -> nosl a ->
    (In n (q_by_address (run ops) a) <-> sent_live ops n /\ n_to n = a).
Proof. exact inbox_is_sent_live. Qed.
Print Assumptions C18_inbox_is_sent_minus_deleted.

Theorem C18_all_notifications_is_sent_minus_deleted :
  forall ops n, Forall wf_op ops ->
    (In n (q_all (run ops)) <-> sent_live ops n) /\
    (q_one (run ops) (n_to n) (n_from n) (n_time n) = Some n <-> sent_live ops n).
Proof. exact all_and_lookup_are_sent_live. Qed.
Print Assumptions C18_all_notifications_is_sent_minus_deleted.

(* listing order: the store is in ascending key order after every history, and the listing of an address is
   THE key-ordered enumeration of what was sent to it and not deleted (any sorted list with that content is it) *)
Theorem C18_store_sorted_over_histories :
  forall ops, sorted (run ops).
Proof. exact run_sorted. Qed.
Print Assumptions C18_store_sorted_over_histories.

Theorem C18_inbox_listing_determined :
  forall ops a l, Forall wf_op ops -> nosl a -> Sorted.StronglySorted note_lt l ->
    (forall n, In n l <-> sent_live ops n /\ n_to n = a) -> q_by_address (run ops) a = l.
Proof. exact inbox_listing_determined. Qed.
Print Assumptions C18_inbox_listing_determined.

(* when a send is accepted *)
Theorem C18_send_accepted_iff :
  forall ops cr tg now co pr j, Forall wf_op ops -> wf_op (Create cr tg now co pr j) ->
    let s := run ops in
    (snd (step s (Create cr tg now co pr j)) = Ok <->
     exists me to, sg_canon cr = Some me /\ tg = Some to /\ j = true /\ ~ In (to, me) (q_blocks s) /\
                   forall n, In n (q_all s) -> ~ (n_to n = to /\ n_from n = me /\ n_time n = now)).
Proof. exact send_accepted_iff_hist. Qed.
Print Assumptions C18_send_accepted_iff.

(* blocking is by account, whatever the spelling of the creator string (sg_raw crs is arbitrary) *)
Theorem C18_blocked_sender_cannot_deliver :
  forall ops1 ops2 crb ts owner b crs now co pr j,
    Forall wf_op ops1 -> wf_op (Block crb ts) -> Forall wf_op ops2 -> wf_op (Create crs (Some owner) now co pr j) ->
    snd (step (run ops1) (Block crb ts)) = Ok -> sg_canon crb = Some owner -> In (Some b) ts ->
    sg_canon crs = Some b ->
    let s := run (ops1 ++ Block crb ts :: ops2) in
    step s (Create crs (Some owner) now co pr j) = (s, Fail).
Proof. exact blocked_sender_cannot_deliver. Qed.
Print Assumptions C18_blocked_sender_cannot_deliver.

(* an entry that disappears was deleted by a delete message signed by its recipient *)
Theorem C18_only_recipient_deletes :
  forall ops o n, Forall wf_op ops -> wf_op o ->
    In n (q_all (run ops)) -> ~ In n (q_all (run (ops ++ [o]))) -> deletes o n.
Proof. exact only_recipient_deletes_hist. Qed.
Print Assumptions C18_only_recipient_deletes.

(* an entry that appears is the one a successful send just created; block and delete messages add nothing *)
Theorem C18_no_message_creates_foreign_entries :
  forall ops o n, Forall wf_op ops -> wf_op o ->
    ~ In n (q_all (run ops)) -> In n (q_all (run (ops ++ [o]))) ->
    snd (step (run ops) o) = Ok /\ creates o n.
Proof. exact no_foreign_entries_hist. Qed.
Print Assumptions C18_no_message_creates_foreign_entries.

Theorem C18_block_and_delete_add_nothing :
  forall ops o n, Forall wf_op ops -> wf_op o -> (forall cr t now co pr j, o <> Create cr t now co pr j) ->
    In n (q_all (run (ops ++ [o]))) -> In n (q_all (run ops)).
Proof. exact non_create_adds_nothing_hist. Qed.
Print Assumptions C18_block_and_delete_add_nothing.

(* ---- non-vacuity: a concrete history (accounts "a", "b", "c"; "B" = another spelling of b) *)
Definition xa : bytes := [97]%N.
Definition xb : bytes := [98]%N.
Definition xc : bytes := [99]%N.
Definition sg_a := mkSigner xa (Some xa).
Definition sg_b := mkSigner xb (Some xb).
Definition sg_B := mkSigner [66]%N (Some xb).
Definition sg_c := mkSigner xc (Some xc).
Definition ex_ops : list op :=
  [ Create sg_b (Some xa) 100 [123; 125]%N [] true;      (* b -> a, accepted *)
    Create sg_B (Some xa) 100 [49]%N [] true;            (* same block, same key: refused *)
    Create sg_c (Some xa) 100 [50]%N [] true;            (* c -> a, accepted *)
    Block sg_a [Some xb];                                (* a blocks b: no entry appears *)
    Create sg_B (Some xa) 200 [51]%N [] true;            (* blocked, upper-case creator: refused *)
    Delete sg_c xb 100;                                  (* a stranger "deletes": nothing happens *)
    Delete sg_a xc 100 ]%Z.                              (* the recipient deletes c's notification *)

Example C18_ex_wf : Forall wf_op ex_ops.
Proof.
  repeat constructor; try (intros a E; inversion E; subst; vm_compute; reflexivity); intros a E; discriminate.
Qed.
Example C18_ex_outs : outs [] ex_ops = [Ok; Fail; Ok; Ok; Fail; Ok; Ok].
Proof. vm_compute. reflexivity. Qed.
Example C18_ex_inbox :
  q_by_address (run ex_ops) xa = [mkNote xa xb 100 [123; 125]%N []] /\ q_blocks (run ex_ops) = [(xa, xb)].
Proof. vm_compute. split; reflexivity. Qed.
Example C18_ex_sent_live : sent_live ex_ops (mkNote xa xb 100 [123; 125]%N []).
Proof.
  exists [], (Create sg_b (Some xa) 100 [123; 125]%N [] true)%Z, (tl ex_ops).
  split; [reflexivity|]. split; [vm_compute; reflexivity|]. split; [exists xb; split; reflexivity|].
  repeat constructor; cbn; try tauto; intros [E1 [E2 E3]]; vm_compute in E1, E2; first [discriminate E1 | discriminate E2].
Qed.
(* the hypotheses of C18_blocked_sender_cannot_deliver are met by the first four messages + the block *)
Example C18_ex_block_hyp :
  snd (step (run (firstn 3 ex_ops)) (Block sg_a [Some xb])) = Ok /\ sg_canon sg_a = Some xa /\ sg_canon sg_B = Some xb.
Proof. vm_compute. repeat split; reflexivity. Qed.
(* the filter matters: without it the block entry would be listed (what the code did before ebcb0987) *)
Example C18_unfiltered_scan_lists_block_entry :
  map snd (filter (fun e => is_prefix (xa ++ [slash]) (fst e)) (run ex_ops)) =
  [block_entry xa xb; mkNote xa xb 100 [123; 125]%N []].
Proof. vm_compute. reflexivity. Qed.

(* ---------------------------------------------------------------------------------------------
   Tie to the code by translation + proof: the functions below are GENERATED on every run from /repo's
   current Go source (translator/gen_gofuncs.go -> Gen/GoNotif.v); the theorems say that the hand-written model the
   property theorems above are about computes what the generated function computes, for all arguments. *)
From Coq Require Import String.
From JK Require Import Base.GoSem Gen.GoNotif Proofs.GoTieNotif.

(* CreateNotification, generated from the current source: a notification is stored only for valid contents, a
   recipient that resolves, a sender the recipient has not blocked and a free to/from/time slot; the model's handler
   is the interpretation of that on the reads taken from its store *)
Theorem C18_code_tie_CreateNotification :
  forall s cr target now contents priv json_ok,
    let sender := sg_name cr in
    let n := match target with Some addr => mkNote addr sender now contents priv | None => mkNote [] sender now contents priv end in
    h_create s cr target now contents priv json_ok
    = match gen_CreateNotification json_ok (match target with Some _ => true | None => false end)
              (match target with Some addr => kv_has s (bkey addr sender) | None => false end)
              (kv_has s (nkey_of n)) with
      | GVal (_, true) => (kv_set s (nkey_of n) n, Ok)
      | _ => (s, Fail)
      end.
Proof. exact h_create_is_the_interpretation. Qed.
Print Assumptions C18_code_tie_CreateNotification.

(* DeleteNotification and BlockSenders, generated from the current source: deleting is one removal under the signer's
   own inbox key and never fails; blocking writes, sender after sender, one entry under the signer's own list and
   fails as a whole at the first sender that does not resolve *)
Theorem C18_code_tie_DeleteNotification_and_BlockSenders :
  forall s cr from t blocker target rest,
    h_delete s cr from t =
      match gen_DeleteNotification with
      | GVal ([_], true) => (kv_del s (nkey (sg_name cr) from t), Ok)
      | _ => (s, Fail)
      end /\
    h_block_loop s blocker (target :: rest) =
      match gen_BlockOne (match target with Some _ => true | None => false end), target with
      | GVal (_, true), Some a => h_block_loop (kv_set s (bkey blocker a) (block_entry blocker a)) blocker rest
      | _, _ => (s, Fail)
      end.
Proof. intros. split; [apply h_delete_is_the_interpretation | apply h_block_loop_is_the_interpretation]. Qed.
Print Assumptions C18_code_tie_DeleteNotification_and_BlockSenders.
