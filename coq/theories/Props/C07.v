(* C07 — plan space accounting matches the files actually held.
   Quantification: every state reachable from the empty stores by any history of
   BuyStorage / PostFile (plan-paid and pay-once, any key, re-posts included) / DeleteFile /
   reward blocks / prover changes by any accounts at any heights and times (Inv is inductive:
   C07_invariant_initial, C07_invariant_preserved), all message fields arbitrary integers
   (the size of a bought plan an int64: op_wf).  "Posted against the plan" is what the code
   takes it to be: Expires <= 0 (plan_paid); the footprint is FileSize * MaxProofs. *)
From Coq Require Import ZArith NArith List Bool.
From JK Require Import Base.Dec Base.AList Model.Plan Proofs.PlanProofs.
Import ListNotations.
Open Scope Z_scope.

Theorem C07_invariant_initial : Inv init.
Proof. exact inv_init. Qed.
Print Assumptions C07_invariant_initial.

Theorem C07_invariant_preserved : forall s o, Inv s -> op_wf o -> Inv (step s o).
Proof. exact step_inv. Qed.
Print Assumptions C07_invariant_preserved.

(* after every history, for every account with a plan: the space reported as used is the total
   footprint of the account's live plan-paid files, non-negative, at most the space bought *)
Theorem C07_space_used_matches_live_files :
  forall ops s a p, Inv s -> Forall op_wf ops -> get_plan (run s ops) a = Some p ->
    p_used p = plan_sum (files (run s ops)) a /\ 0 <= p_used p <= p_avail p.
Proof. exact space_used_matches_live_files. Qed.
Print Assumptions C07_space_used_matches_live_files.

(* plan_sum counts every live file exactly once (keys are unique): it splits into any one
   file's contribution and the sum over the others *)
Theorem C07_sum_counts_each_live_file_once :
  forall s k f a, Inv s -> get_file s k = Some f ->
    plan_sum (files s) a = contrib a (k, f) + plan_sum (adel fkey_eqb (files s) k) a.
Proof. intros s k f a I G. exact (plan_sum_single (files s) k f a (inv_ndf s I) G). Qed.
Print Assumptions C07_sum_counts_each_live_file_once.

(* a plan-paid post without a plan, on an expired plan, or beyond the remaining space (counting
   what a file stored under the same key gives back) fails and changes nothing *)
Theorem C07_post_rejects_without_plan_or_space :
  forall s h now w m, Inv s -> pm_expires m <= 0 ->
    (get_plan s (pm_creator m) = None \/
     exists p, get_plan s (pm_creator m) = Some p /\
       (p_end p < now \/ pm_size m * pm_maxp m > p_avail p - (p_used p - released s h m))) ->
    post_file s h now w m = (s, PlFail).
Proof. exact post_rejects_without_plan_or_space. Qed.
Print Assumptions C07_post_rejects_without_plan_or_space.

(* every post that does not succeed leaves plans and files exactly as they were *)
Theorem C07_failed_post_changes_nothing :
  forall s h now w m, snd (post_file s h now w m) <> PlOk -> fst (post_file s h now w m) = s.
Proof. exact post_fail_unchanged. Qed.
Print Assumptions C07_failed_post_changes_nothing.

(* conversely a valid plan-paid post within the remaining space of a live plan is accepted and
   adds exactly its footprint; no other plan and no other file changes *)
Theorem C07_post_within_space_accepted :
  forall s h now w m p, Inv s -> pm_expires m <= 0 ->
    0 < pm_size m -> 0 < pm_maxp m -> pm_size m * pm_maxp m <= int64_max -> pm_note_ok m = true ->
    get_plan s (pm_creator m) = Some p -> now <= p_end p ->
    pm_size m * pm_maxp m <= p_avail p - (p_used p - released s h m) ->
    snd (post_file s h now w m) = PlOk /\
    get_plan (fst (post_file s h now w m)) (pm_creator m) =
      Some (with_used p (p_used p - released s h m + pm_size m * pm_maxp m)) /\
    get_file (fst (post_file s h now w m)) (post_key h m) = Some (post_new w m) /\
    (forall a, a <> pm_creator m -> get_plan (fst (post_file s h now w m)) a = get_plan s a) /\
    (forall k, k <> post_key h m -> get_file (fst (post_file s h now w m)) k = get_file s k).
Proof. exact post_accepts_within_space. Qed.
Print Assumptions C07_post_within_space_accepted.

(* owner deletion: the file is gone, the owner's plan gets back exactly the footprint if the file
   was plan-paid (contrib is 0 otherwise and for every other account), nothing else changes *)
Theorem C07_removal_returns_footprint_on_delete :
  forall s c mk st f, Inv s -> get_file s (mk, c, st) = Some f ->
    get_file (fst (delete_file s c mk st)) (mk, c, st) = None /\
    (forall k, k <> (mk, c, st) -> get_file (fst (delete_file s c mk st)) k = get_file s k) /\
    (forall a, get_plan (fst (delete_file s c mk st)) a =
       match get_plan s a with
       | None => None
       | Some p => Some (with_used p (p_used p - contrib a ((mk, c, st), f)))
       end).
Proof. exact delete_returns_footprint. Qed.
Print Assumptions C07_removal_returns_footprint_on_delete.

Theorem C07_delete_of_absent_file_changes_nothing :
  forall s c mk st, get_file s (mk, c, st) = None -> fst (delete_file s c mk st) = s.
Proof. exact delete_absent_unchanged. Qed.
Print Assumptions C07_delete_of_absent_file_changes_nothing.

(* reward block at a multiple of CheckWindow: exactly the files without provers that are past
   their first proof window cease to exist, and every plan gets back the footprints of its
   account's plan-paid files among them (dropped_sum); available space and end are untouched *)
Theorem C07_removal_returns_footprint_on_chain_drop :
  forall s h cw, Inv s -> Z.rem h cw <= 0 ->
    (forall k, get_file (reward_block s h cw) k =
       match get_file s k with
       | Some f => if dropped h (k, f) then None else Some f
       | None => None
       end) /\
    (forall a, get_plan (reward_block s h cw) a =
       match get_plan s a with
       | None => None
       | Some p => Some (with_used p (p_used p - dropped_sum h (files s) a))
       end).
Proof. exact reward_returns_footprints. Qed.
Print Assumptions C07_removal_returns_footprint_on_chain_drop.

(* buying: a plan smaller than the current usage is refused; an accepted purchase carries the
   usage over and touches no file and no other plan *)
Theorem C07_buy_refuses_plan_below_usage :
  forall s now m p, get_plan s (bm_for m) = Some p -> p_used p > bm_bytes m ->
    buy_storage s now m = (s, PlFail).
Proof. exact buy_refuses_below_usage. Qed.
Print Assumptions C07_buy_refuses_plan_below_usage.

Theorem C07_buy_carries_usage_over :
  forall s now m, snd (buy_storage s now m) = PlOk ->
    get_plan (fst (buy_storage s now m)) (bm_for m) =
      Some {| p_avail := bm_bytes m;
              p_used := match get_plan s (bm_for m) with Some p => p_used p | None => 0 end;
              p_end := now + buy_duration (bm_days m) |} /\
    files (fst (buy_storage s now m)) = files s /\
    (forall a, a <> bm_for m -> get_plan (fst (buy_storage s now m)) a = get_plan s a).
Proof. exact buy_ok_carries_usage. Qed.
Print Assumptions C07_buy_carries_usage_over.

(* GetClientFreeSpace reports available minus the footprint of the live plan-paid files *)
Theorem C07_free_space_query :
  forall s a p, Inv s -> get_plan s a = Some p ->
    free_space s a = p_avail p - plan_sum (files s) a /\ 0 <= free_space s a.
Proof. exact free_space_spec. Qed.
Print Assumptions C07_free_space_query.

Definition p_used_of (o : option plan) : option Z := match o with Some p => Some (p_used p) | None => None end.

(* ---- non-vacuity: a concrete history (the one that used to break the accounting) *)
Definition ex_t0 : Z := 1700000000000000000.
Definition ex_buy : buy_msg :=
  {| bm_for := 1; bm_days := 30; bm_bytes := 3000000000; bm_resolve_ok := true;
     bm_denom_ok := true; bm_upgrade_ok := true; bm_pay_ok := true |}.
Definition ex_post (mk : N) (sz mp ex : Z) : post_msg :=
  {| pm_creator := 1; pm_merkle := mk; pm_size := sz; pm_maxp := mp; pm_expires := ex;
     pm_note_ok := true; pm_pay_ok := true |}.
Definition ex_ops : list op :=
  [ OpBuy ex_t0 ex_buy;
    OpPost 2 ex_t0 50 (ex_post 1 3000 1 0);
    OpPost 2 ex_t0 50 (ex_post 1 3000 1 0);          (* identical re-post in the same block *)
    OpPost 2 ex_t0 50 (ex_post 2 1000 3 (-1));       (* negative expiry: plan-paid *)
    OpPost 2 ex_t0 50 (ex_post 3 70000 2 43202);     (* pay-once *)
    OpPost 40 ex_t0 50 (ex_post 4 5 1 0) ].

Example C07_example_state :
  Forall op_wf ex_ops /\ Inv (run init ex_ops) /\
  get_plan (run init ex_ops) 1%N = Some {| p_avail := 3000000000; p_used := 6005; p_end := ex_t0 + 30 * day_ns |} /\
  length (files (run init ex_ops)) = 4%nat.
Proof.
  assert (W : Forall op_wf ex_ops) by (repeat constructor; vm_compute; discriminate).
  split; [exact W|]. split; [exact (run_inv ex_ops init inv_init W)|].
  split; vm_compute; reflexivity.
Qed.

(* deleting the first file returns its 3000; a reward block at height 100 then drops every file that
   has no prover and is past its first window (all of them here; only the plan-paid ones count for
   the plan), while a file that got a prover in between stays and keeps its 3000 *)
Example C07_example_removals :
  p_used_of (get_plan (step (run init ex_ops) (OpDelete 1 1 2)) 1%N) = Some 3005 /\
  p_used_of (get_plan (step (step (run init ex_ops) (OpDelete 1 1 2)) (OpProvers (2%N, 1%N, 2) 1)) 1%N) = Some 3005 /\
  p_used_of (get_plan (run (run init ex_ops) [OpDelete 1 1 2; OpProvers (2%N, 1%N, 2) 1; OpReward 100 100]) 1%N) = Some 3000 /\
  p_used_of (get_plan (run (run init ex_ops) [OpDelete 1 1 2; OpReward 100 100]) 1%N) = Some 0.
Proof. vm_compute. repeat split; reflexivity. Qed.

(* a post beyond the remaining space, on an expired plan, by an account without a plan *)
Example C07_example_rejections :
  post_file (run init ex_ops) 3 ex_t0 50 (ex_post 5 2999993996 1 0) = (run init ex_ops, PlFail) /\
  snd (post_file (run init ex_ops) 3 ex_t0 50 (ex_post 5 2999993995 1 0)) = PlOk /\
  post_file (run init ex_ops) 3 (ex_t0 + 30 * day_ns + 1) 50 (ex_post 5 1 1 0) = (run init ex_ops, PlFail) /\
  snd (post_file (run init ex_ops) 3 (ex_t0 + 30 * day_ns) 50 (ex_post 5 1 1 0)) = PlOk /\
  post_file (run init ex_ops) 3 ex_t0 50 {| pm_creator := 2; pm_merkle := 5; pm_size := 1; pm_maxp := 1;
     pm_expires := 0; pm_note_ok := true; pm_pay_ok := true |} = (run init ex_ops, PlFail).
Proof. vm_compute. repeat split; reflexivity. Qed.

(* without the int64 guard of 9329c971 the sum would wrap: the model keeps the guard *)
Example C07_example_int64_guard :
  let big := {| bm_for := 1; bm_days := 30; bm_bytes := int64_max; bm_resolve_ok := true;
                bm_denom_ok := true; bm_upgrade_ok := true; bm_pay_ok := true |} in
  let s := run init [OpBuy ex_t0 big; OpPost 2 ex_t0 50 (ex_post 1 (2 ^ 62) 1 0)] in
  post_file s 2 ex_t0 50 (ex_post 2 (2 ^ 62 + 5) 1 0) = (s, PlFail) /\ wrap64 (2 ^ 62 + (2 ^ 62 + 5)) < 0.
Proof. vm_compute. split; reflexivity. Qed.

(* ---------------------------------------------------------------------------------------------
   Tie to the code by translation + proof: the functions below are GENERATED on every run from /repo's
   current Go source (translator/gen_gofuncs.go -> Gen/GoWindows.v); the theorems say that the hand-written model the
   property theorems above are about computes what the generated function computes, for all arguments. *)
From Coq Require Import String.
From JK Require Import Base.GoSem Gen.GoWindows Proofs.GoTieWindows.

(* removeFileIfDeserved (the reward block's drop of a prover-less file past its first window) removes exactly the
   files Model/Plan.v's [dropped] names -- int64 wrap of Start+ProofInterval included, no range assumed *)
Theorem C07_code_tie_chain_drop :
  forall h kf,
    gen_removeFileIfDeserved (k_start (fst kf)) (f_pi (snd kf)) h (f_provers (snd kf))
    = GVal (if dropped h kf then [Ev "remove-file"%string []] else []).
Proof. exact plan_dropped. Qed.
Print Assumptions C07_code_tie_chain_drop.

From JK Require Import Gen.GoPrice Proofs.GoTiePost.

(* the plan branch of the storage PostFile handler, generated from the current source as a whole: the file under the
   same key is released first, the new file written, then the post is refused without a plan, with a plan that is
   over, or beyond the remaining space (compared without overflow), and otherwise the plan's usage grows by exactly
   the footprint; the model's step is the interpretation of these events on the plan read after the release *)
Theorem C07_code_tie_PostFile_against_the_plan :
  forall window h size maxp expires ppt jkl refc polr c1 c2 c3 c4 found plan_over avail used,
    expires <= 0 ->
    gen_PostFile true window h size maxp expires ppt jkl refc polr c1 c2 c3 c4 found plan_over avail used
    = GVal (plan_events window size maxp expires found plan_over avail used).
Proof.
  intros. rewrite gen_PostFile_spec. cbn [negb].
  destruct (Z.ltb_spec 0 expires); [|reflexivity]. exfalso. apply (Z.lt_irrefl 0). eapply Z.lt_le_trans; eassumption.
Qed.
Print Assumptions C07_code_tie_PostFile_against_the_plan.

Theorem C07_code_tie_model_post_file_interprets_the_events :
  forall s h now window m,
    0 < pm_size m -> 0 < pm_maxp m -> pm_size m <= Z.quot int64_max (pm_maxp m) -> pm_expires m <= 0 ->
    let key : fkey := (pm_merkle m, pm_creator m, h) in
    let s1 := remove_file s key in
    let f := {| f_size := pm_size m; f_maxp := pm_maxp m; f_expires := pm_expires m; f_pi := window; f_provers := 0 |} in
    let s2 := {| plans := plans s1; files := aset fkey_eqb (files s1) key f |} in
    let p := get_plan s2 (pm_creator m) in
    let avail := match p with Some q => p_avail q | None => 0 end in
    let used := match p with Some q => p_used q | None => 0 end in
    let over := match p with Some q => p_end q <? now | None => false end in
    post_file s h now window m
    = if negb (pm_note_ok m) then (s, PlFail)
      else match plan_events window (pm_size m) (pm_maxp m) (pm_expires m) (is_some p) over avail used, p with
           | (_, true), Some q =>
               (set_plan s2 (pm_creator m) (with_used q (wrap64 (p_used q + wrap64 (pm_size m * pm_maxp m)))), PlOk)
           | _, _ => (s, PlFail)
           end.
Proof. exact plan_post_file_is_the_interpretation. Qed.
Print Assumptions C07_code_tie_model_post_file_interprets_the_events.


(* keeper.RemoveFile, generated from the current source (the record field it updates in place is a translated
   variable): the footprint FileSize*MaxProofs of a file with Expires <= 0 is taken off the usage of the plan stored
   under the file's owner, never below zero, before both index entries go; the model's remove_file is the
   interpretation of those events *)
Theorem C07_code_tie_RemoveFile :
  forall s k,
    let f := get_file s k in
    let p := get_plan s (k_owner k) in
    remove_file s k
    = match gen_RemoveFile (GoTiePost.is_some f) (match f with Some x => f_expires x | None => 0 end)
              (match f with Some x => f_size x | None => 0 end) (match f with Some x => f_maxp x | None => 0 end)
              (GoTiePost.is_some p) (match p with Some q => p_used q | None => 0 end) (k_start k) with
      | GVal [] => s
      | GVal [_; Ev _ [u]; _; _] =>
          match p with
          | Some q => {| plans := plans (set_plan s (k_owner k) (with_used q u)); files := adel fkey_eqb (files s) k |}
          | None => s
          end
      | GVal _ => {| plans := plans s; files := adel fkey_eqb (files s) k |}
      | GPanic => s
      end.
Proof. exact plan_remove_file_is_the_interpretation. Qed.
Print Assumptions C07_code_tie_RemoveFile.
