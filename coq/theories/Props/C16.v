(* C16 — registering a name charges the listed price and yields a live name for the term.

   Quantification: every state of the Names / PrimaryName stores and of the bank whose stored expiries
   are int64 values (`wf`, an invariant of every history), every operation (any name, length, TLD,
   year count incl. non-positive and overflowing ones, any sender and spelling, any data, any block
   height 0 <= h <= 2^63-1), and every history of such operations.  The price is the explicit list
   `listed_price` (ujkl per year by length of the name and TLD), proved equal to the model's
   GetCostOfName.  `o_sender op` is the account that owner.String() denotes, `a_mod` the rns module
   account, `a_pol` the protocol-owned-liquidity account; the balance statements are for registrants
   other than these two (nobody holds their keys). *)
From Coq Require Import ZArith NArith List Bool Lia.
From JK Require Import Base.Dec Base.AList Base.Bytes Model.RnsReg Proofs.RnsRegProofs Proofs.RnsInitProofs.
Import ListNotations.
Open Scope Z_scope.

(* the cost function of the code is the price list *)
Theorem C16_price_list :
  forall len t, len <> 0 -> cost_of_name len t = Some (listed_price len t).
Proof. exact cost_listed. Qed.
Print Assumptions C16_price_list.

Example C16_price_list_table :
  map (fun l => listed_price l Jkl) [1; 2; 3; 4; 5; 6; 12] =
    [240000000; 120000000; 60000000; 30000000; 10000000; 10000000; 10000000] /\
  map (fun l => listed_price l Ibc) [1; 2; 3; 4; 5; 6; 12] =
    [1200000000; 600000000; 300000000; 150000000; 50000000; 50000000; 50000000].
Proof. split; reflexivity. Qed.

(* the name that is priced and stored: keeper.GetNameAndTLD cuts the last four bytes off the
   normalised string -- one separator byte and the TLD -- so `len` in the statements below is the byte
   length of what remains, and it is never 0 *)
Theorem C16_parsed_name_shape :
  forall s nm t, name_and_tld s = Some (nm, t) ->
    (exists c, s = nm ++ c :: tld_bytes t) /\ nm <> [] /\ (length nm + 4 = length s)%nat.
Proof. exact name_and_tld_shape. Qed.
Print Assumptions C16_parsed_name_shape.

Example C16_parse_examples :       (* "BoB.jkl" -> ("bob", jkl); "ab c ibc" -> ("ab", ibc); ".jkl" -> error *)
  name_and_tld (normalize [66; 111; 66; 46; 106; 107; 108]%N) = Some ([98; 111; 98]%N, Jkl) /\
  name_and_tld (normalize [97; 98; 32; 99; 32; 105; 98; 99]%N) = Some ([97; 98]%N, Ibc) /\
  name_and_tld (normalize [46; 106; 107; 108]%N) = None.
Proof. vm_compute. repeat split; reflexivity. Qed.

(* a successful registration for Y years: Y >= 1, the registrant pays exactly Y * price, all of it
   reaches the POL account, the module account keeps nothing, nobody else's balance moves *)
Theorem C16_register_charges_exactly :
  forall acc s op s' idx len t,
    register acc s op = (Ok, s') -> o_parse op = Some (idx, len, t) ->
    a_mod acc <> a_pol acc -> o_sender op <> a_mod acc -> o_sender op <> a_pol acc ->
    let due := o_years op * listed_price len t in
    1 <= o_years op /\ 1 <= due <= MAX /\
    bal (s_bank s') (o_sender op) = bal (s_bank s) (o_sender op) - due /\
    bal (s_bank s') (a_pol acc) = bal (s_bank s) (a_pol acc) + due /\
    bal (s_bank s') (a_mod acc) = bal (s_bank s) (a_mod acc) /\
    forall y, y <> o_sender op -> y <> a_pol acc -> bal (s_bank s') y = bal (s_bank s) y.
Proof. exact register_charges_exactly. Qed.
Print Assumptions C16_register_charges_exactly.

(* a registration that does not succeed costs nothing and changes nothing; it never panics *)
Theorem C16_register_fail_noop :
  forall acc s op o s', register acc s op = (o, s') -> o <> Ok -> s' = s /\ o = Fail.
Proof. exact register_fail_noop. Qed.
Print Assumptions C16_register_fail_noop.

(* afterwards the name belongs to the registrant and is unexpired for at least Y years from now *)
Theorem C16_registered_live_for_term :
  forall acc s op s' idx len t,
    wf s -> valid_height (o_height op) ->
    register acc s op = (Ok, s') -> o_parse op = Some (idx, len, t) ->
    exists w', lookup s' idx = Some w' /\ n_owner w' = o_sender op /\
               o_height op + o_years op * blocks_per_year <= n_expires w' /\ o_height op < n_expires w'.
Proof. exact registered_live_for_term. Qed.
Print Assumptions C16_registered_live_for_term.

(* renewing a still-live name (only its owner can) extends the expiry by exactly Y years *)
Theorem C16_renewal_extends_exactly :
  forall acc s op s' idx len t w,
    wf s -> valid_height (o_height op) ->
    register acc s op = (Ok, s') -> o_parse op = Some (idx, len, t) ->
    lookup s idx = Some w -> o_height op < n_expires w ->
    n_owner w = o_sender op /\
    exists w', lookup s' idx = Some w' /\ n_owner w' = n_owner w /\
               n_expires w' = n_expires w + o_years op * blocks_per_year.
Proof. exact renewal_extends_exactly. Qed.
Print Assumptions C16_renewal_extends_exactly.

(* a new name and a lapsed one (whoever held it) run for exactly Y years from the current block *)
Theorem C16_new_or_lapsed_runs_from_now :
  forall acc s op s' idx len t,
    wf s -> valid_height (o_height op) ->
    register acc s op = (Ok, s') -> o_parse op = Some (idx, len, t) ->
    (forall w, lookup s idx = Some w -> n_expires w <= o_height op) ->
    exists w', lookup s' idx = Some w' /\ n_owner w' = o_sender op /\
               n_expires w' = o_height op + o_years op * blocks_per_year.
Proof. exact fresh_term_from_now. Qed.
Print Assumptions C16_new_or_lapsed_runs_from_now.

(* a live name cannot be registered by anyone but its owner *)
Theorem C16_live_name_not_registrable_by_other :
  forall acc s op idx len t w,
    o_parse op = Some (idx, len, t) -> lookup s idx = Some w ->
    o_height op < n_expires w -> n_owner w <> o_sender op ->
    register acc s op = (Fail, s).
Proof. exact live_name_not_registrable_by_other. Qed.
Print Assumptions C16_live_name_not_registrable_by_other.

(* whatever the step does, every name that is live at its height keeps its owner and its expiry
   does not move backwards; a successful step leaves every other name's record untouched *)
Theorem C16_live_names_keep_owner :
  forall acc s op k w,
    wf s -> valid_height (o_height op) ->
    lookup s k = Some w -> o_height op < n_expires w ->
    exists w', lookup (snd (register acc s op)) k = Some w' /\ n_owner w' = n_owner w /\ n_expires w <= n_expires w'.
Proof. exact live_names_keep_owner. Qed.
Print Assumptions C16_live_names_keep_owner.

Theorem C16_other_names_untouched :
  forall acc s op s' idx len t k,
    register acc s op = (Ok, s') -> o_parse op = Some (idx, len, t) -> k <> idx -> lookup s' k = lookup s k.
Proof. exact other_names_untouched. Qed.
Print Assumptions C16_other_names_untouched.

(* the service is available: a well-formed request for a free, lapsed or own name with a term that
   fits int64 and a registrant who can pay goes through (so the theorems above are not vacuous) *)
Theorem C16_register_succeeds :
  forall acc s op idx len t,
    wf s -> valid_height (o_height op) -> 0 <= bal (s_bank s) (a_mod acc) ->
    o_basic_ok op = true -> o_parse op = Some (idx, len, t) -> len <> 0 -> o_sender_ok op = true ->
    1 <= o_years op -> o_years op * listed_price len t <= MAX ->
    o_years op * listed_price len t <= bal (s_bank s) (o_sender op) ->
    match lookup s idx with
    | Some w => if o_height op <? n_expires w
                then n_owner w = o_sender op /\ n_expires w + o_years op * blocks_per_year <= MAX
                else o_height op + o_years op * blocks_per_year <= MAX
    | None => o_height op + o_years op * blocks_per_year <= MAX
    end ->
    fst (register acc s op) = Ok.
Proof. exact register_succeeds. Qed.
Print Assumptions C16_register_succeeds.

(* ---------- histories ---------- *)

(* the invariants the step theorems assume hold along every history *)
Theorem C16_invariants_preserved :
  forall acc ops s,
    wf s -> Forall (fun o => valid_height (o_height o)) ops -> wf (run acc s ops).
Proof. exact wf_run. Qed.
Print Assumptions C16_invariants_preserved.

(* every step of every history of registrations by arbitrary accounts (at arbitrary, in particular
   non-decreasing, heights) satisfies the whole property: see `step_sound` in Proofs/RnsRegProofs.v —
   no panic; not Ok => state unchanged; every live name keeps its owner; Ok => Y >= 1, exact debit,
   POL credit, module and third parties untouched, registrant owns the name with
   Expires >= h + Y*blocks_per_year, exact renewal / fresh-term expiry, other records untouched *)
Theorem C16_every_step_of_every_history :
  forall acc ops s,
    wf s -> Forall (fun o => valid_height (o_height o)) ops -> Forall (step_sound acc) (trace acc s ops).
Proof. exact trace_sound. Qed.
Print Assumptions C16_every_step_of_every_history.

(* a paid term is honoured: after A registered the name at height h for Y years, no sequence of
   registration attempts by anybody at heights below h + Y*blocks_per_year takes it away or shortens it *)
Theorem C16_paid_term_honoured :
  forall acc s op s1 idx len t ops,
    wf s -> valid_height (o_height op) ->
    register acc s op = (Ok, s1) -> o_parse op = Some (idx, len, t) ->
    Forall (fun o => valid_height (o_height o) /\ o_height o < o_height op + o_years op * blocks_per_year) ops ->
    exists w, lookup (run acc s1 ops) idx = Some w /\ n_owner w = o_sender op /\
              o_height op + o_years op * blocks_per_year <= n_expires w.
Proof. exact registration_protected. Qed.
Print Assumptions C16_paid_term_honoured.

(* accounting of a whole history: every account ends with its balance minus the listed prices of its
   own successful registrations; the POL account additionally receives the prices of all of them *)
Theorem C16_history_accounting :
  forall acc ops s y,
    bal (s_bank (run acc s ops)) y =
    bal (s_bank s) y - paid_by acc (N.eqb y) s ops
      + (if N.eqb y (a_pol acc) then paid_by acc (fun _ => true) s ops else 0).
Proof. exact history_accounting. Qed.
Print Assumptions C16_history_accounting.

(* in particular the rns module account ends every history with the balance it started with, as long
   as it is not itself a registrant; and the total over all accounts never changes *)
Theorem C16_module_keeps_nothing :
  forall acc ops s,
    a_mod acc <> a_pol acc -> Forall (fun o => N.eqb (a_mod acc) (o_sender o) = false) ops ->
    bal (s_bank (run acc s ops)) (a_mod acc) = bal (s_bank s) (a_mod acc).
Proof. exact module_keeps_nothing. Qed.
Print Assumptions C16_module_keeps_nothing.

Theorem C16_supply_conserved :
  forall acc ops s, NoDup (akeys (s_bank s)) -> asum (s_bank (run acc s ops)) = asum (s_bank s).
Proof. exact supply_run. Qed.
Print Assumptions C16_supply_conserved.

(* ---------- MsgInit, the other handler that writes name records ---------- *)

(* an initialisation never takes, re-assigns or shortens a name that is live at its height, costs
   nothing, never panics, and a refused one changes nothing *)
Theorem C16_init_leaves_live_names_alone :
  forall s op k w,
    lookup s k = Some w -> i_height op < n_expires w -> lookup (snd (init_name s op)) k = Some w.
Proof. exact init_live_names_keep_owner. Qed.
Print Assumptions C16_init_leaves_live_names_alone.

Theorem C16_init_is_free_and_total :
  forall s op o s', init_name s op = (o, s') ->
    s_bank s' = s_bank s /\ o <> Panic /\ (o <> Ok -> s' = s).
Proof.
  intros s op o s' R. split; [|split].
  - pose proof (init_bank s op) as B. rewrite R in B. exact B.
  - pose proof (init_never_panics s op) as P. rewrite R in P. exact P.
  - intros N. exact (init_not_ok_noop s op o s' R N).
Qed.
Print Assumptions C16_init_is_free_and_total.

(* a paid term is honoured along every later history of registration attempts AND initialisations by
   anybody: before h + Y*blocks_per_year the name stays the registrant's and its expiry never moves back *)
Theorem C16_paid_term_honoured_among_initialisations :
  forall acc s op s1 idx len t ops,
    wf s -> valid_height (o_height op) ->
    register acc s op = (Ok, s1) -> o_parse op = Some (idx, len, t) ->
    Forall (fun o => valid_height (hop_height o) /\ hop_height o < o_height op + o_years op * blocks_per_year) ops ->
    exists w, lookup (hrun acc s1 ops) idx = Some w /\ n_owner w = o_sender op /\
              o_height op + o_years op * blocks_per_year <= n_expires w.
Proof. exact hregistration_protected. Qed.
Print Assumptions C16_paid_term_honoured_among_initialisations.

(* ... and so is the free term an initialisation hands out *)
Theorem C16_initial_name_kept_for_its_term :
  forall acc s op s1 ops,
    wf s -> valid_height (i_height op) -> i_height op + init_term <= MAX ->
    init_name s op = (Ok, s1) ->
    Forall (fun o => valid_height (hop_height o) /\ hop_height o < i_height op + init_term) ops ->
    exists idx w, i_name op = Some idx /\ lookup (hrun acc s1 ops) idx = Some w /\ n_owner w = i_sender op /\
                  i_height op + init_term <= n_expires w.
Proof. exact hinit_protected. Qed.
Print Assumptions C16_initial_name_kept_for_its_term.

Theorem C16_invariants_preserved_among_initialisations :
  forall acc ops s,
    wf s -> Forall (fun o => valid_height (hop_height o)) ops -> wf (hrun acc s ops).
Proof. exact hrun_wf. Qed.
Print Assumptions C16_invariants_preserved_among_initialisations.

(* ---------- non-vacuity: concrete states and histories ---------- *)

Definition ex_acc : accts := {| a_mod := 50; a_pol := 51 |}%N.
(* "bob.jkl" (index 1) registered by account 1 until block 5484540; accounts 1 and 2 hold funds *)
Definition ex_state : rstate :=
  {| s_names := [(1%N, {| n_owner := 1%N; n_expires := 5484540; n_data := 1%N; n_locked := 0; n_subs := 0 |})];
     s_primary := [(1%N, 1%N)];
     s_bank := [(1%N, 1000000000); (2%N, 1000000000); (50%N, 0); (51%N, 7)] |}.
Definition ex_op (who : N) (years h : Z) : reg_op :=
  {| o_basic_ok := true; o_parse := Some (1%N, 3, Jkl); o_sender_ok := true; o_sender := who;
     o_data := 2%N; o_years := years; o_primary := false; o_height := h |}.

Example C16_ex_wf : wf ex_state /\ valid_height 20000000 /\ NoDup (akeys (s_bank ex_state)).
Proof.
  split; [|split].
  - intros idx w H. unfold lookup, ex_state in H. cbn in H.
    destruct (N.eqb idx 1); inversion H; subst; cbn; unfold MAX; lia.
  - unfold valid_height, MAX. lia.
  - cbn. repeat constructor; cbn; intuition discriminate.
Qed.

(* the history that used to fail: the name lapsed, another account registers it at height 2*10^7,
   pays one year of a 3-character .jkl name and holds it until 2*10^7 + 5484530 *)
Example C16_ex_lapsed_other_account :
  let '(o, s') := register ex_acc ex_state (ex_op 2 1 20000000) in
  o = Ok /\ lookup s' 1%N = Some {| n_owner := 2%N; n_expires := 25484530; n_data := 2%N; n_locked := 0; n_subs := 0 |} /\
  bal (s_bank s') 2%N = 940000000 /\ bal (s_bank s') 51%N = 60000007 /\ bal (s_bank s') 50%N = 0.
Proof. vm_compute. repeat split; reflexivity. Qed.

(* ... and the lapsed owner itself: the new term starts at the current block, not at the old expiry *)
Example C16_ex_lapsed_same_account :
  let '(o, s') := register ex_acc ex_state (ex_op 1 1 20000000) in
  o = Ok /\ (exists w, lookup s' 1%N = Some w /\ n_expires w = 25484530).
Proof. vm_compute. split; [reflexivity | eexists; split; reflexivity]. Qed.

(* renewal of the live name by its owner, two years *)
Example C16_ex_renewal :
  let '(o, s') := register ex_acc ex_state (ex_op 1 2 5484539) in
  o = Ok /\ (exists w, lookup s' 1%N = Some w /\ n_expires w = 5484540 + 2 * 5484530) /\ bal (s_bank s') 1%N = 880000000.
Proof. vm_compute. split; [reflexivity | split; [eexists; split; reflexivity | reflexivity]]. Qed.

(* the last live block: a stranger is refused; one block later the name is free *)
Example C16_ex_boundary :
  fst (register ex_acc ex_state (ex_op 2 1 5484539)) = Fail /\
  fst (register ex_acc ex_state (ex_op 2 1 5484540)) = Ok.
Proof. vm_compute. split; reflexivity. Qed.

(* rejected year counts: -1, 0, 2^40, 2^62, and the year count whose price wraps around to 128 ujkl *)
Example C16_ex_bad_years :
  map (fun y => fst (register ex_acc ex_state (ex_op 2 y 20000000))) [-1; 0; 2 ^ 40; 2 ^ 62; 72942115416262309]
  = [Fail; Fail; Fail; Fail; Fail].
Proof. vm_compute. reflexivity. Qed.

(* initialisations: at height 700 account 2 is handed name 9 until 700 + 5733818; a second account
   initialising in the same block is refused and the first keeps the name *)
Definition ex_init (who : N) (h : Z) : init_op :=
  {| i_basic_ok := true; i_fresh := true; i_name := Some 9%N; i_sender := who; i_data := 3%N; i_height := h |}.
Example C16_ex_init :
  let '(o, s') := init_name ex_state (ex_init 2 700) in
  o = Ok /\ (exists w, lookup s' 9%N = Some w /\ n_owner w = 2%N /\ n_expires w = 5734518) /\
  fst (init_name s' (ex_init 1 700)) = Fail /\
  fst (init_name ex_state {| i_basic_ok := true; i_fresh := true; i_name := Some 1%N; i_sender := 2%N; i_data := 3%N; i_height := 700 |}) = Fail.
Proof. vm_compute. split; [reflexivity|]. split; [eexists; repeat split; reflexivity|]. split; reflexivity. Qed.

(* ---------------------------------------------------------------------------------------------
   Tie to the code by translation + proof: the functions below are GENERATED on every run from /repo's
   current Go source (translator/gen_gofuncs.go -> Gen/GoRns.v); the theorems say that the hand-written model the
   property theorems above are about computes what the generated function computes, for all arguments. *)
From Coq Require Import String.
From JK Require Import Base.GoSem Gen.GoRns Proofs.GoTieRns.

(* keeper.GetCostOfName is the model's cost function and yields the property's price list for every name of
   one or more characters (the TLD's base cost, a lookup in types.TLDCost, is the model's two-entry table) *)
Theorem C16_code_tie_GetCostOfName :
  forall len t,
    gen_GetCostOfName (tld_cost t) len
    = GVal (match cost_of_name len t with Some c => (c, true) | None => (0, false) end) /\
    (1 <= len -> gen_GetCostOfName (tld_cost t) len = GVal (listed_price len t, true)).
Proof. intros len t. exact (conj (gen_GetCostOfName_model len t) (gen_GetCostOfName_price_list len t)). Qed.
Print Assumptions C16_code_tie_GetCostOfName.

(* keeper.RegisterRNSName, generated from the current source as a whole (reads: the parsed name's length and TLD,
   the stored record, the height; effects: the two transfers, the record written, the primary pointer), does what
   the model's cost, admission and expiry functions say, in the code's order: refusals before any effect, the
   sender charged the price, the same amount passed on to the liquidity account, the record written with the
   model's new expiry *)
Theorem C16_code_tie_RegisterRNSName :
  forall len t years h sender_ok whois owner ok_charge ok_pol primary has_primary,
    gen_RegisterRNSName true (is_reserved t) (tld_cost t) len years h sender_ok
      (w_found whois) (w_expires whois) (w_other whois owner) ok_charge true ok_pol primary has_primary
    = register_events len t years h sender_ok whois owner ok_charge ok_pol primary has_primary.
Proof. exact gen_RegisterRNSName_model. Qed.
Print Assumptions C16_code_tie_RegisterRNSName.

(* ... and the model's registration step is the interpretation of exactly those events over its bank and stores,
   with the answers its bank gives to the two transfers *)
Theorem C16_code_tie_model_step_interprets_the_events :
  forall acc s op idx len t,
    o_basic_ok op = true -> o_parse op = Some (idx, len, t) ->
    let whois := aget N.eqb (s_names s) idx in
    let owner := o_sender op in
    let price := match cost_of_name len t with Some c => wrap64 (c * o_years op) | None => 0 end in
    let e0 := match new_expiry whois owner (o_height op) (wrap64 (o_years op * blocks_per_year)) with Some e => e | None => 0 end in
    let r := {| n_owner := owner; n_expires := e0; n_data := o_data op; n_locked := 0; n_subs := 0 |} in
    register acc s op
    = match register_events len t (o_years op) (o_height op) (o_sender_ok op) whois owner
              (ok_charge_of acc s owner price) (ok_pol_of acc s owner price) (o_primary op) (has_primary_of s idx owner r) with
      | GPanic => (Panic, s)
      | GVal (_, false) => (Fail, s)
      | GVal (evs, true) =>
          match send (s_bank s) owner (a_mod acc) price with
          | Some b1 =>
              match send b1 (a_mod acc) (a_pol acc) price with
              | Some b2 =>
                  (Ok, {| s_names := aset N.eqb (s_names s) idx r;
                          s_primary := if existsb (fun ev => match ev with Ev tag _ => String.eqb tag "set-primary" end) evs
                                       then aset N.eqb (s_primary s) owner idx else s_primary s;
                          s_bank := b2 |})
              | None => (Fail, s)
              end
          | None => (Fail, s)
          end
      end.
Proof. exact register_is_the_interpretation. Qed.
Print Assumptions C16_code_tie_model_step_interprets_the_events.

(* ---------------------------------------------------------------------------------------------
   A registered name is touched by messages only: the rns module runs nothing at block boundaries (read from the
   current source on every run, translator/gen_blocks.go -> Gen/BlockRoutines.v), so "live for the term" is a
   statement about the handlers the theorems above model. *)
From JK Require Import Gen.BlockRoutines.
Theorem C16_code_tie_no_block_routine_touches_names :
  forall b e, In ("rns"%string, (b, e)) block_routines -> b = [] /\ e = [].
Proof.
  intros b e H. vm_compute in H.
  repeat (destruct H as [H|H]; [try discriminate H; try (inversion H; subst; split; reflexivity)|]).
  contradiction.
Qed.
Print Assumptions C16_code_tie_no_block_routine_touches_names.

(* The wiring of in-place migrations, read from the current source: for every custom module, each version a migration
   is registered from lies below the module's consensus version (a migration registered from the current version
   never runs), and when migrations are registered at all one leads to the current version (a raised version
   without a migration leaves what the previous binary stored as it was).  Names, bids and listings written by the
   previous binary stay reachable only if a changed key or value format comes with a migration that runs. *)
Definition migrations_wired (row : string * (nat * list nat)) : bool :=
  let '(_, (cv, froms)) := row in
  forallb (fun k => Nat.ltb k cv) froms &&
  match froms with [] => true | _ => existsb (fun k => Nat.eqb (S k) cv) froms end.
Theorem C16_code_tie_migrations_are_wired :
  forall row, In row module_migrations -> migrations_wired row = true.
Proof. apply Forall_forall. vm_compute. repeat constructor. Qed.
Print Assumptions C16_code_tie_migrations_are_wired.

(* non-vacuity: the test refuses a migration registered from the current version, and a raised version without a
   migration leading to it *)
Example C16_migrations_wired_refuses :
  migrations_wired ("rns"%string, (3, [2; 3])%nat) = false /\ migrations_wired ("rns"%string, (4, [2])%nat) = false /\
  migrations_wired ("rns"%string, (4, [2; 3])%nat) = true.
Proof. vm_compute. repeat split. Qed.
