(* Correspondence for C11.
   (a) message table: what the running app's InterfaceRegistry / MsgServiceRouter / GetSigners
       show for every registered custom message is compared with the row the translator
       generated from the sources (Gen/MsgTable.v); the set of type URLs must be equal both ways.
   (b) own-resource frames: the small state machines of Model/OwnResource.v are applied to the
       observed pre-state of every step executed on the real app and compared with the observed
       post-state. *)
From Coq Require Import ZArith NArith List Bool String.
From JK Require Import Base.AList.
From JK Require Import Model.MsgTable.
From JK Require Import Gen.MsgTable.
From JK Require Import Model.OwnResource.
From JK Require Import Corr.Run.
Import ListNotations.

Definition obool_agrees (table : bool) (obs : option bool) : bool :=
  match obs with None => true | Some b => Bool.eqb table b end.

Fixpoint subset_strings (a b : list string) : bool :=
  match a with
  | [] => true
  | x :: a' => mem_string x b && subset_strings a' b
  end.

(* ---- comparison of observed states (finite maps / finite sets, order-insensitive) *)
Definition map_sub {K V} (keqb : K -> K -> bool) (veqb : V -> V -> bool) (a b : list (K * V)) : bool :=
  forallb (fun kv => match aget keqb b (fst kv) with Some v => veqb (snd kv) v | None => false end) a.
Definition map_eqb {K V} (keqb : K -> K -> bool) (veqb : V -> V -> bool) (a b : list (K * V)) : bool :=
  map_sub keqb veqb a b && map_sub keqb veqb b a.
Definition set_eqb {A} (eqb : A -> A -> bool) (a b : list A) : bool :=
  forallb (fun x => existsb (eqb x) b) a && forallb (fun x => existsb (eqb x) a) b.
Fixpoint list_N_eqb (a b : list N) : bool :=
  match a, b with
  | [], [] => true
  | x :: a', y :: b' => N.eqb x y && list_N_eqb a' b'
  | _, _ => false
  end.

Definition feed_eqb (a b : feed) : bool :=
  sp_eqb (f_owner a) (f_owner b) && N.eqb (f_data a) (f_data b) && Z.eqb (f_time a) (f_time b).
Definition sfile_eqb (a b : sfile) : bool :=
  sp_eqb (sf_owner a) (sf_owner b) && Z.eqb (sf_size a) (sf_size b) && Z.eqb (sf_maxproofs a) (sf_maxproofs b) &&
  Z.eqb (sf_expires a) (sf_expires b) && list_N_eqb (sf_proofs a) (sf_proofs b).
Definition sstate_eqb (a b : sstate) : bool :=
  map_eqb fkey_eqb sfile_eqb (s_files a) (s_files b) && set_eqb N.eqb (s_proofs a) (s_proofs b) &&
  map_eqb sp_eqb Z.eqb (s_pay a) (s_pay b).
Definition nstate_eqb (a b : nstate) : bool :=
  set_eqb note_eqb (n_notes a) (n_notes b) && set_eqb block_eqb (n_blocks a) (n_blocks b).

Inductive c11_case :=
(* own-resource frames: (observed pre-state, message, observed outcome, observed post-state) *)
| OStep (pre : ostate) (op : oop) (o : out) (post : ostate)
| PStep (pre : pstate) (op : pop) (o : out) (post : pstate)
| SStep (pre : sstate) (op : sop) (o : out) (post : sstate)
| WStep (pre : list (fkey * sfile)) (contract : N) (msg : option (spelling * bool)) (merkle : N) (height : Z)
        (posted : option sfile) (o : out) (post : list (fkey * sfile))
| NStep (pre : nstate) (op : nop) (o : out) (post : nstate)
(* one registered message instantiated with distinct addresses in every string field:
   the fields whose addresses GetSigners returned (in order), whether the router has a handler,
   and whether ValidateBasic rejects an unparsable Creator (None: ValidateBasic rejects the
   instance for another reason, so nothing could be observed) *)
| MsgObs (url : string) (signer_fields : list string) (routable : bool) (validate_rejects_bad_creator : option bool)
(* all type URLs under /canine_chain. registered as sdk.Msg implementations in the app *)
| MsgSet (urls : list string)
(* the amino name an instance's GetSignBytes() carries: Some n when the bytes are {"type": n, "value": …} *)
| MsgAmino (url : string) (name : option string).

Definition c11_ok (c : c11_case) : bool :=
  match c with
  | OStep pre op o post =>
    let r := ostep pre op in out_eqb (snd r) o && map_eqb N.eqb feed_eqb (fst r) post
  | PStep pre op o post =>
    let r := pstep pre op in out_eqb (snd r) o && map_eqb sp_eqb N.eqb (fst r) post
  | SStep pre op o post =>
    let r := sstep pre op in
    out_eqb (snd r) o && sstate_eqb (fst r) post &&
    files_keyed_by_owner_b pre && files_keyed_by_owner_b post
  | WStep pre ct msg m h posted o post =>
    let r := wstep pre ct msg m h posted in out_eqb (snd r) o && map_eqb fkey_eqb sfile_eqb (fst r) post
  | NStep pre op o post =>
    let r := nstep pre op in out_eqb (snd r) o && nstate_eqb (fst r) post
  | MsgObs url fs routable vb =>
    match find_row msg_table url with
    | None => false
    | Some r =>
      (match m_signers r with
       | SignerFields gs => list_string_eqb gs fs
       | SignerUnknown => false
       end) &&
      Bool.eqb (has_handler_b r) routable &&
      obool_agrees (m_validate_checks_creator r) vb
    end
  | MsgSet urls =>
    let turls := map m_url (filter registered_b msg_table) in
    subset_strings urls turls && subset_strings turls urls && nodup_strings urls
  | MsgAmino url name =>
    match find_row msg_table url with
    | None => false
    | Some r =>
      match m_amino r, name with
      | Some a, Some b => String.eqb a b
      | None, None => true
      | _, _ => false
      end
    end
  end.
