(* Correspondence for C12: the gauge model on the operations the real keeper executed
   (step-wise: observed pre-state, operation, observed post-state). *)
From Coq Require Import ZArith NArith List Bool.
From JK Require Import Base.Dec Base.AList Model.Gauge Corr.Run.
Import ListNotations.
Open Scope Z_scope.

(* an observed gauge record *)
Definition og (id : N) (start end_ : Z) (cs : coins) : N * gauge :=
  (id, {| g_start := start; g_end := end_; g_coins := cs |}).

Inductive c12_case :=
(* NewGauge + funding.  direct = called through the keeper with the module funded beforehand
   (the pool is compared too); otherwise through BuyStorage / PostFile, where the pool also
   moves for reasons outside this model (the payment split is C04's): cs is then the amount the
   handler deposited into the gauge account. *)
| CCreate (direct : bool) (id : N) (now end_ : Z) (cs : coins)
          (pre_g : list (N * gauge)) (pre_e : list (N * coins)) (pre_pool : coins)
          (post_g : list (N * gauge)) (post_e : list (N * coins)) (post_pool : coins)
(* RunRewardBlock at a reward height; ok = false: it panicked *)
| CReward (now : Z)
          (pre_g : list (N * gauge)) (pre_e : list (N * coins)) (pre_pool : coins)
          (ok : bool)
          (post_g : list (N * gauge)) (post_e : list (N * coins)) (post_pool : coins).

Definition gauge_eqb (a b : gauge) : bool :=
  (g_start a =? g_start b) && (g_end a =? g_end b) && ceqb (g_coins a) (g_coins b).

Definition gauges_eqb (m o : list (N * gauge)) : bool :=
  Nat.eqb (length m) (length o) &&
  forallb (fun p => match aget N.eqb m (fst p) with Some g => gauge_eqb g (snd p) | None => false end) o.

(* the observed escrow list names every gauge account of the history *)
Definition escrow_eqb (s : gstate) (o : list (N * coins)) : bool :=
  forallb (fun p => ceqb (escrow_of s (fst p)) (snd p)) o.

Definition c12_ok (c : c12_case) : bool :=
  match c with
  | CCreate direct id now e cs g0 e0 p0 g1 e1 p1 =>
    let s := create_gauge {| gs_gauges := g0; gs_escrow := e0; gs_pool := p0 |} id now e cs in
    gauges_eqb (gs_gauges s) g1 && escrow_eqb s e1 && (negb direct || ceqb (gs_pool s) p1)
  | CReward now g0 e0 p0 ok g1 e1 p1 =>
    match reward_block {| gs_gauges := g0; gs_escrow := e0; gs_pool := p0 |} now with
    | None => negb ok
    | Some s => ok && gauges_eqb (gs_gauges s) g1 && escrow_eqb s e1 && ceqb (gs_pool s) p1
    end
  end.
