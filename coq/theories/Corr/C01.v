(* Correspondence for C01: the same observed steps as C17 (Corr/C17.v: outcome class, Success
   flag, post-state, range of the drawn challenge, paid accounts among the credited provers),
   plus what C01 adds on a PostProof step: a Success answer only with a verifying proof, and
   no change of any prover list or proof record without one. *)
From Coq Require Import ZArith NArith List Bool.
From JK Require Import Base.AList Model.StorageFiles Corr.Run Corr.C17.
Import ListNotations.
Open Scope Z_scope.

Definition provers_unchanged (a b : obs) : bool :=
  list_eqb file_eqb (o_f1 a) (o_f1 b) && list_eqb fproof_eqb (o_proofs a) (o_proofs b).

Definition c01_ok (c : c17_case) : bool :=
  c17_ok c &&
  match c with
  | Step pre (PostProof _ _ _ _ _ _ verified _ _) _ succ post _ =>
    (if succ then verified else provers_unchanged pre post)
  | _ => true
  end.
