(* Correspondence for C02: the Merkle / window models are run on what the implementation
   (golang.org/x/crypto/sha3, wealdtech/go-merkletree, utils.BuildTree, UnifiedFile.{VerifyProof,
   ProvenLastBlock, ProvenThisBlock, IsYoung, ResetChunkWithProof}, PostProof and RunRewardBlock
   on the assembled app) was run on. *)
From Coq Require Import NArith ZArith List Bool.
From JK Require Import Base.Bytes Hash.Sha256 Hash.Keccak Model.Merkle Model.Windows Corr.Run.
Import ListNotations.
Open Scope Z_scope.

Inductive c02_op :=
| CProve (h to_prove : Z) (root item : bytes) (decoded : option (list bytes * N))
         (size chunk d_floor d_floor1 : Z) (success : bool)
    (* PostProof; decoded = json.Unmarshal of HashList (None: it failed); d_floor / d_floor1 =
       Int63n(size/chunk) / Int63n(size/chunk - 1) for the block's seed (0 when the bound is <= 0) *)
| CReward (cw h : Z).   (* RunRewardBlock at height h with CheckWindow cw *)

Inductive c02_case :=
| Keccak (input digest : bytes)                                   (* sha3.Sum512 *)
| TreeNodes (data : list bytes) (nodes : list bytes)              (* NewUsing(...).Nodes[1:] *)
| TreeRoot (data : list bytes) (r : bytes)                        (* NewUsing(...).Root() *)
| GenProof (data : list bytes) (i : N) (hashes : list bytes)      (* GenerateProof(data[i], 0) *)
| Verify (r data : bytes) (hashes : list bytes) (index : N) (expected : bool)  (* VerifyProofUsing *)
| FileRoot (chunks : list bytes) (r : bytes)                      (* utils.BuildTree root *)
| FileVerify (r : bytes) (chunk : Z) (item : bytes) (decoded : option (list bytes * N)) (expected : bool)
                                                                  (* UnifiedFile.VerifyProof *)
| WinGrid (start pi n : Z) (codes : list N)     (* all 0 <= h, last < n, h-major *)
| WinOne (start pi h last : Z) (code : N)
| Reset (size chunk d_floor d_floor1 : Z) (observed : option Z)   (* ResetChunkWithProof *)
| NumChunks (size chunk n : Z)                                    (* len(chunks) of utils.BuildTree *)
| Step (start pi : Z) (pre : pstate) (op : c02_op) (post : pstate).

Fixpoint lbeqb (a b : list bytes) : bool :=
  match a, b with
  | [], [] => true
  | x :: a', y :: b' => beqb x y && lbeqb a' b'
  | _, _ => false
  end.

(* ProvenLastBlock + 2*ProvenThisBlock + 4*IsYoung; 8 = panic (zero window) *)
Definition win_code (start pi h last : Z) : N :=
  match proven_last_block start pi h last, proven_this_block start pi h last with
  | Val a, Val b => ((if a then 1 else 0) + (if b then 2 else 0) + (if is_young start pi h then 4 else 0))%N
  | _, _ => 8%N
  end.

Fixpoint zrange (n : nat) (from : Z) : list Z :=
  match n with O => [] | S k => from :: zrange k (from + 1) end.

Definition win_grid (start pi n : Z) : list N :=
  let r := zrange (Z.to_nat n) 0 in
  flat_map (fun h => map (fun last => win_code start pi h last) r) r.

Fixpoint nlist_eqb (a b : list N) : bool :=
  match a, b with
  | [], [] => true
  | x :: a', y :: b' => N.eqb x y && nlist_eqb a' b'
  | _, _ => false
  end.

Definition draw_of (size chunk d_floor d_floor1 : Z) : Z -> Z :=
  fun p => if p =? Z.quot size chunk then d_floor else d_floor1.

Definition pstate_eqb (a b : pstate) : bool :=
  Bool.eqb (listed a) (listed b) && Bool.eqb (has_rec a) (has_rec b) &&
  Bool.eqb (is_provider a) (is_provider b) &&
  (if has_rec a then (last_proven a =? last_proven b) && (challenge a =? challenge b) else true) &&
  (if is_provider a then burned a =? burned b else true).

Definition with_tree (data : list bytes) (f : tree -> bool) : bool :=
  match build_exec data with Some t => f t | None => false end.

Definition c02_ok (c : c02_case) : bool :=
  match c with
  | Keccak i d => beqb (sha3_512 i) d
  | TreeNodes data ns => with_tree data (fun t => lbeqb (nodes sha3_512 t) ns)
  | TreeRoot data r => with_tree data (fun t => beqb (root sha3_512 t) r)
  | GenProof data i hs => with_tree data (fun t => lbeqb (gen_proof sha3_512 t i) hs)
  | Verify r data hs idx e => Bool.eqb (verify_proof_exec r data hs idx) e
  | FileRoot chunks r =>
      match build_file_exec chunks with Some t => beqb (root sha3_512 t) r | None => false end
  | FileVerify r chunk item dec e => Bool.eqb (verify_file_payload_exec r chunk item dec) e
  | WinGrid start pi n codes => nlist_eqb (win_grid start pi n) codes
  | WinOne start pi h last code => N.eqb (win_code start pi h last) code
  | Reset size chunk d1 d2 obs =>
      match reset_chunk size chunk (draw_of size chunk d1 d2), obs with
      | Val c, Some o => c =? o
      | Panic, None => true
      | _, _ => false
      end
  | NumChunks size chunk n => num_chunks size chunk =? n
  | Step start pi pre op post =>
      match op with
      | CProve h tp r item dec size chunk d1 d2 success =>
          let cur := if listed pre then challenge pre else 0 in
          let valid := if tp =? cur then verify_file_payload_exec r cur item dec else false in
          match reset_chunk size chunk (draw_of size chunk d1 d2) with
          | Panic => false
          | Val next =>
              let '(s', ok) := post_proof pre h tp valid next in
              pstate_eqb s' post && Bool.eqb ok success
          end
      | CReward cw h =>
          match reward_runs cw h with
          | Panic => false
          | Val false => pstate_eqb pre post
          | Val true => match reward start pi pre h with
                        | Val s' => pstate_eqb s' post
                        | Panic => false
                        end
          end
      end
  end.
