(* Correspondence for C06: the models of the order-sensitive consensus paths on what the real app did,
   and the inventory against the paths the dynamic twin exercised. *)
From Coq Require Import ZArith NArith List Bool.
From JK Require Import Base.Dec Model.Nondet Model.OrderIndep Gen.NondetSites Corr.Run.
Import ListNotations.

Inductive c06_case :=
(* one real reward block: totalSize, the sizeTracker content (recomputed from the pre-state with the repo's own
   IsYoung / ProvenLastBlock), keys that do not parse as addresses, the coins pulled from the gauges, and the
   ordered non-zero bank sends storage-module -> prover observed in the BeginBlock events *)
| Payout (total : Z) (tracker : list (key * Z)) (invalid : list key) (coins : list (key * Z))
         (observed : list (key * (key * Z)))
(* one ACL handler execution: final map content in the order the handler inserted it, stored JSON string *)
| AclMarshal (entries : list (key * key)) (observed : key)
(* challenge indices observed in one history: (block gas + height, pieces, chunk drawn) *)
| Challenge (obs : list (Z * (Z * Z)))
(* the dynamic twin exercised at least one path whose site class is c: the inventory must list >= 1 such site
   that runs inside blocks *)
| Inventory (c : site_class).

Definition send_nonzero (s : send) : bool := match s with Send _ _ a => negb (a =? 0)%Z end.
Definition send_eqb (s : send) (o : key * (key * Z)) : bool :=
  match s with Send r d a => key_eqb r (fst o) && key_eqb d (fst (snd o)) && (a =? snd (snd o))%Z end.
Fixpoint list_eqb {A B} (f : A -> B -> bool) (l : list A) (m : list B) : bool :=
  match l, m with [], [] => true | x :: l', y :: m' => f x y && list_eqb f l' m' | _, _ => false end.

Definition challenge_in_range (o : Z * (Z * Z)) : bool :=
  let '(_, (pieces, chunk)) := o in
  if (pieces >? 0)%Z then (0 <=? chunk)%Z && (chunk <? pieces)%Z else (chunk =? 0)%Z.
Definition challenge_functional (l : list (Z * (Z * Z))) : bool :=
  forallb (fun a => forallb (fun b =>
     negb ((fst a =? fst b)%Z && (fst (snd a) =? fst (snd b))%Z) || (snd (snd a) =? snd (snd b))%Z) l) l.

Definition c06_ok (c : c06_case) : bool :=
  match c with
  | Payout total tracker invalid coins observed =>
      let valid := fun k => negb (existsb (key_eqb k) invalid) in
      list_eqb send_eqb (filter send_nonzero (reward_sends valid total coins tracker)) observed
  | AclMarshal entries observed =>
      forallb (fun e => json_safe (fst e) && json_safe (snd e)) entries &&
      key_eqb (acl_marshal entries) observed
  | Challenge obs => forallb challenge_in_range obs && challenge_functional obs
  | Inventory c =>
      (0 <? N.of_nat (length (filter (fun s => class_eqb (s_class s) c && benign s) nondet_sites)))%N
  end.
