(* Correspondence for C03: the reward-block model on what the real RunRewardBlock did, and
   RemoveProverWithKey at function level (including lists with repeated keys). *)
From Coq Require Import ZArith NArith List Bool.
From JK Require Import Base.Dec Base.AList Model.Rewards Corr.Run.
Import ListNotations.
Open Scope Z_scope.

Inductive c03_case :=
| RmKey (l : list N) (k : N) (res : option (list N))       (* None: the call panicked *)
| Block (macct : N) (accts : list (N * N)) (cw h : Z) (coins : list (N * Z))
        (files : list file) (burn : list (N * Z)) (bank : list ((N * N) * Z))
        (panicked : bool)
        (files' : list file) (burn' : list (N * Z)) (bank' : list ((N * N) * Z))
| PostVB (size maxproofs : Z) (accepted : bool)    (* MsgPostFile.ValidateBasic with every other field valid *)
.
        (* bank' lists the balances observed afterwards for the whole account universe of the case *)

Fixpoint list_eqb {A} (e : A -> A -> bool) (a b : list A) : bool :=
  match a, b with
  | [], [] => true
  | x :: r, y :: s => e x y && list_eqb e r s
  | _, _ => false
  end.

Definition prec_eqb (a b : prec) : bool := N.eqb (pr_prover a) (pr_prover b) && (pr_last a =? pr_last b).
Definition rec_eqb (a b : N * prec) : bool := N.eqb (fst a) (fst b) && prec_eqb (snd a) (snd b).
Definition file_eqb (a b : file) : bool :=
  (f_start a =? f_start b) && (f_interval a =? f_interval b) && (f_size a =? f_size b) &&
  list_eqb N.eqb (f_proofs a) (f_proofs b) && Bool.eqb (f_live a) (f_live b) &&
  (* records of a removed file are not observed *)
  (negb (f_live a) || list_eqb rec_eqb (f_recs a) (f_recs b)).
Definition nz_eqb (a b : N * Z) : bool := N.eqb (fst a) (fst b) && (snd a =? snd b).

Definition c03_ok (c : c03_case) : bool :=
  match c with
  | PostVB size mp accepted => Bool.eqb (post_admissible size mp) accepted
  | RmKey l k res =>
    match remove_key k l, res with
    | Some a, Some b => list_eqb N.eqb a b
    | None, None => true
    | _, _ => false
    end
  | Block macct accts cw h coins files burn bank panicked files' burn' bank' =>
    match run_reward_block macct accts cw h coins {| b_files := files; b_burn := burn; b_bank := bank |} with
    | Panic => panicked
    | Ok s =>
      negb panicked &&
      list_eqb file_eqb (b_files s) files' &&
      list_eqb nz_eqb (b_burn s) burn' &&
      forallb (fun e => bal (b_bank s) (fst (fst e)) (snd (fst e)) =? snd e) bank'
    end
  end.
