(* Correspondence for C08/C09: the RNS model on the steps the real handlers executed on the
   assembled app.  A case is an observed pre-state and a list of (operation, outcome class,
   observed post-state); post = None means the harness observed the projection unchanged.
   Fan: every operation is applied to the same pre-state (breadth-first exploration);
   Chain: each operation is applied to the state observed after the previous one (a history).
   In both the model's step starts from the OBSERVED state, never from its own result. *)
From Coq Require Import ZArith NArith List Bool Uint63.
From JK Require Import Base.AList Model.Rns.
Import ListNotations.
Open Scope Z_scope.

(* the observed post-state, written as the components that differ from the observed pre-state
   (None = that component was observed unchanged; d_bank lists the balances that changed) *)
Record delta := {
  d_height : option Z;
  d_names : option (list (N * name_rec));
  d_forsale : option (list (N * sale));
  d_bids : option (list (bidkey * bid));
  d_primary : option (list (addr * N));
  d_inits : option (list addr);
  d_bank : list (bkey * Z)
}.

Definition odef {A} (o : option A) (d : A) : A := match o with Some x => x | None => d end.
Definition apply_delta (pre : state) (d : delta) : state :=
  {| height := odef (d_height d) (height pre);
     names := odef (d_names d) (names pre);
     forsale := odef (d_forsale d) (forsale pre);
     bids := odef (d_bids d) (bids pre);
     primary := odef (d_primary d) (primary pre);
     inits := odef (d_inits d) (inits pre);
     bank_of := map (fun kv => match aget bkey_eqb (d_bank d) (fst kv) with
                               | Some v => (fst kv, v)
                               | None => kv
                               end) (bank_of pre) |}.
Definition post_of (pre : state) (d : option delta) : state :=
  match d with Some x => apply_delta pre x | None => pre end.

Inductive c08_case :=
| Fan (pre : state) (l : list (op * N * option delta))
| Chain (pre : state) (l : list (op * N * option delta)).

Definition sub_eqb (a b : subrec) : bool :=
  N.eqb (sr_name a) (sr_name b) && N.eqb (sr_value a) (sr_value b) && N.eqb (sr_data a) (sr_data b) &&
  (sr_expires a =? sr_expires b).
Fixpoint list_eqb {A} (e : A -> A -> bool) (l1 l2 : list A) : bool :=
  match l1, l2 with
  | [], [] => true
  | x :: r1, y :: r2 => e x y && list_eqb e r1 r2
  | _, _ => false
  end.
Definition name_eqb (a b : name_rec) : bool :=
  addr_eqb (n_value a) (n_value b) && (n_expires a =? n_expires b) && (n_locked a =? n_locked b) &&
  N.eqb (n_data a) (n_data b) && list_eqb sub_eqb (n_subs a) (n_subs b).
Definition coin_eqb (a b : coin) : bool := N.eqb (fst a) (fst b) && (snd a =? snd b).
Definition ocoin_eqb (a b : option coin) : bool :=
  match a, b with Some x, Some y => coin_eqb x y | None, None => true | _, _ => false end.
Definition sale_eqb (a b : sale) : bool := ocoin_eqb (f_price a) (f_price b) && addr_eqb (f_owner a) (f_owner b).
Definition bid_eqb (a b : bid) : bool := addr_eqb (b_bidder a) (b_bidder b) && list_eqb coin_eqb (b_price a) (b_price b).

(* equality of two duplicate-free association lists as finite maps *)
Definition map_eqb {K V} (keqb : K -> K -> bool) (veqb : V -> V -> bool) (l1 l2 : list (K * V)) : bool :=
  Nat.eqb (length l1) (length l2) &&
  forallb (fun kv => match aget keqb l2 (fst kv) with Some v => veqb (snd kv) v | None => false end) l1.
Definition set_eqb {A} (e : A -> A -> bool) (l1 l2 : list A) : bool :=
  Nat.eqb (length l1) (length l2) && forallb (fun x => existsb (e x) l2) l1.

(* obs: what the implementation shows (keys unique, every balance of the account universe listed) *)
Definition state_eqb (obs model : state) : bool :=
  (height obs =? height model) &&
  map_eqb N.eqb name_eqb (names obs) (names model) &&
  map_eqb N.eqb sale_eqb (forsale obs) (forsale model) &&
  map_eqb bidkey_eqb bid_eqb (bids obs) (bids model) &&
  map_eqb addr_eqb N.eqb (primary obs) (primary model) &&
  set_eqb addr_eqb (inits obs) (inits model) &&
  forallb (fun kv => bal (bank_of model) (fst (fst kv)) (snd (fst kv)) =? snd kv) (bank_of obs).

Definition out_code (o : out) : N := match o with Ok => 0%N | Fail => 1%N end.

Definition step_ok (pre : state) (x : op * N * option delta) : bool :=
  let '(o, oc, post) := x in
  let '(s', r) := step pre o in
  N.eqb (out_code r) oc && state_eqb (post_of pre post) s'.

Fixpoint chain_ok (pre : state) (l : list (op * N * option delta)) : bool :=
  match l with
  | [] => true
  | x :: r => step_ok pre x && chain_ok (post_of pre (snd x)) r
  end.

Definition c08_ok (c : c08_case) : bool :=
  match c with
  | Fan pre l => forallb (step_ok pre) l
  | Chain pre l => chain_ok pre l
  end.

(* ---- constructors for the generated files.  Numbers are written as primitive 63-bit integer
   literals (parsing a Z/N numeral costs Coq about 0.05 ms per digit, a primitive literal nothing;
   a quick run prints about 10^6 numbers) and converted here; zi / zn give a Z and its negation. *)
Definition zi (i : int) : Z := Uint63.to_Z i.
Definition zn (i : int) : Z := - Uint63.to_Z i.
Definition ni (i : int) : N := Z.to_N (Uint63.to_Z i).
Definition SI (i : int) : option int := Some i.
Definition oni (o : option int) : option N := match o with Some i => Some (ni i) | None => None end.

Definition A (a : int) (up : bool) : addr := (ni a, up).
Definition C (d : int) (v : Z) : coin := (ni d, v).
Definition NM (f : int) (k : option int) : nm := {| nm_full := ni f; nm_key := oni k |}.
Definition R (n v d : int) (e : Z) : subrec := {| sr_name := ni n; sr_value := ni v; sr_data := ni d; sr_expires := e |}.
Definition NE (k : int) (v : addr) (e l : Z) (d : int) (subs : list subrec) : N * name_rec :=
  (ni k, {| n_value := v; n_expires := e; n_locked := l; n_data := ni d; n_subs := subs |}).
Definition FE (k : int) (p : option coin) (o : addr) : N * sale := (ni k, {| f_price := p; f_owner := o |}).
Definition BE (a : addr) (f : int) (b : addr) (p : coins) : bidkey * bid := ((a, ni f), {| b_bidder := b; b_price := p |}).
Definition PE (a : addr) (k : int) : addr * N := (a, ni k).
Definition BL (a d : int) (v : Z) : bkey * Z := ((ni a, ni d), v).
Definition mkS (h : Z) (nms : list (N * name_rec)) (fs : list (N * sale)) (bs : list (bidkey * bid))
           (pr : list (addr * N)) (ins : list addr) (bk : bank) : state :=
  {| height := h; names := nms; forsale := fs; bids := bs; primary := pr; inits := ins; bank_of := bk |}.
Definition mkD (h : option Z) (nms : option (list (N * name_rec))) (fs : option (list (N * sale)))
           (bs : option (list (bidkey * bid))) (pr : option (list (addr * N))) (ins : option (list addr))
           (bk : bank) : delta :=
  {| d_height := h; d_names := nms; d_forsale := fs; d_bids := bs; d_primary := pr; d_inits := ins; d_bank := bk |}.
(* one observed step: operation, outcome class (0 ok, 1 fail, 2 panic), observed change *)
Definition St (o : op) (oc : int) (d : option delta) : op * N * option delta := (o, ni oc, d).

Definition oReg (vb : bool) (s : addr) (k : option int) (rsv : bool) (cost years : Z) (data : int) (prim : bool) : op :=
  Register vb s (oni k) rsv cost years (ni data) prim.
Definition oList (vb : bool) (s : addr) (n : nm) (p : option coin) : op := ListName vb s n p.
Definition oUpd (vb : bool) (s : addr) (n : nm) (d : int) : op := Update vb s n (ni d).
Definition oAdd (vb : bool) (s : addr) (n : nm) (rr rl v : int) (hd : bool) (d : int) : op :=
  AddRecord vb s n (ni rr) (ni rl) (ni v) hd (ni d).
Definition oDel (vb : bool) (s : addr) (n : nm) (sub : option (int * int)) : op :=
  DelRecord vb s n (match sub with Some (a, b) => Some (ni a, ni b) | None => None end).
Definition SP (a b : int) : option (int * int) := Some (a, b).
Definition oInit (vb : bool) (s : addr) (k : int) (bad : bool) : op := InitName vb s (ni k) bad.
Definition oPrim (vb : bool) (s : addr) (k : option int) : op := MakePrimary vb s (oni k).

(* the literals in argument positions of type int are primitive-integer literals *)
Arguments zi i%uint63.
Arguments zn i%uint63.
Arguments ni i%uint63.
Arguments SI i%uint63.
Arguments A a%uint63 up.
Arguments C d%uint63 v.
Arguments NM f%uint63 k.
Arguments R (n v d)%uint63 e.
Arguments NE k%uint63 v e l d%uint63 subs.
Arguments FE k%uint63 p o.
Arguments BE a f%uint63 b p.
Arguments PE a k%uint63.
Arguments BL (a d)%uint63 v.
Arguments St o oc%uint63 d.
Arguments oReg vb s k rsv cost years data%uint63 prim.
Arguments oUpd vb s n d%uint63.
Arguments oAdd vb s n (rr rl v)%uint63 hd d%uint63.
Arguments SP (a b)%uint63.
Arguments oInit vb s k%uint63 bad.
