(* Correspondence for C19: the translator table's prediction against what the real
   ExportGenesis / InitGenesis did to the records of each (module, store prefix, record kind). *)
From Coq Require Import String List Bool.
From JK Require Import Model.Genesis.
From JK Require Import Gen.GenesisKinds.
From JK Require Import Corr.Run.
Import ListNotations.
Open Scope string_scope.

Inductive c19_case :=
| Kind (module prefix kind : string) (survived : bool)
    (* every record of this kind that existed before the export exists with the same value on the
       restored chain, and the restored chain has no record of this kind the source lacked *)
| Populated (module : string) (kinds : list (string * string)).
    (* the (prefix, kind) pairs of the module that held records before the export in this run *)

Definition c19_ok (c : c19_case) : bool :=
  match c with
  | Kind m p k sv =>
    match predicts_survival genesis_table m p k with
    | Some b => Bool.eqb b sv
    | None => false           (* a record kind on the running chain the table does not know *)
    end
  | Populated mn ks =>
    match find (fun m => String.eqb (m_name m) mn) genesis_table with
    | None => false
    | Some m => forallb (fun k => existsb (fun pk => String.eqb (fst pk) (fst k) && String.eqb (snd pk) (kind_name k)) ks)
                        (written_kinds m)
    end
  end.
