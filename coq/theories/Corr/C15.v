(* Correspondence for C15 (and the provider part of C11): one observed step of the real app
   — the slice of its state before the operation, the operation, the outcome class and the
   slice after — against Model.Collateral.step applied to the observed pre-state.
   Stores are compared as finite maps (the harness lists them sorted by key; the model
   appends new keys at the end). *)
From Coq Require Import ZArith NArith List Bool.
From JK Require Import Base.AList Model.Collateral Corr.Run.
Import ListNotations.
Open Scope Z_scope.

Definition out_eqb (a b : out) : bool :=
  match a, b with Ok, Ok | Fail, Fail | Panic, Panic => true | _, _ => false end.

Fixpoint list_eqb {A} (e : A -> A -> bool) (a b : list A) : bool :=
  match a, b with
  | [], [] => true
  | x :: r, y :: q => e x y && list_eqb e r q
  | _, _ => false
  end.

Definition prov_eqb (a b : prov) : bool :=
  sg_eqb (p_addr a) (p_addr b) && N.eqb (p_ip a) (p_ip b) && (p_space a =? p_space b) &&
  sg_eqb (p_creator a) (p_creator b) && (p_burned a =? p_burned b) && N.eqb (p_keybase a) (p_keybase b) &&
  list_eqb sg_eqb (p_claimers a) (p_claimers b).

Definition opt_eqb {A} (e : A -> A -> bool) (a b : option A) : bool :=
  match a, b with Some x, Some y => e x y | None, None => true | _, _ => false end.

(* equality of two association lists as finite maps (keys without repetition) *)
Definition amap_eqb {K V} (ke : K -> K -> bool) (ve : V -> V -> bool) (a b : list (K * V)) : bool :=
  Nat.eqb (length a) (length b) &&
  forallb (fun k => opt_eqb ve (aget ke a k) (aget ke b k)) (map fst a ++ map fst b).

Fixpoint nodup_keys {K} (ke : K -> K -> bool) (l : list K) : bool :=
  match l with [] => true | k :: r => negb (existsb (ke k) r) && nodup_keys ke r end.

Definition bank_eqb (a b : bank) : bool :=
  forallb (fun k => bal a k =? bal b k) (map fst a ++ map fst b).

Definition state_eqb (a b : state) : bool :=
  (st_price a =? st_price b) &&
  amap_eqb sg_eqb prov_eqb (st_prov a) (st_prov b) &&
  amap_eqb sg_eqb Z.eqb (st_coll a) (st_coll b) &&
  bank_eqb (st_bank a) (st_bank b) &&
  list_eqb N.eqb (st_blocked a) (st_blocked b) &&
  (st_supply a =? st_supply b) &&
  amap_eqb sg_eqb Z.eqb (st_proofs a) (st_proofs b).

(* the observed lists are well formed: no key twice *)
Definition wf_obs (s : state) : bool :=
  nodup_keys sg_eqb (map fst (st_prov s)) && nodup_keys sg_eqb (map fst (st_coll s)) &&
  nodup_keys N.eqb (map fst (st_bank s)).

Inductive c15_case :=
| Step (pre : state) (o : op) (res : out) (post : state).

Definition c15_ok (c : c15_case) : bool :=
  match c with
  | Step pre o res post =>
    let (s', r) := step pre o in
    wf_obs pre && wf_obs post && out_eqb r res && state_eqb s' post
  end.

(* short constructors for the generated case files *)
Definition mkS := Build_state.
Definition mkP := Build_prov.
