(* Correspondence for C18: the notifications model on what the real app did.
   StepCase    : one message through ValidateBasic + router + cache context (Env.Run): raw KV dump of
                 the module's "Notification/" prefix before and after (values decoded as Notification,
                 in iteration order), outcome class, and the three grpc queries on the state after.
   HandlerCase : the message server called directly on a branch of the state (no ValidateBasic, the
                 branch is inspected whatever the handler returned): ties the handler bodies, including
                 the "does not parse -> raw string" fall-back and the writes made before a failure. *)
From Coq Require Import ZArith NArith List Bool String Ascii.
From JK Require Import Base.Bytes Base.AList Model.Notifications Corr.Run.
Import ListNotations.

Definition bs (s : string) : bytes := map N_of_ascii (list_ascii_of_string s).
Arguments bs s%string_scope.

Definition note_eqb (a b : note) : bool :=
  beqb (n_to a) (n_to b) && beqb (n_from a) (n_from b) && (n_time a =? n_time b)%Z &&
  beqb (n_contents a) (n_contents b) && beqb (n_priv a) (n_priv b).

Fixpoint list_eqb {A} (f : A -> A -> bool) (a b : list A) : bool :=
  match a, b with
  | [], [] => true
  | x :: a', y :: b' => f x y && list_eqb f a' b'
  | _, _ => false
  end.

Definition entry_eqb (a b : bytes * note) : bool := beqb (fst a) (fst b) && note_eqb (snd a) (snd b).
Definition store_eqb : store -> store -> bool := list_eqb entry_eqb.
Definition out_eqb (a b : out) : bool := match a, b with Ok, Ok => true | Fail, Fail => true | _, _ => false end.
Definition onote_eqb (a b : option note) : bool :=
  match a, b with Some x, Some y => note_eqb x y | None, None => true | _, _ => false end.

(* executable form of the invariant of Proofs/NotificationsProofs.v, evaluated on every observed state *)
Definition nosl (b : bytes) : bool := negb (has_slash b).
Definition entry_okb (e : bytes * note) : bool :=
  let (k, v) := e in
  nosl (n_to v) && nosl (n_from v) &&
  (beqb k (nkey_of v) ||
   (beqb k (bkey (n_to v) (n_from v)) && (n_time v =? 0)%Z && beqb (n_contents v) [] && beqb (n_priv v) [])).
Fixpoint sortedb (s : store) : bool :=
  match s with
  | [] => true
  | (k, _) :: r => match r with
                   | [] => true
                   | (k', _) :: _ => match bcmp k k' with Lt => sortedb r | _ => false end
                   end
  end.
Definition invb (s : store) : bool := forallb entry_okb s && sortedb s.

Definition oopt_nosl (o : option bytes) : bool := match o with Some b => nosl b | None => true end.
Definition wf_opb (o : op) : bool :=
  oopt_nosl (sg_canon (op_signer o)) &&
  match o with
  | Create _ t _ _ _ _ => oopt_nosl t
  | Delete _ _ _ => true
  | Block _ ts => forallb oopt_nosl ts
  end.

Inductive c18_case :=
| StepCase (pre : store) (o : op) (outc : out) (post : store)
           (inboxes : list (bytes * list note))               (* AllNotificationsByAddress(arg) on post *)
           (all : list note)                                   (* AllNotifications on post *)
           (exported : list note)                              (* keeper GetAllNotifications on post (ExportGenesis) *)
           (ones : list (bytes * bytes * Z * option note))     (* Notification(to, from, time) on post *)
| HandlerCase (pre : store) (o : op) (outc : out) (post : store).

Definition c18_ok (c : c18_case) : bool :=
  match c with
  | StepCase pre o outc post inboxes all exported ones =>
    let r := step pre o in
    store_eqb (fst r) post && out_eqb (snd r) outc &&
    invb pre && invb post && wf_opb o &&
    forallb (fun q => list_eqb note_eqb (q_by_address post (fst q)) (snd q)) inboxes &&
    list_eqb note_eqb (q_all post) all && list_eqb note_eqb (q_all post) exported &&
    forallb (fun q => match q with (to, from, t, r) => onote_eqb (q_one post to from t) r end) ones
  | HandlerCase pre o outc post =>
    let r := handler pre o in
    store_eqb (fst r) post && out_eqb (snd r) outc
  end.
