(* Compact spelling of byte strings in the generated C10 case files: a length and a list
   of primitive 63-bit integers, seven bytes per integer, big-endian, the last one padded
   with zero bytes.  (A list of N literals of the same data takes Coq ~15x longer to
   elaborate; only the correspondence checker uses this, no theorem does.) *)
From Coq Require Import NArith ZArith List Uint63.
From JK Require Import Base.Bytes.
Import ListNotations.

Definition byte_at (w i : int) : N := Z.to_N (Uint63.to_Z ((w >> i) land 255)%uint63).
Definition w7_bytes (w : int) : bytes :=
  [byte_at w 48; byte_at w 40; byte_at w 32; byte_at w 24; byte_at w 16; byte_at w 8; byte_at w 0]%uint63.
Definition ub (len : N) (ws : list int) : bytes := firstn (N.to_nat len) (flat_map w7_bytes ws).
