(* Correspondence for C16: the registration model on what the real code did.
   CostFn / TldFn / TldCount: function level (keeper.GetCostOfName on the (name, tld) that
   keeper.GetNameAndTLD derives, types.TLDCost, types.IsReserved, types.SupportedTLDs).
   Reg: one MsgRegister / MsgRegisterName / direct RegisterRNSName call on the assembled app:
   the Names store, the PrimaryName store and the ujkl balances of the history's account
   universe before and after, and the outcome class.
   InitC: the same for one MsgInit. *)
From Coq Require Import ZArith NArith List Bool.
From JK Require Import Base.Dec Base.AList Base.Bytes Model.RnsReg Corr.Run.
Import ListNotations.
Open Scope Z_scope.

Inductive c16_case :=
| CostFn (len : Z) (t : tld) (res : option Z)       (* GetCostOfName; None = error *)
| PriceFn (len : Z) (t : tld) (res : Z)             (* the same value against the price list of the theorems *)
| TldFn (t : tld) (base : Z) (reserved : bool)
| TldCount (n : Z)
| NameFn (raw : bytes) (res : option (bytes * tld))  (* GetNameAndTLD(ReplaceAll(ToLower(raw)," ","")), ASCII raw *)
| Reg (acc : accts)
      (pre_names : list (N * name_rec)) (pre_primary : list (N * N)) (pre_bank : list (N * Z))
      (op : reg_op) (out : outcome)
      (post_names : list (N * name_rec)) (post_primary : list (N * N)) (post_bank : list (N * Z))
| InitC (pre_names : list (N * name_rec)) (pre_primary : list (N * N)) (pre_bank : list (N * Z))
      (op : init_op) (out : outcome)
      (post_names : list (N * name_rec)) (post_primary : list (N * N)) (post_bank : list (N * Z)).

Definition oz_eqb (a b : option Z) : bool :=
  match a, b with Some x, Some y => x =? y | None, None => true | _, _ => false end.

Definition rec_eqb (a b : name_rec) : bool :=
  N.eqb (n_owner a) (n_owner b) && (n_expires a =? n_expires b) && N.eqb (n_data a) (n_data b) &&
  (n_locked a =? n_locked b) && (n_subs a =? n_subs b).

(* equality of two duplicate-free association lists as finite maps *)
Definition same_map {V} (veq : V -> V -> bool) (l1 l2 : list (N * V)) : bool :=
  Nat.eqb (length l1) (length l2) &&
  forallb (fun kv => match aget N.eqb l2 (fst kv) with Some v => veq (snd kv) v | None => false end) l1.

Definition c16_ok (c : c16_case) : bool :=
  match c with
  | CostFn len t res => oz_eqb (cost_of_name len t) res
  | PriceFn len t res => listed_price len t =? res
  | TldFn t base reserved => (tld_cost t =? base) && Bool.eqb (is_reserved t) reserved
  | TldCount n => n =? 2
  | NameFn raw res =>
    match name_and_tld (normalize raw), res with
    | Some (n, t), Some (n', t') => beqb n n' && tld_eqb t t'
    | None, None => true
    | _, _ => false
    end
  | Reg acc names prim bank op out names' prim' bank' =>
    let s := {| s_names := names; s_primary := prim; s_bank := bank |} in
    let '(o, s') := register acc s op in
    outcome_eqb o out &&
    same_map rec_eqb names' (s_names s') &&
    same_map N.eqb prim' (s_primary s') &&
    forallb (fun av => bal (s_bank s') (fst av) =? snd av) bank'
  | InitC names prim bank op out names' prim' bank' =>
    let s := {| s_names := names; s_primary := prim; s_bank := bank |} in
    let '(o, s') := init_name s op in
    outcome_eqb o out &&
    same_map rec_eqb names' (s_names s') &&
    same_map N.eqb prim' (s_primary s') &&
    forallb (fun av => bal (s_bank s') (fst av) =? snd av) bank'
  end.
