(* Correspondence for C13: the mint model on the blocks the real BlockMint executed. *)
From Coq Require Import ZArith NArith List Bool.
From JK Require Import Base.Dec Base.AList Model.Mint Corr.Run.
Import ListNotations.
Open Scope Z_scope.

Inductive c13_case :=
| MintFn (prev blocks decrease result : Z)      (* utils.GetMintForBlock *)
| Block (p : mparams)
        (pre_fee pre_dev pre_stip pre_mod pre_supply : Z) (pre_last : option Z)
        (post_fee post_dev post_stip post_mod post_supply : Z) (post_rec : option Z)
          (* post_rec: MintedBlock stored for this height, if any *)
| BlockSameReceiver (p : mparams)      (* the stipend address is the developer-grants pool: one account, two shares *)
        (pre_fee pre_dev pre_mod pre_supply : Z) (pre_last : option Z)
        (post_fee post_dev post_mod post_supply : Z) (post_rec : option Z).

Definition accts : maccts := {| a_fee := 1; a_dev := 2; a_stip := 3; a_mod := 4 |}%N.
Definition accts_same : maccts := {| a_fee := 1; a_dev := 2; a_stip := 2; a_mod := 4 |}%N.

Definition oz_eqb (a b : option Z) : bool :=
  match a, b with Some x, Some y => x =? y | None, None => true | _, _ => false end.

Definition c13_ok (c : c13_case) : bool :=
  match c with
  | MintFn prev blocks d r => mint_for_block prev blocks d =? r
  | Block p f d st m sup last f' d' st' m' sup' rec' =>
    let s := {| m_bank := [(1%N, f); (2%N, d); (3%N, st); (4%N, m)]; m_supply := sup; m_last := last |} in
    let r := block_mint accts p s in
    let b := m_bank (r_state r) in
    (bal b 1%N =? f') && (bal b 2%N =? d') && (bal b 3%N =? st') && (bal b 4%N =? m') &&
    (m_supply (r_state r) =? sup') && oz_eqb (m_last (r_state r)) rec'
  | BlockSameReceiver p f d m sup last f' d' m' sup' rec' =>
    let s := {| m_bank := [(1%N, f); (2%N, d); (4%N, m)]; m_supply := sup; m_last := last |} in
    let r := block_mint accts_same p s in
    let b := m_bank (r_state r) in
    (bal b 1%N =? f') && (bal b 2%N =? d') && (bal b 4%N =? m') &&
    (m_supply (r_state r) =? sup') && oz_eqb (m_last (r_state r)) rec'
  end.
