(* Correspondence for C05: the begin-block panic model against what the real
   RunRewardBlock / BlockMint did (under recover) on states built on the real app, reachable
   and deliberately unreachable ones (so that every Panic branch of the model is exercised
   against a real Go panic), and the boolean form of the invariant on states reached by
   valid transactions. *)
From Coq Require Import ZArith NArith List Bool Lia.
From JK Require Import Base.Dec Model.Mint Model.BeginBlock Proofs.BeginBlockProofs Corr.Run.
Import ListNotations.
Open Scope Z_scope.

Inductive c05_case :=
| RewardCase (h now : Z) (s : sstate) (panicked : bool)
             (post_files : list Z)           (* number of prover slots of each surviving file, store order *)
             (post_gauges : list (list Z))   (* escrow balance per recorded coin of each surviving gauge *)
| MintCase (denom_ok stip_parses : bool) (p : mparams) (s : mstate) (panicked : bool)
| InvCase (b : bstate).                      (* reached on the real app by valid transactions *)

Fixpoint lz_eqb (a b : list Z) : bool :=
  match a, b with
  | [], [] => true
  | x :: r, y :: t => (x =? y) && lz_eqb r t
  | _, _ => false
  end.
Fixpoint llz_eqb (a b : list (list Z)) : bool :=
  match a, b with
  | [], [] => true
  | x :: r, y :: t => lz_eqb x y && llz_eqb r t
  | _, _ => false
  end.

(* ---- boolean form of the invariant ---- *)
Definition coin_basic_b (c : gcoin) : bool :=
  gc_denom_ok c && (0 <=? gc_bal c) && (gc_bal c <? B62) && (0 <=? gc_amt c) && (gc_amt c <? B62).
Definition coin_sched_b (r : Z) (c : gcoin) : bool := dec (gc_amt c - gc_bal c) <=? would_be r (gc_amt c).
Definition gauge_ok_b (t : Z) (g : bgauge) : bool :=
  (negb (g_start g <? g_end g) || (1000 <=? g_end g - g_start g)) && (g_start g <=? t) && forallb coin_basic_b (g_coins g) &&
  (if (t <=? g_end g) && (g_start g <? g_end g) then forallb (coin_sched_b (ratio_at g t)) (g_coins g) else true).
Fixpoint nodup_b (l : list N) : bool :=
  match l with [] => true | x :: r => negb (mem_key x r) && nodup_b r end.
Lemma nodup_b_sound l : nodup_b l = true -> NoDup l.
Proof.
  induction l as [|x r IH]; cbn; intros H; [constructor|].
  apply andb_true_iff in H as [Hx Hr]. constructor; [|exact (IH Hr)].
  intros C. apply negb_true_iff in Hx. unfold mem_key in Hx.
  assert (existsb (N.eqb x) r = true) as E by (apply existsb_exists; exists x; split; [exact C | apply N.eqb_refl]).
  rewrite E in Hx. discriminate.
Qed.
Definition file_ok_b (f : bfile) : bool := (1 <=? bf_interval f) && nodup_b (map sl_key (bf_slots f)).

Definition inv_check (b : bstate) : bool :=
  (1 <=? ss_check_window (b_s b)) && (1 <=? b_proof_window b) &&
  forallb file_ok_b (ss_files (b_s b)) &&
  forallb (gauge_ok_b (b_now b)) (ss_gauges (b_s b)).

Lemma inv_check_sound b : inv_check b = true -> Inv b.
Proof.
  unfold inv_check, Inv. rewrite !andb_true_iff, !Z.leb_le, !forallb_forall.
  intros [[[Hc Hp] Hf] Hg]. repeat split; try assumption.
  - apply Forall_forall. intros f Hin. specialize (Hf f Hin). unfold file_ok_b in Hf.
    apply andb_true_iff in Hf as [Hi Hn]. split; [apply Z.leb_le; exact Hi | apply nodup_b_sound; exact Hn].
  - apply Forall_forall. intros g Hin. specialize (Hg g Hin). unfold gauge_ok_b in Hg.
    rewrite !andb_true_iff, Z.leb_le, forallb_forall in Hg. destruct Hg as [[[Hm Hs] Hb] Hc'].
    unfold gauge_ok. repeat split; try assumption.
    + intros Hlt. apply orb_true_iff in Hm as [Hm|Hm]; [apply negb_true_iff, Z.ltb_ge in Hm; lia | apply Z.leb_le in Hm; exact Hm].
    + apply Forall_forall. intros c Hc0. specialize (Hb c Hc0). unfold coin_basic_b in Hb.
      rewrite !andb_true_iff, !Z.leb_le, !Z.ltb_lt in Hb. unfold coin_basic. intuition.
    + intros He Hse. apply Z.leb_le in He. apply Z.ltb_lt in Hse. rewrite He, Hse in Hc'. cbn in Hc'.
      rewrite forallb_forall in Hc'. apply Forall_forall. intros c Hc0. specialize (Hc' c Hc0).
      unfold coin_sched_b in Hc'. apply Z.leb_le in Hc'. exact Hc'.
Qed.

Definition c05_ok (c : c05_case) : bool :=
  match c with
  | RewardCase h now s panicked pf pg =>
    match reward_block h now s with
    | Panic => panicked
    | Done (s', _) =>
      negb panicked &&
      lz_eqb (map (fun f => Z.of_nat (length (bf_slots f))) (ss_files s')) pf &&
      llz_eqb (map (fun g => map gc_bal (g_coins g)) (ss_gauges s')) pg
    end
  | MintCase dok sp p s panicked => Bool.eqb (mint_panics dok sp p s) panicked
  | InvCase b => inv_check b
  end.
