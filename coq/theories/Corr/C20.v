(* Correspondence for C20: the path model instantiated with the executable SHA-256
   is run on the inputs the implementation (types.MerklePath / types.AddToMerkle /
   crypto/sha256) was run on. *)
From Coq Require Import NArith List Bool.
From JK Require Import Base.Bytes Hash.Sha256 Model.Paths Corr.Run.
Import ListNotations.

Inductive c20_case :=
| Sha (input digest : bytes)                 (* crypto/sha256 *)
| MPath (path expected : bytes)              (* types.MerklePath *)
| AddM (path app expected : bytes)           (* types.AddToMerkle *)
| Post (hparent hchild expected : bytes)     (* MsgPostFileResponse.Path of filetree PostFile *)
| Helper (path hparent hchild : bytes)       (* types.MerkleHelper: the client-side split of a plain path *)
| HashHex (input expected : bytes).          (* types.HashThenHex: what a client hashes a child name with *)

Definition c20_ok (c : c20_case) : bool :=
  match c with
  | Sha i d => beqb (sha256 i) d
  | MPath p e => beqb (merkle_path sha256 p) e
  | AddM p a e => beqb (add_to_merkle sha256 p a) e
  | Post hp hc e => beqb (post_file_path sha256 hp hc) e
  | Helper p hp hc => let (mp, mc) := client_split sha256 p in beqb mp hp && beqb mc hc
  | HashHex i e => beqb (hexH sha256 i) e
  end.
