(* Helpers shared by the generated cases_*.v files of the correspondence check. *)
From Coq Require Import NArith List Bool.
Import ListNotations.

Fixpoint failing_from {A} (i : N) (f : A -> bool) (l : list A) : list N :=
  match l with
  | [] => []
  | x :: r => if f x then failing_from (N.succ i) f r else i :: failing_from (N.succ i) f r
  end.
(* indices (from 0) of the cases on which the model disagrees with the implementation *)
Definition failing {A} (f : A -> bool) (l : list A) : list N := failing_from 0%N f l.
