(* Differential validation of Base/Dec.v against the real sdk.Dec (shared by the
   properties whose models compute with decimals). Raw values are the scaled integers. *)
From Coq Require Import ZArith List Bool.
From JK Require Import Base.Dec Corr.Run.
Import ListNotations.
Open Scope Z_scope.

Inductive dec_case :=
| DQuo (a b r : Z) | DMul (a b r : Z) | DQuoInt (a n r : Z) | DMulInt (a n r : Z) | DTrunc (a r : Z)
| DWrap (x r : Z).

Definition dec_ok (c : dec_case) : bool :=
  match c with
  | DQuo a b r => dquo a b =? r
  | DMul a b r => dmul a b =? r
  | DQuoInt a n r => dquo_int a n =? r
  | DMulInt a n r => dmul_int a n =? r
  | DTrunc a r => dtrunc a =? r
  | DWrap x r => wrap64 x =? r
  end.
