(* Correspondence for C04: the storage-payment model on what the real keeper functions and the
   real BuyStorage / PostFile handlers (assembled app, real bank) did.  Step-wise: the model is
   applied to the observed pre-state of each operation and compared with the observed post-state
   (every balance of the bank in ujkl, every payment gauge, every StoragePaymentInfo). *)
From Coq Require Import ZArith NArith List Bool.
From JK Require Import Base.Dec Base.AList Model.StoragePay Corr.Run.
Import ListNotations.
Open Scope Z_scope.

Inductive c04_case :=
| CostFn (ppt jkl gbs hours : Z) (res : option Z)      (* keeper.GetStorageCost; None = panicked *)
| CostKbs (ppt jkl kbs hours : Z) (res : option Z)     (* keeper.GetStorageCostKbs *)
| Buy (e : env) (m : buy_msg) (pre : pstate) (o : out) (post : pstate)
| Post (e : env) (m : post_msg) (pre : pstate) (o : out) (post : pstate).

Definition oz_eqb (a b : option Z) : bool :=
  match a, b with Some x, Some y => x =? y | None, None => true | _, _ => false end.
Definition out_eqb (a b : out) : bool :=
  match a, b with Ok, Ok | Fail, Fail | Panic, Panic => true | _, _ => false end.
Definition plan_eqb (a b : plan) : bool :=
  (p_start a =? p_start b) && (p_end a =? p_end b) && (p_avail a =? p_avail b) && (p_used a =? p_used b).
Definition oplan_eqb (a b : option plan) : bool :=
  match a, b with Some x, Some y => plan_eqb x y | None, None => true | _, _ => false end.

(* balances agree on every account mentioned on either side (absent = 0) *)
Definition bank_agree (x y : bank) : bool :=
  forallb (fun a => bal x a =? bal y a) (map fst x ++ map fst y).
(* recorded coins agree on every gauge mentioned on either side (a gauge recording no coins = absent) *)
Definition gauges_agree (x y : list (gkey * Z)) : bool :=
  forallb (fun k => recorded x k =? recorded y k) (map fst x ++ map fst y).
Definition plans_agree (x y : list (acct * plan)) : bool :=
  forallb (fun a => oplan_eqb (aget acct_eqb x a) (aget acct_eqb y a)) (map fst x ++ map fst y).

Definition state_agree (x y : pstate) : bool :=
  bank_agree (s_bank x) (s_bank y) && gauges_agree (s_gauges x) (s_gauges y) && plans_agree (s_plans x) (s_plans y).

Definition c04_ok (c : c04_case) : bool :=
  match c with
  | CostFn ppt jkl gbs hours res => oz_eqb (storage_cost ppt jkl gbs hours) res
  | CostKbs ppt jkl kbs hours res => oz_eqb (storage_cost_kbs ppt jkl kbs hours) res
  | Buy e m pre o post =>
    let '(o', s') := buy_storage e m pre in
    out_eqb o' o && state_agree s' post
  | Post e m pre o post =>
    match post_file e m pre with
    | Some (o', s') => out_eqb o' o && bank_agree (s_bank s') (s_bank post) && gauges_agree (s_gauges s') (s_gauges post)
    | None => (* plan-paid file: no money moves whatever the outcome *)
      bank_agree (s_bank pre) (s_bank post) && gauges_agree (s_gauges pre) (s_gauges post)
    end
  end.
