(* Correspondence for C14: one observed (pre, op, outcome, post) of the real handlers
   RequestAttestationForm / Attest / RequestReportForm / Report against Model.Forms.step. *)
From Coq Require Import ZArith NArith List Bool.
From JK Require Import Base.AList Model.Forms Corr.Run.
Import ListNotations.
Open Scope Z_scope.

(* what the harness sees of a message: ok (+ Success flag and provider names of a Request*Form
   response; `true []` for the empty Attest / Report responses), fail, panic *)
Inductive c14_out := XOk (success : bool) (names : list str) | XFail | XPanic.

Inductive c14_case := Step (pre : fstate) (o : op) (out : c14_out) (post : fstate).

Fixpoint list_eqb {A} (e : A -> A -> bool) (a b : list A) : bool :=
  match a, b with
  | [], [] => true
  | x :: a', y :: b' => e x y && list_eqb e a' b'
  | _, _ => false
  end.

(* equality of two stores as finite maps (the harness prints them sorted by key) *)
Definition amap_eqb {K V} (ek : K -> K -> bool) (ev : V -> V -> bool) (a b : list (K * V)) : bool :=
  let sub x y := forallb (fun e => match aget ek y (fst e) with Some v => ev (snd e) v | None => false end) x in
  sub a b && sub b a.

Definition ip_eqb (a b : ipinfo) : bool :=
  match a, b with
  | IpBad, IpBad => true
  | IpHost None, IpHost None => true
  | IpHost (Some (d, t)), IpHost (Some (d', t')) => N.eqb d d' && N.eqb t t'
  | _, _ => false
  end.
Definition entry_eqb (a b : str * bool) : bool := str_eqb (fst a) (fst b) && Bool.eqb (snd a) (snd b).

Definition state_eqb (a b : fstate) : bool :=
  amap_eqb str_eqb ip_eqb (providers a) (providers b) &&
  amap_eqb fkey_eqb (list_eqb str_eqb) (files a) (files b) &&
  amap_eqb pkey_eqb Z.eqb (proofs a) (proofs b) &&
  amap_eqb pkey_eqb (list_eqb entry_eqb) (aforms a) (aforms b) &&
  amap_eqb pkey_eqb (list_eqb entry_eqb) (rforms a) (rforms b) &&
  (form_size a =? form_size b) && (min_to_pass a =? min_to_pass b).

Definition out_eqb (m : outcome) (x : c14_out) : bool :=
  match m, x with
  | OCreated l, XOk true l' => list_eqb str_eqb l l'
  | ORefused, XOk false [] => true
  | (ORecorded | OActed | OIgnored | ODone), XOk true [] => true
  | OFail, XFail => true
  | OPanic, XPanic => true
  | _, _ => false
  end.

Fixpoint nodupb (l : list str) : bool :=
  match l with [] => true | a :: r => negb (mem a r) && nodupb r end.

(* the ghost-free part of the invariant, on the observed post-state *)
Definition forms_wf (s : fstate) : bool :=
  forallb (fun e => nodupb (map fst (snd e))) (aforms s) &&
  forallb (fun e => nodupb (map fst (snd e))) (rforms s) &&
  nodupb (akeys (providers s)).

Definition c14_ok (c : c14_case) : bool :=
  match c with
  | Step pre o out post =>
    let (s', m) := step pre o in
    out_eqb m out && state_eqb s' post && forms_wf post
  end.
