(* Correspondence for C17 (and the carrier of C01): one observed step of the real app —
   the projection of the storage stores before the op, the op with its glue inputs, the
   outcome class, the response's Success flag, the projection after the op — is compared
   with the model's step from the same pre-state.  The boolean invariant [inv_b] is also
   evaluated on both observed states (the executable twin of Inv of Proofs/StorageFilesProofs.v;
   the Go monitor c17InvMonitor checks the same on the implementation independently). *)
From Coq Require Import ZArith NArith List Bool.
From JK Require Import Base.AList Model.StorageFiles Corr.Run.
Import ListNotations.
Open Scope Z_scope.

Record obs := {
  o_f1 : list file;        (* GetAllFileByMerkle *)
  o_f2 : list file;        (* GetAllFileByOwner  *)
  o_proofs : list fproof;  (* GetAllProofs *)
  o_burns : list (N * Z);  (* GetAllProviders: address, BurnedContracts *)
  o_att : list form;       (* GetAllAttestation *)
  o_rep : list form        (* GetAllReport *)
}.

Definition state_of (o : obs) : sstate :=
  {| files1 := map (fun f => (fk1 f, f)) (o_f1 o);
     files2 := map (fun f => (fk2 f, f)) (o_f2 o);
     proofs := map (fun p => (pk_of p, p)) (o_proofs o);
     burns := o_burns o;
     attests := map (fun m => (ak_of m, m)) (o_att o);
     reports := map (fun m => (ak_of m, m)) (o_rep o);
     ever_valid := [] |}.

Fixpoint list_eqb {A} (e : A -> A -> bool) (a b : list A) : bool :=
  match a, b with
  | [], [] => true
  | x :: r, y :: q => e x y && list_eqb e r q
  | _, _ => false
  end.

Definition file_eqb (a b : file) : bool :=
  N.eqb (f_merkle a) (f_merkle b) && N.eqb (f_owner a) (f_owner b) && Z.eqb (f_start a) (f_start b) &&
  Z.eqb (f_expires a) (f_expires b) && Z.eqb (f_size a) (f_size b) && Z.eqb (f_interval a) (f_interval b) &&
  Z.eqb (f_ptype a) (f_ptype b) && list_eqb k4_eqb (f_proofs a) (f_proofs b) && Z.eqb (f_max a) (f_max b) &&
  N.eqb (f_note a) (f_note b).
Definition fproof_eqb (a b : fproof) : bool :=
  k4_eqb (pk_of a) (pk_of b) && Z.eqb (p_last a) (p_last b) && Z.eqb (p_chunk a) (p_chunk b).
Definition att_eqb (a b : N * bool) : bool := N.eqb (fst a) (fst b) && Bool.eqb (snd a) (snd b).
Definition form_eqb (a b : form) : bool := k4_eqb (ak_of a) (ak_of b) && list_eqb att_eqb (fm_atts a) (fm_atts b).

(* same finite map: same number of bindings and every observed binding is the model's *)
Definition same_map {K V} (ke : K -> K -> bool) (ve : V -> V -> bool) (model : list (K * V)) (seen : list (K * V)) : bool :=
  Nat.eqb (length model) (length seen) &&
  forallb (fun kv => match aget ke model (fst kv) with Some v => ve v (snd kv) | None => false end) seen.

Definition same_state (s : sstate) (o : obs) : bool :=
  let t := state_of o in
  same_map k3_eqb file_eqb (files1 s) (files1 t) && same_map k3_eqb file_eqb (files2 s) (files2 t) &&
  same_map k4_eqb fproof_eqb (proofs s) (proofs t) && same_map N.eqb Z.eqb (burns s) (burns t) &&
  same_map k4_eqb form_eqb (attests s) (attests t) && same_map k4_eqb form_eqb (reports s) (reports t).

(* ---------- the invariant of C17 as a boolean ---------- *)
Fixpoint nodupb {A} (e : A -> A -> bool) (l : list A) : bool :=
  match l with [] => true | x :: r => negb (existsb (e x) r) && nodupb e r end.

Definition file_ok_b (s : sstate) (f : file) : bool :=
  nodupb k4_eqb (f_proofs f) && (len f <=? Z.max (f_max f) 0) &&
  forallb (fun k => k3_eqb (pk_file k) (fk1 f) &&
                    match get_proof s k with Some r => k4_eqb (pk_of r) k | None => false end) (f_proofs f).

Definition inv_b (s : sstate) : bool :=
  nodupb k3_eqb (map fst (files1 s)) && nodupb k3_eqb (map fst (files2 s)) &&
  forallb (fun kf => k3_eqb (fst kf) (fk1 (snd kf)) &&
                     match aget k3_eqb (files2 s) (fk2 (snd kf)) with Some g => file_eqb g (snd kf) | None => false end &&
                     file_ok_b s (snd kf)) (files1 s) &&
  forallb (fun kf => k3_eqb (fst kf) (fk2 (snd kf)) &&
                     match aget k3_eqb (files1 s) (fk1 (snd kf)) with Some g => file_eqb g (snd kf) | None => false end) (files2 s) &&
  forallb (fun kp => k4_eqb (fst kp) (pk_of (snd kp))) (proofs s).

(* ---------- cases ---------- *)
(* paid: for every account whose balance grew in a reward block, the ids of its spellings *)
Inductive c17_case :=
| Step (pre : obs) (o : op) (out_seen : out) (success_seen : bool) (post : obs) (paid : list (list N)).

Definition op_extra (s : sstate) (o : op) (r : res) (paid : list (list N)) : bool :=
  match o with
  | PostProof c m ow st h tp v nc cs =>
    (* the drawn challenge lies in the range ResetChunkWithProof draws from *)
    if r_success r then match get_file s (m, ow, st) with Some f => chunk_in_range f cs nc | None => false end
    else true
  | RewardBlock h cw =>
    (* whoever was paid is among the provers the walk credited *)
    let cr := map fst (credited s o) in
    forallb (fun ids => existsb (fun i => existsb (N.eqb i) cr) ids) paid
  | _ => match paid with [] => true | _ => false end
  end.

Definition c17_ok (c : c17_case) : bool :=
  match c with
  | Step pre o out_seen succ post paid =>
    let s := state_of pre in
    let r := msg_step s o in
    out_eqb (r_out r) out_seen && Bool.eqb (r_success r) succ && same_state (r_state r) post &&
    op_extra s o r paid && inv_b s && inv_b (state_of post)
  end.
