(* Correspondence for C07: the plan model applied to the state the implementation was in
   before each operation, compared with the state it was in afterwards.  States are the
   complete StoragePaymentInfo and UnifiedFile stores of a fresh app (projected on the fields
   of Model/Plan.v); association lists are compared as finite maps. *)
From Coq Require Import ZArith NArith List Bool.
From JK Require Import Base.Dec Base.AList Model.Plan Corr.Run.
Import ListNotations.
Open Scope Z_scope.

Inductive c07_case :=
| CBuy (pre : state) (now : Z) (m : buy_msg) (o : pl_out) (post : state)
| CPost (pre : state) (h now window : Z) (m : post_msg) (o : pl_out) (post : state)
| CDelete (pre : state) (creator merkle : N) (start : Z) (o : pl_out) (post : state)
| CReward (pre : state) (h cw : Z) (post : state)     (* RunRewardBlock; prover lists of the survivors not compared *)
| CProof (pre : state) (k : fkey) (post : state)       (* PostProof on file k: only len(Proofs) of k may change *)
| CFree (pre : state) (a : N) (free : Z).              (* GetClientFreeSpace *)

Definition out_eqb (a b : pl_out) : bool :=
  match a, b with PlOk, PlOk | PlFail, PlFail | PlPanic, PlPanic => true | _, _ => false end.
Definition plan_eqb (a b : plan) : bool :=
  (p_avail a =? p_avail b) && (p_used a =? p_used b) && (p_end a =? p_end b).
(* np: ignore the number of provers *)
Definition file_eqb (np : bool) (a b : file) : bool :=
  (f_size a =? f_size b) && (f_maxp a =? f_maxp b) && (f_expires a =? f_expires b) &&
  (f_pi a =? f_pi b) && (np || (f_provers a =? f_provers b)).
Definition is_some {A} (e : A -> A -> bool) (x : option A) (y : A) : bool :=
  match x with Some v => e v y | None => false end.
Definition plans_eqb (m o : list (N * plan)) : bool :=
  Nat.eqb (length m) (length o) && forallb (fun ap => is_some plan_eqb (aget N.eqb m (fst ap)) (snd ap)) o.
Definition files_eqb (np : bool) (m o : list (fkey * file)) : bool :=
  Nat.eqb (length m) (length o) && forallb (fun kf => is_some (file_eqb np) (aget fkey_eqb m (fst kf)) (snd kf)) o.
Definition state_eqb (np : bool) (m o : state) : bool :=
  plans_eqb (plans m) (plans o) && files_eqb np (files m) (files o).
Definition res_eqb (r : state * pl_out) (o : pl_out) (post : state) : bool :=
  out_eqb (snd r) o && state_eqb false (fst r) post.

Definition c07_ok (c : c07_case) : bool :=
  match c with
  | CBuy pre now m o post => res_eqb (buy_storage pre now m) o post
  | CPost pre h now w m o post => res_eqb (post_file pre h now w m) o post
  | CDelete pre c mk st o post => res_eqb (delete_file pre c mk st) o post
  | CReward pre h cw post => state_eqb true (reward_block pre h cw) post
  | CProof pre k post =>
    let n := match get_file post k with Some f => f_provers f | None => 0 end in
    state_eqb false (set_provers pre k n) post
  | CFree pre a free => free_space pre a =? free
  end.
