(* Correspondence for C10: the file-tree model, instantiated with the executable SHA-256,
   the Gallina JSON renderer and the table of json.Unmarshal results observed by the
   harness, is run on (a) the pure functions of keeper/access.go and types/key_files.go
   and (b) every message the real app executed: observed pre-store, message, outcome
   class, observed post-store (raw keys and values of the "Files/value/" prefix). *)
From Coq Require Import NArith List Bool.
From JK Require Import Base.Bytes Base.AList Hash.Sha256 Model.Paths Model.Filetree Corr.Run.
Import ListNotations.
Open Scope N_scope.

Definition ptable := list (bytes * parsed).

(* json.Unmarshal as observed: strings not in the table do not parse (the harness lists
   every access string of the pre-store) *)
Definition tbl_parse (t : ptable) (s : bytes) : parsed :=
  match find (fun p => beqb (fst p) s) t with
  | Some (_, r) => r
  | None => PErr
  end.

Inductive c10_case :=
| FnOwner (path user expected : bytes)                 (* keeper.MakeOwnerAddress *)
| FnViewer (tn user expected : bytes)                  (* keeper.MakeViewerAddress *)
| FnEditor (tn user expected : bytes)                  (* keeper.MakeEditorAddress *)
| FnKey (address owner expected : bytes)               (* types.FilesKey *)
| FnIsOwner (f : file) (user : bytes) (expected : bool)          (* keeper.IsOwner *)
| FnAccess (k : kind) (f : file) (user : bytes) (t : ptable) (expected : option bool)
                                                       (* keeper.HasViewingAccess / HasEditAccess *)
| FnRender (m : option acl) (expected : bytes)                (* json.Marshal(map[string]string) *)
| FnSplit (s : bytes) (expected : list bytes)          (* strings.Split(s, ",") *)
| Step (pre : store) (t : ptable) (cv : bool) (o : op) (out : outcome) (post : store).

Definition file_eqb (a b : file) : bool :=
  beqb (f_addr a) (f_addr b) && beqb (f_contents a) (f_contents b) && beqb (f_owner a) (f_owner b) &&
  beqb (f_view a) (f_view b) && beqb (f_edit a) (f_edit b) && beqb (f_track a) (f_track b).

(* equality of stores as finite maps (the harness lists each raw key once) *)
Definition store_eqb (a b : store) : bool :=
  Nat.eqb (length a) (length b) &&
  forallb (fun kf => match sget b (fst kf) with Some f => file_eqb (snd kf) f | None => false end) a &&
  forallb (fun kf => match sget a (fst kf) with Some f => file_eqb (snd kf) f | None => false end) b.

Definition outcome_eqb (a b : outcome) : bool :=
  match a, b with Ok, Ok | Fail, Fail | Panic, Panic => true | _, _ => false end.

Definition obool_eqb (a b : option bool) : bool :=
  match a, b with Some x, Some y => Bool.eqb x y | None, None => true | _, _ => false end.

Fixpoint lbeqb (a b : list bytes) : bool :=
  match a, b with
  | [], [] => true
  | x :: a', y :: b' => beqb x y && lbeqb a' b'
  | _, _ => false
  end.

Definition c10_ok (c : c10_case) : bool :=
  match c with
  | FnOwner p u e => beqb (make_owner sha256 p u) e
  | FnViewer t u e => beqb (make_viewer sha256 t u) e
  | FnEditor t u e => beqb (make_editor sha256 t u) e
  | FnKey a o e => beqb (files_key a o) e
  | FnIsOwner f u e => Bool.eqb (is_owner sha256 f u) e
  | FnAccess k f u t e => obool_eqb (has_access sha256 (tbl_parse t) k f u) e
  | FnRender m e => beqb (json_render_opt m) e
  | FnSplit s e => lbeqb (split_comma s) e
  | Step pre t cv o out post =>
    let r := run sha256 (tbl_parse t) json_render_opt pre cv o in
    outcome_eqb (snd r) out && store_eqb (fst r) post
  end.
