(* Correspondence for C09: the same RNS model and the same step checker as C08. *)
From JK Require Export Corr.C08.
