(* Model of x/filetree/types/merkle-paths.go (MerklePath, AddToMerkle) and of the
   address computation of filetree PostFile.  The hash is a parameter: theorems
   hold for every function H; the correspondence instantiates it with SHA-256. *)
From Coq Require Import NArith List Bool.
From JK Require Import Base.Bytes.
Import ListNotations.
Open Scope N_scope.

Section Paths.
  Variable H : bytes -> bytes.

  Definition hexH (x : bytes) : bytes := hex (H x).

  (* AddToMerkle(path, append) = hex(H(path ++ append)) *)
  Definition add_to_merkle (path app : bytes) : bytes := hexH (path ++ app).

  (* one iteration of the loop in MerklePath *)
  Definition path_step (total chunk : bytes) : bytes := hexH (total ++ hexH chunk).

  Definition fold_segments (segs : list bytes) : bytes := fold_left path_step segs [].

  Definition merkle_path (p : bytes) : bytes := fold_segments (split_slash (trim_slash p)).

  (* types.MerkleHelper (and the CLI's merkleHelper): what a client derives from a plain path before
     sending MsgPostFile — the parent's address and the hash of the last segment *)
  Fixpoint join_slash (l : list bytes) : bytes :=
    match l with
    | [] => []
    | x :: r => match r with [] => x | _ => x ++ slash :: join_slash r end
    end.
  Definition client_split (p : bytes) : bytes * bytes :=
    let chunks := split_slash (trim_slash p) in
    (merkle_path (join_slash (removelast chunks)), hexH (last chunks [])).

  (* filetree PostFile: the stored / returned address *)
  Definition post_file_path (hash_parent hash_child : bytes) : bytes :=
    add_to_merkle hash_parent hash_child.
End Paths.
