(* C11 — what an account signs in the legacy amino-JSON mode, as far as the message is concerned: the JSON value
   Msg.GetSignBytes() contributes to the signed document.  For a type registered with the amino codec under a name
   it is {"type": name, "value": {fields}}; for an unregistered type it is the bare {fields}.  The field object is
   arbitrary (any keys, any values): the theorems quantify over it.  No proofs here. *)
From Coq Require Import List String.
Import ListNotations.
Open Scope string_scope.

Inductive json :=
| JStr (s : string)
| JNum (s : string)
| JObj (kvs : list (string * json)).

Definition sign_doc (amino : option string) (fields : list (string * json)) : json :=
  match amino with
  | Some n => JObj [("type", JStr n); ("value", JObj fields)]
  | None => JObj fields
  end.
