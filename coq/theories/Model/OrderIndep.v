(* C06, part 2 — models of the consensus paths of the custom modules on which the Go code consults
   something a node does not share with its peers.  Each model takes that thing as an explicit,
   adversarial input (the order in which THIS execution's `range` yields the entries of a Go map; the
   wall clock; the OS entropy tendermint's rand.NewRand() seeds itself with) so that independence
   from it can be stated and proved (Proofs/OrderIndepProofs.v).  No proofs here.

   Go sources mirrored:
     x/storage/keeper/rewards.go     providerList, rewardAllProviders
     x/filetree/keeper/msg_server_{add,remove,reset}_{viewers,editors}.go   (map -> json.Marshal)
     x/storage/types/file_deal.go    ResetChunk, ResetChunkWithProof
     x/storage/keeper/providers.go   GetActiveProviders / GetRandomizedProviders (shuffle)        *)
From Coq Require Import ZArith NArith List Bool.
From JK Require Import Base.Dec.
Import ListNotations.

(* ------------------------------------------------------------------ keys: Go strings as bytes *)
Definition key := list N.

(* Go's string comparison: bytewise lexicographic, a proper prefix is smaller *)
Fixpoint lex_cmp (a b : key) : comparison :=
  match a, b with
  | [], [] => Eq
  | [], _ :: _ => Lt
  | _ :: _, [] => Gt
  | x :: a', y :: b' => match N.compare x y with Eq => lex_cmp a' b' | c => c end
  end.
Definition lex_ltb (a b : key) : bool := match lex_cmp a b with Lt => true | _ => false end.
Definition key_eqb (a b : key) : bool := match lex_cmp a b with Eq => true | _ => false end.

(* slices.Sort / sort.Strings / encoding/json's key sort, as insertion sort by a key projection.
   (The Go sorts are not stable; on duplicate-free keys the result of any correct sort is unique —
   that is exactly the uniqueness lemma the theorems rest on.) *)
Section SortBy.
  Context {A : Type} (kf : A -> key).
  Fixpoint insert_by (x : A) (l : list A) : list A :=
    match l with
    | [] => [x]
    | y :: r => if lex_ltb (kf x) (kf y) then x :: l else y :: insert_by x r
    end.
  Definition sort_by (l : list A) : list A := fold_right insert_by [] l.
End SortBy.

(* ------------------------------------------------------------------ a Go map as seen by one execution *)
(* The entries in the order in which this execution's `for k := range m` happens to yield them.
   Two executions hold the same map iff their entry lists are permutations of each other; keys are
   duplicate-free. *)
Definition gomap (V : Type) := list (key * V).

Definition lookup {V} (d : V) (m : gomap V) (k : key) : V :=
  match find (fun e => key_eqb (fst e) k) m with Some e => snd e | None => d end.

(* ------------------------------------------------------------------ reward payout *)
Inductive send := Send (recipient denom : key) (amount : Z).

(* providerList(sizeTracker): range over the map collecting keys, then slices.Sort *)
Definition provider_list (tracker : gomap Z) : list key := sort_by (fun k => k) (map fst tracker).

(* rewardAllProviders after pullTokensFromGauges returned `coins` (denom-sorted sdk.Coins).
   valid p = sdk.AccAddressFromBech32(p) succeeds. *)
Definition provider_sends (valid : key -> bool) (total : Z) (coins : list (key * Z)) (tracker : gomap Z) (p : key) : list send :=
  let worth := lookup 0%Z tracker p in
  if (worth <=? 0)%Z then [] else
  if negb (valid p) then [] else
  let pct := dquo (dec worth) (dec total) in
  map (fun c => Send p (fst c) (dtrunc (dmul pct (dec (snd c))))) coins.

Definition reward_sends (valid : key -> bool) (total : Z) (coins : list (key * Z)) (tracker : gomap Z) : list send :=
  if (total <=? 0)%Z then [] else
  flat_map (provider_sends valid total coins tracker) (provider_list tracker).

(* the same loop WITHOUT the sort (what the code would do if it ranged over the map directly) *)
Definition reward_sends_unsorted (valid : key -> bool) (total : Z) (coins : list (key * Z)) (tracker : gomap Z) : list send :=
  if (total <=? 0)%Z then [] else
  flat_map (provider_sends valid total coins tracker) (map fst tracker).

(* ------------------------------------------------------------------ file-tree ACL maps *)
(* json.Marshal(map[string]string): entries sorted by key, rendered {"k":"v",…}.  json_string is Go's
   string encoder on the bytes it leaves alone (printable ASCII except the quote, the backslash and the
   HTML-escaped <, >, &); other bytes are outside this model and json_safe says so. *)
Definition json_safe_byte (c : N) : bool :=
  ((32 <=? c) && (c <=? 126) && negb (c =? 34) && negb (c =? 92) && negb (c =? 60) && negb (c =? 62) && negb (c =? 38))%N.
Definition json_safe (s : key) : bool := forallb json_safe_byte s.
Definition json_string (s : key) : key := (34 :: s ++ [34])%N.

Fixpoint json_members (l : list (key * key)) : key :=
  match l with
  | [] => []
  | [e] => json_string (fst e) ++ [58%N] ++ json_string (snd e)
  | e :: r => json_string (fst e) ++ [58%N] ++ json_string (snd e) ++ [44%N] ++ json_members r
  end.

Definition acl_marshal (m : gomap key) : key := [123%N] ++ json_members (sort_by fst m) ++ [125%N].

(* jvacc[v] = keys[i] on the map content (functional update of a duplicate-free entry list) *)
Fixpoint acl_set (m : gomap key) (k v : key) : gomap key :=
  match m with
  | [] => [(k, v)]
  | e :: r => if key_eqb (fst e) k then (k, v) :: r else e :: acl_set r k v
  end.
Definition acl_del (m : gomap key) (k : key) : gomap key := filter (fun e => negb (key_eqb (fst e) k)) m.

(* AddViewers / AddEditors: for i, v := range ids { jvacc[v] = keys[i] }; json.Marshal(jvacc).
   `order` is the adversary: how this execution's runtime lays out / iterates the final map. *)
Definition acl_add (order : gomap key -> gomap key) (old : gomap key) (ids_keys : list (key * key)) : key :=
  acl_marshal (order (fold_left (fun m e => acl_set m (fst e) (snd e)) ids_keys old)).
Definition acl_remove (order : gomap key -> gomap key) (old : gomap key) (ids : list key) : key :=
  acl_marshal (order (fold_left acl_del ids old)).

(* ------------------------------------------------------------------ challenge index and provider shuffle *)
(* Everything of a node's situation when it executes a block; only the first two are shared. *)
Record node_env := {
  e_height : Z;         (* ctx.BlockHeight() *)
  e_block_gas : Z;      (* ctx.BlockGasMeter().GasConsumed() at this point of the block *)
  e_wallclock : Z;      (* time.Now() on this machine *)
  e_entropy : Z         (* what crypto/rand hands tendermint's rand.NewRand() on this machine *)
}.

Section Rng.
  (* math/rand: the k-th Int63n(n) drawn from a generator whose state was set by Seed(s).
     Whatever that function is — the theorems hold for every one. *)
  Variable int63n : Z -> nat -> Z -> Z.

  Inductive rng := Rng (seed : Z) (draws : nat).
  Definition new_rand (e : node_env) : rng := Rng (e_entropy e) 0.          (* rand.NewRand() *)
  Definition rng_seed (r : rng) (s : Z) : rng := Rng s 0.                   (* r.Seed(s) resets the state *)
  Definition rng_int63n (r : rng) (n : Z) : Z * rng :=
    match r with Rng s k => (int63n s k n, Rng s (S k)) end.

  (* ResetChunk / ResetChunkWithProof (int64 arithmetic: / and % truncate; gs + h wraps) *)
  Definition reset_chunk (e : node_env) (file_size chunk_size : Z) : Z :=
    let pieces := Z.quot file_size chunk_size in
    let pieces := if Z.rem file_size chunk_size =? 0 then pieces - 1 else pieces in
    if pieces >? 0 then
      let r := rng_seed (new_rand e) (wrap64 (e_block_gas e + e_height e)) in
      fst (rng_int63n r pieces)
    else 0.

  (* providers[x], providers[y] = providers[y], providers[x] *)
  Definition swap {A} (l : list A) (x y : nat) : list A :=
    match nth_error l x, nth_error l y with
    | Some a, Some b =>
        map (fun ie => if Nat.eqb (fst ie) x then b else if Nat.eqb (fst ie) y then a else snd ie)
            (combine (seq 0 (length l)) l)
    | _, _ => l
    end.

  Fixpoint swap_rounds {A} (rounds : nat) (r : rng) (n : Z) (l : list A) : list A :=
    match rounds with
    | O => l
    | S k =>
        let '(x, r1) := rng_int63n r n in
        let '(y, r2) := rng_int63n r1 n in
        swap_rounds k r2 n (swap l (Z.to_nat x) (Z.to_nat y))
    end.

  Definition Rounds : nat := 20.
  (* GetRandomizedProviders, and GetActiveProviders after its (deterministic) filtering *)
  Definition randomized_providers {A} (e : node_env) (providers : list A) : list A :=
    let r := rng_seed (new_rand e) (e_height e) in
    swap_rounds (Rounds * length providers) r (Z.of_nat (length providers)) providers.
End Rng.

(* ------------------------------------------------------------------ begin blockers *)
(* x/storage/abci.go, x/jklmint/abci.go:  defer telemetry.ModuleMeasureSince(module, time.Now(), …); work(ctx)
   The clock value only reaches the metrics sink, which is not part of the state-machine result. *)
Definition begin_blocker {S M} (work : S -> S) (measure : Z -> M) (e : node_env) (s : S) : S * M :=
  (work s, measure (e_wallclock e)).
