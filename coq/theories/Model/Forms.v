(* Model of the attestation / report forms of x/storage:
     keeper/msg_server_attest.go  (Attest, RequestAttestation + msg servers)
     keeper/msg_server_report.go  (DoReport, RequestReport + msg servers)
     keeper/providers.go          (GetActiveProviders / GetAllActiveProviders)
     types/file_deal.go           (GetProver, RemoveProverWithKey)
   Strings: an address-like string is (id, upper): `upper` is the all-upper-case bech32
   spelling of the same account; (i,false) and (i,true) are different STRINGS naming the same
   ACCOUNT.  The code compares strings everywhere in these handlers (raw msg.Creator against
   the stored provider strings).  Merkle roots, domains, tlds are opaque N ids; the id 0 of a
   domain / tld is the empty string (the filter of a prover whose host has < 2 labels).
   Stores are association lists keyed as the KV stores are; the keys of the Go stores are
   '/'-joined renderings, injective on '/'-free components (bech32 strings, hex, decimals). *)
From Coq Require Import ZArith NArith List Bool.
From JK Require Import Base.AList.
Import ListNotations.
Open Scope Z_scope.

Definition str := (N * bool)%type.
Definition str_eqb (a b : str) : bool := N.eqb (fst a) (fst b) && Bool.eqb (snd a) (snd b).
Definition same_account (a b : str) : bool := N.eqb (fst a) (fst b).

(* a file is keyed (merkle, owner, start); forms and proof records (prover, merkle, owner, start) *)
Definition fkey := (N * str * Z)%type.
Definition fkey_eqb (a b : fkey) : bool :=
  let '(m1, o1, s1) := a in let '(m2, o2, s2) := b in N.eqb m1 m2 && str_eqb o1 o2 && Z.eqb s1 s2.
Definition pkey := (str * fkey)%type.
Definition pkey_eqb (a b : pkey) : bool := str_eqb (fst a) (fst b) && fkey_eqb (snd a) (snd b).

(* what net/url + strings.Split make of a provider's Ip (glue computed by the Go side):
   url.Parse fails, or the host name has < 2 dot-separated labels (None), or its last two
   labels are (domain, tld) *)
Inductive ipinfo := IpBad | IpHost (dt : option (N * N)).

Definition form := list (str * bool).            (* Attestations: (Provider, Complete) *)

Record fstate := {
  providers : list (str * ipinfo);               (* Providers store, keyed by Address *)
  files : list (fkey * list str);                (* UnifiedFile.Proofs: the prover of each proof key *)
  proofs : list (pkey * Z);                      (* FileProof records: LastProven *)
  aforms : list (pkey * form);                   (* AttestationForm store *)
  rforms : list (pkey * form);                   (* ReportForm store *)
  form_size : Z;                                 (* Params.AttestFormSize *)
  min_to_pass : Z                                (* Params.AttestMinToPass *)
}.

Definition set_proofs s v := {| providers := providers s; files := files s; proofs := v; aforms := aforms s;
  rforms := rforms s; form_size := form_size s; min_to_pass := min_to_pass s |}.
Definition set_files s v := {| providers := providers s; files := v; proofs := proofs s; aforms := aforms s;
  rforms := rforms s; form_size := form_size s; min_to_pass := min_to_pass s |}.
Definition set_providers s v := {| providers := v; files := files s; proofs := proofs s; aforms := aforms s;
  rforms := rforms s; form_size := form_size s; min_to_pass := min_to_pass s |}.
Definition set_aforms s v := {| providers := providers s; files := files s; proofs := proofs s; aforms := v;
  rforms := rforms s; form_size := form_size s; min_to_pass := min_to_pass s |}.
Definition set_rforms s v := {| providers := providers s; files := files s; proofs := proofs s; aforms := aforms s;
  rforms := v; form_size := form_size s; min_to_pass := min_to_pass s |}.
Definition set_params s fs mn := {| providers := providers s; files := files s; proofs := proofs s;
  aforms := aforms s; rforms := rforms s; form_size := fs; min_to_pass := mn |}.

Definition mem (a : str) (l : list str) : bool := existsb (str_eqb a) l.

(* UnifiedFile.GetProver: some entry of f.Proofs is the proof key of `prover` and the proof
   record under that key exists *)
Definition get_prover (s : fstate) (prs : list str) (prover : str) (fk : fkey) : option Z :=
  if mem prover prs then aget pkey_eqb (proofs s) (prover, fk) else None.

(* GetAllProofsForProver(addr) non-empty: a proof record whose prover is addr (the store scan
   uses the prefix "FileProof/value/<addr>" without terminator: exact for prefix-free address
   strings, e.g. equal-length bech32 strings) *)
Definition holds_proof (s : fstate) (a : str) : bool :=
  existsb (fun e => str_eqb (fst (fst e)) a) (proofs s).

Definition filter_of (ip : ipinfo) : N * N :=
  match ip with IpHost (Some dt) => dt | _ => (0%N, 0%N) end.

(* one iteration of the loop of GetActiveProviders over GetAllActiveProviders *)
Definition provider_allowed (s : fstate) (flt : N * N) (a : str) : bool :=
  holds_proof s a &&
  match aget str_eqb (providers s) a with            (* k.GetProviders(ctx, provider.Address) *)
  | Some (IpHost (Some (d, t))) => negb (N.eqb d (fst flt) && N.eqb t (snd flt))
  | _ => false                                        (* unparsable Ip, or < 2 labels *)
  end.

(* the providers GetActiveProviders shuffles, in store order; nil when the filter does not parse *)
Definition allowed (s : fstate) (filter_ip : ipinfo) : list str :=
  match filter_ip with
  | IpBad => []
  | _ => filter (provider_allowed s (filter_of filter_ip)) (akeys (providers s))
  end.

(* the shuffled list is an oracle input (height-seeded RNG); it must be a rearrangement of `allowed` *)
Fixpoint remove1 (a : str) (l : list str) : option (list str) :=
  match l with
  | [] => None
  | x :: r => if str_eqb a x then Some r else
              match remove1 a r with Some r' => Some (x :: r') | None => None end
  end.
Fixpoint is_perm (p l : list str) : bool :=
  match p with
  | [] => match l with [] => true | _ => false end
  | a :: p' => match remove1 a l with Some l' => is_perm p' l' | None => false end
  end.

Inductive outcome :=
| OCreated (chosen : list str)  (* Request*Form: Success=true, the named providers *)
| ORefused                      (* Request*Form: returns nil with Success=false; nothing was written *)
| ORecorded                     (* Attest/Report: signature stored on the form, still below the minimum *)
| OActed                        (* Attest/Report: minimum reached: effect applied, form deleted *)
| OIgnored                      (* Attest: keeper error swallowed by the msg server (returns nil); nothing written *)
| OFail                         (* Report: the error is returned; the transaction fails *)
| OPanic                        (* the handler panics; the transaction fails *)
| OOracleBad                    (* the supplied shuffle is not a rearrangement of `allowed` (not a code path) *)
| ODone.                        (* parameter change / other store write *)

Definition blank (chosen : list str) : form := map (fun p => (p, false)) chosen.

(* common tail of RequestAttestation / RequestReport once the prover's provider record is found *)
Definition pick (s : fstate) (ip : ipinfo) (perm : list str) : outcome :=
  if negb (is_perm perm (allowed s ip)) then OOracleBad
  else if Z.of_nat (length perm) <? form_size s then ORefused     (* "not enough providers online" *)
  else if form_size s <? 0 then OPanic                            (* make([]..., negative) *)
  else OCreated (firstn (Z.to_nat (form_size s)) perm).

Definition request_attestation (s : fstate) (creator : str) (fk : fkey) (perm : list str) : fstate * outcome :=
  match aget fkey_eqb (files s) fk with
  | None => (s, ORefused)
  | Some prs =>
    match get_prover s prs creator fk with
    | None => (s, ORefused)
    | Some _ =>
      match aget pkey_eqb (aforms s) (creator, fk) with
      | Some _ => (s, ORefused)
      | None =>
        match aget str_eqb (providers s) creator with
        | None => (s, ORefused)
        | Some ip =>
          match pick s ip perm with
          | OCreated chosen => (set_aforms s (aset pkey_eqb (aforms s) (creator, fk) (blank chosen)), OCreated chosen)
          | o => (s, o)
          end
        end
      end
    end
  end.

(* RequestReport: anybody may ask (msg.Creator is not used); the existing-form test comes before
   the prover test *)
Definition request_report (s : fstate) (prover : str) (fk : fkey) (perm : list str) : fstate * outcome :=
  match aget fkey_eqb (files s) fk with
  | None => (s, ORefused)
  | Some prs =>
    match aget pkey_eqb (rforms s) (prover, fk) with
    | Some _ => (s, ORefused)
    | None =>
      match get_prover s prs prover fk with
      | None => (s, ORefused)
      | Some _ =>
        match aget str_eqb (providers s) prover with
        | None => (s, ORefused)
        | Some ip =>
          match pick s ip perm with
          | OCreated chosen => (set_rforms s (aset pkey_eqb (rforms s) (prover, fk) (blank chosen)), OCreated chosen)
          | o => (s, o)
          end
        end
      end
    end
  end.

(* the loop of Attest / DoReport over the form's entries (pointers: the marks stick) *)
Definition listed (f : form) (c : str) : bool := existsb (fun e => str_eqb (fst e) c) f.
Definition mark (f : form) (c : str) : form :=
  map (fun e => if str_eqb (fst e) c then (fst e, true) else e) f.
Definition completes (f : form) : Z := Z.of_nat (length (filter (fun e => snd e) f)).

Definition attest (s : fstate) (creator prover : str) (fk : fkey) (h : Z) : fstate * outcome :=
  match aget pkey_eqb (aforms s) (prover, fk) with
  | None => (s, OIgnored)
  | Some f =>
    if negb (listed f creator) then (s, OIgnored)
    else
      let f' := mark f creator in
      if completes f' <? min_to_pass s then
        (set_aforms s (aset pkey_eqb (aforms s) (prover, fk) f'), ORecorded)
      else
        match aget fkey_eqb (files s) fk with
        | None => (s, OIgnored)
        | Some prs =>
          match get_prover s prs prover fk with
          | None => (s, OIgnored)
          | Some _ =>
            let s1 := set_proofs s (aset pkey_eqb (proofs s) (prover, fk) h) in     (* LastProven = height *)
            (set_aforms s1 (adel pkey_eqb (aforms s1) (prover, fk)), OActed)
          end
        end
  end.

(* UnifiedFile.RemoveProverWithKey: `for i, proof := range f.Proofs` walks the ORIGINAL slice
   header (n entries of the backing array) while the body shortens f.Proofs in place with
   append(f.Proofs[:i], f.Proofs[i+1:]...).  State of the walk: the backing array (length n
   throughout), the current length m of f.Proofs, whether an entry matched.  f.Proofs[i+1:]
   panics when i+1 > m. *)
Definition rp_state := (list str * nat * bool)%type.
Definition rp_step (key : str) (st : option rp_state) (i : nat) : option rp_state :=
  match st with
  | None => None
  | Some (arr, m, hit) =>
    match nth_error arr i with
    | None => Some (arr, m, hit)
    | Some x =>
      if str_eqb x key then
        if Nat.ltb m (i + 1) then None
        else Some (firstn i arr ++ skipn (i + 1) (firstn m arr) ++ skipn (m - 1) arr, (m - 1)%nat, true)
      else Some (arr, m, hit)
    end
  end.
(* None: panic; Some None: no entry matched (nothing written); Some (Some l): the saved Proofs *)
Definition remove_prover (prs : list str) (key : str) : option (option (list str)) :=
  match fold_left (rp_step key) (seq 0 (length prs)) (Some (prs, length prs, false)) with
  | None => None
  | Some (arr, m, true) => Some (Some (firstn m arr))
  | Some (_, _, false) => Some None
  end.

Definition do_report (s : fstate) (creator prover : str) (fk : fkey) : fstate * outcome :=
  match aget pkey_eqb (rforms s) (prover, fk) with
  | None => (s, OFail)
  | Some f =>
    if negb (listed f creator) then (s, OFail)
    else
      let f' := mark f creator in
      if completes f' <? min_to_pass s then
        (set_rforms s (aset pkey_eqb (rforms s) (prover, fk) f'), ORecorded)
      else
        match aget fkey_eqb (files s) fk with
        | None => (s, OFail)
        | Some prs =>
          let s1 := set_rforms s (adel pkey_eqb (rforms s) (prover, fk)) in          (* RemoveReport *)
          match remove_prover prs prover with
          | None => (s, OPanic)
          | Some None => (s1, OActed)
          | Some (Some prs') =>
            let s2 := set_proofs s1 (adel pkey_eqb (proofs s1) (prover, fk)) in      (* RemoveProofWithBuiltKey *)
            (set_files s2 (aset fkey_eqb (files s2) fk prs'), OActed)                (* f.Save *)
          end
        end
  end.

(* histories: the four handlers, parameter changes, and arbitrary single writes to the three
   stores the handlers read (whatever the rest of the module does to providers, files, proofs) *)
Inductive op :=
| ReqAttest (creator : str) (fk : fkey) (perm : list str)
| Attest (creator prover : str) (fk : fkey) (h : Z)
| ReqReport (creator prover : str) (fk : fkey) (perm : list str)
| Report (creator prover : str) (fk : fkey)
| SetParams (fs mn : Z)
| EnvProvider (a : str) (v : option ipinfo)
| EnvFile (fk : fkey) (v : option (list str))
| EnvProof (pk : pkey) (v : option Z).

Definition step (s : fstate) (o : op) : fstate * outcome :=
  match o with
  | ReqAttest c fk perm => request_attestation s c fk perm
  | Attest c p fk h => attest s c p fk h
  | ReqReport _ p fk perm => request_report s p fk perm
  | Report c p fk => do_report s c p fk
  | SetParams fs mn => (set_params s fs mn, ODone)
  | EnvProvider a (Some ip) => (set_providers s (aset str_eqb (providers s) a ip), ODone)
  | EnvProvider a None => (set_providers s (adel str_eqb (providers s) a), ODone)
  | EnvFile fk (Some prs) => (set_files s (aset fkey_eqb (files s) fk prs), ODone)
  | EnvFile fk None => (set_files s (adel fkey_eqb (files s) fk), ODone)
  | EnvProof pk (Some lp) => (set_proofs s (aset pkey_eqb (proofs s) pk lp), ODone)
  | EnvProof pk None => (set_proofs s (adel pkey_eqb (proofs s) pk), ODone)
  end.

Definition init : fstate :=
  {| providers := []; files := []; proofs := []; aforms := []; rforms := []; form_size := 5; min_to_pass := 3 |}.

(* ---- ghost: for every form key, the raw signer strings of the Attest (resp. Report) messages
   addressed to that key since the form was last created.  Defined from the operations and the
   single fact "this request created the form"; it does not look at the Complete flags. *)
Record ghost := { ga : list (pkey * list str); gr : list (pkey * list str) }.
Definition glog (g : list (pkey * list str)) (k : pkey) : list str :=
  match aget pkey_eqb g k with Some l => l | None => [] end.

Definition gstep (sg : fstate * ghost) (o : op) : fstate * ghost :=
  let (s, g) := sg in
  let (s', out) := step s o in
  let g' :=
    match o, out with
    | ReqAttest c fk _, OCreated _ => {| ga := aset pkey_eqb (ga g) (c, fk) []; gr := gr g |}
    | ReqReport _ p fk _, OCreated _ => {| ga := ga g; gr := aset pkey_eqb (gr g) (p, fk) [] |}
    | Attest c p fk _, _ => {| ga := aset pkey_eqb (ga g) (p, fk) (c :: glog (ga g) (p, fk)); gr := gr g |}
    | Report c p fk, _ => {| ga := ga g; gr := aset pkey_eqb (gr g) (p, fk) (c :: glog (gr g) (p, fk)) |}
    | _, _ => g
    end in
  (s', g').

Definition grun (sg : fstate * ghost) (ops : list op) : fstate * ghost := fold_left gstep ops sg.

(* the distinct strings among `sigs` that are listed on the form *)
Fixpoint dedup (l : list str) : list str :=
  match l with
  | [] => []
  | a :: r => if mem a r then dedup r else a :: dedup r
  end.
Definition distinct_listed_signers (f : form) (sigs : list str) : list str :=
  dedup (filter (listed f) sigs).
