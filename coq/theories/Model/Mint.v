(* Model of x/jklmint: utils.GetMintForBlock and keeper.BlockMint (after the repair that
   clamps the emission at zero).  The bank is an association list account -> balance in
   the mint denomination; accounts are opaque N ids. *)
From Coq Require Import ZArith NArith List Bool.
From JK Require Import Base.Dec Base.AList.
Import ListNotations.
Open Scope Z_scope.

Definition bpy : Z := 5256000.  (* (365 * 24 * 60 * 60) / 6 blocks per year *)

(* utils.GetMintForBlock(mintedLastBlock, blocksPerYear, mintDecrease) *)
Definition mint_for_block_raw (prev blocks decrease : Z) : Z :=
  dtrunc (dec prev - dquo (dec decrease) (dec blocks)).
Definition mint_for_block (prev blocks decrease : Z) : Z :=
  let m := mint_for_block_raw prev blocks decrease in if m <? 0 then 0 else m.

(* sdk.NewDec(ratio).QuoInt64(100).MulInt64(tokens).TruncateInt64() *)
Definition share (ratio tokens : Z) : Z := dtrunc (dmul_int (dquo_int (dec ratio) 100) tokens).

Record mparams := {
  tokens_per_block : Z; mint_decrease : Z;
  staker_ratio : Z; dev_ratio : Z; prov_ratio : Z;
  stipend_ok : bool      (* the stipend address parses and is not a blocked (module) account *)
}.

Record maccts := { a_fee : N; a_dev : N; a_stip : N; a_mod : N }.

Definition bank := list (N * Z).
Definition bal (b : bank) (a : N) : Z := aval N.eqb b a.
Definition credit (b : bank) (a : N) (x : Z) : bank := aset N.eqb b a (bal b a + x).

(* a transfer out of the mint module; zero amounts are empty coin sets: nothing moves, no error *)
Definition pay (acc : maccts) (b : bank) (to : N) (x : Z) : option bank :=
  if x =? 0 then Some b
  else if x <=? bal b (a_mod acc) then Some (credit (credit b (a_mod acc) (- x)) to x) else None.

Record mstate := {
  m_bank : bank;
  m_supply : Z;
  m_last : option Z     (* MintedBlock of the previous height, if recorded *)
}.

(* what BlockMint did in one block: the emission and whether it ran to the end (recorded it) *)
Record mresult := { r_state : mstate; r_emission : Z; r_recorded : bool }.

Definition block_mint (acc : maccts) (p : mparams) (s : mstate) : mresult :=
  let prev := match m_last s with Some m => m | None => tokens_per_block p end in
  let e := mint_for_block prev bpy (mint_decrease p) in
  let b0 := credit (m_bank s) (a_mod acc) e in            (* MintCoins (nothing when e = 0) *)
  let sup := m_supply s + e in
  let stop b := {| r_state := {| m_bank := b; m_supply := sup; m_last := None |};
                   r_emission := e; r_recorded := false |} in
  match pay acc b0 (a_fee acc) (share (staker_ratio p) e) with
  | None => stop b0
  | Some b1 =>
    match pay acc b1 (a_dev acc) (share (dev_ratio p) e) with
    | None => stop b1
    | Some b2 =>
      if negb (stipend_ok p) then stop b2 else
      match pay acc b2 (a_stip acc) (share (prov_ratio p) e) with
      | None => stop b2
      | Some b3 => {| r_state := {| m_bank := b3; m_supply := sup; m_last := Some e |};
                      r_emission := e; r_recorded := true |}
      end
    end
  end.

(* a run of consecutive blocks, the parameters of each block given (governance may change them) *)
Fixpoint run_blocks (acc : maccts) (ps : list mparams) (s : mstate) : list mresult :=
  match ps with
  | [] => []
  | p :: r => let res := block_mint acc p s in res :: run_blocks acc r (r_state res)
  end.

Definition valid_params (p : mparams) : Prop :=
  0 <= tokens_per_block p /\ 0 <= mint_decrease p /\
  0 <= staker_ratio p /\ 0 <= dev_ratio p /\ 0 <= prov_ratio p /\
  staker_ratio p + dev_ratio p + prov_ratio p <= 100 /\ stipend_ok p = true.
