(* Model of the reward block of x/storage (keeper/rewards.go after the repairs 8521cdfa
   "walk a copy of the prover list" and c877e2c0 "guard reward shares"):
     RunRewardBlock -> ManageRewards -> { removeFileIfDeserved ; manageProof per listed key
     (RemoveProverWithKey, burnContract, size tracker) } -> rewardAllProviders.

   Identifiers.  A file's prover list holds proof keys "prover/owner/merkle/start/"; inside
   one file a key is determined by its prover string, so a key is the N id of that prover
   string (ids are ranks of the strings in Go's string order, 0 = the empty string: the
   sorted payout order of the code is the order of the ids).  The proof records of a file are
   an association list key -> (Prover field of the record, LastProven).  The tracker is an
   association list prover id -> int64.  An account is an N id; [accts] maps a prover id to
   the account its string denotes (absent: the string is not a bech32 address, or the
   account is blocked for receiving from modules).  The pulled gauge coins are an input. *)
From Coq Require Import ZArith NArith List Bool.
From JK Require Import Base.Dec Base.AList.
Import ListNotations.
Open Scope Z_scope.

Inductive outcome (A : Type) : Type := Ok (a : A) | Panic.
Arguments Ok {A} a.
Arguments Panic {A}.

Definition obind {A B} (x : outcome A) (f : A -> outcome B) : outcome B :=
  match x with Ok a => f a | Panic => Panic end.

(* for _, x := range l { s = step(s, x) } with panics propagated *)
Fixpoint ofold {A S} (step : S -> A -> outcome S) (l : list A) (s : S) : outcome S :=
  match l with
  | [] => Ok s
  | x :: r => obind (step s x) (ofold step r)
  end.

Record prec := { pr_prover : N; pr_last : Z }.

Record file := {
  f_start : Z; f_interval : Z; f_size : Z;
  f_proofs : list N;               (* UnifiedFile.Proofs *)
  f_recs : list (N * prec);        (* the FileProof records under this file's keys *)
  f_live : bool                    (* the file record exists *)
}.

Definition set_proofs (f : file) (l : list N) (r : list (N * prec)) : file :=
  {| f_start := f_start f; f_interval := f_interval f; f_size := f_size f;
     f_proofs := l; f_recs := r; f_live := f_live f |}.
Definition set_dead (f : file) : file :=
  {| f_start := f_start f; f_interval := f_interval f; f_size := f_size f;
     f_proofs := f_proofs f; f_recs := f_recs f; f_live := false |}.

(* ---------- types/file.go ---------- *)

Definition is_young (f : file) (h : Z) : bool := h <=? f_start f + f_interval f.
(* getRoundedWindow; Go's % truncates toward zero *)
Definition rounded_window (h start w : Z) : Z := let k := h - start in k - Z.rem k w + start.
Definition proven_last (f : file) (h last : Z) : bool :=
  rounded_window h (f_start f) (f_interval f) - f_interval f <=? last.

(* ---------- types/file_deal.go: RemoveProverWithKey ----------
   for i, proof := range f.Proofs { if proof == key { f.Proofs = append(f.Proofs[:i], f.Proofs[i+1:]...) ; ... } }
   The range holds the original slice header: [cells] are the first len(f.Proofs) cells of the
   backing array as the range reads them, [len] the current length of f.Proofs.  A match at
   i with i+1 > len is the runtime panic "slice bounds out of range". *)
Fixpoint rm_scan (k : N) (n i : nat) (cells : list N) (len : nat) : option (list N * nat) :=
  match n with
  | O => Some (cells, len)
  | S n' =>
    if N.eqb (nth i cells 0%N) k then
      if (i + 1 <=? len)%nat then
        let cells' := firstn i cells ++ firstn (len - (i + 1)) (skipn (i + 1) cells) ++ skipn (len - 1) cells in
        rm_scan k n' (S i) cells' (len - 1)
      else None
    else rm_scan k n' (S i) cells len
  end.

Definition remove_key (k : N) (l : list N) : option (list N) :=
  match l with
  | [] => Some []
  | _ => match rm_scan k (length l) 0 l (length l) with
         | Some (cells, len) => Some (firstn len cells)
         | None => None
         end
  end.

Definition nmem (k : N) (l : list N) : bool := existsb (N.eqb k) l.

(* the proof record is deleted (and the file saved) at every match *)
Definition remove_prover (f : file) (k : N) : outcome file :=
  match remove_key k (f_proofs f) with
  | Some l => Ok (set_proofs f l (if nmem k (f_proofs f) then adel N.eqb (f_recs f) k else f_recs f))
  | None => Panic
  end.

(* ---------- keeper/rewards.go ---------- *)

Definition tracker := list (N * Z).
Definition burns := list (N * Z).     (* registered providers with a parseable BurnedContracts *)

(* burnContract: nothing when the provider is unknown or its counter does not parse *)
Definition burn_contract (bu : burns) (p : N) : burns :=
  match aget N.eqb bu p with
  | Some b => aset N.eqb bu p (wrap64 (b + 1))
  | None => bu
  end.

Record mstate := { ms_file : file; ms_tr : tracker; ms_burn : burns }.

(* manageProof *)
Definition visit (h : Z) (s : mstate) (k : N) : outcome mstate :=
  let f := ms_file s in
  let young := is_young f h in
  let r := aget N.eqb (f_recs f) k in
  match r, young with
  | None, false =>                                     (* old file, no record: remove, no burn *)
    obind (remove_prover f k) (fun f' => Ok {| ms_file := f'; ms_tr := ms_tr s; ms_burn := ms_burn s |})
  | _, _ =>
    let prover := match r with Some p => pr_prover p | None => 0%N end in
    let last := match r with Some p => pr_last p | None => 0 end in
    if f_interval f =? 0 then Panic                    (* k % window: integer divide by zero *)
    else
      let proven := proven_last f h last in
      if negb proven && negb young then
        obind (remove_prover f k) (fun f' =>
          Ok {| ms_file := f'; ms_tr := ms_tr s; ms_burn := burn_contract (ms_burn s) k |})
      else
        Ok {| ms_file := f;
              ms_tr := aset N.eqb (ms_tr s) prover (wrap64 (aval N.eqb (ms_tr s) prover + f_size f));
              ms_burn := ms_burn s |}
  end.

(* the loop of ManageRewards over a COPY of the prover list *)
Definition manage_file (h : Z) (s : mstate) : outcome mstate :=
  ofold (visit h) (f_proofs (ms_file s)) s.

Record astate := { as_done : list file;    (* processed files, in reverse *)
                   as_total : Z; as_tr : tracker; as_burn : burns }.

(* the callback of IterateFilesByMerkle *)
Definition manage_one (h : Z) (a : astate) (f : file) : outcome astate :=
  let s := wrap64 (f_size f * Z.of_nat (length (f_proofs f))) in
  let total := wrap64 (as_total a + s) in
  let f1 := match f_proofs f with
            | [] => if is_young f h then f else set_dead f      (* removeFileIfDeserved *)
            | _ => f
            end in
  obind (manage_file h {| ms_file := f1; ms_tr := as_tr a; ms_burn := as_burn a |}) (fun m =>
    Ok {| as_done := ms_file m :: as_done a; as_total := total; as_tr := ms_tr m; as_burn := ms_burn m |}).

Definition manage_all (h : Z) (files : list file) (bu : burns) : outcome astate :=
  ofold (manage_one h) files {| as_done := []; as_total := 0; as_tr := []; as_burn := bu |}.

(* ---------- the bank: (account, denom) -> amount ---------- *)

Definition peqb (x y : N * N) : bool := N.eqb (fst x) (fst y) && N.eqb (snd x) (snd y).
Definition bank := list ((N * N) * Z).
Definition bal (b : bank) (a d : N) : Z := aval peqb b (a, d).
Definition credit (b : bank) (a d : N) (x : Z) : bank := aset peqb b (a, d) (bal b a d + x).

(* providerList: the tracker's keys, sorted *)
Fixpoint ninsert (x : N) (l : list N) : list N :=
  match l with
  | [] => [x]
  | y :: r => if N.leb x y then x :: l else y :: ninsert x r
  end.
Definition nsort (l : list N) : list N := fold_right ninsert [] l.

Section Pay.
  Variable macct : N.                    (* the storage module account *)
  Variable accts : list (N * N).         (* prover id -> account (parses, not blocked) *)

  (* one SendCoinsFromModuleToAccount of trunc(share * amount) *)
  Definition pay_coin (to : N) (share : Z) (b : bank) (c : N * Z) : outcome bank :=
    let owed := dtrunc (dmul share (dec (snd c))) in
    if owed <? 0 then Panic                                        (* sdk.NewCoin: negative amount *)
    else if owed =? 0 then Ok b                                    (* NewCoins drops a zero coin *)
    else if owed <=? bal b macct (fst c)
         then Ok (credit (credit b macct (fst c) (- owed)) to (fst c) owed)
         else Ok b.                                                (* insufficient funds: logged, next coin *)

  Definition pay_prover (total : Z) (tr : tracker) (coins : list (N * Z)) (b : bank) (p : N) : outcome bank :=
    let worth := aval N.eqb tr p in
    if worth <=? 0 then Ok b
    else
      let share := dquo (dec worth) (dec total) in
      match aget N.eqb accts p with
      | None => Ok b
      | Some a => ofold (pay_coin a share) coins b
      end.

  (* rewardAllProviders after pullTokensFromGauges returned [coins] (already in the module account) *)
  Definition reward_all (total : Z) (tr : tracker) (coins : list (N * Z)) (b : bank) : outcome bank :=
    if total <=? 0 then Ok b
    else ofold (pay_prover total tr coins) (nsort (akeys tr)) b.
End Pay.

Record bstate := { b_files : list file; b_burn : burns; b_bank : bank }.

Definition pull (macct : N) (coins : list (N * Z)) (b : bank) : bank :=
  fold_left (fun b c => credit b macct (fst c) (snd c)) coins b.

(* RunRewardBlock; [coins] = what pullTokensFromGauges moves into the module account *)
Definition run_reward_block (macct : N) (accts : list (N * N)) (cw h : Z) (coins : list (N * Z))
           (s : bstate) : outcome bstate :=
  if cw =? 0 then Panic
  else if Z.rem h cw >? 0 then Ok s
  else
    obind (manage_all h (b_files s) (b_burn s)) (fun a =>
    obind (reward_all macct accts (as_total a) (as_tr a) coins (pull macct coins (b_bank s))) (fun b =>
      Ok {| b_files := rev (as_done a); b_burn := as_burn a; b_bank := b |})).

(* ---------- the loop before repair 8521cdfa (kept to document what the monitors guard against):
   `for _, proof := range file.Proofs` read cell i of the backing array that RemoveProverWithKey
   shifts.  [cells] are the first len(file.Proofs)-at-loop-start cells of that array: the live
   list followed by the cells it no longer covers, which keep their last content (exact for
   duplicate-free lists). ---------- *)
Fixpoint aliased_loop (h : Z) (n i : nat) (cells : list N) (s : mstate) : outcome mstate :=
  match n with
  | O => Ok s
  | S n' =>
    obind (visit h s (nth i cells 0%N)) (fun s' =>
      let l' := f_proofs (ms_file s') in
      aliased_loop h n' (S i) (l' ++ skipn (length l') cells) s')
  end.
Definition manage_file_aliased (h : Z) (s : mstate) : outcome mstate :=
  let l := f_proofs (ms_file s) in aliased_loop h (length l) 0 l s.

(* ---------- what MsgPostFile.ValidateBasic admits (x/storage/types/message_post_file.go) ----------
   The reward walk's divisor is the sum of FileSize * len(Proofs) over all files; a file enters the
   store only through a MsgPostFile that passed this stateless check, and never lists more than
   MaxProofs provers. *)
Definition post_admissible (size maxproofs : Z) : bool :=
  (0 <? size) && (0 <? maxproofs) && (size <=? int64_max / maxproofs).
