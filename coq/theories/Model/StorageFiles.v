(* Model of the file / prover bookkeeping of x/storage (canine-chain), as the code is after the
   fix: commits 1aeed443 (register a new prover only after verification), 8521cdfa (reward
   block walks a copy of the prover list), c877e2c0 (PostFile.ValidateBasic), 333382fa/06c3bd0c
   (re-post replaces).

   Anchors: keeper/files.go (SetFile / GetFile / RemoveFile), keeper/proofs.go, types/key_files.go,
   types/file_deal.go (AddProver, RemoveProverWithKey, GetProver, Prove, SetProven),
   types/file.go (ContainsProver, ProvenLastBlock, ProvenThisBlock, IsYoung),
   keeper/msg_server_{post_file,postproof,file_delete,attest,report,init_provider}.go,
   keeper/rewards.go (burnContract, manageProof, removeFileIfDeserved, ManageRewards, RunRewardBlock).

   Strings (addresses in their raw spelling, hex merkle roots, notes) are opaque N ids given by
   the harness' string table; id 0 is the empty string.  The three store keys
     FilesPrimaryKey   "%x/%s/%d/"      (merkle, owner, start)
     FilesSecondaryKey "%s/%x/%d/"      (owner, merkle, start)
     ProofKey          "%s/%s/%x/%d/"   (prover, owner, merkle, start)
   are tuples in exactly that component order (the formats are injective on '/'-free strings;
   owners and provers are bech32 strings accepted by ValidateBasic).

   Not modelled here (other packages): payments (PostFile's two payment branches are the glue
   bit [paid]), StoragePaymentInfo.SpaceUsed, gauges and the payout arithmetic of
   rewardAllProviders (only WHO is credited is modelled), the Merkle verification itself (the
   verdict of UnifiedFile.VerifyProof is the op input [verified]), the height-seeded RNG (the
   drawn chunk is the op input [new_chunk]). *)
From Coq Require Import ZArith NArith List Bool.
From JK Require Import Base.AList.
Import ListNotations.
Open Scope Z_scope.

Definition fkey := (N * N * Z)%type.        (* primary:   merkle, owner, start *)
Definition okey := (N * N * Z)%type.        (* secondary: owner, merkle, start *)
Definition pkey := (N * N * N * Z)%type.    (* proof:     prover, owner, merkle, start *)
Definition akey := (N * N * N * Z)%type.    (* form:      prover, merkle, owner, start *)

Definition k3_eqb (a b : N * N * Z) : bool :=
  let '(a1, a2, a3) := a in let '(b1, b2, b3) := b in N.eqb a1 b1 && N.eqb a2 b2 && Z.eqb a3 b3.
Definition k4_eqb (a b : N * N * N * Z) : bool :=
  let '(a1, a2, a3, a4) := a in let '(b1, b2, b3, b4) := b in
  N.eqb a1 b1 && N.eqb a2 b2 && N.eqb a3 b3 && Z.eqb a4 b4.

Record file := {
  f_merkle : N; f_owner : N; f_start : Z; f_expires : Z; f_size : Z; f_interval : Z;
  f_ptype : Z; f_proofs : list pkey; f_max : Z; f_note : N }.

Record fproof := { p_prover : N; p_merkle : N; p_owner : N; p_start : Z; p_last : Z; p_chunk : Z }.

(* AttestationForm / ReportForm *)
Record form := { fm_prover : N; fm_merkle : N; fm_owner : N; fm_start : Z; fm_atts : list (N * bool) }.

Definition fk1 (f : file) : fkey := (f_merkle f, f_owner f, f_start f).
Definition fk2 (f : file) : okey := (f_owner f, f_merkle f, f_start f).
Definition pk_of (p : fproof) : pkey := (p_prover p, p_owner p, p_merkle p, p_start p).
Definition ak_of (m : form) : akey := (fm_prover m, fm_merkle m, fm_owner m, fm_start m).
(* UnifiedFile.MakeProofKey *)
Definition mk_pkey (f : file) (prover : N) : pkey := (prover, f_owner f, f_merkle f, f_start f).
(* the file a proof key refers to *)
Definition pk_file (k : pkey) : fkey := let '(_, o, m, st) := k in (m, o, st).
Definition pk_prover (k : pkey) : N := let '(p, _, _, _) := k in p.   (* strings.Split(key,"/")[0] *)

Record sstate := {
  files1 : list (fkey * file);           (* FilesByMerkle/value/ *)
  files2 : list (okey * file);           (* FilesByOwner/value/  *)
  proofs : list (pkey * fproof);         (* FileProof/value/     *)
  burns  : list (N * Z);                 (* Providers: address -> BurnedContracts *)
  attests : list (akey * form);
  reports : list (akey * form);
  ever_valid : list (N * fkey)           (* ghost: PostProof submissions accepted with a verifying proof *)
}.

Definition init : sstate :=
  {| files1 := []; files2 := []; proofs := []; burns := []; attests := []; reports := []; ever_valid := [] |}.

Definition with_files (s : sstate) f1 f2 : sstate :=
  {| files1 := f1; files2 := f2; proofs := proofs s; burns := burns s; attests := attests s;
     reports := reports s; ever_valid := ever_valid s |}.
Definition with_proofs (s : sstate) ps : sstate :=
  {| files1 := files1 s; files2 := files2 s; proofs := ps; burns := burns s; attests := attests s;
     reports := reports s; ever_valid := ever_valid s |}.
Definition with_burns (s : sstate) b : sstate :=
  {| files1 := files1 s; files2 := files2 s; proofs := proofs s; burns := b; attests := attests s;
     reports := reports s; ever_valid := ever_valid s |}.
Definition with_attests (s : sstate) a : sstate :=
  {| files1 := files1 s; files2 := files2 s; proofs := proofs s; burns := burns s; attests := a;
     reports := reports s; ever_valid := ever_valid s |}.
Definition with_reports (s : sstate) a : sstate :=
  {| files1 := files1 s; files2 := files2 s; proofs := proofs s; burns := burns s; attests := attests s;
     reports := a; ever_valid := ever_valid s |}.
Definition with_ghost (s : sstate) g : sstate :=
  {| files1 := files1 s; files2 := files2 s; proofs := proofs s; burns := burns s; attests := attests s;
     reports := reports s; ever_valid := g |}.

(* ---------- keeper/files.go, keeper/proofs.go ---------- *)

Definition get_file (s : sstate) (k : fkey) : option file := aget k3_eqb (files1 s) k.   (* reads the primary index *)
Definition set_file (s : sstate) (f : file) : sstate :=
  with_files s (aset k3_eqb (files1 s) (fk1 f) f) (aset k3_eqb (files2 s) (fk2 f) f).
Definition set_proof (s : sstate) (p : fproof) : sstate := with_proofs s (aset k4_eqb (proofs s) (pk_of p) p).
Definition get_proof (s : sstate) (k : pkey) : option fproof := aget k4_eqb (proofs s) k.
Definition del_proof (s : sstate) (k : pkey) : sstate := with_proofs s (adel k4_eqb (proofs s) k).

(* RemoveFile(merkle, owner, start): the listed proof records go first, then both index entries *)
Definition remove_file (s : sstate) (merkle owner : N) (start : Z) : sstate :=
  match get_file s (merkle, owner, start) with
  | None => s
  | Some f =>
    let s1 := fold_left del_proof (f_proofs f) s in
    with_files s1 (adel k3_eqb (files1 s1) (merkle, owner, start)) (adel k3_eqb (files2 s1) (owner, merkle, start))
  end.

(* ---------- types/file.go, types/file_deal.go ---------- *)

Definition with_plist (f : file) (l : list pkey) : file :=
  {| f_merkle := f_merkle f; f_owner := f_owner f; f_start := f_start f; f_expires := f_expires f;
     f_size := f_size f; f_interval := f_interval f; f_ptype := f_ptype f; f_proofs := l;
     f_max := f_max f; f_note := f_note f |}.

Definition contains_prover (f : file) (prover : N) : bool := existsb (k4_eqb (mk_pkey f prover)) (f_proofs f).

(* GetProver: the first listed key equal to the prover's key whose record exists *)
Fixpoint get_prover_in (s : sstate) (k : pkey) (l : list pkey) : option fproof :=
  match l with
  | [] => None
  | x :: r => if k4_eqb x k then match get_proof s x with Some p => Some p | None => get_prover_in s k r end
              else get_prover_in s k r
  end.
Definition get_prover (s : sstate) (f : file) (prover : N) : option fproof :=
  get_prover_in s (mk_pkey f prover) (f_proofs f).

Definition len (f : file) : Z := Z.of_nat (length (f_proofs f)).

Definition fresh_proof (f : file) (prover : N) (height : Z) : fproof :=
  {| p_prover := prover; p_merkle := f_merkle f; p_owner := f_owner f; p_start := f_start f;
     p_last := height; p_chunk := 0 |}.

(* AddProver: nothing when full; else append the key, write a fresh record, write the file *)
Definition add_prover (s : sstate) (f : file) (prover : N) (height : Z) : sstate :=
  if len f >=? f_max f then s
  else set_file (set_proof s (fresh_proof f prover height)) (with_plist f (f_proofs f ++ [mk_pkey f prover])).

(* RemoveProverWithKey ranges over the slice it shrinks in place: [arr] is the backing array
   (always of the original length), [cur] the current len(f.Proofs); a hit at index i with
   i+1 > cur is Go's "slice bounds out of range" panic (None).  Each hit deletes the proof
   record and saves the file with the then-current list; the last save wins. *)
Fixpoint rm_loop (fuel i : nat) (key : pkey) (arr : list pkey) (cur : nat) (hit : bool)
  : option (list pkey * nat * bool) :=
  match fuel with
  | O => Some (arr, cur, hit)
  | S fu =>
    if k4_eqb (nth i arr (0%N, 0%N, 0%N, 0)) key then
      if Nat.leb (S i) cur then
        rm_loop fu (S i) key (firstn i arr ++ skipn (S i) (firstn cur arr) ++ skipn (Nat.pred cur) arr) (Nat.pred cur) true
      else None
    else rm_loop fu (S i) key arr cur hit
  end.

(* result: the store and the in-memory file (manageProof keeps using the same *UnifiedFile) *)
Definition remove_prover_with_key (s : sstate) (f : file) (key : pkey) : option (sstate * file) :=
  let n := length (f_proofs f) in
  match rm_loop n 0 key (f_proofs f) n false with
  | None => None
  | Some (arr, cur, hit) =>
    let f' := with_plist f (firstn cur arr) in
    if hit then Some (set_file (del_proof s key) f', f') else Some (s, f')
  end.

Definition rounded_window (h start window : Z) : Z := let k := h - start in k - Z.rem k window + start.
Definition proven_last_block (f : file) (h last : Z) : bool :=
  last >=? rounded_window h (f_start f) (f_interval f) - f_interval f.
Definition is_young (f : file) (h : Z) : bool := f_start f + f_interval f >=? h.

(* ResetChunkWithProof: the range the height-seeded draw lies in *)
Definition chunk_in_range (f : file) (chunk_size c : Z) : bool :=
  let pieces := Z.quot (f_size f) chunk_size in
  let pieces := if Z.rem (f_size f) chunk_size =? 0 then pieces - 1 else pieces in
  if pieces >? 0 then (0 <=? c) && (c <? pieces) else c =? 0.

(* ---------- outcomes ---------- *)

Inductive out := OutOk | OutFail | OutPanic.
Definition out_eqb (a b : out) : bool :=
  match a, b with OutOk, OutOk | OutFail, OutFail | OutPanic, OutPanic => true | _, _ => false end.

(* result of a message: new state (unchanged unless OutOk: the handler ran on a cache context),
   outcome class, the response's Success flag (true where the response has none) *)
Record res := { r_state : sstate; r_out : out; r_success : bool }.
Definition ok_ (s : sstate) (b : bool) : res := {| r_state := s; r_out := OutOk; r_success := b |}.
Definition fail_ (s : sstate) : res := {| r_state := s; r_out := OutFail; r_success := false |}.
Definition panic_ (s : sstate) : res := {| r_state := s; r_out := OutPanic; r_success := false |}.

Definition max_int64 : Z := 9223372036854775807.

(* ---------- message handlers ---------- *)

(* MsgPostFile: ValidateBasic (c877e2c0), then RemoveFile(merkle, creator, height), SetFile, then the
   payment branch; [paid] = the rest of the handler returned nil (valid note JSON, payment done). *)
Definition post_file (s : sstate) (creator merkle : N) (height expires size maxp interval ptype : Z)
           (note : N) (paid : bool) : res :=
  if (size <=? 0) || (maxp <=? 0) then fail_ s
  else if size >? Z.quot max_int64 maxp then fail_ s
  else if negb paid then fail_ s
  else
    let s1 := remove_file s merkle creator height in
    let f := {| f_merkle := merkle; f_owner := creator; f_start := height; f_expires := expires;
                f_size := size; f_interval := interval; f_ptype := ptype; f_proofs := [];
                f_max := maxp; f_note := note |} in
    ok_ (set_file s1 f) true.

Definition delete_file (s : sstate) (creator merkle : N) (start : Z) : res :=
  ok_ (remove_file s merkle creator start) true.

(* MsgPostProof.  Every refusal is a nil error with Success=false (writes, if any, would commit:
   there are none since 1aeed443). *)
Definition post_proof (s : sstate) (creator merkle owner : N) (start height to_prove : Z)
           (verified : bool) (new_chunk chunk_size : Z) : res :=
  match get_file s (merkle, owner, start) with
  | None => ok_ s false
  | Some f =>
    let cand : option (fproof * bool) :=
      if len f =? f_max f then
        match get_prover s f creator with Some p => Some (p, false) | None => None end
      else if contains_prover f creator then
        match get_prover s f creator with Some p => Some (p, false) | None => None end
      else if len f >=? f_max f then None
      else Some (fresh_proof f creator height, true) in
    match cand with
    | None => ok_ s false
    | Some (p, isnew) =>
      if negb (to_prove =? p_chunk p) then ok_ s false
      else if f_interval f =? 0 then panic_ s          (* ProvenThisBlock: k % window *)
      else if negb verified then ok_ s false           (* Prove -> ErrCannotVerifyProof *)
      else if chunk_size =? 0 then panic_ s            (* ResetChunkWithProof: FileSize / chunkSize *)
      else
        let p' := {| p_prover := p_prover p; p_merkle := p_merkle p; p_owner := p_owner p;
                     p_start := p_start p; p_last := height; p_chunk := new_chunk |} in
        let s1 := if isnew then add_prover s f creator height else s in
        let s2 := set_proof s1 p' in
        ok_ (with_ghost s2 ((creator, (merkle, owner, start)) :: ever_valid s2)) true
    end
  end.

(* the loop shared by Attest and DoReport: mark the creator's entries, count the complete ones *)
Definition mark (creator : N) (atts : list (N * bool)) : list (N * bool) :=
  map (fun a => if N.eqb (fst a) creator then (fst a, true) else a) atts.
Definition is_listed (creator : N) (atts : list (N * bool)) : bool := existsb (fun a => N.eqb (fst a) creator) atts.
Definition count_complete (atts : list (N * bool)) : Z := Z.of_nat (length (filter snd atts)).
Definition with_atts (m : form) (a : list (N * bool)) : form :=
  {| fm_prover := fm_prover m; fm_merkle := fm_merkle m; fm_owner := fm_owner m; fm_start := fm_start m; fm_atts := a |}.

(* MsgAttest: the message handler swallows the keeper's error, so the outcome is always ok *)
Definition attest (s : sstate) (creator prover merkle owner : N) (start height min_pass : Z) : res :=
  match aget k4_eqb (attests s) (prover, merkle, owner, start) with
  | None => ok_ s true
  | Some m =>
    let atts := mark creator (fm_atts m) in
    if negb (is_listed creator (fm_atts m)) then ok_ s true
    else if count_complete atts <? min_pass then
      ok_ (with_attests s (aset k4_eqb (attests s) (ak_of m) (with_atts m atts))) true
    else
      match get_file s (fm_merkle m, fm_owner m, fm_start m) with
      | None => ok_ s true
      | Some f =>
        match get_prover s f (fm_prover m) with
        | None => ok_ s true
        | Some p =>
          let p' := {| p_prover := p_prover p; p_merkle := p_merkle p; p_owner := p_owner p;
                       p_start := p_start p; p_last := height; p_chunk := p_chunk p |} in
          let s1 := set_proof s p' in
          ok_ (with_attests s1 (adel k4_eqb (attests s1) (ak_of m))) true
        end
      end
  end.

(* MsgReport: DoReport's errors fail the transaction *)
Definition report (s : sstate) (creator prover merkle owner : N) (start min_pass : Z) : res :=
  match aget k4_eqb (reports s) (prover, merkle, owner, start) with
  | None => fail_ s
  | Some m =>
    let atts := mark creator (fm_atts m) in
    if negb (is_listed creator (fm_atts m)) then fail_ s
    else if count_complete atts <? min_pass then
      ok_ (with_reports s (aset k4_eqb (reports s) (ak_of m) (with_atts m atts))) true
    else
      match get_file s (merkle, owner, start) with
      | None => fail_ s
      | Some f =>
        let s1 := with_reports s (adel k4_eqb (reports s) (prover, merkle, owner, start)) in
        match remove_prover_with_key s1 f (mk_pkey f prover) with
        | None => panic_ s
        | Some (s2, _) => ok_ s2 true
        end
      end
  end.

Definition new_form (prover merkle owner : N) (start : Z) (chosen : list N) : form :=
  {| fm_prover := prover; fm_merkle := merkle; fm_owner := owner; fm_start := start;
     fm_atts := map (fun a => (a, false)) chosen |}.

(* MsgRequestAttestationForm; [chosen] = the first AttestFormSize of the shuffled active providers
   (None: the requester is no registered provider, or too few are active) *)
Definition req_attest (s : sstate) (creator merkle owner : N) (start : Z) (chosen : option (list N)) : res :=
  match get_file s (merkle, owner, start) with
  | None => ok_ s false
  | Some f =>
    match get_prover s f creator with
    | None => ok_ s false
    | Some _ =>
      match aget k4_eqb (attests s) (creator, merkle, owner, start) with
      | Some _ => ok_ s false
      | None =>
        match chosen with
        | None => ok_ s false
        | Some l => let m := new_form creator merkle owner start l in
                    ok_ (with_attests s (aset k4_eqb (attests s) (ak_of m) m)) true
        end
      end
    end
  end.

Definition req_report (s : sstate) (prover merkle owner : N) (start : Z) (chosen : option (list N)) : res :=
  match get_file s (merkle, owner, start) with
  | None => ok_ s false
  | Some f =>
    match aget k4_eqb (reports s) (prover, merkle, owner, start) with
    | Some _ => ok_ s false
    | None =>
      match get_prover s f prover with
      | None => ok_ s false
      | Some _ =>
        match chosen with
        | None => ok_ s false
        | Some l => let m := new_form prover merkle owner start l in
                    ok_ (with_reports s (aset k4_eqb (reports s) (ak_of m) m)) true
        end
      end
    end
  end.

(* MsgInitProvider ([paid]: address parses and the collateral was taken) / MsgShutdownProvider
   ([paid]: the collateral, if any, could be sent back).  Neither touches files or proofs. *)
Definition init_provider (s : sstate) (creator : N) (paid : bool) : res :=
  match aget N.eqb (burns s) creator with
  | Some _ => fail_ s
  | None => if paid then ok_ (with_burns s (aset N.eqb (burns s) creator 0)) true else fail_ s
  end.
Definition shutdown_provider (s : sstate) (creator : N) (paid : bool) : res :=
  match aget N.eqb (burns s) creator with
  | None => fail_ s
  | Some _ => if paid then ok_ (with_burns s (adel N.eqb (burns s) creator)) true else fail_ s
  end.

(* ---------- reward block ---------- *)

Definition burn_contract (s : sstate) (provider : N) : sstate :=
  match aget N.eqb (burns s) provider with
  | None => s
  | Some b => with_burns s (aset N.eqb (burns s) provider (b + 1))
  end.

(* the walk of one file: store, in-memory file, provers credited so far (sizeTracker[proof.Prover] += size) *)
Record walk := { w_state : sstate; w_file : file; w_credits : list (N * fkey) }.

Definition manage_proof (h : Z) (w : walk) (key : pkey) : option walk :=
  let s := w_state w in let f := w_file w in
  let found := get_proof s key in
  let young := is_young f h in
  let missing := match found with None => true | Some _ => false end in
  if negb young && missing then       (* old file, record missing: drop the prover, no burn *)
    match remove_prover_with_key s f key with
    | None => None
    | Some (s', f') => Some {| w_state := s'; w_file := f'; w_credits := w_credits w |}
    end
  else
    let last := match found with Some p => p_last p | None => 0 end in      (* zero FileProof *)
    let who := match found with Some p => p_prover p | None => 0%N end in   (* its Prover is "" *)
    if f_interval f =? 0 then None          (* ProvenLastBlock: k % window *)
    else if negb (proven_last_block f h last) && negb young then
      match remove_prover_with_key s f key with
      | None => None
      | Some (s', f') =>
        Some {| w_state := burn_contract s' (pk_prover key); w_file := f'; w_credits := w_credits w |}
      end
    else Some {| w_state := s; w_file := f; w_credits := (who, fk1 f) :: w_credits w |}.

Fixpoint manage_proofs (h : Z) (w : walk) (keys : list pkey) : option walk :=
  match keys with
  | [] => Some w
  | k :: r => match manage_proof h w k with None => None | Some w' => manage_proofs h w' r end
  end.

(* one file of the iteration: removeFileIfDeserved, then manageProof over a copy of the list *)
Definition manage_file (h : Z) (acc : sstate * list (N * fkey)) (f : file) : option (sstate * list (N * fkey)) :=
  let '(s, credits) := acc in
  let s1 := match f_proofs f with
            | [] => if negb (is_young f h) then remove_file s (f_merkle f) (f_owner f) (f_start f) else s
            | _ => s
            end in
  match manage_proofs h {| w_state := s1; w_file := f; w_credits := credits |} (f_proofs f) with
  | None => None
  | Some w => Some (w_state w, w_credits w)
  end.

Fixpoint manage_files (h : Z) (acc : sstate * list (N * fkey)) (fs : list file) : option (sstate * list (N * fkey)) :=
  match fs with
  | [] => Some acc
  | f :: r => match manage_file h acc f with None => None | Some acc' => manage_files h acc' r end
  end.

(* RunRewardBlock at height h with CheckWindow cw: None = panic in BeginBlock (chain halt).
   The iterator walks the primary index as it was when the block began; every file's walk
   touches only that file's own entries, its proof records and burn counters. *)
Definition reward_block (s : sstate) (h cw : Z) : option (sstate * list (N * fkey)) :=
  if cw =? 0 then None
  else if Z.rem h cw >? 0 then Some (s, [])
  else manage_files h (s, []) (map snd (files1 s)).

(* ---------- operations and histories ---------- *)

Inductive op :=
| PostFile (creator merkle : N) (height expires size maxp interval ptype : Z) (note : N) (paid : bool)
| DeleteFile (creator merkle : N) (start : Z)
| PostProof (creator merkle owner : N) (start height to_prove : Z) (verified : bool) (new_chunk chunk_size : Z)
| Attest (creator prover merkle owner : N) (start height min_pass : Z)
| Report (creator prover merkle owner : N) (start min_pass : Z)
| ReqAttest (creator merkle owner : N) (start : Z) (chosen : option (list N))
| ReqReport (prover merkle owner : N) (start : Z) (chosen : option (list N))
| InitProvider (creator : N) (paid : bool)
| Shutdown (creator : N) (paid : bool)
| RewardBlock (height cw : Z).

Definition msg_step (s : sstate) (o : op) : res :=
  match o with
  | PostFile c m h e sz mx iv pt n paid => post_file s c m h e sz mx iv pt n paid
  | DeleteFile c m st => delete_file s c m st
  | PostProof c m o st h tp v nc cs => post_proof s c m o st h tp v nc cs
  | Attest c p m o st h mp => attest s c p m o st h mp
  | Report c p m o st mp => report s c p m o st mp
  | ReqAttest c m o st ch => req_attest s c m o st ch
  | ReqReport p m o st ch => req_report s p m o st ch
  | InitProvider c paid => init_provider s c paid
  | Shutdown c paid => shutdown_provider s c paid
  | RewardBlock h cw =>
    match reward_block s h cw with
    | None => panic_ s
    | Some (s', _) => ok_ s' true
    end
  end.

(* a halted chain stays where it is: histories continue from the unchanged state *)
Definition step (s : sstate) (o : op) : sstate := r_state (msg_step s o).
Definition run (s : sstate) (ops : list op) : sstate := fold_left step ops s.

(* provers credited by the reward block [o] executed in state s *)
Definition credited (s : sstate) (o : op) : list (N * fkey) :=
  match o with
  | RewardBlock h cw => match reward_block s h cw with Some (_, c) => c | None => [] end
  | _ => []
  end.
