(* C11 — the record type of the translator-generated message table (Gen/MsgTable.v, regenerated
   from the Go sources on every run by translator/gen_msgtable.go) and the boolean
   well-formedness predicate evaluated on every row.  No proofs here. *)
From Coq Require Import List String Bool.
Import ListNotations.
Open Scope string_scope.

(* result of the abstract evaluation of GetSigners: the message fields whose addresses are
   returned, in order; SignerUnknown when the body is not of the recognised shape *)
Inductive signers :=
| SignerFields (fields : list string)
| SignerUnknown.

Record msg_row := {
  m_module : string;                 (* x/<module> *)
  m_type : string;                   (* Go type of the request, e.g. MsgPostFile *)
  m_url : string;                    (* proto type URL, e.g. /canine_chain.storage.MsgPostFile *)
  m_method : string;                 (* service method name ("" when not in the descriptor) *)
  m_signers : signers;
  m_has_creator_field : bool;        (* the struct has a field Creator of type string *)
  m_registered : bool;               (* listed in RegisterImplementations for the sdk.Msg interface *)
  m_in_desc : bool;                  (* request type of a method of _Msg_serviceDesc *)
  m_desc_registered : bool;          (* RegisterInterfaces calls RegisterMsgServiceDesc(registry, &_Msg_serviceDesc),
                                        which registers every request type of the descriptor as an sdk.Msg *)
  m_server_method : bool;            (* keeper.msgServer declares the method with this request type *)
  m_services_registered : bool;      (* module.go RegisterServices calls types.RegisterMsgServer *)
  m_validate_checks_creator : bool;  (* ValidateBasic parses msg.Creator *)
  m_amino : option string            (* the name under which the amino-JSON sign bytes carry the type: registered with
                                        RegisterConcrete in a function init() applies to the codec behind ModuleCdc, and
                                        GetSignBytes is MustSortJSON(ModuleCdc.MustMarshalJSON(msg)); None: the sign
                                        bytes are the bare field object *)
}.

Fixpoint list_string_eqb (a b : list string) : bool :=
  match a, b with
  | [], [] => true
  | x :: a', y :: b' => String.eqb x y && list_string_eqb a' b'
  | _, _ => false
  end.

Definition signed_by_creator_b (r : msg_row) : bool :=
  match m_signers r with
  | SignerFields fs => list_string_eqb fs ["Creator"]
  | SignerUnknown => false
  end.

(* the type is known to the interface registry: listed explicitly, or through the descriptor *)
Definition registered_b (r : msg_row) : bool :=
  m_registered r || (m_in_desc r && m_desc_registered r).

(* the message service router has a handler for it *)
Definition has_handler_b (r : msg_row) : bool :=
  m_in_desc r && m_server_method r && m_services_registered r.

Definition msg_ok (r : msg_row) : bool :=
  signed_by_creator_b r && m_has_creator_field r && registered_b r && has_handler_b r &&
  m_validate_checks_creator r.

(* lookup by type URL (used by the correspondence with the running app's registry) *)
Fixpoint find_row (t : list msg_row) (url : string) : option msg_row :=
  match t with
  | [] => None
  | r :: t' => if String.eqb (m_url r) url then Some r else find_row t' url
  end.

Fixpoint mem_string (x : string) (l : list string) : bool :=
  match l with
  | [] => false
  | y :: l' => String.eqb x y || mem_string x l'
  end.

Fixpoint nodup_strings (l : list string) : bool :=
  match l with
  | [] => true
  | x :: l' => negb (mem_string x l') && nodup_strings l'
  end.

(* amino names of the rows that have one *)
Fixpoint amino_names (t : list msg_row) : list string :=
  match t with
  | [] => []
  | r :: t' => match m_amino r with Some n => n :: amino_names t' | None => amino_names t' end
  end.

Definition amino_named_b (r : msg_row) : bool := match m_amino r with Some _ => true | None => false end.

(* every message type signs under a name, and no two under the same *)
Definition amino_table_ok (t : list msg_row) : bool :=
  forallb amino_named_b t && nodup_strings (amino_names t).

(* the propositional reading of msg_ok (equivalence proved in Proofs/MsgTableProofs.v) *)
Definition signed_by_creator (r : msg_row) : Prop := m_signers r = SignerFields ["Creator"].
Definition registered (r : msg_row) : Prop :=
  m_registered r = true \/ (m_in_desc r = true /\ m_desc_registered r = true).
Definition has_handler (r : msg_row) : Prop :=
  m_in_desc r = true /\ m_server_method r = true /\ m_services_registered r = true.
Definition row_wf (r : msg_row) : Prop :=
  signed_by_creator r /\ m_has_creator_field r = true /\ registered r /\ has_handler r /\
  m_validate_checks_creator r = true.
