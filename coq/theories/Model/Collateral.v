(* Model of the provider records and the provider collateral of x/storage:
     keeper/msg_server_init_provider.go     InitProvider, ShutdownProvider
     keeper/msg_server_set_provider_ip.go / _keybase.go / _totalspace.go
     keeper/msg_server_provider_claim.go    AddProviderClaimer, RemoveProviderClaimer
     keeper/collateral.go, keeper/providers.go (Set/Get/Remove keyed by the RAW address string)
     types/params.go  validateCollateralPrice (governance parameter change)
     x/bank SendCoinsFromAccountToModule / SendCoinsFromModuleToAccount / MsgSend (blocked recipients)

   Strings.  A creator string that decodes as bech32 with prefix "jkl" is a signer
   (account id, upper-case spelling?): bech32 accepts the all-lower and the all-upper spelling
   of the same account.  The stores are keyed by the raw string, i.e. by the signer; coins
   move from/to the ACCOUNT the string parses to.  Other strings (ip, keybase) are opaque ids.
   Whether a creator string / ip passes ValidateBasic is computed by the repository's own
   ValidateBasic glue and handed to the model as booleans [vb], [ipok]. *)
From Coq Require Import ZArith NArith List Bool.
From JK Require Import Base.AList.
Import ListNotations.
Open Scope Z_scope.

Definition signer := (N * bool)%type.          (* account, upper-case spelling *)
Definition acct (c : signer) : N := fst c.
Definition sg_eqb (a b : signer) : bool := N.eqb (fst a) (fst b) && Bool.eqb (snd a) (snd b).

(* types.Providers *)
Record prov := {
  p_addr : signer;        (* Address — the store key SetProviders writes under *)
  p_ip : N;
  p_space : Z;            (* Totalspace = fmt.Sprintf("%d", int64) *)
  p_creator : signer;
  p_burned : Z;           (* BurnedContracts, a decimal string *)
  p_keybase : N;
  p_claimers : list signer
}.

Definition bank := list (N * Z).               (* ujkl balances *)

Record state := {
  st_price : Z;                                (* params.CollateralPrice *)
  st_prov : list (signer * prov);              (* providers store, key = raw address string *)
  st_coll : list (signer * Z);                 (* collateral store, key = raw address string *)
  st_bank : bank;
  st_blocked : list N;                         (* bank keeper's blocked addresses (module accounts) *)
  st_supply : Z;
  st_proofs : list (signer * Z)                (* number of FileProof records per prover string *)
}.

Inductive out := Ok | Fail | Panic.

(* the escrow: module account "storage_collateral_name" *)
Definition escrow : N := 0%N.

Definition bal (b : bank) (a : N) : Z := aval N.eqb b a.
Definition credit (b : bank) (a : N) (x : Z) : bank := aset N.eqb b a (bal b a + x).
(* bank SendCoins of sdk.NewCoins(x ujkl), x >= 0: a zero coin is dropped, the empty set moves
   nothing and succeeds; otherwise the spendable balance must cover x *)
Definition send (b : bank) (from to : N) (x : Z) : option bank :=
  if x =? 0 then Some b
  else if x <=? bal b from then Some (credit (credit b from (- x)) to x) else None.
Definition is_blocked (s : state) (a : N) : bool := existsb (N.eqb a) (st_blocked s).

Definition get_prov (s : state) (c : signer) : option prov := aget sg_eqb (st_prov s) c.
Definition get_coll (s : state) (c : signer) : option Z := aget sg_eqb (st_coll s) c.

Definition with_prov (s : state) (pl : list (signer * prov)) : state :=
  {| st_price := st_price s; st_prov := pl; st_coll := st_coll s; st_bank := st_bank s;
     st_blocked := st_blocked s; st_supply := st_supply s; st_proofs := st_proofs s |}.
Definition with_price (s : state) (v : Z) : state :=
  {| st_price := v; st_prov := st_prov s; st_coll := st_coll s; st_bank := st_bank s;
     st_blocked := st_blocked s; st_supply := st_supply s; st_proofs := st_proofs s |}.
Definition with_money (s : state) (pl : list (signer * prov)) (cl : list (signer * Z)) (b : bank) : state :=
  {| st_price := st_price s; st_prov := pl; st_coll := cl; st_bank := b;
     st_blocked := st_blocked s; st_supply := st_supply s; st_proofs := st_proofs s |}.

(* SetProviders(provider): the key is provider.Address *)
Definition set_prov (s : state) (p : prov) : state := with_prov s (aset sg_eqb (st_prov s) (p_addr p) p).

(* ---- InitProvider ---- *)
Definition init_provider (s : state) (c : signer) (vb ipok : bool) (ip : N) (space : Z) (kb : N) : state * out :=
  if negb (vb && ipok) then (s, Fail) else               (* ValidateBasic: creator, url.ParseRequestURI(ip) *)
  match get_prov s c with
  | Some _ => (s, Fail)                                   (* ErrProviderExists *)
  | None =>
    let price := st_price s in
    if price <? 0 then (s, Panic) else                    (* sdk.NewInt64Coin panics on a negative amount *)
    if snd c then (s, Fail) else                          (* account.String() != msg.Creator: only the canonical spelling registers *)
    match send (st_bank s) (acct c) escrow price with     (* SendCoinsFromAccountToModule(account(creator), escrow) *)
    | None => (s, Fail)
    | Some b =>
      let rec := {| p_addr := c; p_ip := ip; p_space := space; p_creator := c; p_burned := 0;
                    p_keybase := kb; p_claimers := [] |} in
      (with_money s (aset sg_eqb (st_prov s) c rec) (aset sg_eqb (st_coll s) c price) b, Ok)
    end
  end.

(* ---- ShutdownProvider ---- *)
Definition shutdown_provider (s : state) (c : signer) (vb : bool) : state * out :=
  if negb vb then (s, Fail) else
  match get_prov s c with
  | None => (s, Fail)                                     (* ErrProviderNotFound *)
  | Some _ =>
    match get_coll s c with
    | Some amt =>
      if amt <? 0 then (s, Panic) else                    (* NewInt64Coin *)
      if is_blocked s (acct c) then (s, Fail) else        (* SendCoinsFromModuleToAccount refuses blocked recipients *)
      match send (st_bank s) escrow (acct c) amt with
      | None => (s, Fail)
      | Some b => (with_money s (adel sg_eqb (st_prov s) c) (adel sg_eqb (st_coll s) c) b, Ok)
      end
    | None => (with_prov s (adel sg_eqb (st_prov s) c), Ok)   (* no collateral on record: just remove *)
    end
  end.

(* ---- governance parameter change of CollateralPrice (params Subspace.Update -> validateCollateralPrice) ---- *)
Definition set_price (s : state) (v : Z) : state * out :=
  if v <=? 1 then (s, Fail) else (with_price s v, Ok).

(* ---- SetProviderIP / SetProviderKeybase / SetProviderTotalSpace ---- *)
Definition upd_prov (s : state) (c : signer) (ok : bool) (f : prov -> prov) : state * out :=
  if negb ok then (s, Fail) else
  match get_prov s c with
  | None => (s, Fail)
  | Some p => (set_prov s (f p), Ok)
  end.

Definition set_ip (s : state) (c : signer) (vb ipok : bool) (ip : N) :=
  upd_prov s c (vb && ipok) (fun p =>
    {| p_addr := p_addr p; p_ip := ip; p_space := p_space p; p_creator := p_creator p;
       p_burned := p_burned p; p_keybase := p_keybase p; p_claimers := p_claimers p |}).
Definition set_keybase (s : state) (c : signer) (vb : bool) (kb : N) :=
  upd_prov s c vb (fun p =>
    {| p_addr := p_addr p; p_ip := p_ip p; p_space := p_space p; p_creator := p_creator p;
       p_burned := p_burned p; p_keybase := kb; p_claimers := p_claimers p |}).
Definition set_space (s : state) (c : signer) (vb : bool) (space : Z) :=
  upd_prov s c vb (fun p =>
    {| p_addr := p_addr p; p_ip := p_ip p; p_space := space; p_creator := p_creator p;
       p_burned := p_burned p; p_keybase := p_keybase p; p_claimers := p_claimers p |}).

Definition with_claimers (p : prov) (l : list signer) : prov :=
  {| p_addr := p_addr p; p_ip := p_ip p; p_space := p_space p; p_creator := p_creator p;
     p_burned := p_burned p; p_keybase := p_keybase p; p_claimers := l |}.

(* ---- AddProviderClaimer / RemoveProviderClaimer (claimers compared as raw strings) ---- *)
Definition add_claimer (s : state) (c : signer) (vb : bool) (cl : signer) : state * out :=
  if negb vb then (s, Fail) else                          (* ValidateBasic: creator and claim address *)
  match get_prov s c with
  | None => (s, Fail)
  | Some p =>
    if existsb (sg_eqb cl) (p_claimers p) then (s, Fail)  (* "cannot add the same claimer twice" *)
    else (set_prov s (with_claimers p (p_claimers p ++ [cl])), Ok)
  end.

Definition remove_claimer (s : state) (c : signer) (vb : bool) (cl : signer) : state * out :=
  if negb vb then (s, Fail) else
  match get_prov s c with
  | None => (s, Fail)
  | Some p =>
    match p_claimers p with
    | [] => (s, Fail)                                     (* "provider has no claimer addresses" *)
    | _ =>
      let l := filter (fun x => negb (sg_eqb x cl)) (p_claimers p) in
      if Nat.eqb (length l) (length (p_claimers p)) then (s, Fail)   (* "this address is not a claimer" *)
      else (set_prov s (with_claimers p l), Ok)
    end
  end.

(* ---- bank MsgSend of x ujkl from an account to the escrow's address ---- *)
Definition donate (s : state) (from : N) (x : Z) : state * out :=
  if x <=? 0 then (s, Fail) else                          (* MsgSend.ValidateBasic: positive amount *)
  if is_blocked s escrow then (s, Fail) else              (* bank msgServer.Send: blocked recipient *)
  match send (st_bank s) from escrow x with
  | None => (s, Fail)
  | Some b => (with_money s (st_prov s) (st_coll s) b, Ok)
  end.

(* ---- the reward block's strike (keeper.burnContract, run from BeginBlock for a prover that missed its window):
   the provider's burn counter goes up by one; a prover string without a provider record is skipped.  It touches
   neither the collateral records nor any balance, and it never removes the provider record. ---- *)
Definition burn (s : state) (c : signer) : state :=
  fst (upd_prov s c true (fun p =>
    {| p_addr := p_addr p; p_ip := p_ip p; p_space := p_space p; p_creator := p_creator p;
       p_burned := p_burned p + 1; p_keybase := p_keybase p; p_claimers := p_claimers p |})).

Inductive op :=
| OInit (c : signer) (vb ipok : bool) (ip : N) (space : Z) (kb : N)
| OShutdown (c : signer) (vb : bool)
| OSetPrice (v : Z)
| OSetIp (c : signer) (vb ipok : bool) (ip : N)
| OSetKeybase (c : signer) (vb : bool) (kb : N)
| OSetSpace (c : signer) (vb : bool) (space : Z)
| OAddClaimer (c : signer) (vb : bool) (cl : signer)
| ORemoveClaimer (c : signer) (vb : bool) (cl : signer)
| ODonate (from : N) (x : Z)
| OBurn (c : signer).

Definition step (s : state) (o : op) : state * out :=
  match o with
  | OInit c vb ipok ip space kb => init_provider s c vb ipok ip space kb
  | OShutdown c vb => shutdown_provider s c vb
  | OSetPrice v => set_price s v
  | OSetIp c vb ipok ip => set_ip s c vb ipok ip
  | OSetKeybase c vb kb => set_keybase s c vb kb
  | OSetSpace c vb space => set_space s c vb space
  | OAddClaimer c vb cl => add_claimer s c vb cl
  | ORemoveClaimer c vb cl => remove_claimer s c vb cl
  | ODonate from x => donate s from x
  | OBurn c => (burn s c, Ok)
  end.

Definition run (s : state) (ops : list op) : state := fold_left (fun s o => fst (step s o)) ops s.

(* the account whose signature an operation carries (none for the governance change) *)
Definition op_signer (o : op) : option signer :=
  match o with
  | OInit c _ _ _ _ _ | OShutdown c _ | OSetIp c _ _ _ | OSetKeybase c _ _ | OSetSpace c _ _
  | OAddClaimer c _ _ | ORemoveClaimer c _ _ => Some c
  | OSetPrice _ | ODonate _ _ | OBurn _ => None
  end.
Definition op_account (o : op) : option N :=
  match o with
  | ODonate from _ => Some from
  | _ => option_map acct (op_signer o)
  end.

(* a chain without providers: any bank whose escrow account is empty *)
Definition genesis (price : Z) (b : bank) (blocked : list N) (supply : Z) : state :=
  {| st_price := price; st_prov := []; st_coll := []; st_bank := b; st_blocked := blocked;
     st_supply := supply; st_proofs := [] |}.
