(* Model of the payment gauges of x/storage: keeper.NewGauge (gauges.go, after the repair that
   adds up deposits made under one id), the funding transfer the two creation sites perform
   (msg_server_buy_storage.go, msg_server_post_file.go pay-once branch) and
   keeper.pullTokensFromGauges (rewards.go) as run by RunRewardBlock when nothing is stored
   (rewardAllProviders returns right after the pull when totalSize <= 0, so what the gauges
   release stays in the storage module account = the reward pool; the split among provers
   is C03's subject).

   Instants are Z nanoseconds; time.Time.Sub saturates at +-(2^63-1) ns; Duration.Microseconds
   truncates toward zero.  Gauge ids and denominations are opaque N ids supplied by the
   harness (id = sha256(height--end_us--coins) is recomputed there).  Coins are association
   lists denom -> amount compared semantically (missing = 0). *)
From Coq Require Import ZArith NArith List Bool.
From JK Require Import Base.Dec Base.AList.
Import ListNotations.
Open Scope Z_scope.

(* ---------- time ---------- *)
Definition max_dur : Z := 2 ^ 63 - 1.
Definition min_dur : Z := - 2 ^ 63.
Definition tsub (a b : Z) : Z :=                      (* a.Sub(b) *)
  let d := a - b in if max_dur <? d then max_dur else if d <? min_dur then min_dur else d.
Definition micros (d : Z) : Z := Z.quot d 1000.       (* d.Microseconds() *)

(* ---------- coins ---------- *)
Definition coins := list (N * Z).
Definition cval (c : coins) (d : N) : Z := aval N.eqb c d.            (* AmountOf *)
Definition cadd1 (c : coins) (d : N) (x : Z) : coins := aset N.eqb c d (cval c d + x).
Definition cadd (a b : coins) : coins := fold_left (fun acc p => cadd1 acc (fst p) (snd p)) b a.
Definition csub (a b : coins) : coins := fold_left (fun acc p => cadd1 acc (fst p) (- snd p)) b a.
Definition cempty (c : coins) : bool := forallb (fun p => snd p =? 0) c.     (* Coins.Empty of the non-zero balances *)
Definition ceqb (a b : coins) : bool :=
  forallb (fun d => cval a d =? cval b d) (map fst a ++ map fst b).

(* ---------- records ---------- *)
Record gauge := { g_start : Z; g_end : Z; g_coins : coins }.

Record gstate := {
  gs_gauges : list (N * gauge);      (* the PaymentGauge records, keyed by id *)
  gs_escrow : list (N * coins);      (* balances of the gauge accounts, keyed by gauge id *)
  gs_pool : coins                    (* balance of the storage module account *)
}.

Definition escrow_of (s : gstate) (id : N) : coins :=
  match aget N.eqb (gs_escrow s) id with Some c => c | None => [] end.

(* ---------- keeper.NewGauge ---------- *)
(* Start = block time, End and coins as given; a record already stored under the id (same
   height, end microsecond and coins: the same block) contributes its coins *)
Definition new_gauge (s : gstate) (id : N) (now end_ : Z) (cs : coins) : gstate :=
  let cs' := match aget N.eqb (gs_gauges s) id with
             | Some old => cadd (g_coins old) cs
             | None => cs
             end in
  {| gs_gauges := aset N.eqb (gs_gauges s) id {| g_start := now; g_end := end_; g_coins := cs' |};
     gs_escrow := gs_escrow s; gs_pool := gs_pool s |}.

(* SendCoinsFromModuleToAccount(storage, gauge account, coins), as both creation sites do *)
Definition fund_gauge (s : gstate) (id : N) (cs : coins) : gstate :=
  {| gs_gauges := gs_gauges s;
     gs_escrow := aset N.eqb (gs_escrow s) id (cadd (escrow_of s id) cs);
     gs_pool := csub (gs_pool s) cs |}.

Definition create_gauge (s : gstate) (id : N) (now end_ : Z) (cs : coins) : gstate :=
  fund_gauge (new_gauge s id now end_ cs) id cs.

(* ---------- pullTokensFromGauges ---------- *)
(* timeRatio = 1 - Quo(timeLeft_us, totalTime_us); None = Quo by zero (panic) *)
Definition gauge_ratio (start end_ now : Z) : option Z :=
  let total := micros (tsub end_ start) in
  let left := micros (tsub end_ now) in
  if total =? 0 then None else Some (dec 1 - dquo (dec left) (dec total)).

Inductive coin_out :=
| CPanic                          (* TruncateInt64 out of range, or NewInt64Coin with a negative amount *)
| CMove (dist moved : Z).         (* added to coinsToDistribute / actually sent to the module *)

(* one denomination of one gauge: recorded amount A, escrow balance bal *)
Definition pull_coin (ratio bal A : Z) : coin_out :=
  let nb := dmul ratio (dec A) - dec (A - bal) in
  match dtrunc64 nb with
  | None => CPanic
  | Some amt =>
    if amt =? 0 then CMove 0 0
    else if amt <? 0 then CPanic
    else if amt <=? bal then CMove amt amt
    else CMove amt 0                 (* insufficient funds: logged, the loop continues *)
  end.

(* the loop over pg.Coins; balances are read from the snapshot taken before the loop *)
Definition pull_coins (ratio : Z) (snap : coins) (cs : coins) : option (coins * coins) :=
  fold_left (fun acc c =>
    match acc with
    | None => None
    | Some (b, mv) =>
      match pull_coin ratio (cval snap (fst c)) (snd c) with
      | CPanic => None
      | CMove _ m => Some (cadd1 b (fst c) (- m), cadd1 mv (fst c) m)
      end
    end) cs (Some (snap, [])).

Inductive gauge_out :=
| GPanic
| GDone (keep : bool) (bal : coins) (moved : coins).

Definition pull_one (now : Z) (g : gauge) (snap : coins) : gauge_out :=
  if g_end g <? now then GDone false snap []                (* End.Before(now): removed *)
  else if g_end g <=? g_start g then GDone false snap []    (* End before or equal Start: removed *)
  else if cempty snap then GDone false snap []              (* empty gauge account: removed *)
  else match gauge_ratio (g_start g) (g_end g) now with
       | None => GPanic
       | Some r =>
         match pull_coins r snap (g_coins g) with
         | None => GPanic
         | Some (b, mv) => GDone true b mv
         end
       end.

Definition pull_gauge (now : Z) (s : gstate) (ig : N * gauge) : option gstate :=
  let (id, g) := ig in
  match pull_one now g (escrow_of s id) with
  | GPanic => None
  | GDone keep b mv =>
    Some {| gs_gauges := if keep then gs_gauges s else adel N.eqb (gs_gauges s) id;
            gs_escrow := aset N.eqb (gs_escrow s) id b;
            gs_pool := cadd (gs_pool s) mv |}
  end.

(* RunRewardBlock at a reward height with nothing stored; None = panic in BeginBlock (chain halt) *)
Definition reward_block (s : gstate) (now : Z) : option gstate :=
  fold_left (fun acc ig => match acc with None => None | Some s' => pull_gauge now s' ig end)
            (gs_gauges s) (Some s).

(* ---------- histories ---------- *)
Inductive gop :=
| OpCreate (id : N) (now end_ : Z) (cs : coins)     (* NewGauge + funding, as in the handlers *)
| OpReward (now : Z).

Definition gstep (s : gstate) (o : gop) : option gstate :=
  match o with
  | OpCreate id now e cs => Some (create_gauge s id now e cs)
  | OpReward now => reward_block s now
  end.

Fixpoint grun (s : gstate) (ops : list gop) : option gstate :=
  match ops with
  | [] => Some s
  | o :: r => match gstep s o with None => None | Some s' => grun s' r end
  end.

Definition gempty : gstate := {| gs_gauges := []; gs_escrow := []; gs_pool := [] |}.

(* ---------- one gauge, one denomination, a sequence of reward times ---------- *)
(* the cumulative amount the formula assigns to instant now for recorded amount A *)
Definition cum_at (start end_ A now : Z) : Z :=
  match gauge_ratio start end_ now with
  | Some r => dtrunc (dmul r (dec A))
  | None => 0
  end.

(* the escrow balance of one denomination across reward blocks at the given instants; the
   gauge is removed (and never looked at again) at the first instant past End or when the
   balance is found empty *)
Fixpoint run_coin (start end_ A : Z) (ts : list Z) (bal : Z) : option Z :=
  match ts with
  | [] => Some bal
  | t :: r =>
    if end_ <? t then Some bal
    else if end_ <=? start then Some bal
    else if bal =? 0 then Some bal
    else match gauge_ratio start end_ t with
         | None => None
         | Some ratio =>
           match pull_coin ratio bal A with
           | CPanic => None
           | CMove _ m => run_coin start end_ A r (bal - m)
           end
         end
  end.
