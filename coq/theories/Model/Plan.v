(* Model of the plan-space accounting of x/storage (the code after the repairs 333382fa,
   06c3bd0c, 9329c971, c877e2c0):
     keeper/msg_server_post_file.go   PostFile (ValidateBasic of types/message_post_file.go first)
     keeper/msg_server_file_delete.go DeleteFile
     keeper/files.go                  RemoveFile (hands back the footprint of plan-paid files)
     keeper/rewards.go                ManageRewards / removeFileIfDeserved (drops proverless files)
     keeper/msg_server_buy_storage.go BuyStorage (only the StoragePaymentInfo it writes)
     keeper/grpc_query_get_client_free_space.go
   Strings (owner / plan addresses, merkle roots) are opaque N ids given by the harness: two
   different spellings of one account are two different ids, exactly as the code keys its
   records by the raw string.  BuyStorage stores the plan under the canonical spelling
   (forAddress.String()); PostFile and RemoveFile look it up under the raw msg.Creator / file.Owner.
   Times are nanoseconds since the epoch; Go int64 arithmetic is wrapped where the code computes. *)
From Coq Require Import ZArith NArith List Bool.
From JK Require Import Base.Dec Base.AList.
Import ListNotations.
Open Scope Z_scope.

Inductive pl_out := PlOk | PlFail | PlPanic.

Record plan := { p_avail : Z; p_used : Z; p_end : Z }.          (* SpaceAvailable, SpaceUsed, End *)

(* UnifiedFile: FileSize, MaxProofs, Expires, ProofInterval, len(Proofs) *)
Record file := { f_size : Z; f_maxp : Z; f_expires : Z; f_pi : Z; f_provers : Z }.

Definition fkey := (N * N * Z)%type.                            (* (merkle, owner, start) *)
Definition k_merkle (k : fkey) : N := fst (fst k).
Definition k_owner (k : fkey) : N := snd (fst k).
Definition k_start (k : fkey) : Z := snd k.
Definition fkey_eqb (a b : fkey) : bool :=
  N.eqb (k_merkle a) (k_merkle b) && N.eqb (k_owner a) (k_owner b) && Z.eqb (k_start a) (k_start b).

Record state := { plans : list (N * plan); files : list (fkey * file) }.

Definition get_plan (s : state) (a : N) : option plan := aget N.eqb (plans s) a.
Definition get_file (s : state) (k : fkey) : option file := aget fkey_eqb (files s) k.
Definition set_plan (s : state) (a : N) (p : plan) : state :=
  {| plans := aset N.eqb (plans s) a p; files := files s |}.
Definition with_used (p : plan) (u : Z) : plan := {| p_avail := p_avail p; p_used := u; p_end := p_end p |}.

(* the footprint as the code computes it: FileSize * MaxProofs in int64 *)
Definition footprint (f : file) : Z := wrap64 (f_size f * f_maxp f).
(* RemoveFile: "file.Expires <= 0" is what identifies a file posted against the plan
   (PostFile: everything that is not Expires > 0) *)
Definition plan_paid (f : file) : bool := f_expires f <=? 0.

(* keeper.RemoveFile(ctx, merkle, owner, start) *)
Definition remove_file (s : state) (k : fkey) : state :=
  match get_file s k with
  | None => s
  | Some f =>
    let s1 :=
      if plan_paid f then
        match get_plan s (k_owner k) with
        | Some p =>
          let u := wrap64 (p_used p - footprint f) in
          set_plan s (k_owner k) (with_used p (if u <? 0 then 0 else u))
        | None => s
        end
      else s in
    {| plans := plans s1; files := adel fkey_eqb (files s1) k |}
  end.

(* ---- PostFile *)
Record post_msg := {
  pm_creator : N;          (* id of the raw msg.Creator string *)
  pm_merkle : N;
  pm_size : Z; pm_maxp : Z; pm_expires : Z;
  pm_note_ok : bool;       (* json.Valid(msg.Note) *)
  pm_pay_ok : bool         (* pay-once branch only: the creator can pay the price and the gauge is funded *)
}.

(* days := ((Expires - height) * 6) / 60 / 60 / 24, int64 arithmetic *)
Definition post_days (expires h : Z) : Z :=
  Z.quot (Z.quot (Z.quot (wrap64 (wrap64 (expires - h) * 6)) 60) 60) 24.

Definition post_file (s : state) (h now window : Z) (m : post_msg) : state * pl_out :=
  (* MsgPostFile.ValidateBasic *)
  if pm_size m <=? 0 then (s, PlFail) else
  if pm_maxp m <=? 0 then (s, PlFail) else
  if pm_size m >? Z.quot int64_max (pm_maxp m) then (s, PlFail) else
  (* handler *)
  if negb (pm_note_ok m) then (s, PlFail) else
  let key : fkey := (pm_merkle m, pm_creator m, h) in
  let s1 := remove_file s key in
  let f := {| f_size := pm_size m; f_maxp := pm_maxp m; f_expires := pm_expires m; f_pi := window; f_provers := 0 |} in
  let s2 := {| plans := plans s1; files := aset fkey_eqb (files s1) key f |} in
  let total := wrap64 (pm_size m * pm_maxp m) in
  if pm_expires m >? 0 then
    if post_days (pm_expires m) h <=? 0 then (s, PlFail)
    else if pm_pay_ok m then (s2, PlOk) else (s, PlFail)
  else
    match get_plan s2 (pm_creator m) with
    | None => (s, PlFail)
    | Some p =>
      if p_end p <? now then (s, PlFail) else
      if total >? wrap64 (p_avail p - p_used p) then (s, PlFail) else
      (set_plan s2 (pm_creator m) (with_used p (wrap64 (p_used p + total))), PlOk)
    end.

(* ---- DeleteFile: never fails, removes whatever (merkle, msg.Creator, start) names *)
Definition delete_file (s : state) (creator merkle : N) (start : Z) : state * pl_out :=
  (remove_file s (merkle, creator, start), PlOk).

(* ---- reward block: ManageRewards walks every file; removeFileIfDeserved drops the ones
   that have no prover and are past their first window (IsYoung: Start+ProofInterval >= height) *)
Definition is_young (start : Z) (f : file) (h : Z) : bool := wrap64 (start + f_pi f) >=? h.
Definition dropped (h : Z) (kf : fkey * file) : bool :=
  (f_provers (snd kf) =? 0) && negb (is_young (k_start (fst kf)) (snd kf) h).
Definition drop_step (h : Z) (s : state) (kf : fkey * file) : state :=
  if dropped h kf then remove_file s (fst kf) else s.
Definition drop_proverless (s : state) (h : Z) : state := fold_left (drop_step h) (files s) s.
(* RunRewardBlock: only at heights that are multiples of CheckWindow *)
Definition reward_block (s : state) (h cw : Z) : state :=
  if Z.rem h cw >? 0 then s else drop_proverless s h.

(* provers joining (PostProof) or being removed (manageProof): only len(Proofs) changes *)
Definition set_provers (s : state) (k : fkey) (n : Z) : state :=
  match get_file s k with
  | None => s
  | Some f => {| plans := plans s;
                 files := aset fkey_eqb (files s) k
                   {| f_size := f_size f; f_maxp := f_maxp f; f_expires := f_expires f; f_pi := f_pi f; f_provers := n |} |}
  end.

(* ---- BuyStorage, restricted to the StoragePaymentInfo it writes *)
Definition day_ns : Z := 24 * 3600 * 1000000000.
Definition month_ns : Z := 30 * day_ns.
Definition gb : Z := 1000000000.

Record buy_msg := {
  bm_for : N;              (* id of forAddress.String(), the canonical spelling the plan is stored under *)
  bm_days : Z; bm_bytes : Z;
  bm_resolve_ok : bool;    (* rns Resolve + AccAddressFromBech32 of ForAddress succeed *)
  bm_denom_ok : bool;      (* PaymentDenom == "ujkl" *)
  bm_upgrade_ok : bool;    (* UpgradeStorage: price of the new plan minus the prorated old one is positive *)
  bm_pay_ok : bool         (* creator parses and can pay; the splits out of the module account succeed *)
}.

Definition buy_duration (days : Z) : Z := wrap64 (days * day_ns).   (* time.Duration(days) * time.Hour * 24 *)

Definition buy_storage (s : state) (now : Z) (m : buy_msg) : state * pl_out :=
  if bm_days m <=? 0 then (s, PlFail) else                   (* ValidateBasic *)
  if negb (bm_resolve_ok m) then (s, PlFail) else
  let duration := buy_duration (bm_days m) in
  if duration <? month_ns then (s, PlFail) else              (* validateBuy *)
  if Z.quot (bm_bytes m) gb <=? 0 then (s, PlFail) else
  if negb (bm_denom_ok m) then (s, PlFail) else
  let old := get_plan s (bm_for m) in
  let blocked :=
    match old with
    | Some p =>
      if p_used p >? bm_bytes m then true                    (* "cannot buy less than your current gb usage" *)
      else if p_end p >? now                                 (* live plan: UpgradeStorage *)
           then (bm_bytes m <? p_used p) || negb (bm_upgrade_ok m)
           else false
    | None => false
    end in
  if blocked then (s, PlFail) else
  if negb (bm_pay_ok m) then (s, PlFail) else
  let carried := match old with Some p => p_used p | None => 0 end in
  (set_plan s (bm_for m) {| p_avail := bm_bytes m; p_used := carried; p_end := now + duration |}, PlOk).

(* ---- GetClientFreeSpace *)
Definition free_space (s : state) (a : N) : Z :=
  match get_plan s a with Some p => wrap64 (p_avail p - p_used p) | None => 0 end.

(* ---- histories *)
Inductive op :=
| OpBuy (now : Z) (m : buy_msg)
| OpPost (h now window : Z) (m : post_msg)
| OpDelete (creator merkle : N) (start : Z)
| OpReward (h cw : Z)
| OpProvers (k : fkey) (n : Z).

Definition apply (s : state) (o : op) : state * pl_out :=
  match o with
  | OpBuy now m => buy_storage s now m
  | OpPost h now w m => post_file s h now w m
  | OpDelete c mk st => delete_file s c mk st
  | OpReward h cw => (reward_block s h cw, PlOk)
  | OpProvers k n => (set_provers s k n, PlOk)
  end.
Definition step (s : state) (o : op) : state := fst (apply s o).
Definition run (s : state) (ops : list op) : state := fold_left step ops s.
Definition init : state := {| plans := []; files := [] |}.

(* what the property speaks about: the footprints of an account's live plan-paid files *)
Definition contrib (a : N) (kf : fkey * file) : Z :=
  if N.eqb (k_owner (fst kf)) a && plan_paid (snd kf) then f_size (snd kf) * f_maxp (snd kf) else 0.
Fixpoint plan_sum (l : list (fkey * file)) (a : N) : Z :=
  match l with [] => 0 | kf :: r => contrib a kf + plan_sum r a end.
