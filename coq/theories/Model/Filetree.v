(* Model of x/filetree: keeper/access.go, keeper/files.go, types/key_files.go and the
   message servers post_file, delete_file, change_owner, add/remove/reset viewers and
   editors, make_root (MsgProvisionFileTree), with the ValidateBasic emptiness checks
   that run before a handler.

   Strings are byte strings.  The KV store under prefix "Files/value/" is an association
   list from RAW keys (Address ++ "/" ++ Owner ++ "/", types.FilesKey) to records.
   The hash H, the JSON parser (json.Unmarshal into map[string]string) and the JSON
   renderer (json.Marshal of that map) are section variables: the theorems hold for every
   choice; the correspondence instantiates H with the executable SHA-256, the renderer
   with [json_render_opt] below and the parser with the table of results Go's own
   json.Unmarshal produced on the strings of the observed state (glue). *)
From Coq Require Import NArith List Bool.
From JK Require Import Base.Bytes Base.AList Model.Paths.
Import ListNotations.
Open Scope N_scope.

Record file := mkFile {
  f_addr : bytes; f_contents : bytes; f_owner : bytes;
  f_view : bytes; f_edit : bytes; f_track : bytes }.

Definition acl := list (bytes * bytes).      (* map[string]string *)
(* what json.Unmarshal(s, &m) leaves in m (a fresh map before the call): an error, or a map --
   None is the NIL map Go leaves for the JSON text null (reads and deletes work on it, an
   assignment panics, json.Marshal renders it as null) *)
Inductive parsed := PErr | PMap (m : option acl).
Definition store := list (bytes * file).     (* raw store key -> Files *)

Inductive kind := KView | KEdit.
Inductive outcome := Ok | Fail | Panic.

Definition comma : N := 44.

(* strings.Split(s, ","): never returns the empty list *)
Fixpoint split_comma_aux (cur : bytes) (s : bytes) : list bytes :=
  match s with
  | [] => [rev cur]
  | c :: r => if c =? comma then rev cur :: split_comma_aux [] r
              else split_comma_aux (c :: cur) r
  end.
Definition split_comma (s : bytes) : list bytes := split_comma_aux [] s.

Definition is_empty (s : bytes) : bool := match s with [] => true | _ => false end.

(* types.FilesKey *)
Definition files_key (address owner : bytes) : bytes := address ++ slash :: owner ++ [slash].

Definition sget (s : store) (k : bytes) : option file := aget beqb s k.
Definition sset (s : store) (k : bytes) (f : file) : store := aset beqb s k f.
Definition sdel (s : store) (k : bytes) : store := adel beqb s k.

Definition mget (m : acl) (k : bytes) : option bytes := aget beqb m k.
Definition mset (m : acl) (k v : bytes) : acl := aset beqb m k v.
Definition mdel (m : acl) (k : bytes) : acl := adel beqb m k.
Definition oget (m : option acl) (k : bytes) : option bytes :=
  match m with Some m0 => mget m0 k | None => None end.

(* keeper.GetFiles / SetFiles / RemoveFiles *)
Definition get_file (s : store) (address owner : bytes) : option file := sget s (files_key address owner).
Definition set_file (s : store) (f : file) : store := sset s (files_key (f_addr f) (f_owner f)) f.
Definition remove_file (s : store) (address owner : bytes) : store := sdel s (files_key address owner).

Definition acl_of (k : kind) (f : file) : bytes := match k with KView => f_view f | KEdit => f_edit f end.
Definition with_acl (k : kind) (f : file) (a : bytes) : file :=
  match k with
  | KView => mkFile (f_addr f) (f_contents f) (f_owner f) a (f_edit f) (f_track f)
  | KEdit => mkFile (f_addr f) (f_contents f) (f_owner f) (f_view f) a (f_track f)
  end.
Definition with_owner (f : file) (o : bytes) : file :=
  mkFile (f_addr f) (f_contents f) o (f_view f) (f_edit f) (f_track f).

(* for i, v := range ids { m[v] = keys[i] } ; None = index out of range (panic) *)
Fixpoint add_all (m : acl) (ids keys : list bytes) : option acl :=
  match ids with
  | [] => Some m
  | v :: ids' =>
    match keys with
    | [] => None
    | k :: keys' => add_all (mset m v k) ids' keys'
    end
  end.

(* the same loop on what json.Unmarshal left: with ids to process, a nil map panics on the
   first assignment (after keys[i] has been evaluated, which panics first if out of range) *)
Definition add_all_opt (m : option acl) (ids keys : list bytes) : option (option acl) :=
  match ids with
  | [] => Some m
  | _ :: _ =>
    match m with
    | None => None
    | Some m0 => match add_all m0 ids keys with None => None | Some m' => Some (Some m') end
    end
  end.

(* for _, v := range ids { delete(m, v) } ; a no-op on the nil map *)
Definition del_all (m : acl) (ids : list bytes) : acl := fold_left mdel ids m.
Definition del_all_opt (m : option acl) (ids : list bytes) : option acl :=
  match m with None => None | Some m0 => Some (del_all m0 ids) end.

(* messages; the first field is always msg.Creator (raw string) *)
Inductive op :=
| Provision (creator viewers editors track : bytes)
| Post (creator account hparent hchild contents viewers editors track : bytes)
| Delete (creator hpath account : bytes)
| ChangeOwner (creator address fileowner newowner : bytes)
| AddAcl (k : kind) (creator ids keys address fileowner : bytes)
| RemoveAcl (k : kind) (creator ids address fileowner : bytes)
| ResetAcl (k : kind) (creator address fileowner : bytes).

(* the emptiness checks of the ValidateBasic methods (the bech32 check of Creator is
   performed by the SDK's own parser and enters [run] as the boolean cv) *)
Definition validate_basic (o : op) : bool :=
  match o with
  | Provision _ v e t => negb (is_empty e) && negb (is_empty v) && negb (is_empty t)
  | Post _ acct hp hc _ v e t =>
    negb (is_empty acct) && negb (is_empty hp) && negb (is_empty hc) &&
    negb (is_empty v) && negb (is_empty e) && negb (is_empty t)
  | Delete _ hp acct => negb (is_empty hp) && negb (is_empty acct)
  | ChangeOwner _ a fo no => negb (is_empty no) && negb (is_empty fo) && negb (is_empty a)
  | AddAcl _ _ ids keys a fo =>
    negb (is_empty ids) && negb (is_empty keys) && negb (is_empty a) && negb (is_empty fo)
  | RemoveAcl _ _ ids a fo => negb (is_empty ids) && negb (is_empty a) && negb (is_empty fo)
  | ResetAcl _ _ a fo => negb (is_empty a) && negb (is_empty fo)
  end.

Section Filetree.
  Variable H : bytes -> bytes.
  Variable parse : bytes -> parsed.
  Variable render : option acl -> bytes.

  (* keeper.MakeOwnerAddress / MakeViewerAddress / MakeEditorAddress: "o" "v" "e" *)
  Definition make_owner (path user : bytes) : bytes := hexH H (111 :: path ++ user).
  Definition make_viewer (tn user : bytes) : bytes := hexH H (118 :: tn ++ user).
  Definition make_editor (tn user : bytes) : bytes := hexH H (101 :: tn ++ user).
  Definition acl_addr (k : kind) : bytes -> bytes -> bytes :=
    match k with KView => make_viewer | KEdit => make_editor end.

  (* keeper.IsOwner *)
  Definition is_owner (f : file) (user : bytes) : bool :=
    beqb (make_owner (f_addr f) (hexH H user)) (f_owner f).

  (* keeper.HasViewingAccess / HasEditAccess; None = json.Unmarshal error *)
  Definition has_access (k : kind) (f : file) (user : bytes) : option bool :=
    match parse (acl_of k f) with
    | PErr => None
    | PMap m => Some (match oget m (acl_addr k (f_track f) user) with Some _ => true | None => false end)
    end.

  (* types.MerklePath("s") *)
  Definition root_path : bytes := merkle_path H [115].

  (* Keeper.MakeRootFolder *)
  Definition make_root (s : store) (creator viewers editors track : bytes) : store :=
    let account_hash := hexH H creator in
    let owner := make_owner root_path account_hash in
    set_file s (mkFile root_path [] owner viewers editors track).

  Definition post_file (s : store) (creator account hparent hchild contents viewers editors track : bytes)
    : store * outcome :=
    let parent_owner := make_owner hparent account in
    match get_file s hparent parent_owner with
    | None => (s, Fail)
    | Some parent =>
      match has_access KEdit parent creator with
      | None => (s, Fail)
      | Some false => (s, Fail)
      | Some true =>
        let full := add_to_merkle H hparent hchild in
        let owner := make_owner full account in
        (set_file s (mkFile full contents owner viewers editors track), Ok)
      end
    end.

  Definition delete_file (s : store) (creator hpath account : bytes) : store * outcome :=
    let owner := make_owner hpath account in
    match get_file s hpath owner with
    | None => (s, Fail)
    | Some f =>
      if is_owner f creator then (remove_file s hpath owner, Ok) else (s, Fail)
    end.

  Definition change_owner (s : store) (creator address fileowner newowner : bytes) : store * outcome :=
    let current := make_owner address fileowner in
    match get_file s address current with
    | None => (s, Fail)
    | Some f =>
      if is_owner f creator then
        let newo := make_owner address newowner in
        match get_file s address newo with
        | Some _ => (s, Fail)
        | None => (remove_file (set_file s (with_owner f newo)) address current, Ok)
        end
      else (s, Fail)
    end.

  Definition add_acl (k : kind) (s : store) (creator ids keys address fileowner : bytes) : store * outcome :=
    match get_file s address fileowner with
    | None => (s, Fail)
    | Some f =>
      if is_owner f creator then
        match parse (acl_of k f) with
        | PErr => (s, Fail)
        | PMap m =>
          match add_all_opt m (split_comma ids) (split_comma keys) with
          | None => (s, Panic)
          | Some m' => (set_file s (with_acl k f (render m')), Ok)
          end
        end
      else (s, Fail)
    end.

  Definition remove_acl (k : kind) (s : store) (creator ids address fileowner : bytes) : store * outcome :=
    match get_file s address fileowner with
    | None => (s, Fail)
    | Some f =>
      if is_owner f creator then
        match parse (acl_of k f) with
        | PErr => (s, Fail)
        | PMap m => (set_file s (with_acl k f (render (del_all_opt m (split_comma ids)))), Ok)
        end
      else (s, Fail)
    end.

  (* ownerKey := m[ownerAddress] is "" when absent *)
  Definition reset_map (k : kind) (f : file) (creator : bytes) (m : option acl) : acl :=
    let a := acl_addr k (f_track f) creator in
    [(a, match oget m a with Some v => v | None => [] end)].

  Definition reset_acl (k : kind) (s : store) (creator address fileowner : bytes) : store * outcome :=
    match get_file s address fileowner with
    | None => (s, Fail)
    | Some f =>
      if is_owner f creator then
        match parse (acl_of k f) with
        | PErr => (s, Fail)
        | PMap m => (set_file s (with_acl k f (render (Some (reset_map k f creator m)))), Ok)
        end
      else (s, Fail)
    end.

  Definition handle (s : store) (o : op) : store * outcome :=
    match o with
    | Provision c v e t => (make_root s c v e t, Ok)
    | Post c acct hp hc ct v e t => post_file s c acct hp hc ct v e t
    | Delete c hp acct => delete_file s c hp acct
    | ChangeOwner c a fo no => change_owner s c a fo no
    | AddAcl k c ids keys a fo => add_acl k s c ids keys a fo
    | RemoveAcl k c ids a fo => remove_acl k s c ids a fo
    | ResetAcl k c a fo => reset_acl k s c a fo
    end.

  (* one message as baseapp runs it: ValidateBasic (cv = Creator parses as bech32), then
     the handler on a cache context that is written only on success *)
  Definition run (s : store) (cv : bool) (o : op) : store * outcome :=
    if cv && validate_basic o then handle s o else (s, Fail).

  Definition exec (s : store) (m : bool * op) : store := fst (run s (fst m) (snd m)).
  Definition run_all (ms : list (bool * op)) (s : store) : store := fold_left exec ms s.
End Filetree.

(* ---------- json.Marshal(map[string]string) for valid UTF-8 strings (Go 1.22+) ---------- *)

Definition json_esc1 (c : N) : bytes :=
  if (c =? 34) || (c =? 92) then [92; c]
  else if c =? 8 then [92; 98]
  else if c =? 12 then [92; 102]
  else if c =? 10 then [92; 110]
  else if c =? 13 then [92; 114]
  else if c =? 9 then [92; 116]
  else if (c <? 32) || (c =? 60) || (c =? 62) || (c =? 38) then [92; 117; 48; 48; hexd (c / 16); hexd (c mod 16)]
  else [c].

(* U+2028 / U+2029 (bytes E2 80 A8 / E2 80 A9) are written as backslash-u2028 / backslash-u2029 *)
Fixpoint json_escape (s : bytes) : bytes :=
  match s with
  | [] => []
  | c :: r =>
    match r with
    | c2 :: c3 :: r' =>
      if (c =? 226) && (c2 =? 128) && ((c3 =? 168) || (c3 =? 169))
      then [92; 117; 50; 48; 50; hexd (c3 - 160)] ++ json_escape r'
      else json_esc1 c ++ json_escape r
    | _ => json_esc1 c ++ json_escape r
    end
  end.

Definition json_string (s : bytes) : bytes := 34 :: json_escape s ++ [34].

(* bytewise order (strings.Compare < 0) *)
Fixpoint bytes_ltb (a b : bytes) : bool :=
  match a, b with
  | [], [] => false
  | [], _ :: _ => true
  | _ :: _, [] => false
  | x :: a', y :: b' => if x <? y then true else if y <? x then false else bytes_ltb a' b'
  end.

Fixpoint insert_sorted (kv : bytes * bytes) (l : acl) : acl :=
  match l with
  | [] => [kv]
  | kv' :: r => if bytes_ltb (fst kv') (fst kv) then kv' :: insert_sorted kv r else kv :: l
  end.
Definition sort_acl (m : acl) : acl := fold_right insert_sorted [] m.

Fixpoint json_members (l : acl) : bytes :=
  match l with
  | [] => []
  | [(k, v)] => json_string k ++ 58 :: json_string v
  | (k, v) :: r => json_string k ++ 58 :: json_string v ++ 44 :: json_members r
  end.

Definition json_render (m : acl) : bytes := 123 :: json_members (sort_acl m) ++ [125].

(* the nil map is rendered as null *)
Definition json_render_opt (m : option acl) : bytes :=
  match m with Some m0 => json_render m0 | None => [110; 117; 108; 108] end.
