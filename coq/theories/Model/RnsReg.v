(* Model of name registration in x/rns: keeper.RegisterRNSName (reached through MsgRegister and
   MsgRegisterName), keeper.GetCostOfName / GetCost, types.TLDCost / IsReserved, as the code is
   after the repairs "start a lapsed name's new term at the current block" and "reject
   registration terms whose price or expiry overflows int64".

   Names ("name.tld" store indexes), accounts (bech32 strings: the canonical lower-case spelling
   of an account and any other string are different ids), and Data strings are opaque N ids
   assigned by the harness.  What Go's / the repo's own string functions compute
   (ValidateBasic, ToLower + ReplaceAll + GetNameAndTLD, AccAddressFromBech32) is passed inside
   the operation as data: whether ValidateBasic passed, the parsed (index id, len(name), tld),
   whether the sender parses and the id of its CANONICAL spelling owner.String() -- the handler
   never stores or compares the raw msg.Creator.

   A message runs on a cache context: Fail and Panic leave the state unchanged. *)
From Coq Require Import ZArith NArith List Bool.
From JK Require Import Base.Dec Base.AList Base.Bytes.
Import ListNotations.
Open Scope Z_scope.

Inductive tld := Ibc | Jkl.                      (* types.SupportedTLDs *)
Definition tld_eqb (a b : tld) : bool :=
  match a, b with Ibc, Ibc | Jkl, Jkl => true | _, _ => false end.

Definition tld_cost (t : tld) : Z :=              (* types.TLDCost *)
  match t with Ibc => 50000000 | Jkl => 10000000 end.
Definition is_reserved (t : tld) : bool :=        (* types.IsReserved *)
  match t with Ibc => false | Jkl => false end.

(* keeper.GetCostOfName(name, tld) as a function of len(name); None = the error return *)
Definition cost_of_name (len : Z) (t : tld) : option Z :=
  let base := tld_cost t in
  if len =? 0 then None
  else if len =? 1 then Some (base * 24)
  else if len =? 2 then Some (base * 12)
  else if len =? 3 then Some (base * 6)
  else if len =? 4 then Some (base * 3)
  else Some base.

Definition blocks_per_year : Z := 5484530.        (* the literal in RegisterRNSName *)

Record name_rec := {
  n_owner : N;        (* Names.Value *)
  n_expires : Z;      (* Names.Expires *)
  n_data : N;         (* Names.Data (id of the string) *)
  n_locked : Z;       (* Names.Locked *)
  n_subs : Z          (* len(Names.Subdomains) *)
}.

Definition bank := list (N * Z).                  (* ujkl balances *)
Definition bal (b : bank) (a : N) : Z := aval N.eqb b a.
Definition credit (b : bank) (a : N) (x : Z) : bank := aset N.eqb b a (bal b a + x).
(* bank.SendCoins of a valid (positive) amount: fails on insufficient funds *)
Definition send (b : bank) (from to : N) (x : Z) : option bank :=
  if x <=? bal b from then Some (credit (credit b from (- x)) to x) else None.

Record rstate := {
  s_names : list (N * name_rec);    (* Names store, by index id *)
  s_primary : list (N * N);         (* PrimaryName store: owner string id -> index id *)
  s_bank : bank
}.

Record accts := { a_mod : N; a_pol : N }.   (* the rns module account, the protocol-owned-liquidity account *)

Record reg_op := {
  o_basic_ok : bool;                    (* msg.ValidateBasic() = nil (true for direct keeper calls) *)
  o_parse : option (N * Z * tld);       (* GetNameAndTLD(ReplaceAll(ToLower(nm)," ","")): index id, len(name), tld *)
  o_sender_ok : bool;                   (* AccAddressFromBech32(sender) succeeds *)
  o_sender : N;                         (* id of owner.String() *)
  o_data : N;
  o_years : Z;
  o_primary : bool;                     (* MsgRegisterName.SetPrimary; false for MsgRegister *)
  o_height : Z                          (* ctx.BlockHeight() *)
}.

Inductive outcome := Ok | Fail | Panic.
Definition outcome_eqb (a b : outcome) : bool :=
  match a, b with Ok, Ok | Fail, Fail | Panic, Panic => true | _, _ => false end.

(* years < 1 || cost < 1 || years > MaxInt64/cost || years > MaxInt64/5484530 *)
Definition term_rejected (cost years : Z) : bool :=
  (years <? 1) || (cost <? 1) || (years >? int64_max / cost) || (years >? int64_max / blocks_per_year).

(* the expiry branch: Some e = the new Expires, None = an error return *)
Definition new_expiry (whois : option name_rec) (owner : N) (h time : Z) : option Z :=
  let fresh := if time >? wrap64 (int64_max - h) then None else Some (wrap64 (time + h)) in
  match whois with
  | Some w =>
    if h <? n_expires w then
      if negb (N.eqb (n_owner w) owner) then None                        (* name already registered *)
      else if time >? wrap64 (int64_max - n_expires w) then None           (* cannot extend *)
      else Some (wrap64 (n_expires w + time))
    else fresh
  | None => fresh
  end.

Definition has_name (names : list (N * name_rec)) (k : N) : bool :=
  match aget N.eqb names k with Some _ => true | None => false end.

Definition register (acc : accts) (s : rstate) (op : reg_op) : outcome * rstate :=
  if negb (o_basic_ok op) then (Fail, s) else
  match o_parse op with
  | None => (Fail, s)
  | Some (idx, len, t) =>
    if is_reserved t then (Fail, s) else
    let whois := aget N.eqb (s_names s) idx in
    match cost_of_name len t with
    | None => (Fail, s)
    | Some cost =>
      let years := o_years op in
      if term_rejected cost years then (Fail, s) else
      let price := wrap64 (cost * years) in
      if price <? 0 then (Panic, s) else            (* sdk.NewInt64Coin panics on a negative amount *)
      let h := o_height op in
      let time := wrap64 (years * blocks_per_year) in
      if negb (o_sender_ok op) then (Fail, s) else
      let owner := o_sender op in
      match new_expiry whois owner h time with
      | None => (Fail, s)
      | Some e =>
        if price =? 0 then (Fail, s) else           (* Coins{0ujkl} is not a valid amount for SendCoins *)
        match send (s_bank s) owner (a_mod acc) price with
        | None => (Fail, s)
        | Some b1 =>
          match send b1 (a_mod acc) (a_pol acc) price with   (* the POL account is not a blocked address *)
          | None => (Fail, s)
          | Some b2 =>
            let r := {| n_owner := owner; n_expires := e; n_data := o_data op; n_locked := 0; n_subs := 0 |} in
            let names' := aset N.eqb (s_names s) idx r in
            (* GetPrimaryName(owner): an entry exists and the name it spells is in the Names store *)
            let has_primary := match aget N.eqb (s_primary s) owner with
                               | Some p => has_name names' p
                               | None => false
                               end in
            let primary' := if o_primary op || negb has_primary
                            then aset N.eqb (s_primary s) owner idx else s_primary s in
            (Ok, {| s_names := names'; s_primary := primary'; s_bank := b2 |})
          end
        end
      end
    end
  end.

(* a history of registrations *)
Fixpoint run (acc : accts) (s : rstate) (ops : list reg_op) : rstate :=
  match ops with
  | [] => s
  | op :: r => run acc (snd (register acc s op)) r
  end.

(* the trace of a history: (state before, operation, outcome, state after) of every step *)
Fixpoint trace (acc : accts) (s : rstate) (ops : list reg_op) : list (rstate * reg_op * outcome * rstate) :=
  match ops with
  | [] => []
  | op :: r => let '(o, s') := register acc s op in (s, op, o, s') :: trace acc s' r
  end.

(* ---------- vocabulary of the property ---------- *)

(* the price list: ujkl per year, by length of the name and TLD *)
Definition listed_price (len : Z) (t : tld) : Z :=
  match t with
  | Jkl => if len =? 1 then 240000000 else if len =? 2 then 120000000 else if len =? 3 then 60000000
           else if len =? 4 then 30000000 else 10000000
  | Ibc => if len =? 1 then 1200000000 else if len =? 2 then 600000000 else if len =? 3 then 300000000
           else if len =? 4 then 150000000 else 50000000
  end.

Definition lookup (s : rstate) (idx : N) : option name_rec := aget N.eqb (s_names s) idx.
(* the registration of idx has not lapsed at height h *)
Definition live_at (s : rstate) (idx : N) (h : Z) : Prop :=
  exists w, lookup s idx = Some w /\ h < n_expires w.
Definition owned_by (s : rstate) (idx : N) (a : N) : Prop :=
  exists w, lookup s idx = Some w /\ n_owner w = a.

(* ---------- the string functions behind o_parse (byte strings; ASCII for ToLower) ---------- *)

Definition tld_bytes (t : tld) : bytes :=
  match t with Ibc => [105; 98; 99]%N | Jkl => [106; 107; 108]%N end.     (* "ibc", "jkl" *)
Definition supported_tlds : list tld := [Ibc; Jkl].

(* keeper.GetTLD / types.GetTLD: the length test returns the error from inside the loop *)
Fixpoint get_tld_from (tlds : list tld) (s : bytes) : option tld :=
  match tlds with
  | [] => None
  | t :: r =>
    let k := length (tld_bytes t) in
    if Nat.leb (length s) (k + 1) then None
    else if beqb (skipn (length s - k) s) (tld_bytes t) then Some t
    else get_tld_from r s
  end.

(* keeper.GetNameAndTLD = GetTLD then RemoveTLD (which drops the TLD and ONE more byte, whatever it is) *)
Definition name_and_tld (s : bytes) : option (bytes * tld) :=
  match get_tld_from supported_tlds s with
  | None => None
  | Some t => let k := length (tld_bytes t) in
              if Nat.leb (length s) (k + 1) then None else Some (firstn (length s - k - 1) s, t)
  end.

(* strings.ToLower restricted to ASCII, then strings.ReplaceAll(nm, " ", "") *)
Definition lower_ascii (c : N) : N := if ((65 <=? c) && (c <=? 90))%N then (c + 32)%N else c.
Definition normalize (s : bytes) : bytes := filter (fun c => negb (c =? 32)%N) (map lower_ascii s).

(* ---------- MsgInit: the other handler that creates name records ----------
   x/rns/keeper/msg_server_init.go: an account that has not initialised before is handed the free
   name MakeName(height, height) ++ ".jkl" for init_term blocks, unless that name is live. *)
Definition init_term : Z := 5733818.

Record init_op := {
  i_basic_ok : bool;        (* MsgInit.ValidateBasic() = nil *)
  i_fresh : bool;           (* GetInit(ctx, msg.Creator) finds nothing *)
  i_name : option N;        (* index id of the generated name when it has no '.' and at least 6 characters *)
  i_sender : N;             (* id of msg.Creator as written: the record stores the string as given *)
  i_data : N;               (* id of "{}" *)
  i_height : Z
}.

Definition init_name (s : rstate) (op : init_op) : outcome * rstate :=
  if negb (i_basic_ok op) then (Fail, s) else
  if negb (i_fresh op) then (Fail, s) else
  match i_name op with
  | None => (Fail, s)
  | Some idx =>
    let h := i_height op in
    let live := match aget N.eqb (s_names s) idx with Some w => h <? n_expires w | None => false end in
    if live then (Fail, s) else                                       (* Name already registered *)
    let e := wrap64 (init_term + h) in
    (Ok, {| s_names := aset N.eqb (s_names s) idx
                         {| n_owner := i_sender op; n_expires := e; n_data := i_data op; n_locked := e; n_subs := 0 |};
            s_primary := s_primary s; s_bank := s_bank s |})
  end.

(* histories of registrations and initialisations *)
Inductive hop := HReg (o : reg_op) | HInit (o : init_op).
Definition hop_height (o : hop) : Z := match o with HReg r => o_height r | HInit i => i_height i end.
Definition hstep (acc : accts) (s : rstate) (o : hop) : outcome * rstate :=
  match o with HReg r => register acc s r | HInit i => init_name s i end.
Fixpoint hrun (acc : accts) (s : rstate) (ops : list hop) : rstate :=
  match ops with
  | [] => s
  | o :: r => hrun acc (snd (hstep acc s o)) r
  end.
