(* Model of x/rns (name service) message handlers as they are after the repairs
     cfcee015 "refuse to buy a name through a listing its current owner did not create"
     54cab02a "refund the bid that a new bid on the same name replaces".

   Strings.  Every string the handlers only compare / store is an opaque N id handed out by one
   interning table on the Go side (equal ids <-> equal strings).  An account string is
   (account id, upper) because bech32 accepts the all-upper-case spelling of an address and the
   handlers use the raw msg.Creator in some places and addr.String() (canonical, lower case) in
   others; `canon` is AccAddressFromBech32(..).String().
   A name argument is passed as its lower-cased full string id (`nm_full`: the key of listings
   and, appended to the bidder string, of bids) together with the result of the repo's own
   GetNameAndTLD on that string (`nm_key`: id of "name.tld", the key of the Names store; None =
   parse error).  Prices are passed parsed (sdk.ParseCoinNormalized / ParseCoinsNormalized of
   the stored string: the stored string is what the message carried, parsing is deterministic).
   `vb` is the result of the message's ValidateBasic (bech32 + name syntax), which runs before
   the handler; a failing message leaves the state unchanged (cache context not written). *)
From Coq Require Import ZArith NArith List Bool.
From JK Require Import Base.AList.
Import ListNotations.
Open Scope Z_scope.

Definition acct := N.
Definition addr := (N * bool)%type.                       (* account, upper-case spelling *)
Definition canon (a : addr) : addr := (fst a, false).
Definition addr_eqb (a b : addr) : bool := N.eqb (fst a) (fst b) && Bool.eqb (snd a) (snd b).

Definition rns_mod : acct := 0%N.       (* the rns module account (escrow) *)
Definition pol : acct := 1%N.           (* types.GetPOLAccount(), receives registration fees *)
Definition empty_data : N := 0%N.       (* the string "{}" *)
Definition ujkl : N := 0%N.             (* denom id of "ujkl" *)
Definition max_int64 : Z := 9223372036854775807.
Definition blocks_per_year : Z := 5484530.
Definition init_term : Z := 5733818.

Definition coin := (N * Z)%type.        (* denom id, amount *)
Definition coins := list coin.

(* ---- bank: balances of (account, denom) *)
Definition bkey := (N * N)%type.
Definition bkey_eqb (p q : bkey) : bool := N.eqb (fst p) (fst q) && N.eqb (snd p) (snd q).
Definition bank := list (bkey * Z).
Definition bal (b : bank) (a : acct) (d : N) : Z := aval bkey_eqb b (a, d).
Definition credit (b : bank) (a : acct) (d : N) (x : Z) : bank := aset bkey_eqb b (a, d) (bal b a d + x).

(* subUnlockedCoins: coin by coin, "insufficient funds" when a balance is smaller than the coin *)
Fixpoint sub_coins (b : bank) (a : acct) (cs : coins) : option bank :=
  match cs with
  | [] => Some b
  | (d, v) :: r => if bal b a d <? v then None else sub_coins (credit b a d (- v)) a r
  end.
Fixpoint add_coins (b : bank) (a : acct) (cs : coins) : bank :=
  match cs with
  | [] => b
  | (d, v) :: r => add_coins (credit b a d v) a r
  end.
(* SendCoinsFromAccountToModule / SendCoinsFromModuleToAccount (recipients are never blocked
   accounts here: they are signers of earlier messages or the POL account) *)
Definition send (b : bank) (from to : acct) (cs : coins) : option bank :=
  match sub_coins b from cs with
  | Some b1 => Some (add_coins b1 to cs)
  | None => None
  end.

(* ---- records *)
Record subrec := { sr_name : N; sr_value : N; sr_data : N; sr_expires : Z }.
Record name_rec := { n_value : addr; n_expires : Z; n_locked : Z; n_data : N; n_subs : list subrec }.
Record sale := { f_price : option coin; f_owner : addr }.     (* Forsale.Name is the key *)
Record bid := { b_bidder : addr; b_price : coins }.            (* Bids.Index is the key *)

Definition bidkey := (addr * N)%type.                          (* bidder string ++ full name *)
Definition bidkey_eqb (p q : bidkey) : bool := addr_eqb (fst p) (fst q) && N.eqb (snd p) (snd q).

Record state := {
  height : Z;
  names : list (N * name_rec);
  forsale : list (N * sale);
  bids : list (bidkey * bid);
  primary : list (addr * N);
  inits : list addr;
  bank_of : bank
}.

Definition set_names (s : state) (v : list (N * name_rec)) : state :=
  {| height := height s; names := v; forsale := forsale s; bids := bids s; primary := primary s;
     inits := inits s; bank_of := bank_of s |}.
Definition set_forsale (s : state) (v : list (N * sale)) : state :=
  {| height := height s; names := names s; forsale := v; bids := bids s; primary := primary s;
     inits := inits s; bank_of := bank_of s |}.
Definition set_bids (s : state) (v : list (bidkey * bid)) : state :=
  {| height := height s; names := names s; forsale := forsale s; bids := v; primary := primary s;
     inits := inits s; bank_of := bank_of s |}.
Definition set_primary (s : state) (v : list (addr * N)) : state :=
  {| height := height s; names := names s; forsale := forsale s; bids := bids s; primary := v;
     inits := inits s; bank_of := bank_of s |}.
Definition set_inits (s : state) (v : list addr) : state :=
  {| height := height s; names := names s; forsale := forsale s; bids := bids s; primary := primary s;
     inits := v; bank_of := bank_of s |}.
Definition set_bank (s : state) (v : bank) : state :=
  {| height := height s; names := names s; forsale := forsale s; bids := bids s; primary := primary s;
     inits := inits s; bank_of := v |}.
Definition set_height (s : state) (h : Z) : state :=
  {| height := h; names := names s; forsale := forsale s; bids := bids s; primary := primary s;
     inits := inits s; bank_of := bank_of s |}.

Definition get_name (s : state) (k : N) : option name_rec := aget N.eqb (names s) k.
Definition get_sale (s : state) (f : N) : option sale := aget N.eqb (forsale s) f.
Definition get_bid (s : state) (k : bidkey) : option bid := aget bidkey_eqb (bids s) k.

Definition with_owner_reset (r : name_rec) (v : addr) : name_rec :=
  {| n_value := v; n_expires := n_expires r; n_locked := n_locked r; n_data := empty_data; n_subs := n_subs r |}.
Definition with_data (r : name_rec) (d : N) : name_rec :=
  {| n_value := n_value r; n_expires := n_expires r; n_locked := n_locked r; n_data := d; n_subs := n_subs r |}.
Definition with_subs (r : name_rec) (l : list subrec) : name_rec :=
  {| n_value := n_value r; n_expires := n_expires r; n_locked := n_locked r; n_data := n_data r; n_subs := l |}.

Record nm := { nm_full : N; nm_key : option N }.

Inductive op :=
| Register (vb : bool) (s : addr) (key : option N) (reserved : bool) (cost years : Z) (data : N) (prim : bool)
    (* key: GetNameAndTLD of the lower-cased, space-stripped name; cost: GetCostOfName *)
| ListName (vb : bool) (s : addr) (n : nm) (price : option coin)    (* ParseCoinNormalized(msg.Price.String()) *)
| Delist (vb : bool) (s : addr) (n : nm)
| Buy (vb : bool) (s : addr) (n : nm)
| Bid (vb : bool) (s : addr) (n : nm) (price : option coins)        (* ParseCoinsNormalized(msg.Bid.String()) *)
| CancelBid (vb : bool) (s : addr) (n : nm)
| AcceptBid (vb : bool) (s : addr) (n : nm) (from : addr)
| Transfer (vb : bool) (s : addr) (n : nm) (receiver : addr)
| Update (vb : bool) (s : addr) (n : nm) (data : N)
| AddRecord (vb : bool) (s : addr) (n : nm) (rec_raw rec_lower value : N) (value_has_dot : bool) (data : N)
| DelRecord (vb : bool) (s : addr) (n : nm) (sub : option (N * N))
    (* sub: GetSubdomain of the parsed name: (record label id, key of the parent name) *)
| InitName (vb : bool) (s : addr) (key : N) (bad_name : bool)
    (* key: "MakeName(height).jkl"; bad_name: it contains '.' or is shorter than 6 *)
| MakePrimary (vb : bool) (s : addr) (key : option N)
| SetHeight (h : Z).                                                 (* a later block *)

Inductive out := Ok | Fail.

(* ---- handlers; None = the message returns an error (nothing is written) *)

(* keeper.RegisterRNSName, the expiry of the new record: a live name can only be renewed by its
   owner (compared with the canonical sender string) and is extended; a new or lapsed name runs
   from the current block; both sums are refused when they would wrap around int64 *)
Definition reg_expires (h : Z) (whois : option name_rec) (owner : addr) (time : Z) : option Z :=
  let fresh := if time >? max_int64 - h then None else Some (time + h) in
  match whois with
  | Some w =>
    if h <? n_expires w then
      if negb (addr_eqb (n_value w) owner) then None
      else if time >? max_int64 - n_expires w then None
      else Some (n_expires w + time)
    else fresh
  | None => fresh
  end.

(* the tail of RegisterRNSName: GetPrimaryName(owner) is found only if the pointer exists AND the
   name it points to is in the store (after the new record has been written) *)
Definition reg_primary (s1 : state) (owner : addr) (k : N) (prim : bool) : state :=
  let has_primary := match aget addr_eqb (primary s1) owner with
                     | Some pk => match get_name s1 pk with Some _ => true | None => false end
                     | None => false
                     end in
  if prim || negb has_primary then set_primary s1 (aset addr_eqb (primary s1) owner k) else s1.

(* keeper.RegisterRNSName *)
Definition do_register (s : state) (sg : addr) (key : option N) (reserved : bool) (cost years : Z)
           (data : N) (prim : bool) : option state :=
  match key with
  | None => None
  | Some k =>
    if reserved then None else
    if (years <? 1) || (cost <? 1) then None else
    if (years >? max_int64 / cost) || (years >? max_int64 / blocks_per_year) then None else
    let price := [(ujkl, cost * years)] in
    let owner := canon sg in
    match reg_expires (height s) (get_name s k) owner (years * blocks_per_year) with
    | None => None
    | Some e =>
      match send (bank_of s) (fst sg) rns_mod price with
      | None => None
      | Some b1 =>
        match send b1 rns_mod pol price with
        | None => None
        | Some b2 =>
          let nw := {| n_value := owner; n_expires := e; n_locked := 0; n_data := data; n_subs := [] |} in
          Some (reg_primary (set_names (set_bank s b2) (aset N.eqb (names s) k nw)) owner k prim)
        end
      end
    end
  end.

(* msgServer.List *)
Definition do_list (s : state) (sg : addr) (n : nm) (price : option coin) : option state :=
  match get_sale s (nm_full n) with
  | Some _ => None
  | None =>
    match nm_key n with
    | None => None
    | Some k =>
      match get_name s k with
      | None => None
      | Some w =>
        if negb (addr_eqb (n_value w) sg) then None
        else if n_locked w >? height s then None
        else if height s >? n_expires w then None
        else Some (set_forsale s (aset N.eqb (forsale s) (nm_full n) {| f_price := price; f_owner := sg |}))
      end
    end
  end.

(* msgServer.Delist *)
Definition do_delist (s : state) (sg : addr) (n : nm) : option state :=
  match get_sale s (nm_full n) with
  | None => None
  | Some sl =>
    match nm_key n with
    | None => None
    | Some k =>
      match get_name s k with
      | None => None
      | Some w =>
        if negb (addr_eqb (f_owner sl) sg) then None
        else if negb (addr_eqb (n_value w) (f_owner sl)) then None
        else Some (set_forsale s (adel N.eqb (forsale s) (nm_full n)))
      end
    end
  end.

(* sdk.NewCoins(price): a zero coin is dropped *)
Definition new_coins (c : coin) : coins := if snd c =? 0 then [] else [c].

(* keeper.BuyName *)
Definition do_buy (s : state) (sg : addr) (n : nm) : option state :=
  match get_sale s (nm_full n) with
  | None => None
  | Some sl =>
    match nm_key n with
    | None => None
    | Some k =>
      match get_name s k with
      | None => None
      | Some w =>
        if height s >? n_expires w then None
        else if addr_eqb (n_value w) sg then None
        else if negb (addr_eqb (n_value w) (f_owner sl)) then None       (* stale listing *)
        else match f_price sl with
             | None => None
             | Some p =>
               let cs := new_coins p in
               match send (bank_of s) (fst sg) rns_mod cs with
               | None => None
               | Some b1 =>
                 match send b1 rns_mod (fst (f_owner sl)) cs with
                 | None => None
                 | Some b2 =>
                   Some (set_names (set_forsale (set_bank s b2) (adel N.eqb (forsale s) (nm_full n)))
                                   (aset N.eqb (names s) k (with_owner_reset w sg)))
                 end
               end
             end
      end
    end
  end.

(* keeper.AddBid *)
Definition do_bid (s : state) (sg : addr) (n : nm) (price : option coins) : option state :=
  match price with
  | None => None
  | Some p =>
    match send (bank_of s) (fst sg) rns_mod p with
    | None => None
    | Some b1 =>
      let idx := (canon sg, nm_full n) in
      let refunded :=
        match get_bid s idx with
        | Some old => send b1 rns_mod (fst sg) (b_price old)
        | None => Some b1
        end in
      match refunded with
      | None => None
      | Some b2 =>
        Some (set_bids (set_bank s b2) (aset bidkey_eqb (bids s) idx {| b_bidder := canon sg; b_price := p |}))
      end
    end
  end.

(* keeper.CancelOneBid: the slot is looked up under the RAW sender string *)
Definition do_cancel (s : state) (sg : addr) (n : nm) : option state :=
  let idx := (sg, nm_full n) in
  match get_bid s idx with
  | None => None
  | Some bd =>
    match send (bank_of s) rns_mod (fst sg) (b_price bd) with
    | None => None
    | Some b1 => Some (set_bids (set_bank s b1) (adel bidkey_eqb (bids s) idx))
    end
  end.

(* keeper.AcceptOneBid *)
Definition do_accept (s : state) (sg : addr) (n : nm) (from : addr) : option state :=
  match nm_key n with
  | None => None
  | Some k =>
    match get_name s k with
    | None => None
    | Some w =>
      if height s >? n_expires w then None
      else if negb (addr_eqb (n_value w) (canon sg)) then None
      else if n_locked w >? height s then None
      else
        let idx := (from, nm_full n) in
        match get_bid s idx with
        | None => None
        | Some bd =>
          match send (bank_of s) rns_mod (fst sg) (b_price bd) with
          | None => None
          | Some b1 =>
            Some (set_names (set_bids (set_bank s b1) (adel bidkey_eqb (bids s) idx))
                            (aset N.eqb (names s) k (with_owner_reset w (b_bidder bd))))
          end
        end
    end
  end.

(* keeper.TransferName *)
Definition do_transfer (s : state) (sg : addr) (n : nm) (receiver : addr) : option state :=
  match nm_key n with
  | None => None
  | Some k =>
    match get_name s k with
    | None => None
    | Some w =>
      if height s >? n_expires w then None
      else if negb (addr_eqb (n_value w) (canon sg)) then None
      else if n_locked w >? height s then None
      else Some (set_names s (aset N.eqb (names s) k (with_owner_reset w receiver)))
    end
  end.

(* keeper.UpdateName *)
Definition do_update (s : state) (sg : addr) (n : nm) (data : N) : option state :=
  match nm_key n with
  | None => None
  | Some k =>
    match get_name s k with
    | None => None
    | Some w =>
      if negb (addr_eqb (n_value w) (canon sg)) then None
      else if height s >? n_expires w then None
      else Some (set_names s (aset N.eqb (names s) k (with_data w data)))
    end
  end.

(* msgServer.AddRecord: the duplicate test compares the stored (lower-cased) labels with the RAW label *)
Definition do_add_record (s : state) (sg : addr) (n : nm) (rec_raw rec_lower value : N)
           (value_has_dot : bool) (data : N) : option state :=
  match nm_key n with
  | None => None
  | Some k =>
    match get_name s k with
    | None => None
    | Some w =>
      if height s >? n_expires w then None
      else if negb (addr_eqb sg (n_value w)) then None
      else if value_has_dot then None
      else if existsb (fun sd => N.eqb (sr_name sd) rec_raw) (n_subs w) then None
      else
        let r := {| sr_name := rec_lower; sr_value := value; sr_data := data; sr_expires := n_expires w |} in
        Some (set_names s (aset N.eqb (names s) k (with_subs w (n_subs w ++ [r]))))
    end
  end.

(* msgServer.DelRecord *)
Definition do_del_record (s : state) (sg : addr) (n : nm) (sub : option (N * N)) : option state :=
  match nm_key n with
  | None => None
  | Some _ =>
    match sub with
    | None => None
    | Some (label, k) =>
      match get_name s k with
      | None => None
      | Some w =>
        if height s >? n_expires w then None
        else if negb (addr_eqb sg (n_value w)) then None
        else
          let kept := filter (fun sd => negb (N.eqb (sr_name sd) label)) (n_subs w) in
          if existsb (fun sd => N.eqb (sr_name sd) label) (n_subs w)
          then Some (set_names s (aset N.eqb (names s) k (with_subs w kept)))
          else None
      end
    end
  end.

(* msgServer.Init: a free, locked name derived from the block height *)
Definition do_init (s : state) (sg : addr) (k : N) (bad_name : bool) : option state :=
  if existsb (addr_eqb sg) (inits s) then None
  else if bad_name then None
  else
    let taken := match get_name s k with Some w => height s <? n_expires w | None => false end in
    if taken then None
    else
      let t := init_term + height s in
      let nw := {| n_value := sg; n_expires := t; n_locked := t; n_data := empty_data; n_subs := [] |} in
      Some (set_names (set_inits s (inits s ++ [sg])) (aset N.eqb (names s) k nw)).

(* msgServer.MakePrimary: no ownership test at all (only the primary-name pointer of the RAW signer) *)
Definition do_make_primary (s : state) (sg : addr) (key : option N) : option state :=
  match key with
  | None => None
  | Some k => Some (set_primary s (aset addr_eqb (primary s) sg k))
  end.

Definition handle (s : state) (o : op) : option state :=
  match o with
  | Register vb sg key rsv cost years data prim => if vb then do_register s sg key rsv cost years data prim else None
  | ListName vb sg n p => if vb then do_list s sg n p else None
  | Delist vb sg n => if vb then do_delist s sg n else None
  | Buy vb sg n => if vb then do_buy s sg n else None
  | Bid vb sg n p => if vb then do_bid s sg n p else None
  | CancelBid vb sg n => if vb then do_cancel s sg n else None
  | AcceptBid vb sg n from => if vb then do_accept s sg n from else None
  | Transfer vb sg n r => if vb then do_transfer s sg n r else None
  | Update vb sg n d => if vb then do_update s sg n d else None
  | AddRecord vb sg n rr rl v hd d => if vb then do_add_record s sg n rr rl v hd d else None
  | DelRecord vb sg n sub => if vb then do_del_record s sg n sub else None
  | InitName vb sg k bad => if vb then do_init s sg k bad else None
  | MakePrimary vb sg k => if vb then do_make_primary s sg k else None
  | SetHeight h => Some (set_height s h)
  end.

Definition step (s : state) (o : op) : state * out :=
  match handle s o with
  | Some s' => (s', Ok)
  | None => (s, Fail)
  end.

Definition next (s : state) (o : op) : state := fst (step s o).
Definition run (ops : list op) (s : state) : state := fold_left next ops s.

(* the states before and after every step of a history *)
Fixpoint trace (s : state) (ops : list op) : list (state * op * state) :=
  match ops with
  | [] => []
  | o :: r => (s, o, next s o) :: trace (next s o) r
  end.

Definition genesis (b : bank) (h : Z) : state :=
  {| height := h; names := []; forsale := []; bids := []; primary := []; inits := []; bank_of := b |}.

(* ---- vocabulary of the properties *)
Definition signer (o : op) : option addr :=
  match o with
  | Register _ s _ _ _ _ _ _ | ListName _ s _ _ | Delist _ s _ | Buy _ s _ | Bid _ s _ _
  | CancelBid _ s _ | AcceptBid _ s _ _ | Transfer _ s _ _ | Update _ s _ _
  | AddRecord _ s _ _ _ _ _ _ | DelRecord _ s _ _ | InitName _ s _ _ | MakePrimary _ s _ => Some s
  | SetHeight _ => None
  end.

Definition owner_acct (r : name_rec) : acct := fst (n_value r).
(* registered and unexpired: the reading under which Register/Init may take a name over *)
Definition live (s : state) (k : N) (r : name_rec) : Prop := get_name s k = Some r /\ height s < n_expires r.

(* amount of one denom in a coin list *)
Fixpoint amt (d : N) (cs : coins) : Z :=
  match cs with
  | [] => 0
  | (d', v) :: r => (if N.eqb d' d then v else 0) + amt d r
  end.
(* escrow owed to open bids, per denom *)
Fixpoint bid_sum (d : N) (l : list (bidkey * bid)) : Z :=
  match l with
  | [] => 0
  | (_, b) :: r => amt d (b_price b) + bid_sum d r
  end.
