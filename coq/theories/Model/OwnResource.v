(* C11, second sentence — own-resource frames.  Five small state machines mirroring, branch by
   branch, the handlers that manage a resource stamped with / keyed by its owner:
     oracle   CreateFeed / UpdateFeed              x/oracle/keeper/msg_server_feeds.go
     rns      MakePrimary                          x/rns/keeper/msg_server_register.go
     storage  DeleteFile (Keeper.RemoveFile)       x/storage/keeper/{msg_server_file_delete,files}.go
     wasm     PerformPostFile                      wasmbinding/message_plugin.go
     notifications DeleteNotification / BlockSenders   x/notifications/keeper/msg_server_{delete_notifications,block_senders}.go
   Only the ownership-relevant projection of each module is modelled (the modules themselves are
   modelled in full elsewhere); glue computed by the repo's own functions is data of the op.
   No proofs in this file. *)
From Coq Require Import ZArith NArith List Bool.
From JK Require Import Base.AList.
From JK Require Import Base.Dec.
Import ListNotations.
Open Scope Z_scope.

(* A signer as the handlers see it: msg.Creator is a STRING.  bech32 accepts the all-lower and
   the all-upper spelling of the same account; (account id, upper-case?) *)
Definition spelling := (N * bool)%type.
Definition acct (s : spelling) : N := fst s.
Definition canon (s : spelling) : spelling := (fst s, false).   (* addr.String() *)
Definition sp_eqb (a b : spelling) : bool := N.eqb (fst a) (fst b) && Bool.eqb (snd a) (snd b).

Inductive out := Ok | Fail.
Definition out_eqb (a b : out) : bool :=
  match a, b with Ok, Ok => true | Fail, Fail => true | _, _ => false end.

(* ------------------------------------------------------------------ oracle feeds *)
Record feed := { f_owner : spelling;   (* Feed.Owner = raw msg.Creator of CreateFeed *)
                 f_data : N;           (* id of the data string; 0 = "" *)
                 f_time : Z }.         (* LastUpdate *)
Definition ostate := list (N * feed).  (* keyed by feed name id *)

Inductive oop :=
| OCreate (s : spelling) (name : N) (funds_ok : bool) (now : Z)
    (* funds_ok: the creator parses as an account, holds the 100 jkl deposit and the deposit
       account of the params is a valid, unblocked recipient (bank glue, from the pre-state) *)
| OUpdate (s : spelling) (name : N) (data : N) (now : Z).

Definition oop_signer (op : oop) : spelling :=
  match op with OCreate s _ _ _ => s | OUpdate s _ _ _ => s end.

Definition ostep (st : ostate) (op : oop) : ostate * out :=
  match op with
  | OCreate s name funds_ok now =>
    match aget N.eqb st name with
    | Some _ => (st, Fail)                                  (* cannot overwrite feed, name exists *)
    | None => if funds_ok
              then (aset N.eqb st name {| f_owner := s; f_data := 0%N; f_time := now |}, Ok)
              else (st, Fail)
    end
  | OUpdate s name data now =>
    match aget N.eqb st name with
    | None => (st, Fail)                                    (* cannot find feed *)
    | Some f => if sp_eqb (f_owner f) s                     (* feed.Owner != msg.Creator : string comparison *)
                then (aset N.eqb st name {| f_owner := f_owner f; f_data := data; f_time := now |}, Ok)
                else (st, Fail)
    end
  end.

Definition orun (st : ostate) (ops : list oop) : ostate := fold_left (fun s op => fst (ostep s op)) ops st.

(* ------------------------------------------------------------------ rns primary-name pointers *)
Definition pstate := list (spelling * N).   (* PrimaryName/value/<raw owner string>/ -> id of "name.tld" *)

Inductive pop :=
| PMake (s : spelling) (parsed : option N)   (* GetNameAndTLD(ToLower(msg.Name)): id of name.tld, None on error *)
| POther (s : spelling) (ok : bool) (own : option N).
  (* any other RNS message signed by s (Register, Transfer, Buy, Bid, AcceptBid, List, Delist, Update, records,
     Init): of the primary-name pointers it may write only the one of the signer's OWN account, under the
     canonical spelling (RegisterRNSName: SetPrimaryName(owner.String(), …) when asked to or when the owner has
     none).  [own] = the value that pointer holds afterwards when the message wrote it (glue read back from
     the store: the content of one's own pointer is not this property's business, foreign pointers are). *)

Definition pop_signer (op : pop) : spelling := match op with PMake s _ => s | POther s _ _ => s end.

Definition pstep (st : pstate) (op : pop) : pstate * out :=
  match op with
  | PMake s None => (st, Fail)
  | PMake s (Some nm) => (aset sp_eqb st s nm, Ok)          (* SetPrimaryName(ctx, msg.Creator, name, tld) *)
  | POther s false _ => (st, Fail)
  | POther s true None => (st, Ok)
  | POther s true (Some nm) => (aset sp_eqb st (fst s, false) nm, Ok)
  end.

Definition prun (st : pstate) (ops : list pop) : pstate := fold_left (fun s op => fst (pstep s op)) ops st.

(* ------------------------------------------------------------------ storage files *)
Definition fkey := (N * spelling * Z)%type.   (* FilesPrimaryKey(merkle, owner string, start) *)
Definition fkey_owner (k : fkey) : spelling := snd (fst k).
Definition fkey_eqb (a b : fkey) : bool :=
  N.eqb (fst (fst a)) (fst (fst b)) && sp_eqb (snd (fst a)) (snd (fst b)) && Z.eqb (snd a) (snd b).

Record sfile := { sf_owner : spelling;       (* UnifiedFile.Owner *)
                  sf_size : Z; sf_maxproofs : Z; sf_expires : Z;
                  sf_proofs : list N }.      (* ids of the proof-record keys listed in UnifiedFile.Proofs *)

Record sstate := { s_files : list (fkey * sfile);
                   s_proofs : list N;                 (* ids of the FileProof records present *)
                   s_pay : list (spelling * Z) }.     (* StoragePaymentInfo.SpaceUsed by address string *)

Inductive sop := SDelete (s : spelling) (merkle : N) (start : Z).
Definition sop_signer (op : sop) : spelling := match op with SDelete s _ _ => s end.

Definition remove_ids (gone : list N) (l : list N) : list N :=
  filter (fun x => negb (existsb (N.eqb x) gone)) l.

(* Keeper.RemoveFile(ctx, msg.Merkle, msg.Creator, msg.Start); the handler returns nil in every case *)
Definition sstep (st : sstate) (op : sop) : sstate * out :=
  match op with
  | SDelete s merkle start =>
    let key := (merkle, s, start) in
    match aget fkey_eqb (s_files st) key with
    | None => (st, Ok)
    | Some f =>
      let pay' :=
        if sf_expires f <=? 0 then
          match aget sp_eqb (s_pay st) (sf_owner f) with
          | Some used =>
            let u := wrap64 (used - wrap64 (sf_size f * sf_maxproofs f)) in
            aset sp_eqb (s_pay st) (sf_owner f) (if u <? 0 then 0 else u)
          | None => s_pay st
          end
        else s_pay st in
      ({| s_files := adel fkey_eqb (s_files st) key;
          s_proofs := remove_ids (sf_proofs f) (s_proofs st);
          s_pay := pay' |}, Ok)
    end
  end.

Definition srun (st : sstate) (ops : list sop) : sstate := fold_left (fun s op => fst (sstep s op)) ops st.

(* SetFile derives the key from the record, so every stored file is keyed by its own Owner field *)
Definition files_keyed_by_owner (st : sstate) : Prop :=
  forall k f, In (k, f) (s_files st) -> sf_owner f = fkey_owner k.
Definition files_keyed_by_owner_b (st : sstate) : bool :=
  forallb (fun kf => sp_eqb (sf_owner (snd kf)) (fkey_owner (fst kf))) (s_files st).

(* ------------------------------------------------------------------ wasm binding: PerformPostFile *)
(* The guard in front of msgServer.PostFile.  msg = None: nil message.  creator: postFile.Creator;
   vb_ok: postFile.ValidateBasic() = nil.  Result Some c: PostFile is executed with Creator c;
   None: rejected before any keeper call. *)
Definition wasm_guard (contract : N) (msg : option (spelling * bool)) : option spelling :=
  match msg with
  | None => None
  | Some (creator, vb_ok) =>
    if sp_eqb creator (contract, false)       (* postFile.Creator != contractAddr.String() *)
    then (if vb_ok then Some creator else None)
    else None
  end.

(* effect on the file index: `posted` is the record msgServer.PostFile wrote at
   (merkle, Creator, block height) when it succeeded (None: it failed, nothing is kept) *)
Definition wstep (files : list (fkey * sfile)) (contract : N) (msg : option (spelling * bool))
           (merkle : N) (height : Z) (posted : option sfile) : list (fkey * sfile) * out :=
  match wasm_guard contract msg with
  | None => (files, Fail)
  | Some c =>
    match posted with
    | None => (files, Fail)
    | Some f => (aset fkey_eqb files (merkle, c, height) f, Ok)
    end
  end.

(* ------------------------------------------------------------------ notifications *)
(* inbox entries keyed (recipient account, sender-string id, time); block entries keyed
   (blocker account, blocked account); both handlers canonicalise msg.Creator first *)
Record nstate := { n_notes : list (N * N * Z); n_blocks : list (N * N) }.

Inductive nop :=
| NDelete (s : spelling) (from : N) (time : Z)
| NBlock (s : spelling) (targets : list (option N)).   (* rns.Resolve of each ToBlock entry *)
Definition nop_signer (op : nop) : spelling :=
  match op with NDelete s _ _ => s | NBlock s _ => s end.

Definition note_eqb (a b : N * N * Z) : bool :=
  N.eqb (fst (fst a)) (fst (fst b)) && N.eqb (snd (fst a)) (snd (fst b)) && Z.eqb (snd a) (snd b).
Definition block_eqb (a b : N * N) : bool := N.eqb (fst a) (fst b) && N.eqb (snd a) (snd b).

Fixpoint add_blocks (owner : N) (targets : list (option N)) (bl : list (N * N)) : option (list (N * N)) :=
  match targets with
  | [] => Some bl
  | None :: _ => None                                        (* Resolve failed: the message fails *)
  | Some a :: r =>
    add_blocks owner r (if existsb (block_eqb (owner, a)) bl then bl else bl ++ [(owner, a)])
  end.

Definition nstep (st : nstate) (op : nop) : nstate * out :=
  match op with
  | NDelete s from time =>
    ({| n_notes := filter (fun n => negb (note_eqb n (acct s, from, time))) (n_notes st);
        n_blocks := n_blocks st |}, Ok)
  | NBlock s targets =>
    match add_blocks (acct s) targets (n_blocks st) with
    | None => (st, Fail)
    | Some bl => ({| n_notes := n_notes st; n_blocks := bl |}, Ok)
    end
  end.

Definition nrun (st : nstate) (ops : list nop) : nstate := fold_left (fun s op => fst (nstep s op)) ops st.

Definition inbox (st : nstate) (a : N) : list (N * N * Z) := filter (fun n => N.eqb (fst (fst n)) a) (n_notes st).
Definition blocklist (st : nstate) (a : N) : list (N * N) := filter (fun b => N.eqb (fst b) a) (n_blocks st).
