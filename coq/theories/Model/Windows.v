(* Model of the challenge selection and of the proof-window arithmetic of x/storage:
     types/file_deal.go  ResetChunk / ResetChunkWithProof / SetProven / Prove
     types/file.go       getRoundedWindow / ProvenLastBlock / ProvenThisBlock / IsYoung
     keeper/rewards.go   manageProof / RunRewardBlock (the keep / remove / burn decision)
     keeper/msg_server_postproof.go  (what an accepted / rejected proof does to the record)
   Go int64 `/` and `%` truncate toward zero: Z.quot / Z.rem; a zero divisor panics.
   Heights, sizes and windows are far from the int64 range; no wrap-around is modelled.
   No proofs in this file (Proofs/WindowsProofs.v). *)
From Coq Require Import ZArith List Bool.
Import ListNotations.
Open Scope Z_scope.

Inductive res (A : Type) := Val (a : A) | Panic.
Arguments Val {A} a.
Arguments Panic {A}.

(* ---------------- challenge selection ---------------- *)

(* pieces := f.FileSize / chunkSize; if f.FileSize % chunkSize == 0 { pieces-- } *)
Definition pieces (size chunk : Z) : res Z :=
  if chunk =? 0 then Panic
  else let p := Z.quot size chunk in
       Val (if Z.rem size chunk =? 0 then p - 1 else p).

(* ResetChunkWithProof: draw p is what r.Int63n(p) returns for the block's seed; it is
   only consulted for p > 0 (Int63n panics on p <= 0, the code never calls it then) *)
Definition reset_chunk (size chunk : Z) (draw : Z -> Z) : res Z :=
  match pieces size chunk with
  | Panic => Panic
  | Val p => Val (if p >? 0 then draw p else 0)
  end.

(* number of chunks utils.BuildTree cuts a file of `size` bytes into (reads of chunk bytes) *)
Definition num_chunks (size chunk : Z) : Z := (size + chunk - 1) / chunk.

(* ---------------- windows ---------------- *)

(* getRoundedWindow(currentHeight, start, window) *)
Definition rounded_window (h start w : Z) : res Z :=
  if w =? 0 then Panic
  else let k := h - start in Val (k - Z.rem k w + start).

(* f.ProvenLastBlock(height, lastProven) *)
Definition proven_last_block (start pi h last : Z) : res bool :=
  match rounded_window h start pi with
  | Panic => Panic
  | Val w => Val (last >=? w - pi)
  end.

(* f.ProvenThisBlock(height, lastProven) *)
Definition proven_this_block (start pi h last : Z) : res bool :=
  match rounded_window h start pi with
  | Panic => Panic
  | Val w => Val (last >=? w)
  end.

(* f.IsYoung(height) *)
Definition is_young (start pi h : Z) : bool := start + pi >=? h.

(* ---------------- manageProof ---------------- *)

Inductive decision := Keep | Remove | Burn.
(* Keep: the prover stays listed and its size is credited; Remove: RemoveProverWithKey only;
   Burn: RemoveProverWithKey and burnContract.  `found` / `last`: the FileProof record
   (a missing record reads as the zero value, LastProven = 0). *)
Definition manage_proof (start pi h : Z) (found : bool) (last : Z) : res decision :=
  let young := is_young start pi h in
  if negb young && negb found then Val Remove
  else match proven_last_block start pi h (if found then last else 0) with
       | Panic => Panic
       | Val proven => Val (if negb proven && negb young then Burn else Keep)
       end.

(* RunRewardBlock: ctx.BlockHeight() % CheckWindow > 0 -> skip *)
Definition reward_runs (cw h : Z) : res bool :=
  if cw =? 0 then Panic else Val (negb (Z.rem h cw >? 0)).

(* ---------------- one prover on one file, as a state machine ---------------- *)

Record pstate := { listed : bool;      (* the prover's key is in file.Proofs *)
                   has_rec : bool;     (* its FileProof record exists *)
                   last_proven : Z;
                   challenge : Z;      (* FileProof.ChunkToProve *)
                   is_provider : bool; (* a Providers record exists for the prover's address *)
                   burned : Z }.       (* its BurnedContracts (burnContract does nothing without a record) *)

Definition pinit : pstate :=
  {| listed := false; has_rec := false; last_proven := 0; challenge := 0; is_provider := true; burned := 0 |}.

Inductive pop :=
| OProve (h : Z) (to_prove : Z) (valid : bool) (next : Z)
    (* PostProof at height h naming chunk to_prove; valid = VerifyProof's verdict for the
       stored challenge; next = the challenge ResetChunkWithProof picks *)
| OReward (h : Z).  (* ManageRewards at height h (RunRewardBlock with h % CheckWindow == 0) *)

(* PostProof for a file with room for the prover (len(Proofs) < MaxProofs or already listed) *)
Definition post_proof (s : pstate) (h to_prove : Z) (valid : bool) (next : Z) : pstate * bool :=
  let cur := if listed s then challenge s else 0 in
  if negb (listed s) || has_rec s then
    if to_prove =? cur then
      if valid then
        ({| listed := true; has_rec := true; last_proven := h; challenge := next;
            is_provider := is_provider s; burned := burned s |}, true)
      else (s, false)
    else (s, false)
  else (s, false). (* listed without a record: GetProver fails *)

Definition reward (start pi : Z) (s : pstate) (h : Z) : res pstate :=
  if listed s then
    match manage_proof start pi h (has_rec s) (last_proven s) with
    | Panic => Panic
    | Val Keep => Val s
    | Val Remove => Val {| listed := false; has_rec := false; last_proven := last_proven s;
                           challenge := challenge s; is_provider := is_provider s; burned := burned s |}
    | Val Burn => Val {| listed := false; has_rec := false; last_proven := last_proven s;
                         challenge := challenge s; is_provider := is_provider s;
                         burned := if is_provider s then burned s + 1 else burned s |}
    end
  else Val s.

Definition pstep (start pi : Z) (s : pstate) (o : pop) : pstate :=
  match o with
  | OProve h tp v nx => fst (post_proof s h tp v nx)
  | OReward h => match reward start pi s h with Val s' => s' | Panic => s end
  end.

Definition op_height (o : pop) : Z := match o with OProve h _ _ _ => h | OReward h => h end.

(* latest proving height strictly before h (reward blocks run in BeginBlock, before the
   block's transactions), 0-based default never used when some element is below h *)
Definition last_before (P : list Z) (h : Z) : Z :=
  fold_left (fun acc p => if p <? h then Z.max acc p else acc) P 0.
