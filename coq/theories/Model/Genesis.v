(* Genesis export / import of a module (C19).

   Part 1: the format of the translator-generated table Gen/GenesisKinds.v (keeper store writes,
           what ExportGenesis reads, what InitGenesis writes) and the DECISION PROCEDURES over it
           (which written record kinds make the round trip, which do not).
   Part 2: an executable model of a module store (record kind -> finite map key -> value, as
           association lists in iteration order), of ExportGenesis (read the listed kinds) and of
           InitGenesis (a fold of the setters over the genesis lists, into an empty store), and of
           the keepers' store operations (set / delete through a genesis-listed setter, or a write
           to a kind that genesis does not list).  Key functions are interpreted by an arbitrary
           function of their NAME, so "the importing setter uses the writer's key function" is the
           equality of two names of the table.
   No proofs here. *)
From Coq Require Import String List Bool Ascii Arith.
From JK Require Import Base.AList.
Import ListNotations.
Open Scope string_scope.

(* ------------------------------------------------------------------ table format *)

Record gk_write := {
  w_func : string;            (* keeper function containing the Set *)
  w_prefix : string;          (* VALUE of the prefix constant; "(params)" = the module's parameter subspace *)
  w_type : string;            (* Go type marshalled into the value; "raw:<expr>" if the value is not a marshalled message *)
  w_keyfn : string;           (* key function *)
  w_keyargs : list string;    (* fields of the value passed to it; "?<expr>" if an argument is not a field of the value *)
  w_kfv : bool;               (* the key is a function of the stored value *)
  w_callers : list string;    (* non-test functions that mention the writer (empty = dead code) *)
  w_pos : string }.

Record gk_get := {
  g_field : string;           (* genesis field assigned in ExportGenesis *)
  g_func : string;
  g_prefix : string;          (* prefix the getter iterates *)
  g_read : string;            (* type it unmarshals *)
  g_type : string;            (* element type it returns *)
  g_direct : bool;            (* returns the stored values themselves *)
  g_filtered : bool }.        (* skips entries / iterates a sub-prefix *)

Record gk_target := { t_prefix : string; t_type : string; t_keyfn : string; t_keyargs : list string; t_kfv : bool }.

Record gk_set := {
  s_field : string;           (* genesis field InitGenesis passes *)
  s_func : string;
  s_loop : bool;              (* for _, elem := range genState.F  (false: a single value, e.g. Params) *)
  s_targets : list gk_target }. (* everything the setter writes, transitively through keeper methods *)

Record gk_module := { m_name : string; m_written : list gk_write; m_exported : list gk_get; m_imported : list gk_set }.

(* ------------------------------------------------------------------ record kinds *)

(* a record kind = (store prefix, Go type): two kinds may share a prefix (notifications) *)
Definition kid := (string * string)%type.
Definition kid_eqb (a b : kid) : bool := String.eqb (fst a) (fst b) && String.eqb (snd a) (snd b).

Fixpoint stem (s : string) : string :=
  match s with
  | EmptyString => EmptyString
  | String c r => if Ascii.eqb c "/"%char then EmptyString else String c (stem r)
  end.

(* the name used in finding signatures: the Go type, or the prefix stem for untyped values *)
Definition kind_name (k : kid) : string := if String.prefix "raw:" (snd k) then stem (fst k) else snd k.

Fixpoint list_eqb (a b : list string) : bool :=
  match a, b with
  | [], [] => true
  | x :: r, y :: q => String.eqb x y && list_eqb r q
  | _, _ => false
  end.
Definition mem (x : string) (l : list string) : bool := existsb (String.eqb x) l.
Definition same_set (a b : list string) : bool := forallb (fun x => mem x b) a && forallb (fun x => mem x a) b.
Definition kmem (k : kid) (l : list kid) : bool := existsb (kid_eqb k) l.
Fixpoint kdedup (l : list kid) : list kid :=
  match l with [] => [] | k :: r => if kmem k r then kdedup r else k :: kdedup r end.
Fixpoint knodup (l : list kid) : bool :=
  match l with [] => true | k :: r => negb (kmem k r) && knodup r end.
Fixpoint snodup (l : list string) : bool :=
  match l with [] => true | k :: r => negb (mem k r) && snodup r end.

Definition ends_with (s suf : string) : bool :=
  let n := String.length s in let m := String.length suf in
  (m <=? n)%nat && String.eqb (substring (n - m) m s) suf.

Definition w_kid (w : gk_write) : kid := (w_prefix w, w_type w).
Definition t_kid (t : gk_target) : kid := (t_prefix t, t_type t).
Definition live (w : gk_write) : bool := match w_callers w with [] => false | _ => true end.
Definition writers_of (m : gk_module) (k : kid) : list gk_write := filter (fun w => kid_eqb (w_kid w) k) (m_written m).
Definition shared_prefix (m : gk_module) (k : kid) : bool :=
  existsb (fun w => String.eqb (w_prefix w) (fst k) && negb (String.eqb (w_type w) (snd k))) (m_written m).

(* every record kind some reachable keeper code writes *)
Definition written_kinds (m : gk_module) : list kid := kdedup (map w_kid (filter live (m_written m))).

(* ExportGenesis reads kind k through getter g: the getter iterates k's prefix, unmarshals k's type and
   returns the values unchanged; a filter is only acceptable where two kinds share the prefix *)
Definition exports_kind (m : gk_module) (g : gk_get) (k : kid) : bool :=
  String.eqb (g_prefix g) (fst k) && String.eqb (g_type g) (snd k) && String.eqb (g_read g) (snd k) &&
  g_direct g && (negb (g_filtered g) || shared_prefix m k).

(* setter s writes kind k under the key function every writer of k uses, computed from the value *)
Definition import_target (m : gk_module) (s : gk_set) (k : kid) : option gk_target :=
  find (fun t => kid_eqb (t_kid t) k && t_kfv t &&
                 forallb (fun w => String.eqb (w_keyfn w) (t_keyfn t) && w_kfv w && list_eqb (w_keyargs w) (t_keyargs t))
                         (writers_of m k)) (s_targets s).
Definition imports_kind m s k : bool := match import_target m s k with Some _ => true | None => false end.

(* exported into a field that InitGenesis feeds to a setter writing the same kind under the same key *)
Definition direct_rt (m : gk_module) (k : kid) : bool :=
  existsb (fun g => exports_kind m g k &&
                    existsb (fun s => String.eqb (s_field s) (g_field g) && imports_kind m s k) (m_imported m))
          (m_exported m).

(* a secondary index: written only inside the importing setter of a directly round-tripped kind, from the
   same value, keyed by the same index fields *)
Definition mirror_rt (m : gk_module) (k : kid) : bool :=
  existsb (fun s =>
    match import_target m s k with
    | None => false
    | Some t =>
      existsb (fun t0 => negb (kid_eqb (t_kid t0) k) && direct_rt m (t_kid t0) && String.eqb (t_type t0) (snd k) &&
                         same_set (t_keyargs t0) (t_keyargs t)) (s_targets s) &&
      forallb (fun w => match w_callers w with [c] => ends_with c ("." ++ s_func s) | _ => false end) (writers_of m k)
    end) (m_imported m).

Definition roundtrips (m : gk_module) (k : kid) : bool := direct_rt m k || mirror_rt m k.
Definition omitted (m : gk_module) : list kid := filter (fun k => negb (roundtrips m k)) (written_kinds m).
Definition omitted_names (tbl : list gk_module) : list (string * string) :=
  flat_map (fun m => map (fun k => (m_name m, kind_name k)) (omitted m)) tbl.

(* the table's prediction the dynamic twin is compared with: do the records under (prefix, kind name) survive? *)
Definition predicts_survival (tbl : list gk_module) (modname prefix kname : string) : option bool :=
  match find (fun m => String.eqb (m_name m) modname) tbl with
  | None => None
  | Some m =>
    match find (fun k => String.eqb (fst k) prefix && String.eqb (kind_name k) kname) (written_kinds m) with
    | None => None
    | Some k => Some (roundtrips m k)
    end
  end.

(* ------------------------------------------------------------------ genesis specification of a module *)

Record kspec := {
  k_field : string;                      (* genesis field *)
  k_primary : kid;                       (* kind the getter reads *)
  k_keyfn : string;                      (* key function of the importing setter for it *)
  k_mirrors : list (kid * string) }.     (* further kinds the setter writes, with their key functions *)

Definition spec_of (m : gk_module) : list kspec :=
  flat_map (fun g =>
    let k := (g_prefix g, g_type g) in
    if direct_rt m k then
      match find (fun s => String.eqb (s_field s) (g_field g)) (m_imported m) with
      | None => []
      | Some s =>
        match import_target m s k with
        | None => []
        | Some t0 => [{| k_field := g_field g; k_primary := k; k_keyfn := t_keyfn t0;
                         k_mirrors := map (fun t => (t_kid t, t_keyfn t)) (filter (fun t => negb (kid_eqb (t_kid t) k)) (s_targets s)) |}]
        end
      end
    else []) (m_exported m).

Definition targets (ks : kspec) : list (kid * string) := (k_primary ks, k_keyfn ks) :: k_mirrors ks.
Definition all_kids (spec : list kspec) : list kid := flat_map (fun ks => map fst (targets ks)) spec.
(* no two setters write the same kind, no field is listed twice *)
Definition spec_ok (spec : list kspec) : bool := knodup (all_kids spec) && snodup (map k_field spec).

(* the whole module: export and import list the same fields, its specification is well formed, every mirror is a checked secondary index, and the live
   written kinds are exactly the specification's kinds plus the omitted ones *)
(* every genesis field ExportGenesis fills is consumed by InitGenesis and conversely (whether or not any
   other code still writes the kind: a setter called from nowhere else is dead once InitGenesis drops it) *)
Definition fields_match (m : gk_module) : bool :=
  forallb (fun g => existsb (fun s => String.eqb (s_field s) (g_field g)) (m_imported m)) (m_exported m) &&
  forallb (fun s => existsb (fun g => String.eqb (s_field s) (g_field g)) (m_exported m)) (m_imported m).

Definition module_ok (m : gk_module) : bool :=
  fields_match m &&
  spec_ok (spec_of m) &&
  forallb (fun ks => forallb (fun t => mirror_rt m (fst t)) (k_mirrors ks)) (spec_of m) &&
  forallb (fun k => kmem k (all_kids (spec_of m)) || kmem k (omitted m)) (written_kinds m) &&
  forallb (fun k => negb (kmem k (all_kids (spec_of m)))) (omitted m).

(* ------------------------------------------------------------------ stores, export, import, keeper operations *)

Section Store.
  Variables K V : Type.
  Variable Keqb : K -> K -> bool.
  Variable keyf : string -> V -> K.       (* interpretation of key-function names *)

  Definition kvs := list (K * V).
  Definition store := list (kid * kvs).
  Definition sget (s : store) (k : kid) : kvs := match aget kid_eqb s k with Some l => l | None => [] end.
  Definition swrite (s : store) (k : kid) (key : K) (v : V) : store := aset kid_eqb s k (aset Keqb (sget s k) key v).
  Definition sdelete (s : store) (k : kid) (key : K) : store := aset kid_eqb s k (adel Keqb (sget s k) key).
  Definition lookup (s : store) (k : kid) (key : K) : option V := aget Keqb (sget s k) key.

  Definition genesis := list (string * list V).
  Definition gget (g : genesis) (f : string) : list V := match aget String.eqb g f with Some l => l | None => [] end.

  (* ExportGenesis: one list per field, the values of the kind in iteration order *)
  Definition export (spec : list kspec) (s : store) : genesis :=
    map (fun ks => (k_field ks, map snd (sget s (k_primary ks)))) spec.

  (* one call of the setter: every target is written, keyed by its own key function of the value *)
  Definition apply_set (ks : kspec) (s : store) (v : V) : store :=
    fold_left (fun s t => swrite s (fst t) (keyf (snd t) v) v) (targets ks) s.
  Definition apply_del (ks : kspec) (s : store) (v : V) : store :=
    fold_left (fun s t => sdelete s (fst t) (keyf (snd t) v)) (targets ks) s.

  (* InitGenesis on a fresh store: for every listed field, the setter over the field's list *)
  Definition import_into (spec : list kspec) (g : genesis) (s0 : store) : store :=
    fold_left (fun s ks => fold_left (apply_set ks) (gget g (k_field ks)) s) spec s0.
  Definition import (spec : list kspec) (g : genesis) : store := import_into spec g [].

  (* what the keepers do to the store between genesis events *)
  Inductive op :=
  | OSet (field : string) (v : V)              (* a write of a genesis-listed kind (with its secondary indexes) *)
  | ODel (field : string) (v : V)              (* removal of the record indexed like v (with its secondary indexes) *)
  | ORaw (k : kid) (key : K) (v : V).          (* a write to a kind genesis does not list *)

  Definition find_spec (spec : list kspec) (f : string) : option kspec := find (fun ks => String.eqb (k_field ks) f) spec.

  Definition step (spec : list kspec) (s : store) (o : op) : store :=
    match o with
    | OSet f v => match find_spec spec f with Some ks => apply_set ks s v | None => s end
    | ODel f v => match find_spec spec f with Some ks => apply_del ks s v | None => s end
    | ORaw k key v => if kmem k (all_kids spec) then s else swrite s k key v
    end.
  Definition run (spec : list kspec) (ops : list op) : store := fold_left (step spec) ops [].

  Definition is_raw (o : op) : bool := match o with ORaw _ _ _ => true | _ => false end.
  Definition raw_kinds (ops : list op) : list kid := flat_map (fun o => match o with ORaw k _ _ => [k] | _ => [] end) ops.

  (* stores compared as finite maps *)
  Definition store_eq (s1 s2 : store) : Prop := forall k key, lookup s1 k key = lookup s2 k key.
End Store.
