(* Model of begin-block processing of the custom modules with EVERY panic source of the Go
   code written out as an explicit [Panic] outcome (property C05).

   The only begin/end blockers of the custom modules that do anything are
     x/storage  BeginBlocker -> Keeper.RunRewardBlock   (keeper/rewards.go)
     x/jklmint  BeginBlocker -> Keeper.BlockMint        (keeper/mint.go)
   (rns, filetree, notifications, oracle have empty BeginBlock/EndBlock; storage and jklmint
   have empty EndBlock).  In BeginBlock a Go panic is not recovered by the SDK: it halts
   the chain.

   Panic sources of RunRewardBlock, in program order:
     R1  ctx.BlockHeight() % CheckWindow                      integer division by zero
     R2  getRoundedWindow: k % f.ProofInterval                integer division by zero
         (reached from manageProof -> ProvenLastBlock unless the early return
          "file is old and the proof record is missing" fires first)
     R6  RemoveProverWithKey: f.Proofs[i+1:]                  slice bounds out of range
         (a proof key listed twice on one file)
     R3  timeLeftDec.Quo(totalTimeDec)                        sdk.Dec division by zero
     R4  newBalance.TruncateInt64()                           out of int64
     R5  sdk.NewInt64Coin(denom, amt64)                       negative amount / invalid denom
   rewardAllProviders has no panic source once totalSize <= 0 and worth <= 0 are skipped
   (divisor positive, every amount non-negative; see Rewards.v for its arithmetic).
   Panic sources of BlockMint:
     M1  GetMintForBlock: TruncateInt64                       out of int64
     M2  sdk.NewInt64Coin(denom, mintTokens)                  negative amount / invalid denom
     M3  ratio.MulInt64(tokens).TruncateInt64()  (x3)         out of int64
     M4  sdk.NewInt64Coin(denom, share)          (x3)         negative amount

   Times are integer nanoseconds; time.Time.Sub saturates at +-(2^63-1) ns;
   Duration.Microseconds() is truncated division by 1000. *)
From Coq Require Import ZArith NArith List Bool.
From JK Require Import Base.Dec Model.Mint.
Import ListNotations.
Open Scope Z_scope.

Inductive outcome (S : Type) : Type := Done (s : S) | Panic.
Arguments Done {S} s.
Arguments Panic {S}.

(* ------------------------------------------------------------------ storage: files *)

(* one prover slot of a file as listed in UnifiedFile.Proofs: the proof key (an id: equal keys,
   equal ids), whether the FileProof record is found at the start of the block, its LastProven *)
Record bslot := { sl_key : N; sl_found : bool; sl_last : Z }.

Record bfile := { bf_size : Z; bf_interval : Z; bf_start : Z; bf_slots : list bslot }.

Definition is_young (f : bfile) (h : Z) : bool := h <=? bf_start f + bf_interval f.

(* getRoundedWindow with Go's truncated remainder; None = integer division by zero *)
Definition rounded_window (h start window : Z) : option Z :=
  if window =? 0 then None else let k := h - start in Some (k - Z.rem k window + start).

Inductive slot_verdict := Keep | Remove | RemoveBurn.

(* manageProof's decision on one key, given whether its record is (still) found *)
Definition manage_slot (f : bfile) (h : Z) (found : bool) (last : Z) : outcome slot_verdict :=
  if negb (is_young f h) && negb found then Done Remove
  else match rounded_window h (bf_start f) (bf_interval f) with
       | None => Panic                                                     (* R2 *)
       | Some w =>
         let proven := w - bf_interval f <=? (if found then last else 0) in
         if negb proven && negb (is_young f h) then Done RemoveBurn else Done Keep
       end.

(* UnifiedFile.RemoveProverWithKey on the slice f.Proofs = (backing array arr, length len).
   The Go loop `for i, proof := range f.Proofs` fixes the number of iterations (the length at
   entry) and reads the backing array, while each match shifts that same array in place
   (append(front, back...)) and shortens f.Proofs; `f.Proofs[i+1:]` is then taken on the SHORTENED
   slice and panics with "slice bounds out of range" when i+1 exceeds its length (R6) — which is
   what happens when one key is listed twice. *)
Definition shift (arr : list N) (i len : nat) : list N :=
  firstn i arr ++ skipn (S i) (firstn len arr) ++ skipn (len - 1) arr.

Fixpoint rwk (fuel i : nat) (arr : list N) (len : nat) (key : N) : outcome (list N * nat) :=
  match fuel with
  | O => Done (arr, len)
  | S fuel' =>
    if N.eqb (nth i arr 0%N) key
    then if Nat.leb (S i) len then rwk fuel' (S i) (shift arr i len) (len - 1) key else Panic   (* R6 *)
    else rwk fuel' (S i) arr len key
  end.

Definition remove_with_key (arr : list N) (len : nat) (key : N) : outcome (list N * nat) :=
  rwk len 0 arr len key.

Definition mem_key (k : N) (l : list N) : bool := existsb (N.eqb k) l.

(* the walk of ManageRewards over a COPY of the prover list; [removed]: keys whose record has been
   deleted by an earlier removal in this walk *)
Fixpoint manage_walk (f : bfile) (h : Z) (todo : list bslot) (arr : list N) (len : nat) (removed : list N)
  : outcome (list N * nat) :=
  match todo with
  | [] => Done (arr, len)
  | s :: r =>
    match manage_slot f h (sl_found s && negb (mem_key (sl_key s) removed)) (sl_last s) with
    | Panic => Panic
    | Done Keep => manage_walk f h r arr len removed
    | Done _ =>
      match remove_with_key arr len (sl_key s) with
      | Panic => Panic
      | Done (arr', len') => manage_walk f h r arr' len' (sl_key s :: removed)
      end
    end
  end.

Definition slot_of (slots : list bslot) (k : N) : bslot :=
  match find (fun s => N.eqb (sl_key s) k) slots with
  | Some s => s
  | None => {| sl_key := k; sl_found := false; sl_last := 0 |}
  end.

(* one file of ManageRewards: None = the file was removed (no provers and not young) *)
Definition manage_file (h : Z) (f : bfile) : outcome (option bfile) :=
  match bf_slots f with
  | [] => if is_young f h then Done (Some f) else Done None
  | l => match manage_walk f h l (map sl_key l) (length l) [] with
         | Panic => Panic
         | Done (arr, len) =>
           Done (Some {| bf_size := bf_size f; bf_interval := bf_interval f; bf_start := bf_start f;
                         bf_slots := map (slot_of l) (firstn len arr) |})
         end
  end.

Fixpoint manage_files (h : Z) (fs : list bfile) : outcome (list bfile) :=
  match fs with
  | [] => Done []
  | f :: r =>
    match manage_file h f with
    | Panic => Panic
    | Done o =>
      match manage_files h r with
      | Panic => Panic
      | Done r' => Done (match o with Some f' => f' :: r' | None => r' end)
      end
    end
  end.

(* ------------------------------------------------------------------ storage: gauges *)

Record gcoin := { gc_amt : Z;        (* amount recorded in PaymentGauge.Coins *)
                  gc_bal : Z;        (* balance of the gauge's escrow account in that denom *)
                  gc_denom_ok : bool }.

Record bgauge := { g_start : Z; g_end : Z;      (* ns *)
                   g_acct_ok : bool;            (* GetGaugeAccount succeeds *)
                   g_other : bool;              (* the escrow account holds some other denomination *)
                   g_coins : list gcoin }.

Definition max_dur : Z := 2 ^ 63 - 1.
(* time.Time.Sub: saturating *)
Definition dur (a b : Z) : Z :=
  let d := a - b in if max_dur <? d then max_dur else if d <? - max_dur - 1 then - max_dur - 1 else d.
Definition micros (d : Z) : Z := Z.quot d 1000.

(* 1 - timeLeft/totalTime as an sdk.Dec; None = Quo by zero *)
Definition time_ratio (g : bgauge) (now : Z) : option Z :=
  let total := micros (dur (g_end g) (g_start g)) in
  let left := micros (dur (g_end g) now) in
  if total =? 0 then None else Some (dec 1 - dquo (dec left) (dec total)).

Definition would_be (ratio amt : Z) : Z := dmul ratio (dec amt).

(* one coin of one gauge: the new coin record and the amount released *)
Definition pull_coin (ratio : Z) (c : gcoin) : outcome (gcoin * Z) :=
  let newbal := would_be ratio (gc_amt c) - dec (gc_amt c - gc_bal c) in
  match dtrunc64 newbal with
  | None => Panic                                                          (* R4 *)
  | Some a =>
    if a =? 0 then Done (c, 0)
    else if (a <? 0) || negb (gc_denom_ok c) then Panic                    (* R5 *)
    else if a <=? gc_bal c
         then Done ({| gc_amt := gc_amt c; gc_bal := gc_bal c - a; gc_denom_ok := gc_denom_ok c |}, a)
         else Done (c, a)          (* insufficient escrow: the send fails and is logged, but the amount was
                                      already added to coinsToDistribute *)
  end.

Fixpoint pull_coins (ratio : Z) (cs : list gcoin) : outcome (list gcoin * Z) :=
  match cs with
  | [] => Done ([], 0)
  | c :: r =>
    match pull_coin ratio c with
    | Panic => Panic
    | Done (c', a) =>
      match pull_coins ratio r with
      | Panic => Panic
      | Done (r', b) => Done (c' :: r', a + b)
      end
    end
  end.

Definition escrow_empty (g : bgauge) : bool :=
  forallb (fun c => gc_bal c =? 0) (g_coins g) && negb (g_other g).

(* one gauge of pullTokensFromGauges: None = the gauge record was removed *)
Definition pull_gauge (now : Z) (g : bgauge) : outcome (option bgauge * Z) :=
  if g_end g <? now then Done (None, 0)
  else if g_end g <=? g_start g then Done (None, 0)
  else if negb (g_acct_ok g) then Done (Some g, 0)
  else if escrow_empty g then Done (None, 0)
  else match time_ratio g now with
       | None => Panic                                                     (* R3 *)
       | Some ratio =>
         match pull_coins ratio (g_coins g) with
         | Panic => Panic
         | Done (cs, a) => Done (Some {| g_start := g_start g; g_end := g_end g; g_acct_ok := g_acct_ok g;
                                         g_other := g_other g; g_coins := cs |}, a)
         end
       end.

Fixpoint pull_gauges (now : Z) (gs : list bgauge) : outcome (list bgauge * Z) :=
  match gs with
  | [] => Done ([], 0)
  | g :: r =>
    match pull_gauge now g with
    | Panic => Panic
    | Done (o, a) =>
      match pull_gauges now r with
      | Panic => Panic
      | Done (r', b) => Done (match o with Some g' => g' :: r' | None => r' end, a + b)
      end
    end
  end.

(* ------------------------------------------------------------------ storage: the block *)

Record sstate := { ss_check_window : Z; ss_files : list bfile; ss_gauges : list bgauge }.

(* RunRewardBlock at height h, block time now; the Z is the total released from gauges *)
Definition reward_block (h now : Z) (s : sstate) : outcome (sstate * Z) :=
  if ss_check_window s =? 0 then Panic                                     (* R1 *)
  else if 0 <? Z.rem h (ss_check_window s) then Done (s, 0)
  else match manage_files h (ss_files s) with
       | Panic => Panic
       | Done fs =>
         match pull_gauges now (ss_gauges s) with
         | Panic => Panic
         | Done (gs, a) => Done ({| ss_check_window := ss_check_window s; ss_files := fs; ss_gauges := gs |}, a)
         end
       end.

(* ------------------------------------------------------------------ mint *)

Definition share64 (ratio tokens : Z) : option Z := dtrunc64 (dmul_int (dquo_int (dec ratio) 100) tokens).

(* true = BlockMint panics.  [denom_ok]: the (effective) mint denomination is a valid denom;
   [stip_parses]: the stipend address parses ([stipend_ok p] additionally says it is not blocked). *)
Definition mint_accts : maccts := {| a_fee := 1; a_dev := 2; a_stip := 3; a_mod := 4 |}%N.
Definition mint_panics (denom_ok stip_parses : bool) (p : mparams) (s : mstate) : bool :=
  let prev := match m_last s with Some m => m | None => tokens_per_block p end in
  match dtrunc64 (dec prev - dquo (dec (mint_decrease p)) (dec bpy)) with
  | None => true                                                           (* M1 *)
  | Some raw =>
    let e := if raw <? 0 then 0 else raw in
    if (e <? 0) || negb denom_ok then true                                 (* M2 *)
    else
      let bad r := match share64 r e with None => true | Some x => x <? 0 end in   (* M3, M4 *)
      (* the three splits run in order; a failing transfer ends the block early (no panic),
         so a later split's panic is reached only if the earlier transfers succeeded *)
      let b0 := credit (m_bank s) (a_mod mint_accts) e in
      if bad (staker_ratio p) then true else
      match pay mint_accts b0 (a_fee mint_accts) (share (staker_ratio p) e) with
      | None => false
      | Some b1 =>
        if bad (dev_ratio p) then true else
        match pay mint_accts b1 (a_dev mint_accts) (share (dev_ratio p) e) with
        | None => false
        | Some _ =>
          (* mintStorageProviderStipend truncates the share (M3) BEFORE send() parses the address;
             only the coin construction (M4) comes after the parse *)
          match share64 (prov_ratio p) e with
          | None => true
          | Some x => if negb stip_parses then false else x <? 0
          end
        end
      end
  end.

(* ------------------------------------------------------------------ histories *)

(* What user transactions (all of which passed ValidateBasic) and governance can do to the
   part of the state begin-block reads.  Everything else a transaction does is invisible here. *)
Inductive bop :=
| OpPostFile (size : Z)                      (* PostFile: new file, interval = the ProofWindow parameter, start = height *)
| OpAddSlot (file : nat) (key : N) (found : bool)   (* a prover key is listed on a file (PostProof; found=false: record lost) *)
| OpProve (file slot : nat)                  (* LastProven := height (PostProof / attestation) *)
| OpDropSlot (file slot : nat)               (* report / shutdown / delete removes a prover *)
| OpDeleteFile (file : nat)
| OpNewGauge (end_ns : Z) (amt : Z) (denom_ok : bool)   (* BuyStorage / pay-once PostFile: funded with exactly amt *)
| OpTopUpGauge (gauge : nat) (amt : Z)       (* same id in the same block: recorded amount and escrow both grow *)
| OpDonate (gauge : nat) (coin : nat) (amt : Z)  (* anyone may send tokens to an escrow address *)
| OpDonateOther (gauge : nat)                (* ... in another denomination *)
| OpSetWindows (check_window proof_window : Z).  (* governance; the params subspace validates > 1 *)

Record bstate := { b_s : sstate; b_proof_window : Z; b_height : Z; b_now : Z }.

Fixpoint upd {A} (l : list A) (i : nat) (f : A -> A) : list A :=
  match l, i with
  | [], _ => []
  | x :: r, O => f x :: r
  | x :: r, S j => x :: upd r j f
  end.
Fixpoint del {A} (l : list A) (i : nat) : list A :=
  match l, i with
  | [], _ => []
  | _ :: r, O => r
  | x :: r, S j => x :: del r j
  end.

Definition with_files (b : bstate) (fs : list bfile) : bstate :=
  {| b_s := {| ss_check_window := ss_check_window (b_s b); ss_files := fs; ss_gauges := ss_gauges (b_s b) |};
     b_proof_window := b_proof_window b; b_height := b_height b; b_now := b_now b |}.
Definition with_gauges (b : bstate) (gs : list bgauge) : bstate :=
  {| b_s := {| ss_check_window := ss_check_window (b_s b); ss_files := ss_files (b_s b); ss_gauges := gs |};
     b_proof_window := b_proof_window b; b_height := b_height b; b_now := b_now b |}.
Definition set_slots (f : bfile) (l : list bslot) : bfile :=
  {| bf_size := bf_size f; bf_interval := bf_interval f; bf_start := bf_start f; bf_slots := l |}.
Definition set_coins (g : bgauge) (cs : list gcoin) : bgauge :=
  {| g_start := g_start g; g_end := g_end g; g_acct_ok := g_acct_ok g; g_other := g_other g; g_coins := cs |}.

Definition apply_op (b : bstate) (o : bop) : bstate :=
  match o with
  | OpPostFile size =>
    with_files b (ss_files (b_s b) ++ [{| bf_size := size; bf_interval := b_proof_window b; bf_start := b_height b; bf_slots := [] |}])
  | OpAddSlot i key found =>
    with_files b (upd (ss_files (b_s b)) i (fun f => set_slots f (bf_slots f ++ [{| sl_key := key; sl_found := found; sl_last := b_height b |}])))
  | OpProve i j =>
    with_files b (upd (ss_files (b_s b)) i (fun f => set_slots f (upd (bf_slots f) j (fun s => {| sl_key := sl_key s; sl_found := sl_found s; sl_last := b_height b |}))))
  | OpDropSlot i j =>
    with_files b (upd (ss_files (b_s b)) i (fun f => set_slots f (del (bf_slots f) j)))
  | OpDeleteFile i => with_files b (del (ss_files (b_s b)) i)
  | OpNewGauge e amt dok =>
    with_gauges b (ss_gauges (b_s b) ++ [{| g_start := b_now b; g_end := e; g_acct_ok := true; g_other := false;
                                           g_coins := [{| gc_amt := amt; gc_bal := amt; gc_denom_ok := dok |}] |}])
  | OpTopUpGauge i amt =>
    with_gauges b (upd (ss_gauges (b_s b)) i (fun g =>
      if g_start g =? b_now b   (* same id implies same block, hence same start *)
      then set_coins g (map (fun c => {| gc_amt := gc_amt c + amt; gc_bal := gc_bal c + amt; gc_denom_ok := gc_denom_ok c |}) (g_coins g))
      else g))
  | OpDonate i j amt =>
    with_gauges b (upd (ss_gauges (b_s b)) i (fun g =>
      set_coins g (upd (g_coins g) j (fun c => {| gc_amt := gc_amt c; gc_bal := gc_bal c + amt; gc_denom_ok := gc_denom_ok c |}))))
  | OpDonateOther i =>
    with_gauges b (upd (ss_gauges (b_s b)) i (fun g =>
      {| g_start := g_start g; g_end := g_end g; g_acct_ok := g_acct_ok g; g_other := true; g_coins := g_coins g |}))
  | OpSetWindows cw pw =>
    {| b_s := {| ss_check_window := cw; ss_files := ss_files (b_s b); ss_gauges := ss_gauges (b_s b) |};
       b_proof_window := pw; b_height := b_height b; b_now := b_now b |}
  end.

(* one block: begin-block at (height, time), then the block's transactions *)
Record block := { bl_height : Z; bl_time : Z; bl_ops : list bop }.

Definition run_block (b : bstate) (k : block) : outcome bstate :=
  match reward_block (bl_height k) (bl_time k) (b_s b) with
  | Panic => Panic
  | Done (s', _) =>
    Done (fold_left apply_op (bl_ops k)
            {| b_s := s'; b_proof_window := b_proof_window b; b_height := bl_height k; b_now := bl_time k |})
  end.

Fixpoint run_chain (b : bstate) (ks : list block) : outcome bstate :=
  match ks with
  | [] => Done b
  | k :: r => match run_block b k with Panic => Panic | Done b' => run_chain b' r end
  end.
