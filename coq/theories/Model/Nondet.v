(* C06, part 1 — the inventory of sites at which consensus-reachable Go code consults something two
   nodes do not share.  The table itself (Gen/NondetSites.v) is regenerated from /repo by
   translator/gen_nondet.go on every run; this file only fixes its vocabulary and what "benign" means.
   No proofs here. *)
From Coq Require Import String NArith List Bool.
Import ListNotations.

(* what the construct is *)
Inductive site_kind :=
| KMapRange      (* for … range m, m a Go map *)
| KMapKeys       (* maps.Keys / maps.Values *)
| KTime          (* time.Now / Since / Until, telemetry.Now *)
| KRng           (* package-level function of math/rand, crypto/rand, tendermint libs/rand (constructors included) *)
| KGo | KSelect  (* go statement, select statement *)
| KEnv           (* os.Getenv/Environ/Hostname/Getpid…, runtime.NumCPU/GOMAXPROCS… *)
| KReflectMap    (* reflect.Value.MapKeys / MapRange *)
| KFmtMap        (* a map handed as interface{} to a formatting / logging / wrapping function *)
| KJsonMap       (* a map handed to encoding/json Marshal / Encode *)
| KFloat         (* float32/float64 arithmetic or conversion *)
| KUnsafe.       (* unsafe, reflect pointers, %p *)

(* the syntactic pattern the translator recognised around it; Other is its default *)
Inductive site_class :=
| MapKeysThenSort    (* the loop only collects keys/values into a slice that is totally sorted before any use *)
| MapCommutative     (* the loop body is an order-independent accumulation *)
| TelemetryOnly      (* the value only flows into a result-less telemetry.* call *)
| SeededFromBlock    (* the generator is (re)seeded from block header / block gas data before any draw *)
| JsonMarshalSorted  (* encoding/json writes map keys in sorted order *)
| QueryOnly          (* not executed by the state machine: gRPC queries, CLI, simulation, node wiring *)
| Other.

Record site := { s_file : string; s_line : N; s_func : string; s_kind : site_kind; s_class : site_class }.

(* a class is only accepted on the kinds of construct for which the pattern makes sense *)
Definition class_fits (k : site_kind) (c : site_class) : bool :=
  match c, k with
  | QueryOnly, _ => true
  | MapKeysThenSort, KMapRange | MapKeysThenSort, KMapKeys => true
  | MapCommutative, KMapRange => true
  | TelemetryOnly, KTime | TelemetryOnly, KFloat => true
  | SeededFromBlock, KRng => true
  | JsonMarshalSorted, KJsonMap => true
  | _, _ => false
  end.

Definition benign (s : site) : bool := class_fits (s_kind s) (s_class s).

Definition class_eqb (a b : site_class) : bool :=
  match a, b with
  | MapKeysThenSort, MapKeysThenSort | MapCommutative, MapCommutative | TelemetryOnly, TelemetryOnly
  | SeededFromBlock, SeededFromBlock | JsonMarshalSorted, JsonMarshalSorted | QueryOnly, QueryOnly
  | Other, Other => true
  | _, _ => false
  end.

Definition in_consensus (s : site) : bool := negb (class_eqb (s_class s) QueryOnly).

Definition count_class (c : site_class) (l : list site) : N :=
  N.of_nat (length (filter (fun s => class_eqb (s_class s) c) l)).
