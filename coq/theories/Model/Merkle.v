(* Model of the Merkle trees the storage module uses:
     github.com/wealdtech/go-merkletree/v2  (merkletree.go: NewTree / createLeaves /
     createBranches / GenerateProof;  proof.go: VerifyProofUsing / generateProofHash),
     with salt = false, sorted = false, pollard = [root], as called from
     x/storage/utils/trees.go (BuildTree) and x/storage/types/file_deal.go (VerifyProof).

   Library layout (Nodes slice of length 2*B, B = 2^ceil(log2 n), Nodes[0] unused):
     Nodes[B+i]   = Hash(data[i])                      i < n
     Nodes[B+i]   = HashLength() zero bytes (NOT hashed) n <= i < B
     Nodes[k]     = Hash(Nodes[2k] ++ Nodes[2k+1])     k = B-1 .. 1
     Root         = Nodes[1]          (for n = 1: B = 1, the root is the single leaf hash)
   Here a tree is the leaf level (length B) plus its depth d (B = 2^d); level j+1 is
   pair_up of level j, i.e. level j is Nodes[2^(d-j) .. 2^(d-j+1)).

   No proofs in this file (Proofs/MerkleProofs.v). *)
From Coq Require Import NArith ZArith List Bool.
From JK Require Import Base.Bytes Hash.Sha256 Hash.Keccak.
Import ListNotations.
Open Scope N_scope.

Definition nthN (l : list bytes) (i : N) : bytes := nth (N.to_nat i) l [].

Record tree := { t_depth : nat; t_leaves : list bytes }.

Section Tree.
  Variable H : bytes -> bytes.      (* hashType.Hash(a, b, ...) = H (a ++ b ++ ...) *)
  Variable hlen : nat.              (* hashType.HashLength() *)

  (* createBranches, one level: Nodes[k] = H(Nodes[2k] ++ Nodes[2k+1]) *)
  Fixpoint pair_up (l : list bytes) : list bytes :=
    match l with
    | a :: b :: r => H (a ++ b) :: pair_up r
    | _ => []
    end.

  (* ceil(log2 n): math.Ceil(math.Log2(float64(n))) -- exact for every n < 2^47 *)
  Definition depth_of (n : nat) : nat := Nat.log2_up n.

  (* the leaf level: hashed data followed by raw zero padding up to 2^d *)
  Definition leaf_level (data : list bytes) : list bytes :=
    let d := depth_of (length data) in
    map H data ++ repeat (repeat 0 hlen) (Nat.sub (Nat.pow 2 d) (length data)).

  (* merkletree.NewUsing(data, hash, false); the library refuses an empty data list *)
  Definition build (data : list bytes) : option tree :=
    match data with
    | [] => None
    | _ => Some {| t_depth := depth_of (length data); t_leaves := leaf_level data |}
    end.

  Fixpoint root_lv (d : nat) (l : list bytes) : bytes :=
    match d with
    | O => nthN l 0
    | S d' => root_lv d' (pair_up l)
    end.
  (* tree.Root() = Nodes[1] *)
  Definition root (t : tree) : bytes := root_lv (t_depth t) (t_leaves t).

  (* all levels, leaves first; concat (rev (levels ..)) = Nodes[1..] *)
  Fixpoint levels (d : nat) (l : list bytes) : list (list bytes) :=
    match d with
    | O => [l]
    | S d' => l :: levels d' (pair_up l)
    end.
  Definition nodes (t : tree) : list bytes := concat (rev (levels (t_depth t) (t_leaves t))).

  (* GenerateProof(data, 0) once the index of data is known:
       for i := index + B; i > 1; i /= 2 { hashes = append(hashes, Nodes[i^1]) }
     position inside level j is (index >> j); i^1 flips the lowest bit. *)
  Fixpoint gen_proof_lv (d : nat) (l : list bytes) (i : N) : list bytes :=
    match d with
    | O => []
    | S d' => nthN l (N.lxor i 1) :: gen_proof_lv d' (pair_up l) (N.div2 i)
    end.
  Definition gen_proof (t : tree) (i : N) : list bytes := gen_proof_lv (t_depth t) (t_leaves t) i.

  (* generateProofHash: the loop over proof.Hashes *)
  Fixpoint walk (cur : bytes) (hashes : list bytes) (index : N) : bytes :=
    match hashes with
    | [] => cur
    | h :: r => walk (if N.even index then H (cur ++ h) else H (h ++ cur)) r (N.div2 index)
    end.

  (* index := proof.Index + (1 << uint(len(proof.Hashes)))   in uint64 arithmetic:
     the shift yields 0 from 64 positions on and the sum wraps *)
  Definition start_index (index : N) (len : nat) : N :=
    let sh := if Nat.ltb len 64 then N.shiftl 1 (N.of_nat len) else 0 in
    (index + sh) mod 18446744073709551616.

  Definition proof_hash (data : bytes) (hashes : list bytes) (index : N) : bytes :=
    walk (H data) hashes (start_index index (length hashes)).

  (* VerifyProofUsing(data, false, &Proof{hashes, index}, [][]byte{root}, hashType):
     with a one-element pollard the loop compares pollard[0] only *)
  Definition verify_proof (root : bytes) (data : bytes) (hashes : list bytes) (index : N) : bool :=
    beqb root (proof_hash data hashes index).
End Tree.

(* ---- the repo's leaf encoding: sha256(fmt.Sprintf("%d%x", chunk, item)) ---- *)

Fixpoint dec_aux (fuel : nat) (n : N) (acc : bytes) : bytes :=
  match fuel with
  | O => acc
  | S f => let acc' := (48 + n mod 10) :: acc in
           if n / 10 =? 0 then acc' else dec_aux f (n / 10) acc'
  end.
(* %d of a non-negative number *)
Definition decN (n : N) : bytes := dec_aux (S (N.to_nat (N.size n))) n [].
(* %d of an int64 *)
Definition decZ (z : Z) : bytes :=
  match z with
  | Zneg p => 45 :: decN (Npos p)
  | _ => decN (Z.to_N z)
  end.

Definition leaf_preimage (chunk : Z) (item : bytes) : bytes := decZ chunk ++ hex item.

(* the whole of UnifiedFile.VerifyProof after json.Unmarshal(proofData, &proof) succeeded:
   hashes = proof.Hashes, index = proof.Index, root = f.Merkle *)
Definition verify_file_proof (H256 H512 : list N -> list N) (root : list N) (chunk : Z)
           (item : list N) (hashes : list (list N)) (index : N) : bool :=
  verify_proof H512 root (H256 (leaf_preimage chunk item)) hashes index.

(* a proof payload that does not decode makes VerifyProof return false *)
Definition verify_file_payload (H256 H512 : list N -> list N) (root : list N) (chunk : Z)
           (item : list N) (decoded : option (list (list N) * N)) : bool :=
  match decoded with
  | None => false
  | Some (hashes, index) => verify_file_proof H256 H512 root chunk item hashes index
  end.

(* utils.BuildTree: the data list handed to merkletree.NewUsing for a file cut into chunks *)
Fixpoint file_data_from (H256 : list N -> list N) (i : Z) (chunks : list bytes) : list bytes :=
  match chunks with
  | [] => []
  | c :: r => H256 (leaf_preimage i c) :: file_data_from H256 (i + 1)%Z r
  end.
Definition file_data (H256 : list N -> list N) (chunks : list bytes) : list bytes :=
  file_data_from H256 0%Z chunks.
Definition build_file (H256 H512 : list N -> list N) (hlen : nat) (chunks : list bytes) : option tree :=
  build H512 hlen (file_data H256 chunks).

(* instances with the executable hashes *)
Definition verify_file_proof_exec := verify_file_proof sha256 sha3_512.
Definition verify_file_payload_exec := verify_file_payload sha256 sha3_512.
Definition build_exec := build sha3_512 64.
Definition build_file_exec := build_file sha256 sha3_512 64.
Definition verify_proof_exec := verify_proof sha3_512.
