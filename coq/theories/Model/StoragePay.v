(* Model of the money flows of x/storage: keeper.GetStorageCost / GetStorageCostKbs(WithPrice),
   msgServer.BuyStorage (+ validateBuy, UpgradeStorage, NewGauge) and the pay-once branch of
   msgServer.PostFile, over the sdk.Dec model of Base/Dec.v and a bank of balances in ujkl.

   Accounts are a small inductive type: users (opaque ids; any address that is not one of
   the others), the storage module account, the fee collector, the protocol-owned-liquidity
   account and the escrow account of a payment gauge.  A gauge id is
   sha256("height--end.UnixMicro()--coins.String()"): the model keys gauges (and their escrow
   accounts) by that triple itself, so two deposits with equal height, end and amount meet in
   one gauge exactly as in the code.

   Outcomes: Ok / Fail (handler or ValidateBasic returned an error) / Panic (sdk.NewCoin on
   a negative amount, Dec.Quo by zero).  Fail and Panic leave the state unchanged (messages
   run on a cache context). *)
From Coq Require Import ZArith NArith List Bool.
From JK Require Import Base.Dec Base.AList.
Import ListNotations.
Open Scope Z_scope.

(* ---------- constants of the code ---------- *)
Definition P16 : Z := 10 ^ 16.
Definition d_12_5 : Z := 1250 * P16.     (* sdk.MustNewDecFromStr("12.5") *)
Definition d_10_42 : Z := 1042 * P16.    (* "10.42" *)
Definition d_11_67 : Z := 1167 * P16.    (* "11.67" *)
Definition d_0_95 : Z := 95 * P16.       (* "0.95" *)
Definition d_0_90 : Z := 90 * P16.       (* "0.90" *)
Definition d_0_05 : Z := 5 * P16.        (* "0.05" *)
Definition d_0_1 : Z := 10 * P16.        (* "0.1" *)
Definition GB : Z := 1000000000.
Definition DAY_NS : Z := 86400000000000.           (* time.Hour * 24 *)
Definition MONTH_NS : Z := 30 * DAY_NS.            (* timeMonth *)
Definition HOUR_MS : Z := 3600000.                 (* 60 * 60 * 1000 *)
Definition YEAR_HOURS : Z := 8760.                 (* 365 * 24 *)

(* Go: time.Time.Sub saturates at the int64 range of a Duration *)
Definition sat64 (x : Z) : Z := if x <? int64_min then int64_min else if int64_max <? x then int64_max else x.

(* ---------- the two cost functions (None = Dec.Quo by a zero price: panic) ---------- *)

(* keeper.GetStorageCost(ctx, gbs, hours); ppt = Params.PricePerTbPerMonth, jkl = GetJklPrice (raw Dec) *)
Definition storage_cost (ppt jkl gbs hours : Z) : option Z :=
  let base := dec ppt in
  let yearly := dmul base (dquo_int d_12_5 15) in
  let final :=
    if hours <? YEAR_HOURS then
      if 20000 <=? gbs then dmul base (dquo_int d_12_5 15)
      else if 5000 <=? gbs then dmul base (dquo_int (dec 14) 15)
      else base
    else
      if 20000 <=? gbs then dmul yearly (dquo d_10_42 d_12_5)
      else if 5000 <=? gbs then dmul yearly (dquo d_11_67 d_12_5)
      else yearly in
  let per_tb3 := dquo_int final 3 in
  let per_gb_month := dquo_int per_tb3 1000 in
  let per_gb_hour := dquo_int per_gb_month 720 in
  let per_hour := dmul_int per_gb_hour gbs in
  let total := dmul_int per_hour hours in
  if jkl =? 0 then None
  else Some (dtrunc (dmul_int (dquo total jkl) 1000000)).

(* keeper.GetStorageCostKbsWithPrice(ctx, kbs, hours, ppt) *)
Definition storage_cost_kbs (ppt jkl kbs hours : Z) : option Z :=
  let per_tb3 := dquo_int (dec ppt) 3 in
  let per_gb := dquo_int per_tb3 1000 in
  let per_mb := dquo_int per_gb 1000 in
  let per_kb := dquo_int per_mb 1000 in
  let per_kb_hour := dquo_int per_kb 720 in
  let per_hour := dmul_int per_kb_hour kbs in
  let total := dmul_int per_hour hours in
  if jkl =? 0 then None
  else Some (dtrunc (dmul_int (dquo total jkl) 1000000)).

(* ---------- accounts, bank, gauges, plans ---------- *)

Inductive acct :=
| AUser (n : N)                 (* any address that is none of the following *)
| AMod                          (* the storage module account *)
| AFee                          (* fee collector (stakers) *)
| APol                          (* types.GetPOLAccount() *)
| AEscrow (h e a : Z).          (* types.GetGaugeAccount of the gauge with id H(h--e--a ujkl) *)

Definition acct_eqb (x y : acct) : bool :=
  match x, y with
  | AUser a, AUser b => N.eqb a b
  | AMod, AMod | AFee, AFee | APol, APol => true
  | AEscrow h e a, AEscrow h' e' a' => (h =? h') && (e =? e') && (a =? a')
  | _, _ => false
  end.

Definition gkey := (Z * Z * Z)%type.     (* block height, end.UnixMicro(), amount of ujkl (0 = no coins) *)
Definition gkey_eqb (x y : gkey) : bool :=
  let '(h, e, a) := x in let '(h', e', a') := y in (h =? h') && (e =? e') && (a =? a').
Definition escrow (k : gkey) : acct := let '(h, e, a) := k in AEscrow h e a.

Definition bank := list (acct * Z).
Definition bal (b : bank) (a : acct) : Z := aval acct_eqb b a.
Definition credit (b : bank) (a : acct) (x : Z) : bank := aset acct_eqb b a (bal b a + x).

(* bank.SendCoins of x ujkl (x >= 0; sdk.NewCoins drops a zero coin: nothing moves, no error);
   insufficient funds: error *)
Definition send (b : bank) (from to : acct) (x : Z) : option bank :=
  if x =? 0 then Some b
  else if bal b from <? x then None
  else Some (credit (credit b from (- x)) to x).

(* StoragePaymentInfo (times in nanoseconds since the epoch) *)
Record plan := { p_start : Z; p_end : Z; p_avail : Z; p_used : Z }.

Record pstate := {
  s_bank : bank;
  s_gauges : list (gkey * Z);           (* recorded Coins (ujkl) of every PaymentGauge *)
  s_plans : list (acct * plan)          (* StoragePaymentInfo by canonical address *)
}.
Definition set_bank (s : pstate) (b : bank) : pstate :=
  {| s_bank := b; s_gauges := s_gauges s; s_plans := s_plans s |}.
Definition set_gauges (s : pstate) (g : list (gkey * Z)) : pstate :=
  {| s_bank := s_bank s; s_gauges := g; s_plans := s_plans s |}.
Definition set_plans (s : pstate) (p : list (acct * plan)) : pstate :=
  {| s_bank := s_bank s; s_gauges := s_gauges s; s_plans := p |}.

Definition recorded (g : list (gkey * Z)) (k : gkey) : Z := aval gkey_eqb g k.
(* keeper.NewGauge: a gauge with the same id already stored records the sum (fix 6e04565a) *)
Definition new_gauge (g : list (gkey * Z)) (k : gkey) (coins : Z) : list (gkey * Z) :=
  match aget gkey_eqb g k with
  | Some old => aset gkey_eqb g k (old + coins)
  | None => aset gkey_eqb g k coins
  end.

(* block context and the parameters read by the handlers *)
Record env := {
  e_height : Z;        (* ctx.BlockHeight() *)
  e_now : Z;           (* ctx.BlockTime() in ns *)
  e_ppt : Z;           (* Params.PricePerTbPerMonth *)
  e_refc : Z;          (* Params.ReferralCommission *)
  e_pol : Z;           (* Params.PolRatio *)
  e_jkl : Z            (* GetJklPrice(): the feed's price or 0.20, raw Dec *)
}.

Inductive out := Ok | Fail | Panic.

(* rns Resolve(name) (the RNS keeper is glue here): nothing, a bech32 spelling of an account
   (lower or upper case - the same account), or a registered name whose value parses *)
Inductive refspec :=
| RefNone                       (* "", garbage, unknown / dangling name *)
| RefAddr (a : acct)            (* a bech32 spelling of a *)
| RefName (a : acct).           (* an RNS name whose record resolves to a *)
Definition resolve (r : refspec) : option acct :=
  match r with RefNone => None | RefAddr a => Some a | RefName a => Some a end.

(* bank.BlockedAddr: every module account (the two the model names; others flagged by the harness) *)
Definition is_blocked (a : acct) (user_blocked : bool) : bool :=
  match a with AMod | AFee => true | AUser _ => user_blocked | _ => false end.

Record buy_msg := {
  b_payer : N;             (* msg.Creator (either spelling) *)
  b_for : option acct;     (* msg.ForAddress if it is a bech32 address (RNS names never get past AccAddressFromBech32) *)
  b_days : Z; b_bytes : Z;
  b_ujkl : bool;           (* msg.PaymentDenom == "ujkl" *)
  b_ref : refspec;         (* msg.Referral *)
  b_ref_blocked : bool     (* the resolved referrer is some other module account *)
}.

(* the price before the referral discount: storage cost, or the upgrade price of a running plan *)
Inductive based := BFail | BPanic | BPrice (price : Z) (space_used : Z).

(* keeper.UpgradeStorage *)
Definition upgrade_price (e : env) (bytes duration cost : Z) (pi : plan) : based :=
  let prorated := sat64 (p_end pi - e_now e) in                  (* payInfo.End.Sub(ctx.BlockTime()) *)
  let ph := dtrunc (dquo (dec (Z.quot prorated 1000000)) (dec HOUR_MS)) in
  let cur_gbs := Z.quot (p_avail pi) GB in
  match storage_cost (e_ppt e) (e_jkl e) cur_gbs ph with
  | None => BPanic
  | Some old_cost =>
    if duration - Z.rem duration MONTH_NS <=? 0 then BFail      (* duration.Truncate(timeMonth) <= 0 *)
    else if bytes <? p_used pi then BFail
    else let price := cost - old_cost in
         if price <=? 0 then BFail else BPrice price (p_used pi)
  end.

(* time.Duration(days) * time.Hour * 24 *)
Definition buy_duration (m : buy_msg) : Z := wrap64 (b_days m * DAY_NS).

Definition base_price (e : env) (m : buy_msg) (s : pstate) : based :=
  if b_days m <=? 0 then BFail else                              (* ValidateBasic *)
  match b_for m with
  | None => BFail                                               (* ValidateBasic / Resolve / AccAddressFromBech32 *)
  | Some fa =>
    let duration := buy_duration m in
    if duration <? MONTH_NS then BFail else
    let bytes := b_bytes m in
    let gbs := Z.quot bytes GB in
    if gbs <=? 0 then BFail else
    if negb (b_ujkl m) then BFail else
    let ms := Z.quot duration 1000000 in                         (* duration.Milliseconds() *)
    let hours := dtrunc (dquo (dec ms) (dec HOUR_MS)) in
    match storage_cost (e_ppt e) (e_jkl e) gbs hours with
    | None => BPanic
    | Some cost =>
      if cost <? 0 then BPanic else                              (* sdk.NewCoin(denom, storageCost) *)
      match aget acct_eqb (s_plans s) fa with
      | Some pi =>
        if bytes <? p_used pi then BFail
        else if e_now e <? p_end pi                              (* payInfo.End.After(ctx.BlockTime()) *)
        then upgrade_price e bytes duration cost pi
        else BPrice cost (p_used pi)
      | None => BPrice cost 0
      end
    end
  end.

(* referred: Resolve(msg.Referral) succeeds and is not the creator's account (fix dea66415) *)
Definition referrer (m : buy_msg) : option acct :=
  match resolve (b_ref m) with
  | Some ra => if acct_eqb ra (AUser (b_payer m)) then None else Some ra
  | None => None
  end.

(* the referral discount in percent: 5 beyond a year, 10 otherwise, none without a referrer *)
Definition discount_pct (m : buy_msg) : Z :=
  match referrer m with
  | Some _ => if 365 * 24 * HOUR_MS <? Z.quot (buy_duration m) 1000000 then 5 else 10
  | None => 0
  end.

(* the amount charged: the base price, lowered by the referral discount *)
Definition to_pay_of (m : buy_msg) (p : Z) : Z :=
  match referrer m with
  | Some _ =>
    if 365 * 24 * HOUR_MS <? Z.quot (buy_duration m) 1000000
    then dtrunc (dmul (dec p) d_0_95) else dtrunc (dmul (dec p) d_0_90)
  | None => p
  end.

(* pol after the discount and the discount, as Decs *)
Definition pol_dec (e : env) (m : buy_msg) : Z :=
  let pol := dquo_int (dec (e_pol e)) 100 in
  match referrer m with
  | Some _ => if 365 * 24 * HOUR_MS <? Z.quot (buy_duration m) 1000000 then pol - d_0_05 else pol - d_0_1
  | None => pol
  end.
Definition discount_dec (m : buy_msg) : Z :=
  match referrer m with
  | Some _ => if 365 * 24 * HOUR_MS <? Z.quot (buy_duration m) 1000000
              then dquo_int (dec 5) 100 else dquo_int (dec 10) 100
  | None => dec 0
  end.

(* the handler: price, then the transfers in the code's order *)
Definition buy_storage (e : env) (m : buy_msg) (s : pstate) : out * pstate :=
  match base_price e m s, b_for m with
  | BFail, _ | _, None => (Fail, s)
  | BPanic, _ => (Panic, s)
  | BPrice p used, Some fa =>
    let to_pay := to_pay_of m p in
    let pol' := pol_dec e m in
    let discount := discount_dec m in
    let payer := AUser (b_payer m) in
    match send (s_bank s) payer AMod to_pay with                 (* taking money from user *)
    | None => (Fail, s)
    | Some b1 =>
      let end_ns := e_now e + buy_duration m in
      let spi := {| p_start := e_now e; p_end := end_ns; p_avail := b_bytes m; p_used := used |} in
      let plans' := aset acct_eqb (s_plans s) fa spi in
      let ref_dec := dquo_int (dec (e_refc e)) 100 in
      let spr := dec 1 - ref_dec - pol' - discount in
      let spc := dtrunc (dmul (dec to_pay) spr) in
      if spc <? 0 then (Panic, s) else                           (* sdk.NewCoin *)
      let k : gkey := (e_height e, end_ns / 1000, spc) in
      let gauges' := new_gauge (s_gauges s) k spc in
      match send b1 AMod (escrow k) spc with
      | None => (Fail, s)
      | Some b2 =>
        let pol_cut := dtrunc (dmul (dec to_pay) pol') in
        if pol_cut <? 0 then (Panic, s) else
        match send b2 AMod APol pol_cut with
        | None => (Fail, s)
        | Some b3 =>
          let ref_cut := dtrunc (dmul (dec to_pay) ref_dec) in
          if ref_cut <? 0 then (Panic, s) else
          let final b4 := (Ok, {| s_bank := b4; s_gauges := gauges'; s_plans := plans' |}) in
          match referrer m with
          | Some ra =>
            if is_blocked ra (b_ref_blocked m) then (Fail, s)
            else match send b3 AMod ra ref_cut with None => (Fail, s) | Some b4 => final b4 end
          | None =>
            match send b3 AMod AFee ref_cut with None => (Fail, s) | Some b4 => final b4 end
          end
        end
      end
    end
  end.

(* ---------- PostFile, one-time-payment branch ---------- *)
Record post_msg := {
  pm_payer : N;
  pm_note_ok : bool;       (* json.Valid(msg.Note) *)
  pm_size : Z; pm_maxproofs : Z; pm_expires : Z;
  pm_end_us : Z;           (* ctx.BlockTime().AddDate(0, 0, int(days)).UnixMicro(), computed by Go *)
  pm_end_ok : bool         (* that time is representable as a protobuf Timestamp (years 1..9999); if not,
                              marshalling the gauge in NewGauge panics *)
}.

(* None: not the pay-once branch (msg.Expires <= 0: plan-paid file, no money moves) *)
Definition post_file (e : env) (m : post_msg) (s : pstate) : option (out * pstate) :=
  if (pm_size m <=? 0) || (pm_maxproofs m <=? 0) then Some (Fail, s) else      (* ValidateBasic *)
  if Z.quot int64_max (pm_maxproofs m) <? pm_size m then Some (Fail, s) else
  if negb (pm_note_ok m) then Some (Fail, s) else
  let total := wrap64 (pm_size m * pm_maxproofs m) in
  if pm_expires m <=? 0 then None else
  let kbs0 := Z.quot total 1000 in
  let kbs := if kbs0 <? 1024 then 1024 else kbs0 in
  let block_duration := wrap64 (pm_expires m - e_height e) in
  let seconds := wrap64 (block_duration * 6) in
  let minutes := Z.quot seconds 60 in
  let hours := Z.quot minutes 60 in
  let days := Z.quot hours 24 in
  if days <=? 0 then Some (Fail, s) else
  match storage_cost_kbs (e_ppt e) (e_jkl e) kbs hours with
  | None => Some (Panic, s)
  | Some cost =>
    if cost <? 0 then Some (Panic, s) else
    let ref_dec := dquo_int (dec (e_refc e)) 100 in
    let pol := dquo_int (dec (e_pol e)) 100 in
    let spr := dec 1 - ref_dec - pol in
    let spc := dtrunc (dmul (dec cost) spr) in
    if spc <? 0 then Some (Panic, s) else
    if negb (pm_end_ok m) then Some (Panic, s) else              (* NewGauge: MustMarshal of the end time *)
    let k : gkey := (e_height e, pm_end_us m, spc) in
    let gauges' := new_gauge (s_gauges s) k spc in
    match send (s_bank s) (AUser (pm_payer m)) AMod cost with
    | None => Some (Fail, s)
    | Some b1 =>
      match send b1 AMod (escrow k) spc with
      | None => Some (Fail, s)
      | Some b2 => Some (Ok, {| s_bank := b2; s_gauges := gauges'; s_plans := s_plans s |})
      end
    end
  end.

(* ---------- histories ---------- *)
Inductive pay_op := OBuy (e : env) (m : buy_msg) | OPost (e : env) (m : post_msg).

Definition step (s : pstate) (o : pay_op) : pstate :=
  match o with
  | OBuy e m => snd (buy_storage e m s)
  | OPost e m => match post_file e m s with Some (_, s') => s' | None => s end
  end.
Definition run (ops : list pay_op) (s : pstate) : pstate := fold_left step ops s.

Definition total (b : bank) : Z := asum b.

Definition valid_env (e : env) : Prop :=
  0 <= e_refc e /\ 0 <= e_pol e /\ e_refc e + e_pol e <= 100.
