(* Model of x/notifications (keeper/notifications.go, keeper/blocks.go, the three message
   servers, the grpc queries, types/key_notifications.go) as the code is after the fix commits
   ebcb0987 / 17d93d6a / 46d3980a.

   ONE kv store (prefix "Notification/") keyed by byte strings:
     notification  ->  to ++ "/" ++ from ++ "/" ++ %d(time)        (types.NotificationsKey)
     block entry   ->  owner ++ "/" ++ blocked                      (types.BlockKey)
   Values are protobuf; a Block{address=1, blocked_address=2} decodes as
   Notification{to=1, from=2, time=0, contents="", private=""}, so every value is modelled as a
   [note] (that is what every iteration of the code decodes a value into).
   The store is kept in ascending key order (IAVL iteration order), iteration is a filter.

   No proofs here (Proofs/NotificationsProofs.v). *)
From Coq Require Import ZArith NArith List Bool Decimal.
From JK Require Import Base.Bytes Base.AList.
Import ListNotations.

Record note := mkNote {
  n_to : bytes; n_from : bytes; n_time : Z; n_contents : bytes; n_priv : bytes }.

(* ---- fmt.Sprintf("%d", int64) *)
Fixpoint uint_bytes (u : Decimal.uint) : bytes :=
  match u with
  | Nil => []
  | D0 r => 48%N :: uint_bytes r | D1 r => 49%N :: uint_bytes r | D2 r => 50%N :: uint_bytes r
  | D3 r => 51%N :: uint_bytes r | D4 r => 52%N :: uint_bytes r | D5 r => 53%N :: uint_bytes r
  | D6 r => 54%N :: uint_bytes r | D7 r => 55%N :: uint_bytes r | D8 r => 56%N :: uint_bytes r
  | D9 r => 57%N :: uint_bytes r
  end.
Definition int_bytes (i : Decimal.int) : bytes :=
  match i with Pos u => uint_bytes u | Neg u => 45%N :: uint_bytes u end.
Definition dec (z : Z) : bytes := int_bytes (Z.to_int z).

(* ---- types/key_notifications.go *)
Definition nkey (to from : bytes) (t : Z) : bytes := to ++ slash :: from ++ slash :: dec t.
Definition bkey (owner addr : bytes) : bytes := owner ++ slash :: addr.
Definition nkey_of (n : note) : bytes := nkey (n_to n) (n_from n) (n_time n).

(* ---- the kv store under the prefix *)
Definition store := list (bytes * note).

Fixpoint bcmp (a b : bytes) : comparison :=
  match a, b with
  | [], [] => Eq
  | [], _ :: _ => Lt
  | _ :: _, [] => Gt
  | x :: a', y :: b' => match N.compare x y with Eq => bcmp a' b' | c => c end
  end.

Fixpoint kv_insert (s : store) (k : bytes) (v : note) : store :=
  match s with
  | [] => [(k, v)]
  | (k', v') :: r => match bcmp k k' with
                     | Gt => (k', v') :: kv_insert r k v
                     | _ => (k, v) :: s
                     end
  end.
Definition kv_get (s : store) (k : bytes) : option note := aget beqb s k.
Definition kv_has (s : store) (k : bytes) : bool := match kv_get s k with Some _ => true | None => false end.
Definition kv_del (s : store) (k : bytes) : store := adel beqb s k.
Definition kv_set (s : store) (k : bytes) (v : note) : store := kv_insert (kv_del s k) k v.

Fixpoint is_prefix (p k : bytes) : bool :=
  match p, k with
  | [], _ => true
  | _ :: _, [] => false
  | x :: p', y :: k' => (x =? y)%N && is_prefix p' k'
  end.

Fixpoint count_slash (k : bytes) : nat :=
  match k with [] => O | c :: r => if (c =? slash)%N then S (count_slash r) else count_slash r end.
(* keeper/notifications.go isNotificationKey: bytes.Count(key, "/") == 2 *)
Definition is_note_key (k : bytes) : bool := Nat.eqb (count_slash k) 2.

(* ---- queries (GetAllNotificationsByAddress / GetAllNotifications / GetNotification; the grpc
   wrappers add pagination only, the harness asks for one page that holds everything) *)
Definition q_by_address (s : store) (a : bytes) : list note :=
  map snd (filter (fun e => is_prefix (a ++ [slash]) (fst e) && is_note_key (fst e)) s).
Definition q_all (s : store) : list note :=
  map snd (filter (fun e => is_note_key (fst e)) s).
Definition q_one (s : store) (to from : bytes) (t : Z) : option note := kv_get s (nkey to from t).
(* the block entries as the store has them: (owner, blocked) *)
Definition q_blocks (s : store) : list (bytes * bytes) :=
  map (fun e => (n_to (snd e), n_from (snd e))) (filter (fun e => negb (is_note_key (fst e))) s).

(* ---- messages.  A signer is the raw msg.Creator string together with the result of
   sdk.AccAddressFromBech32(raw).String() (glue: None = does not parse).  Resolution of a target by
   rns.Resolve is glue as well: None = error, Some a = address.String(). *)
Record signer := mkSigner { sg_raw : bytes; sg_canon : option bytes }.
Definition sg_name (c : signer) : bytes :=        (* "if it parses use the canonical spelling, else the raw string" *)
  match sg_canon c with Some a => a | None => sg_raw c end.

Inductive op :=
| Create (cr : signer) (target : option bytes) (now : Z) (contents priv : bytes) (json_ok : bool)
    (* now = ctx.BlockTime().UnixMicro(); json_ok = json.Valid(contents) *)
| Delete (cr : signer) (from : bytes) (time : Z)
| Block (cr : signer) (targets : list (option bytes)).

Inductive out := Ok | Fail.

Definition op_signer (o : op) : signer :=
  match o with Create c _ _ _ _ _ => c | Delete c _ _ => c | Block c _ => c end.

(* ValidateBasic of the three messages *)
Definition validate_basic (o : op) : bool :=
  match sg_canon (op_signer o) with
  | None => false
  | Some _ => match o with Create _ _ _ _ _ j => j | _ => true end
  end.

(* msg_server_create_notifications.go *)
Definition h_create (s : store) (cr : signer) (target : option bytes) (now : Z)
           (contents priv : bytes) (json_ok : bool) : store * out :=
  if negb json_ok then (s, Fail) else
  let sender := sg_name cr in
  match target with
  | None => (s, Fail)
  | Some addr =>
    if kv_has s (bkey addr sender) then (s, Fail) else
    let n := mkNote addr sender now contents priv in
    if kv_has s (nkey_of n) then (s, Fail) else
    (kv_set s (nkey_of n) n, Ok)
  end.

(* msg_server_delete_notifications.go: never fails, deletes whatever sits under owner/from/time *)
Definition h_delete (s : store) (cr : signer) (from : bytes) (t : Z) : store * out :=
  (kv_del s (nkey (sg_name cr) from t), Ok).

(* msg_server_block_senders.go: writes entry after entry, an unresolvable target aborts with the
   earlier writes in place (the transaction's cache context then drops them) *)
Definition block_entry (owner addr : bytes) : note := mkNote owner addr 0%Z [] [].
Fixpoint h_block_loop (s : store) (blocker : bytes) (targets : list (option bytes)) : store * out :=
  match targets with
  | [] => (s, Ok)
  | None :: _ => (s, Fail)
  | Some a :: r => h_block_loop (kv_set s (bkey blocker a) (block_entry blocker a)) blocker r
  end.
Definition h_block (s : store) (cr : signer) (targets : list (option bytes)) : store * out :=
  h_block_loop s (sg_name cr) targets.

Definition handler (s : store) (o : op) : store * out :=
  match o with
  | Create c t now co p j => h_create s c t now co p j
  | Delete c f t => h_delete s c f t
  | Block c ts => h_block s c ts
  end.

(* one message as baseapp runs it: ValidateBasic, handler on a cache context, write on success *)
Definition step (s : store) (o : op) : store * out :=
  if validate_basic o then
    match handler s o with
    | (s', Ok) => (s', Ok)
    | (_, Fail) => (s, Fail)
    end
  else (s, Fail).

Definition run_from (s : store) (ops : list op) : store := fold_left (fun s o => fst (step s o)) ops s.
Definition run (ops : list op) : store := run_from [] ops.

(* ================= abstract specification ================= *)
Record spec := mkSpec { sp_notes : list note; sp_blocked : list (bytes * bytes) (* (owner, sender) *) }.
Definition spec_init : spec := mkSpec [] [].
(* inbox : account -> list notification *)
Definition inbox (sp : spec) (a : bytes) : list note := filter (fun n => beqb (n_to n) a) (sp_notes sp).

Definition same_slot (to from : bytes) (t : Z) (n : note) : bool :=
  beqb (n_to n) to && beqb (n_from n) from && (n_time n =? t)%Z.
Definition is_blocked (sp : spec) (owner sender : bytes) : bool :=
  existsb (fun p => beqb (fst p) owner && beqb (snd p) sender) (sp_blocked sp).

Fixpoint all_some {A} (l : list (option A)) : option (list A) :=
  match l with
  | [] => Some []
  | None :: _ => None
  | Some a :: r => match all_some r with Some r' => Some (a :: r') | None => None end
  end.

Definition spec_step (sp : spec) (o : op) : spec * out :=
  match sg_canon (op_signer o) with
  | None => (sp, Fail)
  | Some me =>
    match o with
    | Create _ target now contents priv json_ok =>
      match target with
      | Some to =>
        if negb json_ok then (sp, Fail)
        else if is_blocked sp to me then (sp, Fail)
        else if existsb (same_slot to me now) (sp_notes sp) then (sp, Fail)
        else (mkSpec (mkNote to me now contents priv :: sp_notes sp) (sp_blocked sp), Ok)
      | None => (sp, Fail)
      end
    | Delete _ from t =>
      (mkSpec (filter (fun n => negb (same_slot me from t n)) (sp_notes sp)) (sp_blocked sp), Ok)
    | Block _ targets =>
      match all_some targets with
      | Some addrs => (mkSpec (sp_notes sp) (map (fun a => (me, a)) addrs ++ sp_blocked sp), Ok)
      | None => (sp, Fail)
      end
    end
  end.

Definition spec_run (ops : list op) : spec := fold_left (fun sp o => fst (spec_step sp o)) ops spec_init.

(* abstraction of the store *)
Definition abs (s : store) : spec := mkSpec (q_all s) (q_blocks s).
