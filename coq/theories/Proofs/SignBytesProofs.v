(* C11 — a signature belongs to one message type: if every row of the message table signs under an amino name and
   the names are pairwise different, the signed JSON of two different message types differs whatever their fields
   hold; and the bare form (no name) of two types with the same fields is the same value — the defect repaired by
   "register every storage and rns message with the amino codec". *)
From Coq Require Import List String Bool.
From JK Require Import Model.MsgTable Model.SignBytes Gen.MsgTable.
From JK Require Import Proofs.MsgTableProofs.
Import ListNotations.
Open Scope string_scope.

Lemma mem_string_in x l : mem_string x l = true <-> In x l.
Proof.
  induction l as [|y l IH]; cbn; [split; [discriminate | intros []]|].
  rewrite orb_true_iff, IH, String.eqb_eq. split; intros [H|H]; auto.
Qed.

Lemma amino_names_in t r n : In r t -> m_amino r = Some n -> In n (amino_names t).
Proof.
  induction t as [|x t IH]; cbn; [intros []|].
  intros [->|Hin] E.
  - rewrite E. left. reflexivity.
  - destruct (m_amino x); [right|]; apply IH; assumption.
Qed.

(* in a table whose names are pairwise different, two rows with the same name are the same row *)
Lemma nodup_names_same_row t : nodup_strings (amino_names t) = true ->
  forall r1 r2 n, In r1 t -> In r2 t -> m_amino r1 = Some n -> m_amino r2 = Some n -> r1 = r2.
Proof.
  induction t as [|x t IH]; cbn; [intros _ r1 r2 n []|].
  intros ND r1 r2 n H1 H2 E1 E2.
  destruct (m_amino x) as [nx|] eqn:Ex.
  - cbn in ND. apply andb_true_iff in ND. destruct ND as [NM ND]. apply negb_true_iff in NM.
    destruct H1 as [->|H1], H2 as [->|H2].
    + reflexivity.
    + exfalso. rewrite Ex in E1. injection E1 as ->.
      pose proof (amino_names_in t r2 n H2 E2) as Hn. apply mem_string_in in Hn. congruence.
    + exfalso. rewrite Ex in E2. injection E2 as ->.
      pose proof (amino_names_in t r1 n H1 E1) as Hn. apply mem_string_in in Hn. congruence.
    + exact (IH ND r1 r2 n H1 H2 E1 E2).
  - destruct H1 as [->|H1]; [congruence|]. destruct H2 as [->|H2]; [congruence|].
    exact (IH ND r1 r2 n H1 H2 E1 E2).
Qed.

Lemma sign_docs_of_different_types_differ_gen t :
  amino_table_ok t = true ->
  forall r1 r2 f1 f2, In r1 t -> In r2 t -> m_url r1 <> m_url r2 ->
    sign_doc (m_amino r1) f1 <> sign_doc (m_amino r2) f2.
Proof.
  unfold amino_table_ok. intros OK r1 r2 f1 f2 H1 H2 NE. apply andb_true_iff in OK. destruct OK as [NM ND].
  rewrite forallb_forall in NM.
  pose proof (NM r1 H1) as N1. pose proof (NM r2 H2) as N2. unfold amino_named_b in N1, N2.
  destruct (m_amino r1) as [n1|] eqn:E1; [|discriminate]. destruct (m_amino r2) as [n2|] eqn:E2; [|discriminate].
  cbn. intros EQ. injection EQ as En _. subst n2.
  apply NE. f_equal. exact (nodup_names_same_row t ND r1 r2 n1 H1 H2 E1 E2).
Qed.

(* re-proved against the table generated from the sources of THIS run *)
Lemma msg_table_amino_ok : amino_table_ok msg_table = true.
Proof. vm_compute. reflexivity. Qed.

Lemma sign_docs_of_different_types_differ_thm :
  forall r1 r2 f1 f2, In r1 msg_table -> In r2 msg_table -> m_url r1 <> m_url r2 ->
    sign_doc (m_amino r1) f1 <> sign_doc (m_amino r2) f2.
Proof. exact (sign_docs_of_different_types_differ_gen msg_table msg_table_amino_ok). Qed.

(* and the signed value determines the fields: nothing of the message is left unsigned *)
Lemma sign_doc_determines_fields a f1 f2 : sign_doc a f1 = sign_doc a f2 -> f1 = f2.
Proof. destruct a; cbn; intros H; injection H; auto. Qed.

(* the bare form does not tell two types apart: what the unrepaired tree signed for MsgAttest and for MsgReport *)
Lemma bare_sign_docs_collide :
  forall f, sign_doc None f = sign_doc None f /\
            sign_doc (Some "storage/Attest") f <> sign_doc (Some "storage/Report") f.
Proof. intros f. split; [reflexivity|]. cbn. intros H. discriminate H. Qed.
