(* Bridge between the two models of keeper/rewards.go:
     Model/StorageFiles.v  (reward_block: the walk over the stores, WHO is credited) and
     Model/Rewards.v       (manage_all / reward_all: the size tracker and the payout).
   [project] reads the input of the Rewards model off a StorageFiles state; the simulation
   theorem [bridge_tracker] says that on every state satisfying the C17 invariant the two
   walks panic together, and otherwise the size tracker Rewards.manage_all builds is exactly
   the replay of StorageFiles' credit list (one  tracker[prover] += FileSize  per credit).
   From it: the provers with a non-zero tracker entry are among the credited ones (and, for
   positive sizes without int64 wrap, exactly the credited ones), and — composed with C01 —
   an account whose balance grows in the payout has an earlier accepted valid proof. *)
From Coq Require Import ZArith NArith List Bool Lia.
From JK Require Import Base.Dec Base.AList Model.StorageFiles Proofs.StorageFilesProofs Proofs.StorageFilesSizes.
From JK Require Model.Rewards Proofs.RewardsProofs.
Import ListNotations.
Open Scope Z_scope.

Module R := JK.Model.Rewards.
Module RP := JK.Proofs.RewardsProofs.

(* ---------- the projection ---------- *)

(* Inside one file a proof key "prover/owner/merkle/start/" is determined by its prover string:
   the Rewards model names the key by that string's id.  (Rewards takes the ids to be ranks in
   Go's string order; that only fixes the ORDER of the payout loop, which no statement here
   depends on.) *)
Definition cvt (r : fproof) : R.prec := {| R.pr_prover := p_prover r; R.pr_last := p_last r |}.

(* the FileProof records stored under the listed keys *)
Fixpoint proj_recs (s : sstate) (keys : list pkey) : list (N * R.prec) :=
  match keys with
  | [] => []
  | k :: r => match get_proof s k with
              | Some p => (pk_prover k, cvt p) :: proj_recs s r
              | None => proj_recs s r
              end
  end.

Definition proj_file (s : sstate) (f : file) : R.file :=
  {| R.f_start := f_start f; R.f_interval := f_interval f; R.f_size := f_size f;
     R.f_proofs := map pk_prover (f_proofs f);
     R.f_recs := proj_recs s (f_proofs f);
     R.f_live := true |}.

(* what IterateFilesByMerkle hands to the callback: the primary index as it is when the block begins *)
Definition project (s : sstate) : list R.file := map (proj_file s) (map snd (files1 s)).

(* the size tracker a credit list stands for: sizeTracker[prover] += FileSize, oldest credit first *)
Definition size_at (s : sstate) (fk : fkey) : Z :=
  match get_file s fk with Some f => f_size f | None => 0 end.
Definition replay (sz : fkey -> Z) (cr : list (N * fkey)) : R.tracker :=
  fold_right (fun c tr => RP.bump (sz (snd c)) tr (fst c)) [] cr.

(* ---------- keys of one file ---------- *)

Lemma pk_prover_inj f k k' : pk_file k = fk1 f -> pk_file k' = fk1 f -> pk_prover k = pk_prover k' -> k = k'.
Proof. intros A B E. rewrite (pk_decompose k f A), (pk_decompose k' f B), E. reflexivity. Qed.

Lemma notin_map_prover f key l :
  (forall x, In x l -> pk_file x = fk1 f) -> pk_file key = fk1 f -> ~ In key l ->
  ~ In (pk_prover key) (map pk_prover l).
Proof.
  intros H A N C. apply in_map_iff in C as (x & E & I). apply N.
  rewrite (pk_prover_inj f key x A (H x I) (eq_sym E)). exact I.
Qed.

Lemma nodup_map_prover f : forall l, (forall x, In x l -> pk_file x = fk1 f) -> NoDup l -> NoDup (map pk_prover l).
Proof.
  induction l as [|x r IH]; intros H ND; cbn; [constructor|].
  inversion ND as [|? ? Hn Hr]; subst. constructor.
  - apply (notin_map_prover f); [intros y I; apply H; right; exact I | apply H; left; reflexivity | exact Hn].
  - apply IH; [intros y I; apply H; right; exact I | exact Hr].
Qed.

Lemma proj_recs_get s f : forall l k r,
  (forall x, In x l -> pk_file x = fk1 f) -> In k l -> get_proof s k = Some r ->
  aget N.eqb (proj_recs s l) (pk_prover k) = Some (cvt r).
Proof.
  induction l as [|x q IH]; intros k r H I G; [destruct I|].
  cbn [proj_recs]. destruct (get_proof s x) as [p|] eqn:Gx.
  - cbn [aget]. destruct (N.eqb_spec (pk_prover k) (pk_prover x)) as [E|NE].
    + assert (k = x) by (apply (pk_prover_inj f); [apply H; exact I | apply H; left; reflexivity | exact E]).
      subst x. congruence.
    + destruct I as [->|I]; [congruence|]. apply IH; [intros y Iy; apply H; right; exact Iy | exact I | exact G].
  - destruct I as [->|I]; [congruence|]. apply IH; [intros y Iy; apply H; right; exact Iy | exact I | exact G].
Qed.

Lemma proj_recs_ext s s' : forall l, (forall k, In k l -> get_proof s k = get_proof s' k) -> proj_recs s l = proj_recs s' l.
Proof.
  induction l as [|x q IH]; intros H; [reflexivity|]. cbn [proj_recs].
  rewrite (H x (or_introl eq_refl)), IH by (intros k I; apply H; right; exact I). reflexivity.
Qed.

Lemma getp_burn s p k : get_proof (StorageFiles.burn_contract s p) k = get_proof s k.
Proof. unfold StorageFiles.burn_contract. destruct (aget N.eqb (StorageFiles.burns s) p); reflexivity. Qed.

(* ---------- the two readings of the window predicates agree ---------- *)

Lemma young_same (rf : R.file) f h :
  R.f_start rf = f_start f -> R.f_interval rf = f_interval f -> R.is_young rf h = is_young f h.
Proof. intros E1 E2. unfold R.is_young, is_young. rewrite E1, E2. symmetry. apply Z.geb_leb. Qed.

Lemma proven_same (rf : R.file) f h last :
  R.f_start rf = f_start f -> R.f_interval rf = f_interval f -> R.proven_last rf h last = proven_last_block f h last.
Proof.
  intros E1 E2. unfold R.proven_last, proven_last_block, R.rounded_window, rounded_window. rewrite E1, E2.
  symmetry. apply Z.geb_leb.
Qed.

(* ---------- one manageProof call ---------- *)

Record Rel (sz : fkey -> Z) (w : walk) (ms : R.mstate) : Prop := {
  rel_start : R.f_start (R.ms_file ms) = f_start (w_file w);
  rel_interval : R.f_interval (R.ms_file ms) = f_interval (w_file w);
  rel_size : R.f_size (R.ms_file ms) = sz (fk1 (w_file w));
  rel_proofs : R.f_proofs (R.ms_file ms) = map pk_prover (f_proofs (w_file w));
  rel_recs : forall k, In k (f_proofs (w_file w)) ->
             aget N.eqb (R.f_recs (R.ms_file ms)) (pk_prover k) = option_map cvt (get_proof (w_state w) k);
  rel_tr : R.ms_tr ms = replay sz (w_credits w)
}.

Definition credit_total (sz : fkey -> Z) (cr : list (N * fkey)) : Z := RP.sumz (fun c => sz (snd c)) cr.

Lemma sim_key sz h w ms key :
  WInv w -> In key (f_proofs (w_file w)) -> Rel sz w ms ->
  match manage_proof h w key with
  | Some w' => exists ms', R.visit h ms (pk_prover key) = R.Ok ms' /\ Rel sz w' ms' /\
                 (forall k, k <> key -> get_proof (w_state w') k = get_proof (w_state w) k) /\
                 (w_credits w' = w_credits w \/ exists p, w_credits w' = (p, fk1 (w_file w)) :: w_credits w)
  | None => R.visit h ms (pk_prover key) = R.Panic
  end.
Proof.
  intros (I & G) Ik RL. destruct RL as [Es Ei Ez Ep Er Et].
  destruct (inv_file _ I _ _ G) as (ND & L & H). destruct (H key Ik) as (A & r & B & C).
  pose proof (young_same (R.ms_file ms) (w_file w) h Es Ei) as Y.
  pose proof (proven_same (R.ms_file ms) (w_file w) h (p_last r) Es Ei) as P.
  unfold manage_proof. rewrite B. rewrite andb_false_r.
  unfold R.visit. rewrite (Er key Ik), B. cbn [option_map cvt R.pr_prover R.pr_last].
  rewrite Y, P, Ei.
  destruct (f_interval (w_file w) =? 0); [reflexivity|].
  destruct (negb (proven_last_block (w_file w) h (p_last r)) && negb (is_young (w_file w) h)).
  - (* dropped and burned *)
    destruct (rpk_spec (w_state w) (w_file w) key ND) as [(N & _) | (pre & post & E & Nn & E2)]; [contradiction|].
    rewrite E2.
    assert (Hall : forall x, In x (f_proofs (w_file w)) -> pk_file x = fk1 (w_file w)) by (intros x Ix; apply (H x Ix)).
    assert (Hpre : ~ In (pk_prover key) (map pk_prover pre)).
    { apply (notin_map_prover (w_file w)); [|exact A|].
      - intros x Ix. apply Hall. rewrite E. apply in_or_app; left; exact Ix.
      - intros Cx. apply Nn. apply in_or_app; left; exact Cx. }
    assert (Hpost : ~ In (pk_prover key) (map pk_prover post)).
    { apply (notin_map_prover (w_file w)); [|exact A|].
      - intros x Ix. apply Hall. rewrite E. apply in_or_app; right; right; exact Ix.
      - intros Cx. apply Nn. apply in_or_app; right; exact Cx. }
    assert (RM : R.remove_prover (R.ms_file ms) (pk_prover key) =
                 R.Ok (R.set_proofs (R.ms_file ms) (map pk_prover (pre ++ post))
                                    (adel N.eqb (R.f_recs (R.ms_file ms)) (pk_prover key)))).
    { unfold R.remove_prover. rewrite Ep.
      rewrite RP.remove_key_nodup by (apply (nodup_map_prover (w_file w)); assumption).
      rewrite E, map_app. cbn [map]. rewrite RP.drop_key_split by assumption.
      assert (R.nmem (pk_prover key) (map pk_prover pre ++ pk_prover key :: map pk_prover post) = true) as ->
        by (apply RP.nmem_in; apply in_or_app; right; left; reflexivity).
      rewrite map_app. reflexivity. }
    rewrite RM. cbn [R.obind]. eexists. split; [reflexivity|].
    assert (GP : forall k, k <> key ->
              get_proof (StorageFiles.burn_contract (set_file (del_proof (w_state w) key) (with_plist (w_file w) (pre ++ post))) (pk_prover key)) k
              = get_proof (w_state w) k).
    { intros k Nk. rewrite getp_burn, getp_set_file, getp_del_proof, k4_neq by exact Nk. reflexivity. }
    split; [|split; [exact GP | left; reflexivity]].
    split; cbn [R.ms_file R.ms_tr w_file w_state w_credits R.set_proofs R.f_start R.f_interval R.f_size R.f_proofs R.f_recs
                f_start f_interval f_proofs with_plist]; try assumption; try reflexivity.
    + intros k Ik'.
      assert (Nk : k <> key) by (intros ->; contradiction).
      assert (Ikf : In k (f_proofs (w_file w))).
      { rewrite E. apply in_app_or in Ik' as [X|X]; apply in_or_app; [left | right; right]; exact X. }
      rewrite (aget_adel_other N.eqb RP.Neqb_spec).
      * rewrite GP by exact Nk. apply Er. exact Ikf.
      * intros Ek. apply Nk. apply (pk_prover_inj (w_file w)); [apply Hall; exact Ikf | exact A | exact Ek].
  - (* credited *)
    eexists. split; [reflexivity|]. split; [|split; [intros; reflexivity | right; eexists; reflexivity]].
    split; cbn [R.ms_file R.ms_tr w_file w_state w_credits]; try assumption.
    cbn [replay fold_right fst snd]. fold (replay sz (w_credits w)). rewrite <- Et, <- Ez. reflexivity.
Qed.

(* ---------- the loop over the copy of the list ---------- *)

Lemma sim_keys sz h : forall keys w ms,
  WInv w -> NoDup keys -> incl keys (f_proofs (w_file w)) -> Rel sz w ms ->
  match manage_proofs h w keys with
  | Some w' => exists ms', R.ofold (R.visit h) (map pk_prover keys) ms = R.Ok ms' /\ Rel sz w' ms' /\
                 (forall k, ~ In k keys -> get_proof (w_state w') k = get_proof (w_state w) k) /\
                 (0 <= sz (fk1 (w_file w)) ->
                  credit_total sz (w_credits w') <= credit_total sz (w_credits w) + sz (fk1 (w_file w)) * Z.of_nat (length keys))
  | None => R.ofold (R.visit h) (map pk_prover keys) ms = R.Panic
  end.
Proof.
  induction keys as [|k r IH]; intros w ms WI ND Inc RL; cbn [manage_proofs map R.ofold].
  - exists ms. split; [reflexivity|]. split; [exact RL|]. split; [reflexivity|]. cbn [length Z.of_nat]. lia.
  - assert (Ik : In k (f_proofs (w_file w))) by (apply Inc; left; reflexivity).
    pose proof (sim_key sz h w ms k WI Ik RL) as S1.
    destruct (manage_proof h w k) as [w1|] eqn:M1.
    + destruct S1 as (ms1 & V1 & RL1 & F1 & C1). rewrite V1. cbn [R.obind].
      pose proof (manage_proof_step h w k w1 WI Ik M1) as St.
      inversion ND as [|? ? Hn Hr]; subst.
      assert (Inc1 : incl r (f_proofs (w_file w1))).
      { intros x Ix. apply (ws_keep _ _ _ _ St); [apply Inc; right; exact Ix | intros ->; contradiction]. }
      specialize (IH w1 ms1 (ws_inv _ _ _ _ St) Hr Inc1 RL1).
      destruct (manage_proofs h w1 r) as [w'|]; [|exact IH].
      destruct IH as (ms' & V' & RL' & F' & C'). exists ms'. split; [exact V'|]. split; [exact RL'|]. split.
      * intros x Nx. rewrite F' by (intros Cx; apply Nx; right; exact Cx).
        apply F1. intros ->. apply Nx. left; reflexivity.
      * intros S0. rewrite (ws_fk _ _ _ _ St) in C'. specialize (C' S0). cbn [length]. rewrite Nat2Z.inj_succ.
        assert (credit_total sz (w_credits w1) <= credit_total sz (w_credits w) + sz (fk1 (w_file w))).
        { destruct C1 as [-> | (p & ->)]; [lia|]. unfold credit_total. cbn [RP.sumz snd]. lia. }
        lia.
    + rewrite S1. reflexivity.
Qed.

(* ---------- one file of the iteration ---------- *)

Lemma getp_remove_empty s f k :
  get_file s (fk1 f) = Some f -> f_proofs f = [] ->
  get_proof (remove_file s (f_merkle f) (f_owner f) (f_start f)) k = get_proof s k.
Proof.
  intros G E. unfold remove_file. change (f_merkle f, f_owner f, f_start f) with (fk1 f). rewrite G, E. reflexivity.
Qed.

Lemma sim_file sz h s cr f a :
  Inv s -> get_file s (fk1 f) = Some f -> sz (fk1 f) = f_size f -> R.as_tr a = replay sz cr ->
  match StorageFiles.manage_file h (s, cr) f with
  | Some (s', cr') => exists a', R.manage_one h a (proj_file s f) = R.Ok a' /\ R.as_tr a' = replay sz cr' /\
                        (forall k, pk_file k <> fk1 f -> get_proof s' k = get_proof s k) /\
                        (0 <= f_size f -> credit_total sz cr' <= credit_total sz cr + f_size f * Z.of_nat (length (f_proofs f)))
  | None => R.manage_one h a (proj_file s f) = R.Panic
  end.
Proof.
  intros I G Ez Et. unfold StorageFiles.manage_file, R.manage_one.
  destruct (f_proofs f) as [|k0 r0] eqn:EP.
  - cbn [manage_proofs w_state w_credits]. unfold proj_file. rewrite EP. cbn [map R.f_proofs].
    assert (E0 : forall g : R.file, R.f_proofs g = [] -> forall ms,
              R.ms_file ms = g -> R.manage_file h ms = R.Ok ms).
    { intros g Eg ms <-. unfold R.manage_file. rewrite Eg. reflexivity. }
    match goal with |- context [R.manage_file h ?m] => rewrite (E0 (R.ms_file m)); [|cbn [R.ms_file]; destruct (R.is_young _ h); reflexivity | reflexivity] end.
    cbn [R.obind R.ms_tr]. eexists. split; [reflexivity|]. cbn [R.as_tr]. split; [exact Et|]. split; [|cbn [length Z.of_nat]; lia].
    intros k _. destruct (negb (is_young f h)); [|reflexivity]. apply getp_remove_empty; assumption.
  - rewrite <- EP.
    assert (NE : R.f_proofs (proj_file s f) = map pk_prover (f_proofs f)) by reflexivity.
    assert (F1 : match R.f_proofs (proj_file s f) with
                 | [] => if R.is_young (proj_file s f) h then proj_file s f else R.set_dead (proj_file s f)
                 | _ :: _ => proj_file s f end = proj_file s f).
    { rewrite NE, EP. reflexivity. }
    rewrite F1. clear F1.
    destruct (inv_file s I _ _ G) as (ND & _ & H).
    set (w0 := {| w_state := s; w_file := f; w_credits := cr |}).
    set (ms0 := {| R.ms_file := proj_file s f; R.ms_tr := R.as_tr a; R.ms_burn := R.as_burn a |}).
    assert (WI : WInv w0) by (split; assumption).
    assert (RL : Rel sz w0 ms0).
    { split; cbn [R.ms_file R.ms_tr w_file w_state w_credits w0 ms0]; try reflexivity.
      - symmetry; exact Ez.
      - intros k Ik. destruct (H k Ik) as (_ & r & B & _). rewrite B. cbn [option_map].
        apply (proj_recs_get s f); [intros x Ix; apply (H x Ix) | exact Ik | exact B].
      - exact Et. }
    pose proof (sim_keys sz h (f_proofs f) w0 ms0 WI ND (incl_refl _) RL) as S.
    unfold R.manage_file. change (R.f_proofs (R.ms_file ms0)) with (map pk_prover (f_proofs f)).
    destruct (manage_proofs h w0 (f_proofs f)) as [w'|].
    + destruct S as (ms' & V & RL' & F & C). rewrite V. cbn [R.obind]. eexists. split; [reflexivity|].
      cbn [R.as_tr]. split; [apply (rel_tr _ _ _ RL')|]. split.
      * intros k Nk. apply (F k). intros Ik. apply Nk. apply (H k Ik).
      * cbn [w_file w_credits w0] in C. rewrite Ez in C. exact C.
    + rewrite S. reflexivity.
Qed.

(* ---------- all files ---------- *)

Definition slot_total (fs : list file) : Z := RP.sumz (fun f => f_size f * Z.of_nat (length (f_proofs f))) fs.

Lemma proj_file_ext s s' f : (forall k, In k (f_proofs f) -> get_proof s k = get_proof s' k) -> proj_file s f = proj_file s' f.
Proof. intros H. unfold proj_file. rewrite (proj_recs_ext s s' _ H). reflexivity. Qed.

Lemma sim_files sz h s0 : forall fs s cr a,
  Inv s -> NoDup (map fk1 fs) ->
  (forall f, In f fs -> get_file s (fk1 f) = Some f /\ sz (fk1 f) = f_size f /\
                        forall k, In k (f_proofs f) -> get_proof s k = get_proof s0 k) ->
  R.as_tr a = replay sz cr ->
  match manage_files h (s, cr) fs with
  | Some (s', cr') => exists a', R.ofold (R.manage_one h) (map (proj_file s0) fs) a = R.Ok a' /\
                        R.as_tr a' = replay sz cr' /\
                        ((forall f, In f fs -> 0 <= f_size f) -> credit_total sz cr' <= credit_total sz cr + slot_total fs)
  | None => R.ofold (R.manage_one h) (map (proj_file s0) fs) a = R.Panic
  end.
Proof.
  induction fs as [|f r IH]; intros s cr a I ND Hg Et; cbn [manage_files map R.ofold].
  - exists a. split; [reflexivity|]. split; [exact Et|]. unfold slot_total. cbn. lia.
  - destruct (Hg f (or_introl eq_refl)) as (G & Ez & Hp).
    rewrite <- (proj_file_ext s s0 f Hp).
    pose proof (sim_file sz h s cr f a I G Ez Et) as S1.
    destruct (StorageFiles.manage_file h (s, cr) f) as [[s1 cr1]|] eqn:M1.
    + destruct S1 as (a1 & V1 & Et1 & F1 & C1). rewrite V1. cbn [R.obind].
      pose proof (manage_file_done h s cr f s1 cr1 I G M1) as D.
      cbn [map] in ND. inversion ND as [|? ? Hn Hr]; subst.
      assert (Hg1 : forall g, In g r -> get_file s1 (fk1 g) = Some g /\ sz (fk1 g) = f_size g /\
                                      forall k, In k (f_proofs g) -> get_proof s1 k = get_proof s0 k).
      { intros g Ig. destruct (Hg g (or_intror Ig)) as (Gg & Ezg & Hpg).
        assert (Nk : fk1 g <> fk1 f) by (intros E; apply Hn; rewrite <- E; apply in_map; exact Ig).
        split; [rewrite (fd_frame _ _ _ _ _ D) by exact Nk; exact Gg|]. split; [exact Ezg|].
        intros k Ik. rewrite F1; [apply Hpg; exact Ik|].
        destruct (inv_file s I _ _ Gg) as (_ & _ & Hk). destruct (Hk k Ik) as (A & _). rewrite A. exact Nk. }
      specialize (IH s1 cr1 a1 (fd_inv _ _ _ _ _ D) Hr Hg1 Et1).
      destruct (manage_files h (s1, cr1) r) as [[s' cr']|]; [|exact IH].
      destruct IH as (a' & V' & Et' & C'). exists a'. split; [exact V'|]. split; [exact Et'|].
      intros S0. specialize (C1 (S0 f (or_introl eq_refl))). specialize (C' (fun g Ig => S0 g (or_intror Ig))).
      unfold slot_total in *. cbn [RP.sumz]. lia.
    + rewrite S1. reflexivity.
Qed.

(* ---------- the bridge ---------- *)

(* The two walks panic together; otherwise the tracker is the replay of the credit list. *)
Theorem bridge_tracker s h bu :
  Inv s ->
  match manage_files h (s, []) (map snd (files1 s)) with
  | Some (s', cr) => exists a, R.manage_all h (project s) bu = R.Ok a /\ R.as_tr a = replay (size_at s) cr /\
                       ((forall k f, get_file s k = Some f -> 0 <= f_size f) ->
                        credit_total (size_at s) cr <= slot_total (map snd (files1 s)))
  | None => R.manage_all h (project s) bu = R.Panic
  end.
Proof.
  intros I. destruct (snapshot_ok s I) as (ND & Hg).
  unfold R.manage_all, project.
  pose proof (sim_files (size_at s) h s (map snd (files1 s)) s [] {| R.as_done := []; R.as_total := 0; R.as_tr := []; R.as_burn := bu |} I ND) as S.
  cbn [R.as_tr replay fold_right] in S.
  assert (Hf : forall f, In f (map snd (files1 s)) ->
            get_file s (fk1 f) = Some f /\ size_at s (fk1 f) = f_size f /\
            forall k, In k (f_proofs f) -> get_proof s k = get_proof s k).
  { intros f If. pose proof (Hg f If) as G. split; [exact G|]. split; [unfold size_at; rewrite G; reflexivity|].
    reflexivity. }
  specialize (S Hf eq_refl).
  destruct (manage_files h (s, []) (map snd (files1 s))) as [[s' cr]|]; [|exact S].
  destruct S as (a & V & Et & C). exists a. split; [exact V|]. split; [exact Et|].
  intros S0. assert (C0 : forall f, In f (map snd (files1 s)) -> 0 <= f_size f) by (intros f If; apply (S0 _ _ (Hg f If))).
  specialize (C C0). unfold credit_total in C at 2. cbn [RP.sumz] in C. lia.
Qed.

Lemma manage_files_panic_iff s h bu :
  Inv s -> (manage_files h (s, []) (map snd (files1 s)) = None <-> R.manage_all h (project s) bu = R.Panic).
Proof.
  intros I. pose proof (bridge_tracker s h bu I) as B.
  destruct (manage_files h (s, []) (map snd (files1 s))) as [[s' cr]|].
  - destruct B as (a & E & _). rewrite E. split; discriminate.
  - split; [intros _; exact B | reflexivity].
Qed.

(* ---------- what a replayed tracker says about who is in the credit list ---------- *)

Lemma replay_nonzero sz : forall cr p, aval N.eqb (replay sz cr) p <> 0 -> In p (map fst cr).
Proof.
  induction cr as [|c r IH]; intros p H; cbn [replay fold_right] in H.
  - exfalso. apply H. reflexivity.
  - fold (replay sz r) in H. rewrite RP.aval_bump in H. cbn [map].
    destruct (N.eqb_spec p (fst c)) as [Ep|NE]; [left; symmetry; exact Ep | right; apply IH; exact H].
Qed.

Lemma replay_positive sz : forall cr,
  (forall c, In c cr -> 0 < sz (snd c)) -> credit_total sz cr <= int64_max ->
  forall p, 0 <= aval N.eqb (replay sz cr) p <= credit_total sz cr /\
            (In p (map fst cr) -> 0 < aval N.eqb (replay sz cr) p).
Proof.
  induction cr as [|c r IH]; intros Pos Bd p.
  - cbn. unfold aval. cbn. split; [lia | intros []].
  - unfold credit_total in *. cbn [RP.sumz] in *. cbn [replay fold_right]. fold (replay sz r).
    pose proof (Pos c (or_introl eq_refl)) as Pc.
    assert (Pr : forall c', In c' r -> 0 < sz (snd c')) by (intros c' I; apply Pos; right; exact I).
    assert (Br : RP.sumz (fun c => sz (snd c)) r <= int64_max) by lia.
    pose proof (IH Pr Br) as IHp.
    rewrite RP.aval_bump. destruct (N.eqb_spec p (fst c)) as [Ep|NE].
    + destruct (IHp (fst c)) as ((L & U) & _).
      rewrite wrap64_id by (unfold int64_min, int64_max in *; lia).
      split; [lia | intros _; lia].
    + destruct (IHp p) as ((L & U) & Q). split; [lia|].
      cbn [map]. intros [E|Ip]; [exfalso; apply NE; symmetry; exact E | apply Q; exact Ip].
Qed.

Lemma slot_total_project s : RP.total_size (project s) = slot_total (map snd (files1 s)).
Proof.
  unfold project, RP.total_size, slot_total. induction (map snd (files1 s)) as [|f r IH]; [reflexivity|].
  cbn [map RP.sumz]. rewrite IH. cbn [proj_file R.f_size R.f_proofs]. rewrite map_length. reflexivity.
Qed.

(* (a) the provers counted by the Rewards model are credited by the StorageFiles model; for positive file
   sizes whose listed total fits int64 (C03's hypothesis on the denominator) they are exactly those *)
Theorem bridge_counted_credited s h bu s' cr a :
  Inv s -> manage_files h (s, []) (map snd (files1 s)) = Some (s', cr) -> R.manage_all h (project s) bu = R.Ok a ->
  R.as_tr a = replay (size_at s) cr /\
  (forall p, aval N.eqb (R.as_tr a) p <> 0 -> In p (map fst cr)) /\
  ((forall k f, get_file s k = Some f -> 0 < f_size f) -> RP.total_size (project s) <= int64_max ->
   forall p, In p (map fst cr) <-> 0 < aval N.eqb (R.as_tr a) p).
Proof.
  intros I M A. pose proof (bridge_tracker s h bu I) as B. rewrite M in B.
  destruct B as (a0 & E & Et & C). rewrite A in E. injection E as <-.
  split; [exact Et|]. split; [intros p H; rewrite Et in H; apply (replay_nonzero _ _ _ H)|].
  intros Pos Bd p. rewrite Et.
  assert (C0 : credit_total (size_at s) cr <= slot_total (map snd (files1 s))).
  { apply C. intros k f G. pose proof (Pos k f G). lia. }
  rewrite slot_total_project in Bd.
  assert (Pc : forall c, In c cr -> 0 < size_at s (snd c)).
  { intros c Ic. destruct (snapshot_ok s I) as (ND & Hg).
    destruct (manage_files_done h _ s [] s' cr I ND Hg M) as (_ & _ & _ & Cr).
    destruct (Cr c Ic) as [[] | (f & k & If & Ik & ->)]. cbn [snd].
    pose proof (Hg f If) as G. destruct (inv_file s I _ _ G) as (_ & _ & Hk). destruct (Hk k Ik) as (Ak & _).
    rewrite Ak. unfold size_at. rewrite G. apply (Pos _ _ G). }
  destruct (replay_positive (size_at s) cr Pc ltac:(lia) p) as (_ & Q).
  split; [exact Q|]. intros H. apply (replay_nonzero (size_at s)). lia.
Qed.

(* on the states histories reach the sizes are positive (Proofs/StorageFilesSizes.v): what is left of the
   hypotheses is that the listed total fits int64 *)
Theorem bridge_counted_credited_history ops h bu s' cr a :
  let s := run init ops in
  manage_files h (s, []) (map snd (files1 s)) = Some (s', cr) -> R.manage_all h (project s) bu = R.Ok a ->
  RP.total_size (project s) <= int64_max ->
  forall p, In p (map fst cr) <-> 0 < aval N.eqb (R.as_tr a) p.
Proof.
  intros s M A Bd. destruct (bridge_counted_credited s h bu s' cr a (inv_history ops) M A) as (_ & _ & H).
  apply H; [apply sp_history | exact Bd].
Qed.

(* ---------- the payout: whose balance can grow ---------- *)

Section PayoutIncrease.
  Variable macct : N.
  Variable accts : list (N * N).

  Lemma pay_coin_mono to share b c b' x d :
    R.pay_coin macct to share b c = R.Ok b' -> x <> to -> R.bal b' x d <= R.bal b x d.
  Proof.
    unfold R.pay_coin. intros E NE.
    set (owed := dtrunc (dmul share (dec (snd c)))) in *.
    destruct (Z.ltb_spec owed 0) as [_|O0]; [discriminate|].
    destruct (Z.eqb_spec owed 0) as [_|O1]; [injection E as <-; lia|].
    destruct (owed <=? R.bal b macct (fst c)); injection E as <-; [|lia].
    rewrite !RP.bal_credit. rewrite (proj2 (N.eqb_neq x to) NE). cbn [andb].
    destruct (N.eqb x macct && N.eqb d (fst c)); lia.
  Qed.

  Lemma pay_coins_mono to share x d : x <> to -> forall coins b b',
    R.ofold (R.pay_coin macct to share) coins b = R.Ok b' -> R.bal b' x d <= R.bal b x d.
  Proof.
    intros NE. induction coins as [|c r IH]; intros b b' E; cbn [R.ofold] in E.
    - injection E as <-. lia.
    - destruct (R.pay_coin macct to share b c) as [b1|] eqn:E1; [|discriminate]. cbn [R.obind] in E.
      pose proof (pay_coin_mono _ _ _ _ _ x d E1 NE). pose proof (IH _ _ E). lia.
  Qed.

  Lemma pay_prover_increase total tr coins b p b' x d :
    R.pay_prover macct accts total tr coins b p = R.Ok b' -> R.bal b x d < R.bal b' x d ->
    0 < aval N.eqb tr p /\ aget N.eqb accts p = Some x.
  Proof.
    unfold R.pay_prover. intros E Lt.
    destruct (Z.leb_spec (aval N.eqb tr p) 0) as [_|W]; [injection E as <-; lia|].
    split; [exact W|].
    destruct (aget N.eqb accts p) as [a|]; [|injection E as <-; lia].
    destruct (N.eq_dec x a) as [->|NE]; [reflexivity|].
    pose proof (pay_coins_mono a _ x d NE _ _ _ E). lia.
  Qed.

  Lemma pay_provers_increase total tr coins x d : forall ps b b',
    R.ofold (R.pay_prover macct accts total tr coins) ps b = R.Ok b' -> R.bal b x d < R.bal b' x d ->
    exists p, In p ps /\ 0 < aval N.eqb tr p /\ aget N.eqb accts p = Some x.
  Proof.
    induction ps as [|p r IH]; intros b b' E Lt; cbn [R.ofold] in E.
    - injection E as <-. lia.
    - destruct (R.pay_prover macct accts total tr coins b p) as [b1|] eqn:E1; [|discriminate]. cbn [R.obind] in E.
      destruct (Z.lt_ge_cases (R.bal b x d) (R.bal b1 x d)) as [L1|G1].
      + exists p. split; [left; reflexivity|]. eapply pay_prover_increase; eassumption.
      + destruct (IH b1 b' E ltac:(lia)) as (q & Iq & Hq). exists q. split; [right; exact Iq | exact Hq].
  Qed.

  (* rewardAllProviders raises a balance only for an account denoted by a prover string with a positive
     tracker entry — no hypothesis on the tracker, the coins or the bank *)
  Theorem reward_all_increase total tr coins b b' x d :
    R.reward_all macct accts total tr coins b = R.Ok b' -> R.bal b x d < R.bal b' x d ->
    exists p, 0 < aval N.eqb tr p /\ aget N.eqb accts p = Some x.
  Proof.
    unfold R.reward_all. intros E Lt. destruct (total <=? 0); [injection E as <-; lia|].
    destruct (pay_provers_increase _ _ _ x d _ _ _ E Lt) as (p & _ & H). exists p. exact H.
  Qed.

  Lemma bal_pull x d : x <> macct -> forall coins b, R.bal (R.pull macct coins b) x d = R.bal b x d.
  Proof.
    intros NE. unfold R.pull. induction coins as [|c r IH]; intros b; cbn [fold_left]; [reflexivity|].
    rewrite IH, RP.bal_credit, (proj2 (N.eqb_neq x macct) NE). cbn [andb]. lia.
  Qed.
End PayoutIncrease.

(* ---------- (b) C01 composed with the payout ---------- *)

(* For every history and every height / CheckWindow: when RunRewardBlock, as computed by the Rewards
   model on the projection of the state the history reached (any burn counters, any bank, any prover-string
   -> account table, any released coins), raises the balance of an account other than the module account,
   that account is denoted by a prover string p which the StorageFiles reward block credits for some file,
   p is listed on that file, and an earlier step of the history is a PostProof by p on that file that was
   answered Success with a verifying proof. *)
Theorem paid_only_after_valid_proof ops macct accts cw h coins bu bank st' x d :
  let s := run init ops in
  R.run_reward_block macct accts cw h coins {| R.b_files := project s; R.b_burn := bu; R.b_bank := bank |} = R.Ok st' ->
  x <> macct -> R.bal bank x d < R.bal (R.b_bank st') x d ->
  exists p fk, aget N.eqb accts p = Some x /\
    In (p, fk) (StorageFiles.credited s (RewardBlock h cw)) /\ Listed s p fk /\
    exists ops1 o ops2, ops = ops1 ++ o :: ops2 /\ accepted_valid (run init ops1) o (p, fk).
Proof.
  intros s E NM Lt. pose proof (inv_history ops) as I. fold s in I.
  unfold R.run_reward_block in E. cbn [R.b_files R.b_burn R.b_bank] in E.
  destruct (cw =? 0) eqn:Ecw; [discriminate|].
  destruct (Z.rem h cw >? 0) eqn:Erem; [injection E as <-; cbn [R.b_bank] in Lt; lia|].
  destruct (R.manage_all h (project s) bu) as [a|] eqn:MA; [|discriminate]. cbn [R.obind] in E.
  destruct (R.reward_all macct accts (R.as_total a) (R.as_tr a) coins (R.pull macct coins bank)) as [b'|] eqn:RA; [|discriminate].
  cbn [R.obind] in E. injection E as <-. cbn [R.b_bank] in Lt.
  rewrite <- (bal_pull macct x d NM coins bank) in Lt.
  destruct (reward_all_increase _ _ _ _ _ _ _ x d RA Lt) as (p & W & EA).
  pose proof (bridge_tracker s h bu I) as B.
  destruct (manage_files h (s, []) (map snd (files1 s))) as [[s' cr]|] eqn:MF; [|congruence].
  destruct B as (a0 & E0 & Et & _). rewrite MA in E0. injection E0 as <-.
  assert (Ip : In p (map fst cr)) by (apply (replay_nonzero (size_at s)); rewrite <- Et; lia).
  apply in_map_iff in Ip as ([p' fk] & Ep & Ic). cbn [fst] in Ep. subst p'.
  assert (Cr : In (p, fk) (StorageFiles.credited s (RewardBlock h cw))).
  { unfold StorageFiles.credited, reward_block. rewrite Ecw, Erem, MF. exact Ic. }
  exists p, fk. split; [exact EA|]. split; [exact Cr|].
  apply (credited_only_after_valid_proof ops h cw p fk Cr).
Qed.

(* ---------- C03's well-formedness assumption is the C17 invariant, read through the projection ---------- *)

(* [RP.wf_file] (distinct keys, each with its record naming the key's prover, non-zero window) is what the
   C03 theorems assume of every file.  On a state satisfying [Inv] every projected file has it, provided
   the proof windows are non-zero (a stored file may carry ProofInterval = 0 — PostFile copies the
   ProofWindow parameter unchecked —; [Inv] does not exclude it, and a reward block over such a file with
   a listed prover panics in both models). *)
Lemma proj_file_wf s f :
  Inv s -> get_file s (fk1 f) = Some f -> f_interval f <> 0 -> RP.wf_file (proj_file s f).
Proof.
  intros I G NZ. destruct (inv_file s I _ _ G) as (ND & _ & H).
  assert (Hall : forall x, In x (f_proofs f) -> pk_file x = fk1 f) by (intros x Ix; apply (H x Ix)).
  constructor; cbn [proj_file R.f_proofs R.f_interval R.f_recs].
  - apply (nodup_map_prover f); assumption.
  - exact NZ.
  - intros k' Ik'. apply in_map_iff in Ik' as (k & <- & Ik).
    destruct (H k Ik) as (_ & r & B & C). exists (cvt r). split.
    + apply (proj_recs_get s f); assumption.
    + cbn [cvt R.pr_prover]. rewrite <- C. reflexivity.
Qed.

Theorem project_wf s :
  Inv s -> (forall k f, get_file s k = Some f -> f_interval f <> 0) -> Forall RP.wf_file (project s).
Proof.
  intros I NZ. destruct (snapshot_ok s I) as (_ & Hg). apply Forall_forall. intros rf Irf.
  unfold project in Irf. apply in_map_iff in Irf as (f & <- & If).
  pose proof (Hg f If) as G. apply proj_file_wf; [exact I | exact G | apply (NZ _ _ G)].
Qed.

(* hence, on such states, neither walk panics, and C03's closed form of the tracker describes the replay of
   StorageFiles' credit list: each prover's entry is the int64 sum of the sizes of the files on which it is
   listed and met its obligation *)
Theorem bridge_closed_form s h bu :
  Inv s -> (forall k f, get_file s k = Some f -> f_interval f <> 0) -> RP.bu_in64 bu ->
  exists s' cr a,
    manage_files h (s, []) (map snd (files1 s)) = Some (s', cr) /\
    R.manage_all h (project s) bu = R.Ok a /\ R.as_tr a = replay (size_at s) cr /\
    (forall p, aval N.eqb (replay (size_at s) cr) p = wrap64 (RP.credited h (project s) p)).
Proof.
  intros I NZ BU.
  destruct (RP.manage_all_counts h (project s) bu (project_wf s I NZ) BU) as (a & MA & _ & _ & TR & _).
  pose proof (bridge_tracker s h bu I) as B.
  destruct (manage_files h (s, []) (map snd (files1 s))) as [[s' cr]|]; [|congruence].
  destruct B as (a0 & E0 & Et & _). rewrite MA in E0. injection E0 as <-.
  exists s', cr, a. split; [reflexivity|]. split; [exact MA|]. split; [exact Et|].
  intros p. rewrite <- Et. apply TR.
Qed.
