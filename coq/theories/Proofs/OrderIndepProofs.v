(* Proofs for Model/OrderIndep.v: the lexicographic byte order is a strict total order; a sort of a
   key-duplicate-free list does not depend on the order of its input; hence the reward payout, the
   ACL serialisation, the challenge index and the provider shuffle do not depend on what a node does
   not share with its peers. *)
From Coq Require Import ZArith NArith List Bool Lia Permutation Sorting.Sorted.
From JK Require Import Base.Dec Model.OrderIndep.
Import ListNotations.

(* ------------------------------------------------------------------ the order *)
Lemma lex_cmp_refl : forall a, lex_cmp a a = Eq.
Proof. induction a as [|x a IH]; cbn; [reflexivity|]. rewrite N.compare_refl. exact IH. Qed.

Lemma lex_cmp_eq : forall a b, lex_cmp a b = Eq -> a = b.
Proof.
  induction a as [|x a IH]; destruct b as [|y b]; cbn; try discriminate; [reflexivity|].
  destruct (N.compare_spec x y) as [E|L|G]; try discriminate.
  intros H. subst. f_equal. apply IH. exact H.
Qed.

Lemma lex_cmp_antisym : forall a b, lex_cmp b a = CompOpp (lex_cmp a b).
Proof.
  induction a as [|x a IH]; destruct b as [|y b]; cbn; try reflexivity.
  rewrite (N.compare_antisym x y). destruct (N.compare x y); cbn; auto.
Qed.

Lemma lex_cmp_lt_trans : forall a b c, lex_cmp a b = Lt -> lex_cmp b c = Lt -> lex_cmp a c = Lt.
Proof.
  induction a as [|x a IH]; destruct b as [|y b]; destruct c as [|z c]; cbn; try discriminate; try reflexivity.
  destruct (N.compare_spec x y) as [E|L|G]; destruct (N.compare_spec y z) as [E'|L'|G']; try discriminate; intros H1 H2.
  - subst. rewrite N.compare_refl. eapply IH; eauto.
  - subst. apply N.compare_lt_iff in L'. rewrite L'. reflexivity.
  - subst. apply N.compare_lt_iff in L. rewrite L. reflexivity.
  - assert (x < z)%N by lia. apply N.compare_lt_iff in H. rewrite H. reflexivity.
Qed.

Theorem lex_ltb_irrefl : forall a, lex_ltb a a = false.
Proof. intros. unfold lex_ltb. rewrite lex_cmp_refl. reflexivity. Qed.

Theorem lex_ltb_trans : forall a b c, lex_ltb a b = true -> lex_ltb b c = true -> lex_ltb a c = true.
Proof.
  unfold lex_ltb. intros a b c H1 H2.
  destruct (lex_cmp a b) eqn:E1; try discriminate. destruct (lex_cmp b c) eqn:E2; try discriminate.
  rewrite (lex_cmp_lt_trans _ _ _ E1 E2). reflexivity.
Qed.

Theorem lex_ltb_asym : forall a b, lex_ltb a b = true -> lex_ltb b a = false.
Proof.
  unfold lex_ltb. intros a b H. rewrite (lex_cmp_antisym a b). destruct (lex_cmp a b); try discriminate. reflexivity.
Qed.

(* trichotomy *)
Theorem lex_ltb_total : forall a b, lex_ltb a b = false -> lex_ltb b a = false -> a = b.
Proof.
  unfold lex_ltb. intros a b H1 H2. rewrite (lex_cmp_antisym a b) in H2.
  destruct (lex_cmp a b) eqn:E; cbn in *; try discriminate. apply lex_cmp_eq. exact E.
Qed.

Lemma key_eqb_eq : forall a b, key_eqb a b = true <-> a = b.
Proof.
  unfold key_eqb. intros a b. split.
  - destruct (lex_cmp a b) eqn:E; try discriminate. intros _. apply lex_cmp_eq. exact E.
  - intros ->. rewrite lex_cmp_refl. reflexivity.
Qed.

Lemma key_eqb_refl : forall a, key_eqb a a = true.
Proof. intros. apply key_eqb_eq. reflexivity. Qed.

Lemma key_eqb_neq : forall a b, key_eqb a b = false <-> a <> b.
Proof.
  intros a b. split.
  - intros H E. apply key_eqb_eq in E. congruence.
  - intros H. destruct (key_eqb a b) eqn:E; [|reflexivity]. apply key_eqb_eq in E. contradiction.
Qed.

(* a <= b *)
Definition lex_le (a b : key) : Prop := lex_ltb b a = false.

Lemma lex_le_trans : forall a b c, lex_le a b -> lex_le b c -> lex_le a c.
Proof.
  unfold lex_le. intros a b c H1 H2. destruct (lex_ltb c a) eqn:E; [|reflexivity].
  destruct (lex_ltb a b) eqn:E2.
  - rewrite (lex_ltb_trans _ _ _ E E2) in H2. discriminate.
  - assert (a = b) by (apply lex_ltb_total; assumption). subst. congruence.
Qed.

Lemma lex_le_antisym : forall a b, lex_le a b -> lex_le b a -> a = b.
Proof. unfold lex_le. intros. apply lex_ltb_total; assumption. Qed.

Lemma lex_nlt_le : forall a b, lex_ltb a b = false -> lex_le b a.
Proof. intros. exact H. Qed.

Lemma lex_lt_le : forall a b, lex_ltb a b = true -> lex_le a b.
Proof. intros. unfold lex_le. apply lex_ltb_asym. exact H. Qed.

(* ------------------------------------------------------------------ sorting *)
Section SortFacts.
  Context {A : Type} (kf : A -> key).
  Definition le_by (a b : A) : Prop := lex_le (kf a) (kf b).
  Definition sorted_by (l : list A) : Prop := StronglySorted le_by l.

  Lemma insert_by_perm : forall x l, Permutation (insert_by kf x l) (x :: l).
  Proof.
    induction l as [|y r IH]; cbn; [apply Permutation_refl|].
    destruct (lex_ltb (kf x) (kf y)); [apply Permutation_refl|].
    eapply Permutation_trans; [apply perm_skip; exact IH|]. apply perm_swap.
  Qed.

  Lemma sort_by_perm : forall l, Permutation (sort_by kf l) l.
  Proof.
    induction l as [|x l IH]; cbn; [constructor|].
    eapply Permutation_trans; [apply insert_by_perm|]. apply perm_skip. exact IH.
  Qed.

  Lemma insert_by_sorted : forall x l, sorted_by l -> sorted_by (insert_by kf x l).
  Proof.
    induction l as [|y r IH]; cbn; intros Hs.
    - constructor; constructor.
    - inversion Hs as [|? ? Hr Hall]; subst.
      destruct (lex_ltb (kf x) (kf y)) eqn:E.
      + constructor; [exact Hs|]. constructor.
        * apply lex_lt_le. exact E.
        * eapply Forall_impl; [|exact Hall]. intros a Ha. eapply lex_le_trans; [apply lex_lt_le; exact E|exact Ha].
      + constructor; [apply IH; exact Hr|].
        eapply Permutation_Forall; [apply Permutation_sym; apply insert_by_perm|].
        constructor; [apply lex_nlt_le; exact E|exact Hall].
  Qed.

  Lemma sort_by_sorted : forall l, sorted_by (sort_by kf l).
  Proof. induction l; cbn; [constructor|apply insert_by_sorted; assumption]. Qed.

  Lemma NoDup_map_inj : forall (l : list A) a b, NoDup (map kf l) -> In a l -> In b l -> kf a = kf b -> a = b.
  Proof.
    induction l as [|x l IH]; cbn; intros a b Hnd Ha Hb E; [contradiction|].
    inversion Hnd as [|? ? Hnot Hnd']; subst.
    destruct Ha as [->|Ha]; destruct Hb as [->|Hb]; auto.
    - exfalso. apply Hnot. rewrite E. apply in_map. exact Hb.
    - exfalso. apply Hnot. rewrite <- E. apply in_map. exact Ha.
  Qed.

  (* two sorted arrangements of the same key-duplicate-free entries are the same list *)
  Lemma sorted_perm_unique : forall l1 l2,
    sorted_by l1 -> sorted_by l2 -> Permutation l1 l2 -> NoDup (map kf l1) -> l1 = l2.
  Proof.
    induction l1 as [|a r1 IH]; intros l2 S1 S2 P ND.
    - apply Permutation_nil in P. subst. reflexivity.
    - destruct l2 as [|b r2]; [apply Permutation_sym in P; apply Permutation_nil in P; discriminate|].
      inversion S1 as [|? ? S1r A1]; subst. inversion S2 as [|? ? S2r A2]; subst.
      assert (Hab : a = b).
      { assert (Ia : In a (b :: r2)) by (eapply Permutation_in; [exact P|left; reflexivity]).
        assert (Ib : In b (a :: r1)) by (eapply Permutation_in; [apply Permutation_sym; exact P|left; reflexivity]).
        destruct Ia as [->|Ia]; [reflexivity|]. destruct Ib as [->|Ib]; [reflexivity|].
        rewrite Forall_forall in A1, A2.
        apply (NoDup_map_inj (a :: r1)); auto; [left; reflexivity|right; exact Ib|].
        apply lex_le_antisym; [apply A1; exact Ib|apply A2; exact Ia]. }
      subst b. f_equal. apply IH; auto.
      + eapply Permutation_cons_inv. exact P.
      + cbn in ND. inversion ND; assumption.
  Qed.

  Theorem sort_by_order_independent : forall l1 l2,
    NoDup (map kf l1) -> Permutation l1 l2 -> sort_by kf l1 = sort_by kf l2.
  Proof.
    intros l1 l2 ND P. apply sorted_perm_unique; try apply sort_by_sorted.
    - eapply Permutation_trans; [apply sort_by_perm|]. eapply Permutation_trans; [exact P|]. apply Permutation_sym. apply sort_by_perm.
    - eapply Permutation_NoDup; [|exact ND]. apply Permutation_map. apply Permutation_sym. apply sort_by_perm.
  Qed.
End SortFacts.

(* ------------------------------------------------------------------ map lookups *)
Lemma lookup_in : forall V (d : V) (m : gomap V) k v, NoDup (map fst m) -> In (k, v) m -> lookup d m k = v.
Proof.
  unfold lookup. induction m as [|[k0 v0] r IH]; cbn; intros k v ND HI; [contradiction|].
  inversion ND as [|? ? Hnot ND']; subst.
  destruct HI as [E|HI].
  - inversion E; subst. rewrite key_eqb_refl. reflexivity.
  - destruct (key_eqb k0 k) eqn:E.
    + apply key_eqb_eq in E. subst. exfalso. apply Hnot. change k with (fst (k, v)). apply in_map. exact HI.
    + apply IH; assumption.
Qed.

Lemma lookup_notin : forall V (d : V) (m : gomap V) k, ~ In k (map fst m) -> lookup d m k = d.
Proof.
  unfold lookup. induction m as [|[k0 v0] r IH]; cbn; intros k HN; [reflexivity|].
  destruct (key_eqb k0 k) eqn:E.
  - apply key_eqb_eq in E. subst. exfalso. apply HN. left. reflexivity.
  - apply IH. intro. apply HN. right. assumption.
Qed.

Lemma lookup_order_independent : forall V (d : V) (m1 m2 : gomap V) k,
  NoDup (map fst m1) -> Permutation m1 m2 -> lookup d m1 k = lookup d m2 k.
Proof.
  intros V d m1 m2 k ND P.
  assert (ND2 : NoDup (map fst m2)) by (eapply Permutation_NoDup; [apply Permutation_map; exact P|exact ND]).
  destruct (in_dec (list_eq_dec N.eq_dec) k (map fst m1)) as [HI|HN].
  - apply in_map_iff in HI. destruct HI as [[k' v] [E HI]]. cbn in E. subst k'.
    rewrite (lookup_in _ d m1 k v ND HI).
    symmetry. apply lookup_in; [exact ND2|]. eapply Permutation_in; eauto.
  - rewrite (lookup_notin _ d m1 k HN). symmetry. apply lookup_notin.
    intro H. apply HN. eapply Permutation_in; [apply Permutation_sym; apply Permutation_map; exact P|exact H].
Qed.

(* ------------------------------------------------------------------ reward payout *)
Lemma provider_list_order_independent : forall t1 t2,
  NoDup (map fst t1) -> Permutation t1 t2 -> provider_list t1 = provider_list t2.
Proof.
  intros t1 t2 ND P. unfold provider_list. apply sort_by_order_independent.
  - rewrite map_id. exact ND.
  - apply Permutation_map. exact P.
Qed.

Theorem payout_order_independent : forall valid total coins t1 t2,
  NoDup (map fst t1) -> Permutation t1 t2 ->
  reward_sends valid total coins t1 = reward_sends valid total coins t2.
Proof.
  intros valid total coins t1 t2 ND P. unfold reward_sends.
  destruct (total <=? 0)%Z; [reflexivity|].
  rewrite (provider_list_order_independent t1 t2 ND P).
  apply flat_map_ext. intros p. unfold provider_sends.
  rewrite (lookup_order_independent Z 0%Z t1 t2 p ND P). reflexivity.
Qed.

(* recipients are paid in ascending address order, whatever the map did *)
Definition send_to (s : send) : key := match s with Send r _ _ => r end.

Lemma provider_sends_to : forall valid total coins t p s,
  In s (provider_sends valid total coins t p) -> send_to s = p.
Proof.
  unfold provider_sends. intros valid total coins t p s H.
  destruct (lookup 0%Z t p <=? 0)%Z; [contradiction|]. destruct (negb (valid p)); [contradiction|].
  apply in_map_iff in H. destruct H as [c [E _]]. subst. reflexivity.
Qed.

Lemma flat_map_sorted : forall valid total coins t (l : list key),
  StronglySorted lex_le l ->
  StronglySorted lex_le (map send_to (flat_map (provider_sends valid total coins t) l)).
Proof.
  induction l as [|p l IH]; cbn; intros HS; [constructor|].
  inversion HS as [|? ? HS' HA]; subst.
  rewrite map_app.
  assert (Hp : forall x, In x (map send_to (provider_sends valid total coins t p)) -> x = p).
  { intros x Hx. apply in_map_iff in Hx. destruct Hx as [s [E Hs]]. subst. eapply provider_sends_to; eauto. }
  assert (Hrest : Forall (lex_le p) (map send_to (flat_map (provider_sends valid total coins t) l))).
  { apply Forall_forall. intros x Hx. apply in_map_iff in Hx. destruct Hx as [s [E Hs]]. subst.
    apply in_flat_map in Hs. destruct Hs as [q [Hq Hs]]. rewrite (provider_sends_to _ _ _ _ _ _ Hs).
    rewrite Forall_forall in HA. apply HA. exact Hq. }
  specialize (IH HS').
  induction (map send_to (provider_sends valid total coins t p)) as [|x xs IHx]; cbn; [exact IH|].
  constructor.
  - apply IHx. intros y Hy. apply Hp. right. exact Hy.
  - rewrite (Hp x (or_introl eq_refl)). apply Forall_app. split.
    + apply Forall_forall. intros y Hy. rewrite (Hp y (or_intror Hy)). unfold lex_le. apply lex_ltb_irrefl.
    + exact Hrest.
Qed.

Theorem payout_in_address_order : forall valid total coins t,
  StronglySorted lex_le (map send_to (reward_sends valid total coins t)).
Proof.
  intros. unfold reward_sends. destruct (total <=? 0)%Z; [constructor|].
  apply flat_map_sorted. unfold provider_list.
  pose proof (sort_by_sorted (fun k : key => k) (map fst t)) as H. exact H.
Qed.

(* ------------------------------------------------------------------ ACL maps *)
Theorem acl_marshal_order_independent : forall m1 m2 : gomap key,
  NoDup (map fst m1) -> Permutation m1 m2 -> acl_marshal m1 = acl_marshal m2.
Proof.
  intros m1 m2 ND P. unfold acl_marshal. rewrite (sort_by_order_independent fst m1 m2 ND P). reflexivity.
Qed.

Lemma acl_set_keys : forall m k v x, In x (map fst (acl_set m k v)) <-> x = k \/ In x (map fst m).
Proof.
  induction m as [|[k0 v0] r IH]; cbn; intros k v x.
  - split; intros [H|H]; auto.
  - destruct (key_eqb k0 k) eqn:E; cbn.
    + apply key_eqb_eq in E. subst. intuition congruence.
    + rewrite IH. intuition congruence.
Qed.

Lemma acl_set_nodup : forall m k v, NoDup (map fst m) -> NoDup (map fst (acl_set m k v)).
Proof.
  induction m as [|[k0 v0] r IH]; cbn; intros k v ND.
  - constructor; [intros []|constructor].
  - inversion ND as [|? ? Hnot ND']; subst. destruct (key_eqb k0 k) eqn:E; cbn.
    + apply key_eqb_eq in E. subst. constructor; assumption.
    + constructor; [|apply IH; exact ND'].
      intro H. apply acl_set_keys in H. destruct H as [H|H]; [|contradiction].
      apply key_eqb_neq in E. congruence.
Qed.

Lemma acl_del_nodup : forall m k, NoDup (map fst m) -> NoDup (map fst (acl_del m k)).
Proof.
  unfold acl_del. induction m as [|[k0 v0] r IH]; cbn; intros k ND; [constructor|].
  inversion ND as [|? ? Hnot ND']; subst.
  destruct (negb (key_eqb k0 k)); cbn; [|apply IH; exact ND'].
  constructor; [|apply IH; exact ND'].
  intro H. apply Hnot. apply in_map_iff in H. destruct H as [e [E H]]. apply filter_In in H. destruct H as [H _].
  rewrite <- E. apply in_map. exact H.
Qed.

Lemma fold_set_nodup : forall ids_keys old, NoDup (map fst old) ->
  NoDup (map fst (fold_left (fun m e => acl_set m (fst e) (snd e)) ids_keys old)).
Proof. induction ids_keys as [|e r IH]; cbn; intros old ND; [exact ND|]. apply IH. apply acl_set_nodup. exact ND. Qed.

Lemma fold_del_nodup : forall ids old, NoDup (map fst old) -> NoDup (map fst (fold_left acl_del ids old)).
Proof. induction ids as [|e r IH]; cbn; intros old ND; [exact ND|]. apply IH. apply acl_del_nodup. exact ND. Qed.

(* whatever two runtimes do with the layout of the final map, the stored access list is the same *)
Theorem acl_add_order_independent : forall order1 order2 old ids_keys,
  (forall m, Permutation m (order1 m)) -> (forall m, Permutation m (order2 m)) ->
  NoDup (map fst old) ->
  acl_add order1 old ids_keys = acl_add order2 old ids_keys.
Proof.
  intros o1 o2 old iks H1 H2 ND. unfold acl_add.
  pose proof (fold_set_nodup iks old ND) as NDm.
  set (m := fold_left (fun m e => acl_set m (fst e) (snd e)) iks old) in *.
  apply acl_marshal_order_independent.
  - eapply Permutation_NoDup; [apply Permutation_map; apply H1|exact NDm].
  - eapply Permutation_trans; [apply Permutation_sym; apply H1|apply H2].
Qed.

Theorem acl_remove_order_independent : forall order1 order2 old ids,
  (forall m, Permutation m (order1 m)) -> (forall m, Permutation m (order2 m)) ->
  NoDup (map fst old) ->
  acl_remove order1 old ids = acl_remove order2 old ids.
Proof.
  intros o1 o2 old ids H1 H2 ND. unfold acl_remove.
  pose proof (fold_del_nodup ids old ND) as NDm.
  set (m := fold_left acl_del ids old) in *.
  apply acl_marshal_order_independent.
  - eapply Permutation_NoDup; [apply Permutation_map; apply H1|exact NDm].
  - eapply Permutation_trans; [apply Permutation_sym; apply H1|apply H2].
Qed.

(* ------------------------------------------------------------------ RNG paths and the clock *)
Theorem challenge_is_function_of_block : forall int63n e1 e2 file_size chunk_size,
  e_height e1 = e_height e2 -> e_block_gas e1 = e_block_gas e2 ->
  reset_chunk int63n e1 file_size chunk_size = reset_chunk int63n e2 file_size chunk_size.
Proof. intros f e1 e2 fs cs Hh Hg. unfold reset_chunk, rng_seed. rewrite Hh, Hg. reflexivity. Qed.

Theorem shuffle_is_function_of_block : forall int63n A e1 e2 (providers : list A),
  e_height e1 = e_height e2 ->
  randomized_providers int63n e1 providers = randomized_providers int63n e2 providers.
Proof. intros f A e1 e2 ps Hh. unfold randomized_providers, rng_seed. rewrite Hh. reflexivity. Qed.

Theorem begin_blocker_state_ignores_clock : forall S M (work : S -> S) (measure : Z -> M) e1 e2 s,
  fst (begin_blocker work measure e1 s) = fst (begin_blocker work measure e2 s).
Proof. reflexivity. Qed.

(* ------------------------------------------------------------------ the sort is what does it *)
Definition k_a : key := [97%N].   (* "a" *)
Definition k_b : key := [98%N].   (* "b" *)
Definition ujkl : key := [117; 106; 107; 108]%N.

Theorem payout_without_sort_depends_on_order :
  exists valid total coins t1 t2, NoDup (map fst t1) /\ Permutation t1 t2 /\
    reward_sends_unsorted valid total coins t1 <> reward_sends_unsorted valid total coins t2.
Proof.
  exists (fun _ => true), 3%Z, [(ujkl, 10%Z)], [(k_a, 1%Z); (k_b, 2%Z)], [(k_b, 2%Z); (k_a, 1%Z)].
  split; [|split].
  - cbn. constructor; [cbn; intros [H|[]]; discriminate|constructor; [intros []|constructor]].
  - apply perm_swap.
  - vm_compute. discriminate.
Qed.
