(* Ties by proof between storage's PostFile handler as generated from the current source (Gen/GoPrice.v:
   gen_PostFile, gen_GetStorageCostKbs) and the two models that contain it: the one-time-payment branch of
   Model/StoragePay.v (C04) and the plan branch of Model/Plan.v (C07).  The handler runs after
   MsgPostFile.ValidateBasic; failures roll the message's writes back (the events before a failure are not kept). *)
From Coq Require Import ZArith NArith List Bool String Lia.
From JK Require Import Base.Dec Base.AList Base.GoSem Gen.GoPrice.
From JK Require Model.StoragePay Model.Plan.
Import ListNotations.
Open Scope Z_scope.

Lemma wrap64_range x : int64_min <= wrap64 x <= int64_max.
Proof.
  unfold wrap64, int64_min, int64_max.
  pose proof (Z.mod_pos_bound (x + 2 ^ 63) (2 ^ 64) ltac:(lia)). lia.
Qed.

Lemma wrap_small x : int64_min <= x <= int64_max -> wrap64 x = x.
Proof. apply wrap64_id. Qed.

Lemma quot_small k w : w <> 0 -> Z.abs (Z.quot k w) <= Z.abs k.
Proof.
  intros Hw. rewrite <- Z.quot_abs by assumption.
  apply Z.quot_le_upper_bound; [lia|]. nia.
Qed.

Lemma quot_in_range a c : c <> 0 -> c <> -1 -> int64_min <= a <= int64_max -> int64_min <= Z.quot a c <= int64_max.
Proof.
  intros Hc Hc1 Ha. pose proof (quot_small a c Hc). unfold int64_min, int64_max in *.
  destruct (Z.eq_dec a (- 2 ^ 63)) as [->|]; [|lia].
  (* the only way to leave the range is MinInt64 / -1 *)
  destruct (Z.eq_dec c 1) as [->|]; [rewrite Z.quot_1_r; lia|].
  assert (Z.abs c >= 2) by lia.
  assert (Z.abs (Z.quot (- 2 ^ 63) c) <= 2 ^ 62).
  { rewrite <- Z.quot_abs by assumption. apply Z.quot_le_upper_bound; [lia|].
    change (Z.abs (- 2 ^ 63)) with (2 ^ 63). nia. }
  lia.
Qed.

Lemma i64quo_const a c : c <> 0 -> c <> -1 -> int64_min <= a <= int64_max -> i64quo a c = GVal (Z.quot a c).
Proof.
  intros Hc Hc1 Ha. unfold i64quo. destruct (Z.eqb_spec c 0); [contradiction|].
  f_equal. apply wrap_small. apply quot_in_range; assumption.
Qed.

(* ---------------- GetStorageCostKbs ---------------- *)
Lemma gen_GetStorageCostKbs_model ppt jkl kbs hours :
  gen_GetStorageCostKbs ppt jkl kbs hours = of_option (StoragePay.storage_cost_kbs ppt jkl kbs hours).
Proof.
  unfold gen_GetStorageCostKbs, gen_GetStorageCostKbsWithPrice, StoragePay.storage_cost_kbs, gdec_quo_int64, gdec_quo.
  cbn [Z.eqb gbind]. destruct (jkl =? 0); reflexivity.
Qed.

(* ---------------- PostFile ---------------- *)

Definition post_prefix (size maxp expires window : Z) : list gev :=
  [Ev "remove-file-under-this-key" []; Ev "set-file" [size; maxp; expires; window]].

(* the arithmetic of the one-time-payment branch, as Model/StoragePay.v has it *)
Definition payonce_kbs (size maxp : Z) : Z :=
  let kbs0 := Z.quot (wrap64 (size * maxp)) 1000 in if kbs0 <? 1024 then 1024 else kbs0.
Definition payonce_hours (expires h : Z) : Z := Z.quot (Z.quot (wrap64 (wrap64 (expires - h) * 6)) 60) 60.

Definition payonce_events (window h size maxp expires ppt jkl refc polr : Z)
           (creator_ok gauge_acc_ok ok_charge ok_fund : bool) : gres (list gev * bool) :=
  let pre := post_prefix size maxp expires window in
  let hours := payonce_hours expires h in
  if Z.quot hours 24 <=? 0 then GVal (pre, false) else
  match StoragePay.storage_cost_kbs ppt jkl (payonce_kbs size maxp) hours with
  | None => GPanic
  | Some cost =>
    if cost <? 0 then GPanic else
    let spr := dec 1 - dquo_int (dec refc) 100 - dquo_int (dec polr) 100 in
    let spc := dtrunc (dmul (dec cost) spr) in
    if spc <? 0 then GPanic else
    let e1 := pre ++ [Ev "new-gauge" [spc]] in
    if negb creator_ok then GVal (e1, false) else
    if negb gauge_acc_ok then GVal (e1, false) else
    let e2 := e1 ++ [Ev "charge-creator" [cost]] in
    if negb ok_charge then GVal (e2, false) else
    let e3 := e2 ++ [Ev "fund-gauge" [spc]] in
    GVal (e3, ok_fund)
  end.

Definition plan_events (window size maxp expires : Z) (found plan_over : bool) (avail used : Z) : list gev * bool :=
  let pre := post_prefix size maxp expires window in
  let total := wrap64 (size * maxp) in
  if negb found then (pre, false)
  else if plan_over then (pre, false)
  else if wrap64 (avail - used) <? total then (pre, false)
  else (pre ++ [Ev "plan-used-add" [total]; Ev "set-plan" []], true).

Theorem gen_PostFile_spec note_ok window h size maxp expires ppt jkl refc polr
        creator_ok gauge_acc_ok ok_charge ok_fund found plan_over avail used :
  gen_PostFile note_ok window h size maxp expires ppt jkl refc polr creator_ok gauge_acc_ok ok_charge ok_fund
               found plan_over avail used
  = if negb note_ok then GVal ([], false)
    else if 0 <? expires
         then payonce_events window h size maxp expires ppt jkl refc polr creator_ok gauge_acc_ok ok_charge ok_fund
         else GVal (plan_events window size maxp expires found plan_over avail used).
Proof.
  unfold gen_PostFile. destruct note_ok; cbn [negb]; [|reflexivity].
  cbn [app]. unfold i64mul, i64sub.
  destruct (0 <? expires).
  - (* one-time payment *)
    unfold payonce_events, payonce_kbs, payonce_hours, post_prefix. cbv zeta.
    pose proof (wrap64_range (size * maxp)) as R1.
    rewrite (i64quo_const (wrap64 (size * maxp)) 1000) by (lia || assumption). cbn [gbind].
    pose proof (wrap64_range (wrap64 (expires - h) * 6)) as R2.
    assert (R3 : int64_min <= Z.quot (wrap64 (wrap64 (expires - h) * 6)) 60 <= int64_max).
    { apply quot_in_range; [lia|lia|assumption]. }
    assert (R4 : int64_min <= Z.quot (Z.quot (wrap64 (wrap64 (expires - h) * 6)) 60) 60 <= int64_max).
    { apply quot_in_range; [lia|lia|assumption]. }
    destruct (Z.quot (wrap64 (size * maxp)) 1000 <? 1024);
      rewrite (i64quo_const (wrap64 (wrap64 (expires - h) * 6)) 60) by (lia || assumption); cbn [gbind];
      rewrite (i64quo_const _ 60 ltac:(lia) ltac:(lia) R3); cbn [gbind];
      rewrite (i64quo_const _ 24 ltac:(lia) ltac:(lia) R4); cbn [gbind];
      (destruct (Z.quot _ 24 <=? 0); [reflexivity|]);
      rewrite gen_GetStorageCostKbs_model;
      (destruct (StoragePay.storage_cost_kbs _ _ _ _) as [cost|]; [|reflexivity]); cbn [of_option gbind];
      unfold gcoin64, gdec_quo_int64; (destruct (cost <? 0); [reflexivity|]); cbn [Z.eqb gbind];
      (destruct (dtrunc _ <? 0); [reflexivity|]); cbn [gbind app];
      destruct creator_ok; cbn [negb]; try reflexivity;
      destruct gauge_acc_ok; cbn [negb]; try reflexivity;
      destruct ok_charge; cbn [negb]; try reflexivity;
      destruct ok_fund; reflexivity.
  - (* against the plan *)
    unfold plan_events, post_prefix. cbv zeta.
    destruct found; cbn [negb]; [|reflexivity].
    destruct plan_over; [reflexivity|].
    destruct (wrap64 (avail - used) <? wrap64 (size * maxp)); reflexivity.
Qed.

(* ================= the models are interpretations of those events ================= *)
Module SP := Model.StoragePay.
Module PL := Model.Plan.

Definition is_some {A} (o : option A) : bool := match o with Some _ => true | None => false end.

(* ---- Model/StoragePay.v (C04): the one-time-payment branch.  The model's bank answers the two transfers. *)
Theorem storagepay_post_file_is_the_interpretation e m s :
  0 < SP.pm_size m -> 0 < SP.pm_maxproofs m -> SP.pm_size m <= Z.quot int64_max (SP.pm_maxproofs m) ->
  SP.pm_note_ok m = true -> 0 < SP.pm_expires m -> SP.pm_end_ok m = true ->
  forall window,
  let cost := match SP.storage_cost_kbs (SP.e_ppt e) (SP.e_jkl e) (payonce_kbs (SP.pm_size m) (SP.pm_maxproofs m))
                      (payonce_hours (SP.pm_expires m) (SP.e_height e)) with Some c => c | None => 0 end in
  let spc := dtrunc (dmul (dec cost) (dec 1 - dquo_int (dec (SP.e_refc e)) 100 - dquo_int (dec (SP.e_pol e)) 100)) in
  let payer := SP.AUser (SP.pm_payer m) in
  let k : SP.gkey := (SP.e_height e, SP.pm_end_us m, spc) in
  let b1 := SP.send (SP.s_bank s) payer SP.AMod cost in
  let b2 := match b1 with Some b => SP.send b SP.AMod (SP.escrow k) spc | None => None end in
  SP.post_file e m s
  = Some (match payonce_events window (SP.e_height e) (SP.pm_size m) (SP.pm_maxproofs m) (SP.pm_expires m)
                  (SP.e_ppt e) (SP.e_jkl e) (SP.e_refc e) (SP.e_pol e) true true (is_some b1) (is_some b2) with
          | GPanic => (SP.Panic, s)
          | GVal (_, false) => (SP.Fail, s)
          | GVal (_, true) =>
              match b2 with
              | Some b => (SP.Ok, {| SP.s_bank := b; SP.s_gauges := SP.new_gauge (SP.s_gauges s) k spc; SP.s_plans := SP.s_plans s |})
              | None => (SP.Fail, s)
              end
          end).
Proof.
  intros H1 H2 H3 Hn He Hend window. cbv zeta.
  unfold SP.post_file, payonce_events, payonce_kbs, payonce_hours. rewrite Hn, Hend. cbn [negb orb].
  destruct (Z.leb_spec (SP.pm_size m) 0); [lia|]. destruct (Z.leb_spec (SP.pm_maxproofs m) 0); [lia|]. cbn [orb].
  destruct (Z.ltb_spec (Z.quot int64_max (SP.pm_maxproofs m)) (SP.pm_size m)); [lia|].
  destruct (Z.leb_spec (SP.pm_expires m) 0); [lia|]. cbv zeta.
  destruct (Z.quot _ 24 <=? 0); [reflexivity|].
  destruct (SP.storage_cost_kbs _ _ _ _) as [cost|]; [|reflexivity].
  destruct (cost <? 0); [reflexivity|].
  destruct (dtrunc _ <? 0); [reflexivity|]. cbn [negb].
  destruct (SP.send (SP.s_bank s) (SP.AUser (SP.pm_payer m)) SP.AMod cost) as [b1|]; cbn [is_some negb]; [|reflexivity].
  destruct (SP.send b1 SP.AMod _ _) as [b2|]; reflexivity.
Qed.

(* ---- Model/Plan.v (C07): the plan branch.  The plan is read after the file under the same key was released. *)
Theorem plan_post_file_is_the_interpretation s h now window m :
  0 < PL.pm_size m -> 0 < PL.pm_maxp m -> PL.pm_size m <= Z.quot int64_max (PL.pm_maxp m) ->
  PL.pm_expires m <= 0 ->
  let key : PL.fkey := (PL.pm_merkle m, PL.pm_creator m, h) in
  let s1 := PL.remove_file s key in
  let f := {| PL.f_size := PL.pm_size m; PL.f_maxp := PL.pm_maxp m; PL.f_expires := PL.pm_expires m;
              PL.f_pi := window; PL.f_provers := 0 |} in
  let s2 := {| PL.plans := PL.plans s1; PL.files := aset PL.fkey_eqb (PL.files s1) key f |} in
  let p := PL.get_plan s2 (PL.pm_creator m) in
  let avail := match p with Some q => PL.p_avail q | None => 0 end in
  let used := match p with Some q => PL.p_used q | None => 0 end in
  let over := match p with Some q => PL.p_end q <? now | None => false end in
  PL.post_file s h now window m
  = if negb (PL.pm_note_ok m) then (s, PL.PlFail)
    else match plan_events window (PL.pm_size m) (PL.pm_maxp m) (PL.pm_expires m) (is_some p) over avail used, p with
         | (_, true), Some q =>
             (PL.set_plan s2 (PL.pm_creator m) (PL.with_used q (wrap64 (PL.p_used q + wrap64 (PL.pm_size m * PL.pm_maxp m)))), PL.PlOk)
         | _, _ => (s, PL.PlFail)
         end.
Proof.
  intros H1 H2 H3 He. cbv zeta. unfold PL.post_file, plan_events.
  destruct (Z.leb_spec (PL.pm_size m) 0); [lia|]. destruct (Z.leb_spec (PL.pm_maxp m) 0); [lia|].
  rewrite Z.gtb_ltb. destruct (Z.ltb_spec (Z.quot int64_max (PL.pm_maxp m)) (PL.pm_size m)); [lia|].
  destruct (PL.pm_note_ok m); cbn [negb]; [|reflexivity].
  rewrite Z.gtb_ltb. destruct (Z.ltb_spec 0 (PL.pm_expires m)); [lia|]. cbv zeta.
  destruct (PL.get_plan _ (PL.pm_creator m)) as [q|]; cbn [is_some negb]; [|reflexivity].
  destruct (PL.p_end q <? now); [reflexivity|].
  rewrite Z.gtb_ltb. destruct (wrap64 (PL.p_avail q - PL.p_used q) <? wrap64 (PL.pm_size m * PL.pm_maxp m)); reflexivity.
Qed.

(* ---------------- RemoveFile (C07): the footprint of a plan-paid file goes back to the plan that paid for it ---------------- *)
Lemma gen_RemoveFile_spec file_found expires size maxp plan_found used start :
  gen_RemoveFile file_found expires size maxp plan_found used start
  = GVal (if file_found
          then [Ev "remove-proof-records" []]
                 ++ (if (expires <=? 0) && plan_found
                     then [Ev "set-plan-used" [let u := wrap64 (used - wrap64 (size * maxp)) in if u <? 0 then 0 else u]] else [])
                 ++ [Ev "remove-file-primary" []; Ev "remove-file-secondary" []]
          else []).
Proof.
  unfold gen_RemoveFile, i64sub, i64mul. destruct file_found; cbn [negb]; [|reflexivity].
  destruct (expires <=? 0); cbn [andb gbind app]; [|reflexivity].
  destruct plan_found; cbn [gbind app]; [|reflexivity].
  destruct (wrap64 (used - wrap64 (size * maxp)) <? 0); reflexivity.
Qed.

Theorem plan_remove_file_is_the_interpretation s k :
  let f := PL.get_file s k in
  let p := PL.get_plan s (PL.k_owner k) in
  PL.remove_file s k
  = match gen_RemoveFile (is_some f) (match f with Some x => PL.f_expires x | None => 0 end)
            (match f with Some x => PL.f_size x | None => 0 end) (match f with Some x => PL.f_maxp x | None => 0 end)
            (is_some p) (match p with Some q => PL.p_used q | None => 0 end) (PL.k_start k) with
    | GVal [] => s
    | GVal [_; Ev _ [u]; _; _] =>
        match p with
        | Some q => {| PL.plans := PL.plans (PL.set_plan s (PL.k_owner k) (PL.with_used q u)); PL.files := adel PL.fkey_eqb (PL.files s) k |}
        | None => s
        end
    | GVal _ => {| PL.plans := PL.plans s; PL.files := adel PL.fkey_eqb (PL.files s) k |}
    | GPanic => s
    end.
Proof.
  cbv zeta. rewrite gen_RemoveFile_spec. unfold PL.remove_file, PL.plan_paid, PL.footprint.
  destruct (PL.get_file s k) as [f|]; cbn [is_some]; [|reflexivity].
  destruct (PL.f_expires f <=? 0); cbn [andb app].
  - destruct (PL.get_plan s (PL.k_owner k)) as [q|]; cbn [is_some app]; reflexivity.
  - reflexivity.
Qed.
