(* The whole reward block (property C03): run_reward_block = height test, the loop over the
   files, the credit of the released coins to the module account, the payout — composed from
   the lemmas of RewardsProofs.v into one statement about the top-level function. *)
From Coq Require Import ZArith NArith List Bool Lia.
From JK Require Import Base.Dec Base.AList Model.Rewards Proofs.RewardsProofs.
Import ListNotations.
Open Scope Z_scope.

(* ================= the credit of the released coins ================= *)

(* what a coin list holds of denomination d (all its entries added up) *)
Definition relof (coins : list (N * Z)) (d : N) : Z :=
  sumz (fun c => if N.eqb d (fst c) then snd c else 0) coins.

Lemma bal_pull macct : forall coins b x d,
  bal (pull macct coins b) x d = bal b x d + (if N.eqb x macct then relof coins d else 0).
Proof.
  unfold pull. induction coins as [|[d0 C0] r IH]; intros b x d; cbn [fold_left].
  - unfold relof. cbn. destruct (N.eqb x macct); lia.
  - rewrite IH. cbn [fst snd]. rewrite bal_credit. unfold relof. cbn [sumz fst snd].
    destruct (N.eqb x macct), (N.eqb d d0); cbn; lia.
Qed.

Lemma relof_notin coins d : ~ In d (akeys coins) -> relof coins d = 0.
Proof.
  intros NI. unfold relof. apply sumz_zero. intros [d' C] I. cbn [fst snd].
  destruct (N.eqb_spec d d') as [->|_]; [|reflexivity].
  exfalso. apply NI. change d' with (fst (d', C)). apply in_map. exact I.
Qed.

Lemma relof_in coins d C : NoDup (akeys coins) -> In (d, C) coins -> relof coins d = C.
Proof.
  induction coins as [|[d' C'] r IH]; intros ND I; [destruct I|].
  inversion ND as [|? ? NI NDr]; subst. unfold relof. cbn [sumz fst snd]. destruct I as [[= -> ->]|I].
  - rewrite N.eqb_refl. fold (relof r d). rewrite relof_notin by exact NI. lia.
  - destruct (N.eqb_spec d d') as [->|_].
    + exfalso. apply NI. change d' with (fst (d', C)). apply in_map. exact I.
    + fold (relof r d). rewrite IH by assumption. lia.
Qed.

Lemma aval_nonzero_in (tr : tracker) p : aval N.eqb tr p <> 0 -> In p (akeys tr).
Proof.
  intros H. destruct (in_dec N.eq_dec p (akeys tr)) as [I|NI]; [exact I|].
  exfalso. apply H. unfold aval. rewrite (proj2 (aget_none_notin N.eqb Neqb_spec tr p) NI). reflexivity.
Qed.

(* ================= a file before and after the block ================= *)

Definition file_after (h : Z) (f f' : file) : Prop :=
  (* the prover list keeps exactly the slots that met their obligation, in order *)
  f_proofs f' = filter (ok_slot h f) (f_proofs f) /\
  f_start f' = f_start f /\ f_interval f' = f_interval f /\ f_size f' = f_size f /\
  (* removeFileIfDeserved: a file that entered the block without provers, past its first window *)
  f_live f' = (match f_proofs f with [] => is_young f h && f_live f | _ => f_live f end) /\
  (* the proof records of the dropped slots are deleted, the others untouched *)
  (forall k, aget N.eqb (f_recs f') k =
             if nmem k (f_proofs f) && negb (ok_slot h f k) then None else aget N.eqb (f_recs f) k).

Lemma post_file_after h f : wf_file f -> file_after h f (post_file h f).
Proof.
  intros WF. unfold file_after, post_file.
  split; [reflexivity|].
  assert (FLD : forall g : file -> Z, (g = f_start \/ g = f_interval \/ g = f_size) ->
            g (match f_proofs f with [] => if is_young f h then f else set_dead f | _ => f end) = g f).
  { intros g Hg. destruct (f_proofs f); [|reflexivity]. destruct (is_young f h); [reflexivity|].
    destruct Hg as [->|[->| ->]]; reflexivity. }
  split; [cbn [f_start set_proofs]; apply (FLD f_start); auto|].
  split; [cbn [f_interval set_proofs]; apply (FLD f_interval); auto|].
  split; [cbn [f_size set_proofs]; apply (FLD f_size); auto|].
  split.
  - cbn [f_live set_proofs]. destruct (f_proofs f); [|reflexivity]. destruct (is_young f h); reflexivity.
  - intros k. cbn [f_recs set_proofs]. rewrite recs_spec_char.
    destruct (nmem k (f_proofs f)) eqn:M; [|reflexivity]. apply nmem_in in M.
    rewrite (verdict_wf h f k WF M). destruct (ok_slot h f k); reflexivity.
Qed.

Lemma files_after h files : Forall wf_file files -> Forall2 (file_after h) files (map (post_file h) files).
Proof.
  induction 1 as [|f r WF _ IH]; cbn [map]; constructor; [apply post_file_after; exact WF | exact IH].
Qed.

(* ================= the block ================= *)

Lemma total_size_nonneg files : Forall (fun f => 0 <= f_size f) files -> 0 <= total_size files.
Proof. intros S0. pose proof (credited_range 0 files 0%N S0). lia. Qed.

(* what the block does to the balances, with w p the bytes credited to prover p in this block
   and T the block's denominator *)
Definition bank_after (macct : N) (accts : list (N * N)) (coins : list (N * Z)) (w : N -> Z) (T : Z)
           (b b' : bank) : Prop :=
  (* a counted prover, whose account no other counted prover denotes, receives per released
     denomination trunc(Quo(w, T) * C), once *)
  (forall p a d C, 0 < w p -> aget N.eqb accts p = Some a ->
     (forall q, q <> p -> aget N.eqb accts q = Some a -> w q <= 0) ->
     In (d, C) coins ->
     let pay := bal b' a d - bal b a d in
     pay = owed (w p) T C /\ 0 <= pay /\
     P18 * T * pay <= P18 * (w p * C) + T * C /\
     P18 * (w p * C) - T * C < P18 * T * (pay + 1) /\
     (C <= P18 -> (w p * C) / T - 1 <= pay <= (w p * C) / T + 1)) /\
  (* every other account except the module account: nothing, in any denomination *)
  (forall x d, x <> macct -> (forall p, aget N.eqb accts p = Some x -> w p <= 0) ->
     bal b' x d = bal b x d) /\
  (* no balance moves in a denomination that was not released *)
  (forall x d, ~ In d (akeys coins) -> bal b' x d = bal b x d) /\
  (* any set of accounts other than the module account receives at most the release *)
  (forall xs d C, NoDup xs -> ~ In macct xs -> In (d, C) coins ->
     sumz (fun x => bal b' x d - bal b x d) xs <= C) /\
  (* the module account keeps the rest of the release *)
  (forall d C, In (d, C) coins -> bal b macct d <= bal b' macct d <= bal b macct d + C).

Theorem reward_block_spec macct accts cw h coins s :
  cw <> 0 ->
  Forall wf_file (b_files s) -> bu_in64 (b_burn s) ->
  Forall (fun f => 0 <= f_size f) (b_files s) ->
  total_size (b_files s) <= int64_max ->
  NoDup (akeys coins) -> (forall d C, In (d, C) coins -> 0 <= C) ->
  (forall d C, In (d, C) coins -> Z.of_nat (slots (b_files s)) * C < 2 * P18) ->
  (forall d, In d (akeys coins) -> 0 <= bal (b_bank s) macct d) ->
  (forall p x, aget N.eqb accts p = Some x -> x <> macct) ->
  (0 < Z.rem h cw -> run_reward_block macct accts cw h coins s = Ok s) /\
  (Z.rem h cw <= 0 ->
   exists s', run_reward_block macct accts cw h coins s = Ok s' /\
     Forall2 (file_after h) (b_files s) (b_files s') /\
     (forall q, aget N.eqb (b_burn s') q =
                option_map (fun b => wrap64 (b + failed h (b_files s) q)) (aget N.eqb (b_burn s) q)) /\
     bank_after macct accts coins (credited h (b_files s)) (total_size (b_files s)) (b_bank s) (b_bank s')).
Proof.
  intros CW WF RB S0 TM CN CP SIDE MOD ACC.
  set (files := b_files s) in *. set (T := total_size files) in *.
  split.
  - intros NR. unfold run_reward_block. destruct (Z.eqb_spec cw 0) as [|_]; [contradiction|].
    destruct (Z.gtb_spec (Z.rem h cw) 0); [reflexivity | lia].
  - intros R. unfold run_reward_block. destruct (Z.eqb_spec cw 0) as [|_]; [contradiction|].
    destruct (Z.gtb_spec (Z.rem h cw) 0) as [|_]; [lia|].
    destruct (manage_all_counts h files (b_burn s) WF RB) as [a [EA [ED [ET [ETR EBU]]]]].
    fold files. rewrite EA. cbn [obind].
    pose proof (total_size_nonneg files S0) as T0. fold T in T0.
    set (b0 := pull macct coins (b_bank s)).
    assert (B0 : forall x d, bal b0 x d = bal (b_bank s) x d + (if N.eqb x macct then relof coins d else 0))
      by (intros; apply bal_pull).
    assert (B0n : forall x d, x <> macct -> bal b0 x d = bal (b_bank s) x d).
    { intros x d NE. rewrite B0. rewrite (proj2 (N.eqb_neq x macct) NE). lia. }
    assert (BANK : exists b', reward_all macct accts (as_total a) (as_tr a) coins b0 = Ok b' /\
                     bank_after macct accts coins (credited h files) T (b_bank s) b').
    { destruct (Z.eq_dec T 0) as [TZ|TNZ].
      - (* nothing is stored: the release stays in the module account *)
        exists b0. split.
        { unfold reward_all. rewrite ET. fold T. rewrite TZ. reflexivity. }
        assert (W0 : forall p, credited h files p = 0).
        { intros p. pose proof (credited_range h files p S0). fold T in H. lia. }
        unfold bank_after. split; [|split; [|split; [|split]]].
        + intros p a0 d C Wp. rewrite W0 in Wp. lia.
        + intros x d NE _. apply B0n. exact NE.
        + intros x d NI. rewrite B0, relof_notin by exact NI. destruct (N.eqb x macct); lia.
        + intros xs d C ND NM IC. rewrite sumz_zero; [eapply CP; eassumption|].
          intros x I. rewrite B0n; [lia|]. intros ->. contradiction.
        + intros d C IC. rewrite B0, N.eqb_refl, (relof_in coins d C CN IC). pose proof (CP d C IC). lia.
      - assert (TP : 0 < T) by lia.
        assert (MOD' : forall d C, In (d, C) coins -> C <= bal b0 macct d).
        { intros d C IC. rewrite B0, N.eqb_refl, (relof_in coins d C CN IC).
          assert (In d (akeys coins)) by (change d with (fst (d, C)); apply in_map; exact IC).
          pose proof (MOD d H). lia. }
        destruct (block_tracker_good macct accts h files (b_burn s) coins b0 a WF RB S0 (conj TP TM) CN CP SIDE MOD' ACC EA)
          as [ET' [EV G]]. fold T in ET', G.
        destruct (reward_all_exact _ _ _ _ _ _ G) as [b' [RUN [BAL SUM]]].
        exists b'. split; [rewrite ET'; exact RUN|].
        unfold bank_after. split; [|split; [|split; [|split]]].
        + intros p a0 d C Wp EAc INJ IC. cbv zeta.
          assert (NA : a0 <> macct) by (eapply ACC; eassumption).
          assert (Wp' : 0 < aval N.eqb (as_tr a) p) by (rewrite EV; exact Wp).
          assert (Ik : In p (akeys (as_tr a))) by (apply aval_nonzero_in; lia).
          assert (INJ' : forall q, In q (akeys (as_tr a)) -> q <> p -> aget N.eqb accts q = Some a0 ->
                                   aval N.eqb (as_tr a) q <= 0).
          { intros q _ NE EQ. rewrite EV. apply INJ; assumption. }
          pose proof (payout_share_bounds macct accts T (as_tr a) coins b0 b' p a0 d C G RUN Ik Wp' EAc INJ' IC) as PS.
          cbv zeta in PS. rewrite EV, (B0n a0 d NA) in PS. destruct PS as [E [U L]].
          pose proof (CP d C IC) as C0.
          split; [exact E|]. split; [rewrite E; apply owed_bounds; assumption|].
          split; [exact U|]. split; [exact L|].
          intros CP18. rewrite E. apply owed_within_one; try assumption. lia.
        + intros x d NE UN. rewrite <- (B0n x d NE).
          apply (payout_uncounted macct accts T (as_tr a) coins b0 b' G RUN x d NE).
          intros p _ EQ. rewrite EV. apply UN. exact EQ.
        + intros x d NI. rewrite (payout_other_denom macct accts T (as_tr a) coins b0 b' G RUN x d NI).
          rewrite B0, relof_notin by exact NI. destruct (N.eqb x macct); lia.
        + intros xs d C ND NM IC.
          rewrite (sumz_ext_in _ (fun x => bal b' x d - bal b0 x d) xs).
          * apply (payout_sum_le macct accts T (as_tr a) coins b0 b' G RUN xs d C ND NM IC).
          * intros x I. rewrite B0n; [reflexivity|]. intros ->. contradiction.
        + intros d C IC. rewrite BAL, N.eqb_refl, B0, N.eqb_refl, (relof_in coins d C CN IC).
          rewrite (sumz_zero (fun p => recv accts T (as_tr a) coins macct p d)).
          * pose proof (SUM d C IC).
            pose proof (sumz_nonneg (fun p => po accts T (as_tr a) coins p d) (akeys (as_tr a))
                          (fun q => po_nonneg accts T (as_tr a) coins TP CP q d)). lia.
          * intros p _. unfold recv. destruct (aget N.eqb accts p) as [x|] eqn:EQ; [|reflexivity].
            destruct (N.eqb_spec x macct) as [->|_]; [|reflexivity].
            exfalso. exact (ACC p macct EQ eq_refl). }
    destruct BANK as [b' [RUN BK]]. rewrite RUN. cbn [obind].
    eexists. split; [reflexivity|]. cbn [b_files b_burn b_bank].
    split; [rewrite ED; apply files_after; exact WF|].
    split; [exact EBU | exact BK].
Qed.
