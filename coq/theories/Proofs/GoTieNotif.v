(* Tie by proof between CreateNotification as generated from the current source (Gen/GoNotif.v) and the model of
   C18 (Model/Notifications.v): a notification is stored only for valid contents, a recipient that resolves, a sender
   the recipient has not blocked, and a free to/from/time slot. *)
From Coq Require Import ZArith NArith List Bool String Lia.
From JK Require Import Base.Bytes Base.GoSem Gen.GoNotif Model.Notifications.
Import ListNotations.
Open Scope Z_scope.

Lemma gen_CreateNotification_spec json_ok resolve_ok blocked slot_taken :
  gen_CreateNotification json_ok resolve_ok blocked slot_taken
  = if json_ok && resolve_ok && negb blocked && negb slot_taken
    then GVal ([Ev "store-notification" []], true) else GVal ([], false).
Proof. unfold gen_CreateNotification. destruct json_ok, resolve_ok, blocked, slot_taken; reflexivity. Qed.

Theorem h_create_is_the_interpretation s cr target now contents priv json_ok :
  let sender := sg_name cr in
  let n := match target with Some addr => mkNote addr sender now contents priv | None => mkNote [] sender now contents priv end in
  h_create s cr target now contents priv json_ok
  = match gen_CreateNotification json_ok (match target with Some _ => true | None => false end)
            (match target with Some addr => kv_has s (bkey addr sender) | None => false end)
            (kv_has s (nkey_of n)) with
    | GVal (_, true) => (kv_set s (nkey_of n) n, Ok)
    | _ => (s, Fail)
    end.
Proof.
  cbv zeta. rewrite gen_CreateNotification_spec. unfold h_create.
  destruct json_ok; cbn [negb andb]; [|reflexivity].
  destruct target as [addr|]; cbn [andb]; [|reflexivity].
  destruct (kv_has s (bkey addr (sg_name cr))); cbn [negb andb]; [reflexivity|].
  destruct (kv_has s (nkey_of (mkNote addr (sg_name cr) now contents priv))); reflexivity.
Qed.
