(* Tie by proof between CreateNotification as generated from the current source (Gen/GoNotif.v) and the model of
   C18 (Model/Notifications.v): a notification is stored only for valid contents, a recipient that resolves, a sender
   the recipient has not blocked, and a free to/from/time slot. *)
From Coq Require Import ZArith NArith List Bool String Lia.
From JK Require Import Base.Bytes Base.GoSem Gen.GoNotif Model.Notifications.
Import ListNotations.
Open Scope Z_scope.

Lemma gen_CreateNotification_spec json_ok resolve_ok blocked slot_taken :
  gen_CreateNotification json_ok resolve_ok blocked slot_taken
  = if json_ok && resolve_ok && negb blocked && negb slot_taken
    then GVal ([Ev "store-notification" []], true) else GVal ([], false).
Proof. unfold gen_CreateNotification. destruct json_ok, resolve_ok, blocked, slot_taken; reflexivity. Qed.

Theorem h_create_is_the_interpretation s cr target now contents priv json_ok :
  let sender := sg_name cr in
  let n := match target with Some addr => mkNote addr sender now contents priv | None => mkNote [] sender now contents priv end in
  h_create s cr target now contents priv json_ok
  = match gen_CreateNotification json_ok (match target with Some _ => true | None => false end)
            (match target with Some addr => kv_has s (bkey addr sender) | None => false end)
            (kv_has s (nkey_of n)) with
    | GVal (_, true) => (kv_set s (nkey_of n) n, Ok)
    | _ => (s, Fail)
    end.
Proof.
  cbv zeta. rewrite gen_CreateNotification_spec. unfold h_create.
  destruct json_ok; cbn [negb andb]; [|reflexivity].
  destruct target as [addr|]; cbn [andb]; [|reflexivity].
  destruct (kv_has s (bkey addr (sg_name cr))); cbn [negb andb]; [reflexivity|].
  destruct (kv_has s (nkey_of (mkNote addr (sg_name cr) now contents priv))); reflexivity.
Qed.

(* DeleteNotification: one removal from the signer's own inbox, never a failure; BlockSenders, per named sender: one
   entry in the signer's own list when the sender resolves, else the whole message fails *)
Lemma gen_DeleteNotification_spec : gen_DeleteNotification = GVal ([Ev "remove-from-own-inbox" []], true).
Proof. reflexivity. Qed.

Lemma gen_BlockOne_spec resolve_ok :
  gen_BlockOne resolve_ok = if resolve_ok then GVal ([Ev "block-in-own-list" []], true) else GVal ([], false).
Proof. destruct resolve_ok; reflexivity. Qed.

Theorem h_delete_is_the_interpretation s cr from t :
  h_delete s cr from t =
  match gen_DeleteNotification with
  | GVal ([_], true) => (kv_del s (nkey (sg_name cr) from t), Ok)
  | _ => (s, Fail)
  end.
Proof. reflexivity. Qed.

Theorem h_block_loop_is_the_interpretation s blocker target rest :
  h_block_loop s blocker (target :: rest) =
  match gen_BlockOne (match target with Some _ => true | None => false end), target with
  | GVal (_, true), Some a => h_block_loop (kv_set s (bkey blocker a) (block_entry blocker a)) blocker rest
  | _, _ => (s, Fail)
  end.
Proof. rewrite gen_BlockOne_spec. destruct target; reflexivity. Qed.
