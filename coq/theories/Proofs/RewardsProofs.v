(* Proofs about the reward-block model (property C03). *)
From Coq Require Import ZArith NArith List Bool Lia.
From JK Require Import Base.Dec Base.AList Model.Rewards.
Import ListNotations.
Open Scope Z_scope.

Lemma Neqb_spec a b : N.eqb a b = true <-> a = b.
Proof. apply N.eqb_eq. Qed.

(* ================= RemoveProverWithKey on a duplicate-free list ================= *)

Definition drop_key (k : N) (l : list N) : list N := filter (fun x => negb (N.eqb x k)) l.

Lemma drop_key_notin k l : ~ In k l -> drop_key k l = l.
Proof.
  induction l as [|x r IH]; cbn; intros H; [reflexivity|].
  destruct (N.eqb_spec x k) as [->|NE]; cbn.
  - exfalso. apply H. left. reflexivity.
  - f_equal. apply IH. intros C. apply H. right. exact C.
Qed.

Lemma drop_key_split k pre post :
  ~ In k pre -> ~ In k post -> drop_key k (pre ++ k :: post) = pre ++ post.
Proof.
  intros H1 H2. unfold drop_key. rewrite filter_app. cbn. rewrite N.eqb_refl. cbn.
  fold (drop_key k pre). fold (drop_key k post). rewrite !drop_key_notin by assumption. reflexivity.
Qed.

Lemma rm_scan_skip k a : forall n i cells len,
  (forall j, (i <= j < i + a)%nat -> nth j cells 0%N <> k) ->
  rm_scan k (a + n) i cells len = rm_scan k n (i + a) cells len.
Proof.
  induction a as [|a IH]; intros n i cells len H; cbn [Nat.add rm_scan].
  - rewrite Nat.add_0_r. reflexivity.
  - destruct (N.eqb_spec (nth i cells 0%N) k) as [E|NE].
    + exfalso. apply (H i); [lia | exact E].
    + rewrite IH by (intros j Hj; apply H; lia). f_equal. lia.
Qed.

Lemma rm_scan_nomatch k n i cells len :
  (forall j, (i <= j < i + n)%nat -> nth j cells 0%N <> k) ->
  rm_scan k n i cells len = Some (cells, len).
Proof.
  intros H. rewrite <- (Nat.add_0_r n). rewrite rm_scan_skip by exact H. reflexivity.
Qed.

Lemma nth_notin (k : N) l j : ~ In k l -> (j < length l)%nat -> nth j l 0%N <> k.
Proof. intros H Hj E. apply H. rewrite <- E. apply nth_In. exact Hj. Qed.

Lemma remove_key_notin k l : ~ In k l -> remove_key k l = Some l.
Proof.
  intros H. unfold remove_key. destruct l as [|x r] eqn:E; [reflexivity|]. rewrite <- E in *.
  rewrite rm_scan_nomatch.
  - rewrite firstn_all. reflexivity.
  - intros j Hj. apply nth_notin; [exact H | lia].
Qed.

Lemma remove_key_split k pre post :
  ~ In k pre -> ~ In k post -> remove_key k (pre ++ k :: post) = Some (pre ++ post).
Proof.
  intros H1 H2. unfold remove_key.
  destruct (pre ++ k :: post) as [|x r] eqn:E; [destruct pre; discriminate|]. rewrite <- E. clear x r E.
  set (L := pre ++ k :: post).
  assert (HL : length L = (length pre + S (length post))%nat) by (unfold L; rewrite app_length; reflexivity).
  rewrite HL at 1.
  rewrite rm_scan_skip.
  2:{ intros j Hj. unfold L. rewrite app_nth1 by lia. apply nth_notin; [exact H1 | lia]. }
  cbn [Nat.add rm_scan].
  assert (Hn : nth (length pre) L 0%N = k).
  { unfold L. rewrite app_nth2 by lia. rewrite Nat.sub_diag. reflexivity. }
  rewrite Hn, N.eqb_refl.
  destruct (Nat.leb_spec (length pre + 1) (length L)) as [_|C]; [|lia].
  assert (F1 : firstn (length pre) L = pre).
  { unfold L. rewrite firstn_app, Nat.sub_diag, firstn_all. cbn. apply app_nil_r. }
  assert (F2 : skipn (length pre + 1) L = post).
  { unfold L. rewrite skipn_app. rewrite skipn_all2 by lia.
    replace (length pre + 1 - length pre)%nat with 1%nat by lia. reflexivity. }
  rewrite F1, F2.
  replace (length L - (length pre + 1))%nat with (length post) by lia. rewrite firstn_all.
  set (tail := skipn (length L - 1) L).
  rewrite rm_scan_nomatch.
  - f_equal. assert (EL : (length L - 1)%nat = length (pre ++ post)) by (rewrite app_length, HL; lia). rewrite EL.
    rewrite app_assoc. rewrite firstn_app, Nat.sub_diag, firstn_all. cbn. apply app_nil_r.
  - intros j Hj. rewrite app_assoc.
    destruct (Nat.lt_ge_cases j (length (pre ++ post))) as [Lt|Ge].
    + rewrite app_nth1 by exact Lt. rewrite app_length in Lt. rewrite app_nth2 by lia.
      apply nth_notin; [exact H2 | lia].
    + (* j is the last cell: only reachable when post is not empty, and then the cell holds post's last element *)
      rewrite app_length in Ge.
      destruct (exists_last (l := post)) as [p' [z Ez]]; [intros ->; cbn in *; lia|].
      assert (Hz : z <> k) by (intros ->; apply H2; rewrite Ez; apply in_or_app; right; left; reflexivity).
      assert (Ht : tail = [z]).
      { unfold tail, L. rewrite Ez. rewrite app_comm_cons, app_assoc.
        replace (length ((pre ++ k :: p') ++ [z]) - 1)%nat with (length (pre ++ k :: p')) by (rewrite !app_length; cbn; lia).
        rewrite skipn_app, Nat.sub_diag, skipn_all. reflexivity. }
      rewrite Ht. rewrite app_nth2 by (rewrite app_length; lia).
      rewrite app_length. replace (j - (length pre + length post))%nat with 0%nat by lia. exact Hz.
Qed.

Lemma remove_key_nodup k l : NoDup l -> remove_key k l = Some (drop_key k l).
Proof.
  intros ND. destruct (in_dec N.eq_dec k l) as [I|NI].
  - apply in_split in I as [pre [post ->]].
    assert (~ In k (pre ++ post)) as NI by (apply NoDup_remove_2; exact ND).
    assert (~ In k pre) by (intros C; apply NI; apply in_or_app; left; exact C).
    assert (~ In k post) by (intros C; apply NI; apply in_or_app; right; exact C).
    rewrite remove_key_split, drop_key_split by assumption. reflexivity.
  - rewrite remove_key_notin, drop_key_notin by assumption. reflexivity.
Qed.

(* ================= manageProof as a verdict on the key, the loop over the copy ================= *)

Inductive verdict := VCredit (p : N) | VDrop | VBurn | VPanic.

Definition rec_last (f : file) (k : N) : Z :=
  match aget N.eqb (f_recs f) k with Some p => pr_last p | None => 0 end.
Definition rec_prover (f : file) (k : N) : N :=
  match aget N.eqb (f_recs f) k with Some p => pr_prover p | None => 0%N end.

Definition verdict_of (h : Z) (f : file) (k : N) : verdict :=
  match aget N.eqb (f_recs f) k, is_young f h with
  | None, false => VDrop
  | _, _ =>
    if f_interval f =? 0 then VPanic
    else if negb (proven_last f h (rec_last f k)) && negb (is_young f h) then VBurn
    else VCredit (rec_prover f k)
  end.

Definition credited_v (v : verdict) : bool := match v with VCredit _ => true | _ => false end.
Definition burned_v (v : verdict) : bool := match v with VBurn => true | _ => false end.
Definition removed_v (v : verdict) : bool := match v with VBurn | VDrop => true | _ => false end.

Definition bump (size : Z) (tr : tracker) (p : N) : tracker :=
  aset N.eqb tr p (wrap64 (aval N.eqb tr p + size)).

Lemma visit_eq h s k :
  visit h s k =
  match verdict_of h (ms_file s) k with
  | VCredit p => Ok {| ms_file := ms_file s; ms_tr := bump (f_size (ms_file s)) (ms_tr s) p; ms_burn := ms_burn s |}
  | VDrop => obind (remove_prover (ms_file s) k)
               (fun f' => Ok {| ms_file := f'; ms_tr := ms_tr s; ms_burn := ms_burn s |})
  | VBurn => obind (remove_prover (ms_file s) k)
               (fun f' => Ok {| ms_file := f'; ms_tr := ms_tr s; ms_burn := burn_contract (ms_burn s) k |})
  | VPanic => Panic
  end.
Proof.
  unfold visit, verdict_of, rec_last, rec_prover, bump.
  destruct (aget N.eqb (f_recs (ms_file s)) k) as [p|]; destruct (is_young (ms_file s) h);
    destruct (f_interval (ms_file s) =? 0); try reflexivity;
    destruct (negb _ && negb _); reflexivity.
Qed.

Lemma verdict_stable h f f0 k :
  f_start f = f_start f0 -> f_interval f = f_interval f0 ->
  aget N.eqb (f_recs f) k = aget N.eqb (f_recs f0) k ->
  verdict_of h f k = verdict_of h f0 k.
Proof.
  intros E1 E2 E3. unfold verdict_of, rec_last, rec_prover, is_young, proven_last. rewrite E1, E2, E3. reflexivity.
Qed.

Section Spec.
  Variable size : Z.
  Variable v : N -> verdict.

  Fixpoint tr_spec (ks : list N) (tr : tracker) : tracker :=
    match ks with
    | [] => tr
    | k :: r => tr_spec r (match v k with VCredit p => bump size tr p | _ => tr end)
    end.
  Fixpoint bu_spec (ks : list N) (bu : burns) : burns :=
    match ks with
    | [] => bu
    | k :: r => bu_spec r (if burned_v (v k) then burn_contract bu k else bu)
    end.
  Fixpoint recs_spec (ks : list N) (rc : list (N * prec)) : list (N * prec) :=
    match ks with
    | [] => rc
    | k :: r => recs_spec r (if removed_v (v k) then adel N.eqb rc k else rc)
    end.
End Spec.

Lemma nmem_in k l : nmem k l = true <-> In k l.
Proof.
  unfold nmem. rewrite existsb_exists. split.
  - intros [x [I E]]. apply N.eqb_eq in E. subst. exact I.
  - intros I. exists k. split; [exact I | apply N.eqb_refl].
Qed.

Lemma set_proofs_id f : set_proofs f (f_proofs f) (f_recs f) = f.
Proof. destruct f; reflexivity. Qed.

Lemma manage_loop h f0 : forall todo pre f tr bu,
  f_start f = f_start f0 -> f_interval f = f_interval f0 -> f_size f = f_size f0 ->
  (forall k, In k todo -> aget N.eqb (f_recs f) k = aget N.eqb (f_recs f0) k) ->
  f_proofs f = pre ++ todo -> NoDup (pre ++ todo) ->
  (forall k, In k todo -> verdict_of h f0 k <> VPanic) ->
  ofold (visit h) todo {| ms_file := f; ms_tr := tr; ms_burn := bu |} =
  Ok {| ms_file := set_proofs f (pre ++ filter (fun k => credited_v (verdict_of h f0 k)) todo)
                              (recs_spec (verdict_of h f0) todo (f_recs f));
        ms_tr := tr_spec (f_size f0) (verdict_of h f0) todo tr;
        ms_burn := bu_spec (verdict_of h f0) todo bu |}.
Proof.
  induction todo as [|k todo IH]; intros pre f tr bu E1 E2 E3 ER EP ND NP.
  - cbn. rewrite app_nil_r in *. rewrite <- EP. rewrite set_proofs_id. reflexivity.
  - cbn [ofold]. rewrite visit_eq. cbn [ms_file ms_tr ms_burn].
    rewrite (verdict_stable h f f0 k E1 E2 (ER k (or_introl eq_refl))).
    assert (NIk : ~ In k (pre ++ todo)) by (apply NoDup_remove_2; exact ND).
    assert (NI1 : ~ In k pre) by (intros C; apply NIk; apply in_or_app; left; exact C).
    assert (NI2 : ~ In k todo) by (intros C; apply NIk; apply in_or_app; right; exact C).
    assert (ND' : NoDup (pre ++ todo)) by (apply NoDup_remove_1 in ND; exact ND).
    assert (RM : remove_prover f k = Ok (set_proofs f (pre ++ todo) (adel N.eqb (f_recs f) k))).
    { unfold remove_prover. rewrite EP. rewrite remove_key_nodup by exact ND.
      rewrite drop_key_split by assumption.
      assert (nmem k (pre ++ k :: todo) = true) as -> by (apply nmem_in; apply in_or_app; right; left; reflexivity).
      reflexivity. }
    assert (ER' : forall k', In k' todo ->
              aget N.eqb (adel N.eqb (f_recs f) k) k' = aget N.eqb (f_recs f0) k').
    { intros k' I. rewrite (aget_adel_other N.eqb Neqb_spec) by (intros ->; exact (NI2 I)).
      apply ER. right. exact I. }
    pose proof (NP k (or_introl eq_refl)) as NPk.
    destruct (verdict_of h f0 k) as [p| | |] eqn:V; [| | |congruence]; cbn [obind].
    + (* counted: the key stays, the loop moves on *)
      rewrite E3.
      rewrite (IH (pre ++ [k]) f); try assumption.
      * cbn [tr_spec bu_spec recs_spec filter]. rewrite V. cbn [credited_v burned_v removed_v].
        rewrite <- app_assoc. reflexivity.
      * intros k' I. apply ER. right. exact I.
      * rewrite <- app_assoc. exact EP.
      * rewrite <- app_assoc. exact ND.
      * intros k' I. apply NP. right. exact I.
    + rewrite RM. cbn [obind].
      rewrite (IH pre (set_proofs f (pre ++ todo) (adel N.eqb (f_recs f) k))); try assumption; try reflexivity.
      * cbn [tr_spec bu_spec recs_spec filter]. rewrite V. cbn [credited_v burned_v removed_v]. reflexivity.
      * intros k' I. apply NP. right. exact I.
    + rewrite RM. cbn [obind].
      rewrite (IH pre (set_proofs f (pre ++ todo) (adel N.eqb (f_recs f) k))); try assumption; try reflexivity.
      * cbn [tr_spec bu_spec recs_spec filter]. rewrite V. cbn [credited_v burned_v removed_v]. reflexivity.
      * intros k' I. apply NP. right. exact I.
Qed.

Lemma manage_file_eq h f tr bu :
  NoDup (f_proofs f) -> (forall k, In k (f_proofs f) -> verdict_of h f k <> VPanic) ->
  manage_file h {| ms_file := f; ms_tr := tr; ms_burn := bu |} =
  Ok {| ms_file := set_proofs f (filter (fun k => credited_v (verdict_of h f k)) (f_proofs f))
                              (recs_spec (verdict_of h f) (f_proofs f) (f_recs f));
        ms_tr := tr_spec (f_size f) (verdict_of h f) (f_proofs f) tr;
        ms_burn := bu_spec (verdict_of h f) (f_proofs f) bu |}.
Proof.
  intros ND NP. unfold manage_file. cbn [ms_file].
  rewrite (manage_loop h f (f_proofs f) [] f tr bu); try reflexivity; assumption.
Qed.

(* ================= int64 wrap ================= *)

Lemma wrap64_range x : int64_min <= wrap64 x <= int64_max.
Proof.
  unfold wrap64, int64_min, int64_max.
  pose proof (Z.mod_pos_bound (x + 2 ^ 63) (2 ^ 64) ltac:(reflexivity)). lia.
Qed.

Lemma wrap64_add_l a b : wrap64 (wrap64 a + b) = wrap64 (a + b).
Proof.
  unfold wrap64. f_equal.
  replace ((a + 2 ^ 63) mod 2 ^ 64 - 2 ^ 63 + b + 2 ^ 63) with ((a + 2 ^ 63) mod 2 ^ 64 + b) by ring.
  rewrite Zplus_mod_idemp_l. f_equal. ring.
Qed.

Lemma wrap64_add_r a b : wrap64 (a + wrap64 b) = wrap64 (a + b).
Proof. rewrite Z.add_comm, wrap64_add_l. f_equal. ring. Qed.

(* ================= what the loop leaves behind ================= *)

Lemma aval_bump size tr q p :
  aval N.eqb (bump size tr q) p = if N.eqb p q then wrap64 (aval N.eqb tr q + size) else aval N.eqb tr p.
Proof.
  unfold bump, aval at 1. destruct (N.eqb_spec p q) as [->|NE].
  - rewrite (aget_aset_same N.eqb Neqb_spec). reflexivity.
  - rewrite (aget_aset_other N.eqb Neqb_spec) by exact NE. reflexivity.
Qed.

Definition bump_burn (o : option Z) : option Z := option_map (fun b => wrap64 (b + 1)) o.

Lemma aget_burn bu k q :
  aget N.eqb (burn_contract bu k) q = if N.eqb q k then bump_burn (aget N.eqb bu k) else aget N.eqb bu q.
Proof.
  unfold burn_contract, bump_burn. destruct (aget N.eqb bu k) as [b|] eqn:E; cbn.
  - destruct (N.eqb_spec q k) as [->|NE].
    + apply (aget_aset_same N.eqb Neqb_spec).
    + apply (aget_aset_other N.eqb Neqb_spec). exact NE.
  - destruct (N.eqb_spec q k) as [->|NE]; [exact E | reflexivity].
Qed.

Lemma nmem_cons p k r : nmem p (k :: r) = N.eqb p k || nmem p r.
Proof. reflexivity. Qed.

Lemma nmem_false p l : ~ In p l -> nmem p l = false.
Proof. intros H. destruct (nmem p l) eqn:E; [apply nmem_in in E; contradiction | reflexivity]. Qed.

Lemma tr_spec_char size v : forall ks, NoDup ks ->
  (forall k p, In k ks -> v k = VCredit p -> p = k) ->
  forall tr p, aval N.eqb (tr_spec size v ks tr) p =
               if nmem p ks && credited_v (v p) then wrap64 (aval N.eqb tr p + size) else aval N.eqb tr p.
Proof.
  induction ks as [|k r IH]; intros ND SELF tr p; [reflexivity|].
  inversion ND as [|? ? NI NDr]; subst.
  cbn [tr_spec]. rewrite nmem_cons.
  rewrite IH; [|exact NDr | intros k' p' I; apply SELF; right; exact I].
  destruct (v k) as [q| | |] eqn:V.
  - assert (q = k) by (apply (SELF k q); [left; reflexivity | exact V]). subst q.
    rewrite aval_bump. destruct (N.eqb_spec p k) as [->|NE].
    + rewrite (nmem_false k r NI), V. reflexivity.
    + reflexivity.
  - destruct (N.eqb_spec p k) as [->|NE]; [rewrite (nmem_false k r NI), V; reflexivity | reflexivity].
  - destruct (N.eqb_spec p k) as [->|NE]; [rewrite (nmem_false k r NI), V; reflexivity | reflexivity].
  - destruct (N.eqb_spec p k) as [->|NE]; [rewrite (nmem_false k r NI), V; reflexivity | reflexivity].
Qed.

Lemma bu_spec_char v : forall ks, NoDup ks ->
  forall bu q, aget N.eqb (bu_spec v ks bu) q =
               if nmem q ks && burned_v (v q) then bump_burn (aget N.eqb bu q) else aget N.eqb bu q.
Proof.
  induction ks as [|k r IH]; intros ND bu q; [reflexivity|].
  inversion ND as [|? ? NI NDr]; subst.
  cbn [bu_spec]. rewrite nmem_cons. rewrite IH by exact NDr.
  destruct (burned_v (v k)) eqn:B.
  - rewrite aget_burn. destruct (N.eqb_spec q k) as [->|NE].
    + rewrite (nmem_false k r NI), B. reflexivity.
    + reflexivity.
  - destruct (N.eqb_spec q k) as [->|NE]; [rewrite (nmem_false k r NI), B; reflexivity | reflexivity].
Qed.

Lemma recs_spec_char v : forall ks rc k,
  aget N.eqb (recs_spec v ks rc) k = if nmem k ks && removed_v (v k) then None else aget N.eqb rc k.
Proof.
  induction ks as [|k0 r IH]; intros rc k; [reflexivity|].
  cbn [recs_spec]. rewrite nmem_cons, IH.
  destruct (N.eqb_spec k k0) as [->|NE]; cbn [orb].
  - destruct (removed_v (v k0)) eqn:R.
    + rewrite (aget_adel_same N.eqb). rewrite andb_true_r. destruct (nmem k0 r); reflexivity.
    + rewrite !andb_false_r. reflexivity.
  - destruct (removed_v (v k0)); [|reflexivity].
    rewrite (aget_adel_other N.eqb Neqb_spec) by exact NE. reflexivity.
Qed.

(* ================= well-formed files (the C17 invariant) and the obligation predicate ================= *)

(* listed keys are distinct, each has its proof record, the record names the key's prover *)
Record wf_file (f : file) : Prop := {
  wf_nodup : NoDup (f_proofs f);
  wf_interval : f_interval f <> 0;
  wf_recs : forall k, In k (f_proofs f) -> exists r, aget N.eqb (f_recs f) k = Some r /\ pr_prover r = k
}.

(* the prover under key k met its obligation for f at height h: the file is still in its first
   window, or the record's LastProven lies in or after the previous window *)
Definition ok_slot (h : Z) (f : file) (k : N) : bool := is_young f h || proven_last f h (rec_last f k).

Lemma verdict_wf h f k : wf_file f -> In k (f_proofs f) ->
  verdict_of h f k = if ok_slot h f k then VCredit k else VBurn.
Proof.
  intros [_ HI HR] I. destruct (HR k I) as [r [E P]].
  unfold verdict_of, ok_slot, rec_prover. rewrite E.
  destruct (Z.eqb_spec (f_interval f) 0) as [C|_]; [contradiction|].
  destruct (is_young f h); cbn.
  - rewrite andb_false_r. rewrite P. reflexivity.
  - rewrite andb_true_r. destruct (proven_last f h (rec_last f k)); cbn; [rewrite P|]; reflexivity.
Qed.

Lemma filter_ext_in_b {A} (f g : A -> bool) l : (forall x, In x l -> f x = g x) -> filter f l = filter g l.
Proof.
  induction l as [|x r IH]; intros H; [reflexivity|]. cbn. rewrite (H x (or_introl eq_refl)).
  rewrite IH by (intros y I; apply H; right; exact I). reflexivity.
Qed.

(* the exactly-once theorem for one file *)
Theorem manage_file_counts_exactly_once h f tr bu :
  wf_file f ->
  exists f',
    manage_file h {| ms_file := f; ms_tr := tr; ms_burn := bu |} =
      Ok {| ms_file := f'; ms_tr := tr_spec (f_size f) (verdict_of h f) (f_proofs f) tr;
            ms_burn := bu_spec (verdict_of h f) (f_proofs f) bu |} /\
    (* the new list is the old one without the provers that missed their obligation, in order *)
    f_proofs f' = filter (ok_slot h f) (f_proofs f) /\
    f_start f' = f_start f /\ f_interval f' = f_interval f /\ f_size f' = f_size f /\ f_live f' = f_live f /\
    (* their proof records are gone, the others untouched *)
    (forall k, aget N.eqb (f_recs f') k =
               if nmem k (f_proofs f) && negb (ok_slot h f k) then None else aget N.eqb (f_recs f) k) /\
    (* the tracker gains the size once for each listed prover that met it, nothing for anyone else *)
    (forall p, aval N.eqb (tr_spec (f_size f) (verdict_of h f) (f_proofs f) tr) p =
               if nmem p (f_proofs f) && ok_slot h f p then wrap64 (aval N.eqb tr p + f_size f) else aval N.eqb tr p) /\
    (* the burn counter of each listed prover that missed it rises by one, no other counter moves *)
    (forall q, aget N.eqb (bu_spec (verdict_of h f) (f_proofs f) bu) q =
               if nmem q (f_proofs f) && negb (ok_slot h f q) then bump_burn (aget N.eqb bu q) else aget N.eqb bu q).
Proof.
  intros WF. pose proof WF as [ND HI HR].
  assert (V : forall k, In k (f_proofs f) -> verdict_of h f k = if ok_slot h f k then VCredit k else VBurn)
    by (intros k I; apply verdict_wf; assumption).
  eexists. split; [|split; [|split; [|split; [|split; [|split; [|split; [|split]]]]]]].
  - apply manage_file_eq; [exact ND|]. intros k I. rewrite (V k I). destruct (ok_slot h f k); discriminate.
  - cbn. apply filter_ext_in_b. intros k I. rewrite (V k I). destruct (ok_slot h f k); reflexivity.
  - reflexivity.
  - reflexivity.
  - reflexivity.
  - reflexivity.
  - intros k. cbn [f_recs set_proofs]. rewrite recs_spec_char.
    destruct (nmem k (f_proofs f)) eqn:M; [|reflexivity]. apply nmem_in in M. rewrite (V k M).
    destruct (ok_slot h f k); reflexivity.
  - intros p. rewrite tr_spec_char; [|exact ND|].
    + destruct (nmem p (f_proofs f)) eqn:M; [|reflexivity]. apply nmem_in in M. rewrite (V p M).
      destruct (ok_slot h f p); reflexivity.
    + intros k p' I E. rewrite (V k I) in E. destruct (ok_slot h f k); congruence.
  - intros q. rewrite bu_spec_char by exact ND.
    destruct (nmem q (f_proofs f)) eqn:M; [|reflexivity]. apply nmem_in in M. rewrite (V q M).
    destruct (ok_slot h f q); reflexivity.
Qed.

(* ================= all files of a reward block ================= *)

Definition credit1 (h : Z) (f : file) (p : N) : Z :=
  if nmem p (f_proofs f) && ok_slot h f p then f_size f else 0.
Definition fail1 (h : Z) (f : file) (q : N) : Z :=
  if nmem q (f_proofs f) && negb (ok_slot h f q) then 1 else 0.
Fixpoint sumz {A} (g : A -> Z) (l : list A) : Z := match l with [] => 0 | x :: r => g x + sumz g r end.

(* bytes credited to prover p in the block; files where q missed its obligation; the denominator *)
Definition credited (h : Z) (files : list file) (p : N) : Z := sumz (fun f => credit1 h f p) files.
Definition failed (h : Z) (files : list file) (q : N) : Z := sumz (fun f => fail1 h f q) files.
Definition total_size (files : list file) : Z :=
  sumz (fun f => f_size f * Z.of_nat (length (f_proofs f))) files.

(* the file as the block leaves it *)
Definition post_file (h : Z) (f : file) : file :=
  let f1 := match f_proofs f with [] => if is_young f h then f else set_dead f | _ => f end in
  set_proofs f1 (filter (ok_slot h f) (f_proofs f)) (recs_spec (verdict_of h f) (f_proofs f) (f_recs f)).

Definition tr_in64 (tr : tracker) : Prop := forall p, int64_min <= aval N.eqb tr p <= int64_max.
Definition bu_in64 (bu : burns) : Prop := forall q b, aget N.eqb bu q = Some b -> int64_min <= b <= int64_max.

Lemma tr_step h f tr p : wf_file f -> tr_in64 tr ->
  aval N.eqb (tr_spec (f_size f) (verdict_of h f) (f_proofs f) tr) p = wrap64 (aval N.eqb tr p + credit1 h f p).
Proof.
  intros WF R. destruct (manage_file_counts_exactly_once h f tr [] WF) as [f' [_ [_ [_ [_ [_ [_ [_ [T _]]]]]]]]].
  rewrite T. unfold credit1. destruct (nmem p (f_proofs f) && ok_slot h f p); [reflexivity|].
  rewrite Z.add_0_r. symmetry. apply wrap64_id. apply R.
Qed.

Lemma tr_step_in64 h f tr : wf_file f -> tr_in64 tr ->
  tr_in64 (tr_spec (f_size f) (verdict_of h f) (f_proofs f) tr).
Proof. intros WF R p. rewrite tr_step by assumption. apply wrap64_range. Qed.

Lemma bu_step h f bu q : wf_file f -> bu_in64 bu ->
  aget N.eqb (bu_spec (verdict_of h f) (f_proofs f) bu) q =
  option_map (fun b => wrap64 (b + fail1 h f q)) (aget N.eqb bu q).
Proof.
  intros WF R. destruct (manage_file_counts_exactly_once h f [] bu WF) as [f' [_ [_ [_ [_ [_ [_ [_ [_ B]]]]]]]]].
  rewrite B. unfold fail1, bump_burn. destruct (nmem q (f_proofs f) && negb (ok_slot h f q)); [reflexivity|].
  destruct (aget N.eqb bu q) as [b|] eqn:E; [|reflexivity]. cbn. rewrite Z.add_0_r.
  rewrite wrap64_id by (apply (R q); exact E). reflexivity.
Qed.

Lemma bu_step_in64 h f bu : wf_file f -> bu_in64 bu -> bu_in64 (bu_spec (verdict_of h f) (f_proofs f) bu).
Proof.
  intros WF R q b. rewrite bu_step by assumption. destruct (aget N.eqb bu q); cbn; [|discriminate].
  intros [= <-]. apply wrap64_range.
Qed.

Lemma manage_one_eq h a f : wf_file f ->
  manage_one h a f =
  Ok {| as_done := post_file h f :: as_done a;
        as_total := wrap64 (as_total a + wrap64 (f_size f * Z.of_nat (length (f_proofs f))));
        as_tr := tr_spec (f_size f) (verdict_of h f) (f_proofs f) (as_tr a);
        as_burn := bu_spec (verdict_of h f) (f_proofs f) (as_burn a) |}.
Proof.
  intros WF. unfold manage_one, post_file. destruct (f_proofs f) as [|k r] eqn:EP.
  - unfold manage_file. cbn [ms_file]. 
    assert (E : f_proofs (if is_young f h then f else set_dead f) = []) by (destruct (is_young f h); cbn; exact EP).
    rewrite E. cbn. f_equal. f_equal.
    destruct (is_young f h); destruct f; cbn in *; subst; reflexivity.
  - rewrite <- EP. rewrite manage_file_eq.
    + cbn [obind ms_file ms_tr ms_burn].
      rewrite (filter_ext_in_b (fun k => credited_v (verdict_of h f k)) (ok_slot h f) (f_proofs f)).
      * reflexivity.
      * intros x I. rewrite (verdict_wf h f x WF I). destruct (ok_slot h f x); reflexivity.
    + apply WF.
    + intros x I. rewrite (verdict_wf h f x WF I). destruct (ok_slot h f x); discriminate.
Qed.

Lemma manage_fold h : forall files a,
  Forall wf_file files -> int64_min <= as_total a <= int64_max -> tr_in64 (as_tr a) -> bu_in64 (as_burn a) ->
  exists a',
    ofold (manage_one h) files a = Ok a' /\
    rev (as_done a') = rev (as_done a) ++ map (post_file h) files /\
    as_total a' = wrap64 (as_total a + total_size files) /\
    (forall p, aval N.eqb (as_tr a') p = wrap64 (aval N.eqb (as_tr a) p + credited h files p)) /\
    (forall q, aget N.eqb (as_burn a') q = option_map (fun b => wrap64 (b + failed h files q)) (aget N.eqb (as_burn a) q)).
Proof.
  induction files as [|f r IH]; intros a WF RT RR RB.
  - exists a. cbn. rewrite app_nil_r. repeat split.
    + rewrite Z.add_0_r. symmetry. apply wrap64_id. exact RT.
    + intros p. rewrite Z.add_0_r. symmetry. apply wrap64_id. apply RR.
    + intros q. destruct (aget N.eqb (as_burn a) q) as [b|] eqn:E; [|reflexivity]. cbn.
      rewrite Z.add_0_r, wrap64_id by (apply (RB q); exact E). reflexivity.
  - inversion WF as [|? ? WFf WFr]; subst.
    cbn [ofold]. rewrite manage_one_eq by exact WFf. cbn [obind].
    set (a1 := {| as_done := post_file h f :: as_done a;
                  as_total := wrap64 (as_total a + wrap64 (f_size f * Z.of_nat (length (f_proofs f))));
                  as_tr := tr_spec (f_size f) (verdict_of h f) (f_proofs f) (as_tr a);
                  as_burn := bu_spec (verdict_of h f) (f_proofs f) (as_burn a) |}).
    destruct (IH a1 WFr) as [a' [E [D [T [TR BU]]]]]; unfold a1 in *; cbn [as_total as_tr as_burn as_done].
    + apply wrap64_range.
    + apply tr_step_in64; assumption.
    + apply bu_step_in64; assumption.
    + exists a'. split; [exact E|]. cbn [as_done as_total as_tr as_burn] in *. repeat split.
      * rewrite D. cbn [rev map]. rewrite <- app_assoc. reflexivity.
      * rewrite T. unfold total_size. cbn [sumz]. rewrite wrap64_add_l.
        match goal with |- wrap64 (?x + wrap64 ?s + ?r) = _ =>
          replace (x + wrap64 s + r) with ((x + r) + wrap64 s) by ring end.
        rewrite wrap64_add_r. f_equal. ring.
      * intros p. rewrite TR. rewrite tr_step by assumption. rewrite wrap64_add_l.
        unfold credited. cbn [sumz]. f_equal. ring.
      * intros q. rewrite BU. rewrite bu_step by assumption.
        destruct (aget N.eqb (as_burn a) q) as [b|]; [|reflexivity]. cbn.
        rewrite wrap64_add_l. unfold failed. cbn [sumz]. do 2 f_equal. ring.
Qed.

Theorem manage_all_counts h files bu :
  Forall wf_file files -> bu_in64 bu ->
  exists a,
    manage_all h files bu = Ok a /\
    rev (as_done a) = map (post_file h) files /\
    as_total a = wrap64 (total_size files) /\
    (forall p, aval N.eqb (as_tr a) p = wrap64 (credited h files p)) /\
    (forall q, aget N.eqb (as_burn a) q = option_map (fun b => wrap64 (b + failed h files q)) (aget N.eqb bu q)).
Proof.
  intros WF RB. unfold manage_all.
  destruct (manage_fold h files {| as_done := []; as_total := 0; as_tr := []; as_burn := bu |} WF) as [a [E [D [T [TR BU]]]]];
    cbn [as_total as_tr as_burn as_done]; try assumption.
  - unfold int64_min, int64_max. lia.
  - intros p. unfold aval. cbn. unfold int64_min, int64_max. lia.
  - exists a. cbn [as_total as_tr as_burn as_done] in *. repeat split; try assumption.
Qed.

(* ================= arithmetic of one payout ================= *)

Definition share (w T : Z) : Z := dquo (dec w) (dec T).
Definition owed (w T C : Z) : Z := dtrunc (dmul (share w T) (dec C)).

Lemma P18_ge2 : 2 <= P18.
Proof. pose proof P18_half. pose proof HALF_pos. lia. Qed.

Lemma share_bounds w T : 0 < w -> 0 < T ->
  0 <= share w T /\
  2 * T * share w T <= 2 * w * P18 + T /\
  2 * w * P18 * P18 - 2 * T - P18 * T < 2 * P18 * T * share w T.
Proof.
  intros Hw HT. pose proof P18_pos as HP. unfold share, dec.
  rewrite dquo_nonneg by nia.
  rewrite Z.div_mul_cancel_r by lia.
  set (X := (w * P18 * P18) / T).
  assert (HX0 : 0 <= X) by (apply Z.div_pos; nia).
  pose proof (chop_nn_bounds X HX0) as [B1 B2].
  pose proof (chop_nn_nonneg X HX0) as B0.
  set (s := chop_nn X) in *.
  pose proof (Z.div_mod (w * P18 * P18) T ltac:(lia)) as Hd.
  pose proof (Z.mod_pos_bound (w * P18 * P18) T HT) as Hm.
  fold X in Hd. set (R := (w * P18 * P18) mod T) in *.
  split; [exact B0|]. split.
  - assert (P18 * (2 * T * s) <= P18 * (2 * w * P18 + T)) by nia.
    apply (Z.mul_le_mono_pos_l _ _ P18 HP). assumption.
  - nia.
Qed.

Lemma owed_floor s C : 0 <= s -> 0 <= C -> dtrunc (dmul s (dec C)) = (s * C) / P18.
Proof. intros. rewrite dmul_dec_int by assumption. apply dtrunc_nonneg. nia. Qed.

(* tight bounds: |owed - w*C/T| is below 1 + C/(2*10^18) + C/10^36 *)
Lemma owed_bounds w T C : 0 < w -> 0 < T -> 0 <= C ->
  0 <= owed w T C /\
  2 * P18 * T * owed w T C <= 2 * P18 * w * C + T * C /\
  2 * P18 * P18 * w * C < 2 * P18 * P18 * T * (owed w T C + 1) + P18 * T * C + 2 * T * C.
Proof.
  intros Hw HT HC. pose proof P18_pos as HP.
  destruct (share_bounds w T Hw HT) as [S0 [S1 S2]].
  unfold owed. set (s := share w T) in *. rewrite owed_floor by assumption.
  pose proof (Z.div_mod (s * C) P18 ltac:(lia)) as Hd.
  pose proof (Z.mod_pos_bound (s * C) P18 HP) as Hm.
  set (o := (s * C) / P18) in *. set (R := (s * C) mod P18) in *.
  assert (O0 : 0 <= o) by (apply Z.div_pos; nia).
  set (A := s * C) in *.
  assert (A1 : 2 * T * A <= (2 * w * P18 + T) * C).
  { unfold A. replace (2 * T * (s * C)) with ((2 * T * s) * C) by ring. apply Z.mul_le_mono_nonneg_r; assumption. }
  assert (A2 : (2 * w * P18 * P18 - 2 * T - P18 * T) * C <= (2 * P18 * T) * A).
  { unfold A. replace (2 * P18 * T * (s * C)) with ((2 * P18 * T * s) * C) by ring. apply Z.mul_le_mono_nonneg_r; lia. }
  split; [exact O0|]. split.
  - assert (2 * T * (P18 * o) <= 2 * T * A) by nia. nia.
  - assert (2 * P18 * T * A < 2 * P18 * T * (P18 * o + P18)) by nia. nia.
Qed.

(* the bounds in the form  w*C/T - 1 - C/10^18 < owed <= w*C/T + C/10^18 *)
Lemma owed_share_bounds w T C : 0 < w -> 0 < T -> 0 <= C ->
  P18 * T * owed w T C <= P18 * (w * C) + T * C /\
  P18 * (w * C) - T * C < P18 * T * (owed w T C + 1).
Proof.
  intros Hw HT HC. pose proof P18_pos as HP. pose proof P18_ge2 as H2.
  destruct (owed_bounds w T C Hw HT HC) as [O0 [U L]]. set (o := owed w T C) in *.
  assert (TC : 0 <= T * C) by nia.
  split; [nia|].
  assert (P18 * (2 * (P18 * (w * C) - T * C)) < P18 * (2 * (P18 * T * (o + 1)))); [|nia].
  assert (2 * (T * C) <= P18 * (T * C)) by nia. nia.
Qed.

(* released amounts below 10^18 base units: within one base unit of the floored share *)
Lemma owed_within_one w T C : 0 < w -> 0 < T -> 0 <= C <= P18 ->
  (w * C) / T - 1 <= owed w T C <= (w * C) / T + 1.
Proof.
  intros Hw HT [HC HC']. pose proof P18_pos as HP.
  destruct (owed_share_bounds w T C Hw HT HC) as [U L]. set (o := owed w T C) in *.
  pose proof (Z.div_mod (w * C) T ltac:(lia)) as Hd.
  pose proof (Z.mod_pos_bound (w * C) T HT) as Hm.
  set (q := (w * C) / T) in *. set (R := (w * C) mod T) in *.
  assert (TC : T * C <= T * P18) by nia.
  split.
  - assert (P18 * T * (q - 2) < P18 * T * o) by nia.
    assert (q - 2 < o); [|lia]. apply (Z.mul_lt_mono_pos_l (P18 * T)); [nia | assumption].
  - assert (P18 * T * o < P18 * T * (q + 2)) by nia.
    assert (o < q + 2); [|lia]. apply (Z.mul_lt_mono_pos_l (P18 * T)); [nia | assumption].
Qed.

(* rounded shares do not add up to more than the release, as long as n*C < 2*10^18 *)
Lemma sum_owed_le {A} (w pay : A -> Z) (T C : Z) (l : list A) :
  0 < T -> 0 <= C ->
  (forall x, In x l -> 0 <= w x) ->
  (forall x, In x l -> pay x = 0 \/ (0 < w x /\ pay x = owed (w x) T C)) ->
  sumz w l <= T -> Z.of_nat (length l) * C < 2 * P18 ->
  sumz pay l <= C.
Proof.
  intros HT HC W0 PAY SW SIDE. pose proof P18_pos as HP.
  assert (INV : 2 * P18 * T * sumz pay l <= 2 * P18 * C * sumz w l + Z.of_nat (length l) * (T * C)).
  { clear SW SIDE. induction l as [|x r IH]; [cbn; lia|].
    cbn [sumz length]. rewrite Nat2Z.inj_succ.
    assert (IH' := IH (fun y I => W0 y (or_intror I)) (fun y I => PAY y (or_intror I))).
    pose proof (W0 x (or_introl eq_refl)) as Wx.
    assert (TC : 0 <= T * C) by nia.
    destruct (PAY x (or_introl eq_refl)) as [E|[Wp E]]; rewrite E.
    - assert (0 <= 2 * P18 * C * w x) by nia. nia.
    - destruct (owed_bounds (w x) T C Wp HT HC) as [_ [U _]]. nia. }
  assert (2 * P18 * C * sumz w l <= 2 * P18 * C * T) by (apply Z.mul_le_mono_nonneg_l; [nia | exact SW]).
  assert (T * (2 * P18 * sumz pay l) < T * (2 * P18 * (C + 1))) by nia.
  assert (2 * P18 * sumz pay l < 2 * P18 * (C + 1)) by (apply (Z.mul_lt_mono_pos_l T); assumption).
  assert (sumz pay l < C + 1) by (apply (Z.mul_lt_mono_pos_l (2 * P18)); [lia | assumption]).
  lia.
Qed.

(* ================= the bank and the payout loops ================= *)

Lemma peqb_spec x y : peqb x y = true <-> x = y.
Proof.
  unfold peqb. destruct x as [a d], y as [a' d']. cbn. rewrite andb_true_iff, !N.eqb_eq.
  split; [intros [-> ->]; reflexivity | intros [= -> ->]; split; reflexivity].
Qed.

Lemma bal_credit b a d x a' d' :
  bal (credit b a d x) a' d' = bal b a' d' + (if N.eqb a' a && N.eqb d' d then x else 0).
Proof.
  unfold bal, credit, aval. change (N.eqb a' a && N.eqb d' d) with (peqb (a', d') (a, d)).
  destruct (peqb (a', d') (a, d)) eqn:E.
  - apply peqb_spec in E. injection E as -> ->. rewrite (aget_aset_same peqb peqb_spec).
    fold (aval peqb b (a, d)). unfold aval. reflexivity.
  - rewrite (aget_aset_other peqb peqb_spec).
    + lia.
    + intros C. rewrite C in E. rewrite (proj2 (peqb_spec _ _) eq_refl) in E. discriminate.
Qed.

Definition coin_owed (s : Z) (coins : list (N * Z)) (d : N) : Z :=
  match aget N.eqb coins d with Some C => dtrunc (dmul s (dec C)) | None => 0 end.

Lemma coin_owed_nonneg s coins d : 0 <= s -> (forall d C, In (d, C) coins -> 0 <= C) -> 0 <= coin_owed s coins d.
Proof.
  intros Hs HC. unfold coin_owed. destruct (aget N.eqb coins d) as [C|] eqn:E; [|lia].
  assert (In (d, C) coins).
  { clear HC. induction coins as [|[d' C'] r IH]; cbn in E; [discriminate|].
    destruct (N.eqb_spec d d') as [->|NE]; [injection E as ->; left; reflexivity | right; apply IH; exact E]. }
  rewrite owed_floor; [|exact Hs | eapply HC; eassumption].
  apply Z.div_pos; [|apply P18_pos]. apply Z.mul_nonneg_nonneg; [exact Hs | eapply HC; eassumption].
Qed.

Section PayProofs.
  Variable macct : N.
  Variable accts : list (N * N).

  Lemma pay_coins_exact a s : a <> macct -> forall coins b,
    NoDup (akeys coins) ->
    (forall d C, In (d, C) coins -> 0 <= dtrunc (dmul s (dec C)) <= bal b macct d) ->
    exists b', ofold (pay_coin macct a s) coins b = Ok b' /\
      forall x d, bal b' x d = bal b x d + (if N.eqb x a then coin_owed s coins d else 0)
                                       - (if N.eqb x macct then coin_owed s coins d else 0).
  Proof.
    intros NA. induction coins as [|[d0 C0] r IH]; intros b ND H.
    - exists b. split; [reflexivity|]. intros x d. unfold coin_owed. cbn. destruct (N.eqb x a), (N.eqb x macct); lia.
    - inversion ND as [|? ? NI NDr]; subst.
      pose proof (H d0 C0 (or_introl eq_refl)) as [O0 O1].
      cbn [ofold]. unfold pay_coin at 1. cbn [fst snd].
      set (o := dtrunc (dmul s (dec C0))) in *.
      destruct (Z.ltb_spec o 0) as [C|_]; [lia|].
      assert (STEP : exists b1, (if o =? 0 then Ok b else
                       if o <=? bal b macct d0 then Ok (credit (credit b macct d0 (- o)) a d0 o) else Ok b) = Ok b1 /\
                     forall x d, bal b1 x d = bal b x d + (if N.eqb x a && N.eqb d d0 then o else 0)
                                                      - (if N.eqb x macct && N.eqb d d0 then o else 0)).
      { destruct (Z.eqb_spec o 0) as [Z0|NZ].
        - exists b. split; [reflexivity|]. intros x d. rewrite Z0. destruct (_ && _), (_ && _); lia.
        - destruct (Z.leb_spec o (bal b macct d0)) as [_|C]; [|lia].
          eexists. split; [reflexivity|]. intros x d. rewrite !bal_credit.
          destruct (N.eqb x a && N.eqb d d0), (N.eqb x macct && N.eqb d d0); lia. }
      destruct STEP as [b1 [E1 B1]]. rewrite E1. cbn [obind].
      destruct (IH b1 NDr) as [b' [E' B']].
      { intros d C I. rewrite B1.
        assert (d <> d0).
        { intros ->. apply NI. change d0 with (fst (d0, C)). apply in_map. exact I. }
        rewrite (proj2 (N.eqb_neq d d0)) by assumption. rewrite !andb_false_r.
        pose proof (H d C (or_intror I)). lia. }
      exists b'. split; [exact E'|]. intros x d. rewrite B', B1.
      unfold coin_owed. cbn [aget]. destruct (N.eqb_spec d d0) as [->|NE].
      + assert (aget N.eqb r d0 = None) as -> by (apply (aget_none_notin N.eqb Neqb_spec); exact NI).
        rewrite !andb_true_r. fold o. destruct (N.eqb x a), (N.eqb x macct); lia.
      + rewrite !andb_false_r. lia.
  Qed.

  Variable T : Z.
  Variable tr : tracker.
  Variable coins : list (N * Z).

  (* what prover p is owed in denomination d, and the part of it that goes to account x *)
  Definition po (p d : N) : Z :=
    if aval N.eqb tr p <=? 0 then 0
    else match aget N.eqb accts p with
         | Some _ => coin_owed (share (aval N.eqb tr p) T) coins d
         | None => 0
         end.
  Definition recv (x p d : N) : Z :=
    match aget N.eqb accts p with
    | Some a => if N.eqb a x then po p d else 0
    | None => 0
    end.

  Hypothesis HT : 0 < T.
  Hypothesis HC : forall d C, In (d, C) coins -> 0 <= C.
  Hypothesis HND : NoDup (akeys coins).

  Lemma po_nonneg p d : 0 <= po p d.
  Proof.
    unfold po. destruct (Z.leb_spec (aval N.eqb tr p) 0); [lia|].
    destruct (aget N.eqb accts p); [|lia].
    apply coin_owed_nonneg; [|exact HC]. apply share_bounds; assumption.
  Qed.

  Lemma sumz_nonneg {A} (g : A -> Z) l : (forall x, 0 <= g x) -> 0 <= sumz g l.
  Proof. intros H. induction l; cbn; [lia|]. pose proof (H a). lia. Qed.

  Lemma in_coins_aget d C : In (d, C) coins -> aget N.eqb coins d = Some C.
  Proof.
    clear HC. revert HND. induction coins as [|[d' C'] r IH]; intros ND I; [destruct I|].
    inversion ND as [|? ? NI NDr]; subst. cbn. destruct I as [[= -> ->]|I].
    - rewrite N.eqb_refl. reflexivity.
    - destruct (N.eqb_spec d d') as [->|NE]; [|apply IH; assumption].
      exfalso. apply NI. change d' with (fst (d', C)). apply in_map. exact I.
  Qed.

  Lemma pay_provers_exact : forall ps b,
    (forall p a, In p ps -> aget N.eqb accts p = Some a -> a <> macct) ->
    (forall d, In d (akeys coins) -> sumz (fun p => po p d) ps <= bal b macct d) ->
    exists b', ofold (pay_prover macct accts T tr coins) ps b = Ok b' /\
      forall x d, bal b' x d = bal b x d + sumz (fun p => recv x p d) ps
                                       - (if N.eqb x macct then sumz (fun p => po p d) ps else 0).
  Proof.
    induction ps as [|p r IH]; intros b NM SUF.
    - exists b. split; [reflexivity|]. intros x d. cbn. destruct (N.eqb x macct); lia.
    - cbn [ofold].
      assert (SUF' : forall b1, (forall d, bal b1 macct d = bal b macct d - po p d) ->
                forall d, In d (akeys coins) -> sumz (fun p => po p d) r <= bal b1 macct d).
      { intros b1 B d I. rewrite B. pose proof (SUF d I) as S. cbn [sumz] in S. lia. }
      assert (NM' : forall p' a, In p' r -> aget N.eqb accts p' = Some a -> a <> macct)
        by (intros p' a I; apply NM; right; exact I).
      assert (STEP : exists b1, pay_prover macct accts T tr coins b p = Ok b1 /\
                forall x d, bal b1 x d = bal b x d + recv x p d - (if N.eqb x macct then po p d else 0)).
      { unfold pay_prover, recv, po.
        destruct (Z.leb_spec (aval N.eqb tr p) 0) as [W|W].
        - exists b. split; [reflexivity|]. intros x d.
          destruct (aget N.eqb accts p); [destruct (N.eqb _ x)|]; destruct (N.eqb x macct); lia.
        - destruct (aget N.eqb accts p) as [a|] eqn:EA.
          + assert (NA : a <> macct) by (apply (NM p a); [left; reflexivity | exact EA]).
            destruct (pay_coins_exact a (share (aval N.eqb tr p) T) NA coins b HND) as [b1 [E1 B1]].
            { intros d C I. pose proof (in_coins_aget d C I) as G.
              assert (ID : In d (akeys coins)) by (change d with (fst (d, C)); apply in_map; exact I).
              pose proof (SUF d ID) as S. cbn [sumz] in S.
              pose proof (sumz_nonneg (fun p => po p d) r (fun q => po_nonneg q d)) as S0.
              pose proof (po_nonneg p d) as P0.
              set (R := sumz (fun p => po p d) r) in *.
              unfold po in S, P0. destruct (Z.leb_spec (aval N.eqb tr p) 0) as [C'|_]; [lia|].
              rewrite EA in S, P0. unfold coin_owed in S, P0. rewrite G in S, P0. lia. }
            exists b1. split; [exact E1|]. intros x d. rewrite B1.
            rewrite (N.eqb_sym a x). destruct (N.eqb x a), (N.eqb x macct); lia.
          + exists b. split; [reflexivity|]. intros x d. destruct (N.eqb x macct); lia. }
      destruct STEP as [b1 [E1 B1]]. rewrite E1. cbn [obind].
      destruct (IH b1 NM') as [b' [E' B']].
      { apply SUF'. intros d. rewrite B1. rewrite N.eqb_refl.
        assert (recv macct p d = 0); [|lia].
        unfold recv. destruct (aget N.eqb accts p) as [a|] eqn:EA; [|reflexivity].
        destruct (N.eqb_spec a macct) as [->|_]; [|reflexivity].
        exfalso. apply (NM p macct); [left; reflexivity | exact EA | reflexivity]. }
      exists b'. split; [exact E'|]. intros x d. rewrite B', B1. cbn [sumz]. destruct (N.eqb x macct); lia.
  Qed.
End PayProofs.

(* ================= rewardAllProviders ================= *)

Lemma sumz_ninsert g x l : sumz g (ninsert x l) = g x + sumz g l.
Proof. induction l as [|y r IH]; cbn; [reflexivity|]. destruct (N.leb x y); cbn; [reflexivity|]. rewrite IH. lia. Qed.

Lemma sumz_nsort g l : sumz g (nsort l) = sumz g l.
Proof.
  induction l as [|x r IH]; [reflexivity|]. change (nsort (x :: r)) with (ninsert x (nsort r)).
  rewrite sumz_ninsert, IH. reflexivity.
Qed.

Lemma in_ninsert p x l : In p (ninsert x l) <-> p = x \/ In p l.
Proof.
  induction l as [|y r IH]; cbn; [intuition|]. destruct (N.leb x y); cbn; [intuition|]. rewrite IH. intuition.
Qed.

Lemma in_nsort p l : In p (nsort l) <-> In p l.
Proof.
  induction l as [|x r IH]; [reflexivity|]. change (nsort (x :: r)) with (ninsert x (nsort r)).
  rewrite in_ninsert, IH. cbn. intuition.
Qed.

Lemma length_ninsert x l : length (ninsert x l) = S (length l).
Proof. induction l as [|y r IH]; cbn; [reflexivity|]. destruct (N.leb x y); cbn; [reflexivity|]. rewrite IH. reflexivity. Qed.

Lemma length_nsort l : length (nsort l) = length l.
Proof.
  induction l as [|x r IH]; [reflexivity|]. change (nsort (x :: r)) with (ninsert x (nsort r)).
  rewrite length_ninsert, IH. reflexivity.
Qed.

Lemma sumz_ext_in {A} (g g' : A -> Z) l : (forall x, In x l -> g x = g' x) -> sumz g l = sumz g' l.
Proof.
  induction l as [|x r IH]; intros H; cbn; [reflexivity|].
  rewrite (H x (or_introl eq_refl)), IH by (intros y I; apply H; right; exact I). reflexivity.
Qed.

Lemma sumz_zero {A} (g : A -> Z) l : (forall x, In x l -> g x = 0) -> sumz g l = 0.
Proof. intros H. rewrite (sumz_ext_in g (fun _ => 0) l H). clear H. induction l; cbn; lia. Qed.

Lemma sumz_single (g : N -> Z) l p : NoDup l -> In p l -> (forall q, In q l -> q <> p -> g q = 0) -> sumz g l = g p.
Proof.
  induction l as [|x r IH]; intros ND I Z0; [destruct I|].
  inversion ND as [|? ? NI NDr]; subst. cbn. destruct I as [->|I].
  - rewrite sumz_zero; [lia|]. intros q Iq. apply Z0; [right; exact Iq | intros ->; contradiction].
  - rewrite IH; try assumption.
    + rewrite (Z0 x); [lia | left; reflexivity | intros ->; contradiction].
    + intros q Iq. apply Z0. right. exact Iq.
Qed.

Lemma sumz_swap {A B} (g : A -> B -> Z) la lb :
  sumz (fun a => sumz (fun b => g a b) lb) la = sumz (fun b => sumz (fun a => g a b) la) lb.
Proof.
  induction la as [|a r IH]; cbn.
  - symmetry. apply sumz_zero. reflexivity.
  - rewrite IH. clear IH. induction lb as [|b s IHb]; cbn; [reflexivity|]. rewrite <- IHb. lia.
Qed.

Lemma sumz_le {A} (g g' : A -> Z) l : (forall x, In x l -> g x <= g' x) -> sumz g l <= sumz g' l.
Proof.
  induction l as [|x r IH]; intros H; cbn; [lia|].
  pose proof (H x (or_introl eq_refl)). pose proof (IH (fun y I => H y (or_intror I))). lia.
Qed.

Lemma sumz_aval_asum (tr : tracker) : NoDup (akeys tr) -> sumz (aval N.eqb tr) (akeys tr) = asum tr.
Proof.
  induction tr as [|[k v] r IH]; intros ND; [reflexivity|].
  inversion ND as [|? ? NI NDr]; subst. cbn [akeys map fst sumz asum].
  unfold aval at 1. cbn [aget]. rewrite N.eqb_refl. f_equal.
  rewrite <- IH by exact NDr. apply sumz_ext_in. intros p I.
  unfold aval. cbn [aget]. destruct (N.eqb_spec p k) as [->|NE]; [contradiction | reflexivity].
Qed.

Record good_payout (macct : N) (accts : list (N * N)) (T : Z) (tr : tracker) (coins : list (N * Z)) (b : bank) : Prop := {
  gp_T : 0 < T;                                             (* something is stored *)
  gp_vals : forall p, 0 <= aval N.eqb tr p;                 (* credited sizes are non-negative *)
  gp_nodup : NoDup (akeys tr);
  gp_sum : asum tr <= T;                                    (* credited sizes add up to at most the denominator *)
  gp_coins_nodup : NoDup (akeys coins);                     (* sdk.Coins: one entry per denomination *)
  gp_coins_pos : forall d C, In (d, C) coins -> 0 <= C;
  gp_side : forall d C, In (d, C) coins -> Z.of_nat (length tr) * C < 2 * P18;   (* n * C < 2 * 10^18 *)
  gp_mod : forall d C, In (d, C) coins -> C <= bal b macct d;  (* the release is in the module account *)
  gp_accts : forall p a, aget N.eqb accts p = Some a -> a <> macct
}.

Theorem reward_all_exact macct accts T tr coins b :
  good_payout macct accts T tr coins b ->
  exists b', reward_all macct accts T tr coins b = Ok b' /\
    (forall x d, bal b' x d = bal b x d + sumz (fun p => recv accts T tr coins x p d) (akeys tr)
                 - (if N.eqb x macct then sumz (fun p => po accts T tr coins p d) (akeys tr) else 0)) /\
    (forall d C, In (d, C) coins -> sumz (fun p => po accts T tr coins p d) (akeys tr) <= C).
Proof.
  intros [HT HV HN HS HCN HCP HSD HM HA].
  assert (SUM : forall d C, In (d, C) coins -> sumz (fun p => po accts T tr coins p d) (nsort (akeys tr)) <= C).
  { intros d C I. apply (sum_owed_le (aval N.eqb tr) _ T C); try assumption.
    - eapply HCP; eassumption.
    - intros p _. apply HV.
    - intros p _. unfold po. destruct (Z.leb_spec (aval N.eqb tr p) 0) as [W|W]; [left; reflexivity|].
      destruct (aget N.eqb accts p); [|left; reflexivity]. right. split; [exact W|].
      unfold coin_owed. rewrite (in_coins_aget coins HCN d C I). reflexivity.
    - rewrite sumz_nsort, sumz_aval_asum by exact HN. exact HS.
    - rewrite length_nsort. unfold akeys. rewrite map_length. eapply HSD; eassumption. }
  unfold reward_all. destruct (Z.leb_spec T 0) as [C|_]; [lia|].
  destruct (pay_provers_exact macct accts T tr coins HT HCP HCN (nsort (akeys tr)) b) as [b' [E B]].
  - intros p a _. apply HA.
  - intros d I. unfold akeys in I. apply in_map_iff in I as [[d' C] [<- I]]. cbn.
    pose proof (SUM d' C I). pose proof (HM d' C I). lia.
  - exists b'. split; [exact E|]. split.
    + intros x d. rewrite B, !sumz_nsort. reflexivity.
    + intros d C I. rewrite <- sumz_nsort. apply SUM. exact I.
Qed.

Section Payout.
  Variables (macct : N) (accts : list (N * N)) (T : Z) (tr : tracker) (coins : list (N * Z)) (b b' : bank).
  Hypothesis G : good_payout macct accts T tr coins b.
  Hypothesis RUN : reward_all macct accts T tr coins b = Ok b'.

  Lemma payout_balances x d :
    bal b' x d = bal b x d + sumz (fun p => recv accts T tr coins x p d) (akeys tr)
                 - (if N.eqb x macct then sumz (fun p => po accts T tr coins p d) (akeys tr) else 0).
  Proof. destruct (reward_all_exact _ _ _ _ _ _ G) as [b2 [E [B _]]]. rewrite RUN in E. injection E as <-. apply B. Qed.

  (* a counted prover whose account no other counted prover denotes is paid exactly trunc(share * C) *)
  Lemma payout_exact p a d C :
    In p (akeys tr) -> 0 < aval N.eqb tr p -> aget N.eqb accts p = Some a ->
    (forall q, In q (akeys tr) -> q <> p -> aget N.eqb accts q = Some a -> aval N.eqb tr q <= 0) ->
    In (d, C) coins ->
    bal b' a d = bal b a d + owed (aval N.eqb tr p) T C.
  Proof.
    intros I W EA INJ IC. rewrite payout_balances.
    assert (NA : a <> macct) by (eapply (gp_accts _ _ _ _ _ _ G); eassumption).
    rewrite (proj2 (N.eqb_neq a macct) NA).
    rewrite (sumz_single _ (akeys tr) p (gp_nodup _ _ _ _ _ _ G) I).
    - unfold recv. rewrite EA, N.eqb_refl. unfold po. destruct (Z.leb_spec (aval N.eqb tr p) 0); [lia|].
      rewrite EA. unfold coin_owed. rewrite (in_coins_aget coins (gp_coins_nodup _ _ _ _ _ _ G) d C IC).
      unfold owed. lia.
    - intros q Iq NE. unfold recv. destruct (aget N.eqb accts q) as [a'|] eqn:EQ; [|reflexivity].
      destruct (N.eqb_spec a' a) as [->|_]; [|reflexivity].
      unfold po. destruct (Z.leb_spec (aval N.eqb tr q) 0) as [_|C']; [reflexivity|].
      pose proof (INJ q Iq NE EQ). lia.
  Qed.

  Lemma recv_sum_le p d xs : NoDup xs -> sumz (fun x => recv accts T tr coins x p d) xs <= po accts T tr coins p d.
  Proof.
    pose proof (po_nonneg accts T tr coins (gp_T _ _ _ _ _ _ G) (gp_coins_pos _ _ _ _ _ _ G) p d) as P0.
    induction xs as [|x r IH]; intros ND; cbn; [exact P0|].
    inversion ND as [|? ? NI NDr]; subst.
    unfold recv at 1. destruct (aget N.eqb accts p) as [a|] eqn:EA; [|apply IH in NDr; lia].
    destruct (N.eqb_spec a x) as [->|NE]; [|apply IH in NDr; lia].
    rewrite sumz_zero; [lia|]. intros y Iy. unfold recv. rewrite EA.
    destruct (N.eqb_spec x y) as [->|_]; [contradiction | reflexivity].
  Qed.

  (* whatever set of accounts one looks at, together they receive at most the release *)
  Lemma payout_sum_le xs d C :
    NoDup xs -> ~ In macct xs -> In (d, C) coins ->
    sumz (fun x => bal b' x d - bal b x d) xs <= C.
  Proof.
    intros ND NM IC.
    rewrite (sumz_ext_in _ (fun x => sumz (fun p => recv accts T tr coins x p d) (akeys tr)) xs).
    - rewrite sumz_swap.
      destruct (reward_all_exact _ _ _ _ _ _ G) as [_ [_ [_ S]]].
      pose proof (S d C IC).
      pose proof (sumz_le (fun p => sumz (fun x => recv accts T tr coins x p d) xs)
                          (fun p => po accts T tr coins p d) (akeys tr)
                          (fun p _ => recv_sum_le p d xs ND)). lia.
    - intros x I. rewrite payout_balances.
      destruct (N.eqb_spec x macct) as [->|_]; [contradiction | lia].
  Qed.

  (* an account that no counted prover denotes receives nothing, in any denomination *)
  Lemma payout_uncounted x d :
    x <> macct -> (forall p, In p (akeys tr) -> aget N.eqb accts p = Some x -> aval N.eqb tr p <= 0) ->
    bal b' x d = bal b x d.
  Proof.
    intros NM UN. rewrite payout_balances. rewrite (proj2 (N.eqb_neq x macct) NM).
    rewrite sumz_zero; [lia|]. intros p I. unfold recv.
    destruct (aget N.eqb accts p) as [a|] eqn:EA; [|reflexivity].
    destruct (N.eqb_spec a x) as [->|_]; [|reflexivity].
    unfold po. destruct (Z.leb_spec (aval N.eqb tr p) 0) as [_|C]; [reflexivity|].
    pose proof (UN p I EA). lia.
  Qed.

  (* nothing moves in a denomination the gauges did not release *)
  Lemma payout_other_denom x d : ~ In d (akeys coins) -> bal b' x d = bal b x d.
  Proof.
    intros ND. rewrite payout_balances.
    assert (Z0 : forall p, po accts T tr coins p d = 0).
    { intros p. unfold po, coin_owed. destruct (_ <=? _); [reflexivity|]. destruct (aget N.eqb accts p); [|reflexivity].
      rewrite (proj2 (aget_none_notin N.eqb Neqb_spec coins d) ND). reflexivity. }
    rewrite !sumz_zero; [destruct (N.eqb x macct); lia | intros; apply Z0 |].
    intros p _. unfold recv. destruct (aget N.eqb accts p); [|reflexivity]. destruct (N.eqb _ x); [apply Z0 | reflexivity].
  Qed.
End Payout.

(* ================= the statements of Props/C03.v that need a tactic ================= *)

Lemma payout_share_bounds macct accts T tr coins b b' p a d C :
  good_payout macct accts T tr coins b -> reward_all macct accts T tr coins b = Ok b' ->
  In p (akeys tr) -> 0 < aval N.eqb tr p -> aget N.eqb accts p = Some a ->
  (forall q, In q (akeys tr) -> q <> p -> aget N.eqb accts q = Some a -> aval N.eqb tr q <= 0) ->
  In (d, C) coins ->
  let w := aval N.eqb tr p in
  let pay := bal b' a d - bal b a d in
  pay = owed w T C /\
  P18 * T * pay <= P18 * (w * C) + T * C /\
  P18 * (w * C) - T * C < P18 * T * (pay + 1).
Proof.
  intros G RUN I W EA INJ IC w pay.
  assert (E : pay = owed w T C).
  { unfold pay. rewrite (payout_exact macct accts T tr coins b b' G RUN p a d C I W EA INJ IC). fold w. lia. }
  split; [exact E|]. rewrite E.
  apply owed_share_bounds; [exact W | apply G | eapply (gp_coins_pos _ _ _ _ _ _ G); eassumption].
Qed.

Lemma payout_within_one_unit macct accts T tr coins b b' p a d C :
  good_payout macct accts T tr coins b -> reward_all macct accts T tr coins b = Ok b' ->
  In p (akeys tr) -> 0 < aval N.eqb tr p -> aget N.eqb accts p = Some a ->
  (forall q, In q (akeys tr) -> q <> p -> aget N.eqb accts q = Some a -> aval N.eqb tr q <= 0) ->
  In (d, C) coins -> C <= P18 ->
  let w := aval N.eqb tr p in
  let pay := bal b' a d - bal b a d in
  (w * C) / T - 1 <= pay <= (w * C) / T + 1.
Proof.
  intros G RUN I W EA INJ IC CP w pay.
  destruct (payout_share_bounds macct accts T tr coins b b' p a d C G RUN I W EA INJ IC) as [E _].
  fold w pay in E. rewrite E.
  apply owed_within_one; [exact W | apply G |]. split; [eapply (gp_coins_pos _ _ _ _ _ _ G); eassumption | exact CP].
Qed.

(* ================= the tracker a block builds satisfies the payout's hypotheses ================= *)

Definition slots (files : list file) : nat := fold_right (fun f n => (length (f_proofs f) + n)%nat) O files.

Lemma tr_spec_keys size v : forall ks tr, NoDup (akeys tr) ->
  NoDup (akeys (tr_spec size v ks tr)) /\ (length (tr_spec size v ks tr) <= length tr + length ks)%nat.
Proof.
  induction ks as [|k r IH]; intros tr ND; cbn [tr_spec length]; [split; [exact ND | lia]|].
  destruct (v k) as [p| | |]; try (destruct (IH tr ND); split; [assumption | lia]).
  destruct (IH (bump size tr p)) as [A B].
  - unfold bump. apply (nodup_aset N.eqb Neqb_spec). exact ND.
  - split; [exact A|]. unfold bump in *.
    assert (length (aset N.eqb tr p (wrap64 (aval N.eqb tr p + size))) <= S (length tr))%nat.
    { generalize (wrap64 (aval N.eqb tr p + size)). intros z. clear. induction tr as [|[k' v'] t IH]; cbn; [lia|].
      destruct (N.eqb p k'); cbn; lia. }
    lia.
Qed.

Lemma manage_fold_keys h : forall files a a',
  Forall wf_file files -> ofold (manage_one h) files a = Ok a' -> NoDup (akeys (as_tr a)) ->
  NoDup (akeys (as_tr a')) /\ (length (as_tr a') <= length (as_tr a) + slots files)%nat.
Proof.
  induction files as [|f r IH]; intros a a' WF E ND.
  - cbn in E. injection E as <-. split; [exact ND | cbn; lia].
  - inversion WF as [|? ? WFf WFr]; subst. cbn [ofold] in E. rewrite manage_one_eq in E by exact WFf. cbn [obind] in E.
    destruct (tr_spec_keys (f_size f) (verdict_of h f) (f_proofs f) (as_tr a) ND) as [A B].
    destruct (IH _ a' WFr E) as [A' B']; cbn [as_tr]; [exact A|]. cbn [as_tr] in B'.
    split; [exact A'|]. cbn [slots fold_right]. fold (slots r). lia.
Qed.

Lemma sum_eq_le1 x : forall ks, NoDup ks -> sumz (fun p => if N.eqb p x then 1 else 0) ks <= 1.
Proof.
  induction ks as [|k r IH]; intros ND; cbn; [lia|]. inversion ND as [|? ? NI NDr]; subst.
  destruct (N.eqb_spec k x) as [->|NE]; [|apply IH in NDr; lia].
  rewrite sumz_zero; [lia|]. intros q I. destruct (N.eqb_spec q x) as [->|_]; [contradiction | reflexivity].
Qed.

Lemma sumz_add {A} (g g' : A -> Z) l : sumz (fun x => g x + g' x) l = sumz g l + sumz g' l.
Proof. induction l; cbn; lia. Qed.

Lemma count_listed ks : NoDup ks -> forall L, sumz (fun p => if nmem p L then 1 else 0) ks <= Z.of_nat (length L).
Proof.
  intros ND. induction L as [|x r IH]; [rewrite sumz_zero; [cbn; lia | reflexivity]|].
  cbn [length]. rewrite Nat2Z.inj_succ.
  pose proof (sum_eq_le1 x ks ND).
  assert (sumz (fun p => if nmem p (x :: r) then 1 else 0) ks <=
          sumz (fun p => (if N.eqb p x then 1 else 0) + (if nmem p r then 1 else 0)) ks).
  { apply sumz_le. intros p _. rewrite nmem_cons. destruct (N.eqb p x), (nmem p r); cbn; lia. }
  rewrite sumz_add in *. lia.
Qed.

Lemma sumz_scale {A} (c : Z) (g : A -> Z) l : sumz (fun x => c * g x) l = c * sumz g l.
Proof. induction l; cbn; lia. Qed.

Lemma credit1_sum h f ks : NoDup ks -> 0 <= f_size f ->
  sumz (fun p => credit1 h f p) ks <= f_size f * Z.of_nat (length (f_proofs f)).
Proof.
  intros ND S0.
  assert (sumz (fun p => credit1 h f p) ks <= sumz (fun p => f_size f * (if nmem p (f_proofs f) then 1 else 0)) ks).
  { apply sumz_le. intros p _. unfold credit1. destruct (nmem p (f_proofs f)), (ok_slot h f p); cbn; lia. }
  rewrite sumz_scale in *. pose proof (count_listed ks ND (f_proofs f)). nia.
Qed.

Lemma credited_sum h files ks : NoDup ks -> Forall (fun f => 0 <= f_size f) files ->
  sumz (credited h files) ks <= total_size files.
Proof.
  intros ND S0. unfold credited, total_size. rewrite sumz_swap.
  apply sumz_le. intros f I. apply credit1_sum; [exact ND|]. rewrite Forall_forall in S0. apply S0. exact I.
Qed.

Lemma credited_range h files p : Forall (fun f => 0 <= f_size f) files -> 0 <= credited h files p <= total_size files.
Proof.
  intros S0. pose proof (credited_sum h files [p] ltac:(repeat constructor; intros []) S0) as U. cbn in U.
  split; [|lia]. unfold credited. rewrite Forall_forall in S0. clear U.
  induction files as [|f r IH]; cbn; [lia|].
  assert (0 <= credit1 h f p).
  { unfold credit1. destruct (_ && _); [apply S0; left; reflexivity | lia]. }
  assert (0 <= sumz (fun f0 => credit1 h f0 p) r) by (apply IH; intros x I; apply S0; right; exact I). lia.
Qed.

(* the state in which rewardAllProviders runs at a reward block satisfies [good_payout], with the
   tracker holding exactly the credited sizes and the denominator the total listed size *)
Theorem block_tracker_good macct accts h files bu coins b a :
  Forall wf_file files -> bu_in64 bu -> Forall (fun f => 0 <= f_size f) files ->
  0 < total_size files <= int64_max ->
  NoDup (akeys coins) -> (forall d C, In (d, C) coins -> 0 <= C) ->
  (forall d C, In (d, C) coins -> Z.of_nat (slots files) * C < 2 * P18) ->
  (forall d C, In (d, C) coins -> C <= bal b macct d) ->
  (forall p x, aget N.eqb accts p = Some x -> x <> macct) ->
  manage_all h files bu = Ok a ->
  as_total a = total_size files /\
  (forall p, aval N.eqb (as_tr a) p = credited h files p) /\
  good_payout macct accts (total_size files) (as_tr a) coins b.
Proof.
  intros WF RB S0 [T0 T1] CN CP SIDE MOD ACC E.
  destruct (manage_all_counts h files bu WF RB) as [a0 [E0 [_ [TT [TR _]]]]].
  rewrite E in E0. injection E0 as <-.
  assert (ET : as_total a = total_size files).
  { rewrite TT. apply wrap64_id. unfold int64_min. lia. }
  assert (EV : forall p, aval N.eqb (as_tr a) p = credited h files p).
  { intros p. rewrite TR. apply wrap64_id. pose proof (credited_range h files p S0). unfold int64_min. lia. }
  unfold manage_all in E.
  destruct (manage_fold_keys h files _ a WF E) as [KN KL]; cbn [as_tr]; [constructor|]. cbn [as_tr length] in KL.
  split; [exact ET|]. split; [exact EV|]. constructor; try assumption.
  - intros p. rewrite EV. apply credited_range. exact S0.
  - rewrite <- (sumz_aval_asum (as_tr a) KN).
    rewrite (sumz_ext_in _ (credited h files) (akeys (as_tr a)) (fun p _ => EV p)).
    apply credited_sum; assumption.
  - intros d C I. pose proof (SIDE d C I). pose proof (CP d C I).
    assert (Z.of_nat (length (as_tr a)) * C <= Z.of_nat (slots files) * C); [|lia].
    apply Z.mul_le_mono_nonneg_r; [assumption | lia].
Qed.

(* ---------- admitted files: the footprint the reward walk multiplies out fits int64 ---------- *)
Lemma admissible_footprint_fits size mp n :
  post_admissible size mp = true -> 0 <= n <= mp ->
  0 <= size * n <= int64_max /\ wrap64 (size * n) = size * n.
Proof.
  unfold post_admissible. rewrite !Bool.andb_true_iff, !Z.ltb_lt, Z.leb_le. intros [[Hs Hm] Hd] Hn.
  assert (Hmax : 0 <= int64_max) by (unfold int64_max; lia).
  assert (size * mp <= int64_max).
  { pose proof (Z.mul_div_le int64_max mp Hm). nia. }
  assert (B : 0 <= size * n <= int64_max) by nia.
  split; [exact B|]. apply wrap64_id. unfold int64_min. lia.
Qed.
