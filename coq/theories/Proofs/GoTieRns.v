(* Ties by proof between the functions generated from x/rns/keeper's current source (Gen/GoRns.v:
   GetCostOfName, RegisterRNSName) and the model of C16 (Model/RnsReg.v).  The base cost of a TLD (a map lookup
   in types.TLDCost) is a read of the generated function; the tie instantiates it with the model's table, whose
   two entries the correspondence compares with the running code on every run. *)
From Coq Require Import ZArith NArith List Bool String Lia.
From JK Require Import Base.Dec Base.AList Base.GoSem Gen.GoRns Model.RnsReg.
Import ListNotations.
Open Scope Z_scope.

Lemma wrap_small x : - 2 ^ 63 <= x <= 2 ^ 63 - 1 -> wrap64 x = x.
Proof. intros. apply wrap64_id. unfold int64_min, int64_max. lia. Qed.

Lemma gen_GetCostOfName_model len t :
  gen_GetCostOfName (tld_cost t) len
  = GVal (match cost_of_name len t with Some c => (c, true) | None => (0, false) end).
Proof.
  unfold gen_GetCostOfName, cost_of_name, i64mul. cbv zeta.
  assert (0 <= tld_cost t <= 50000000) by (destruct t; cbn; lia).
  destruct (len =? 0); [reflexivity|].
  destruct (len =? 1); [rewrite wrap_small by lia; reflexivity|].
  destruct (len =? 2); [rewrite wrap_small by lia; reflexivity|].
  destruct (len =? 3); [rewrite wrap_small by lia; reflexivity|].
  destruct (len =? 4); [rewrite wrap_small by lia; reflexivity|].
  reflexivity.
Qed.

(* the price list of the property, read off the generated function *)
Lemma gen_GetCostOfName_price_list len t :
  1 <= len -> gen_GetCostOfName (tld_cost t) len = GVal (listed_price len t, true).
Proof.
  intros Hl. rewrite gen_GetCostOfName_model. unfold cost_of_name, listed_price.
  destruct (Z.eqb_spec len 0); [lia|].
  destruct t; cbn [tld_cost];
    destruct (len =? 1); [reflexivity| |reflexivity|];
    destruct (len =? 2); [reflexivity| |reflexivity|];
    destruct (len =? 3); [reflexivity| |reflexivity|];
    destruct (len =? 4); reflexivity.
Qed.

(* ---------------- RegisterRNSName ---------------- *)

Definition w_found (w : option name_rec) : bool := match w with Some _ => true | None => false end.
Definition w_expires (w : option name_rec) : Z := match w with Some r => n_expires r | None => 0 end.
Definition w_other (w : option name_rec) (owner : N) : bool :=
  match w with Some r => negb (N.eqb (n_owner r) owner) | None => false end.

(* what a registration does, in terms of the model's own cost, admission and expiry functions *)
Definition register_events (len : Z) (t : tld) (years h : Z) (sender_ok : bool) (whois : option name_rec) (owner : N)
           (ok_charge ok_pol primary has_primary : bool) : gres (list gev * bool) :=
  if is_reserved t then GVal ([], false) else
  match cost_of_name len t with
  | None => GVal ([], false)
  | Some cost =>
    if term_rejected cost years then GVal ([], false) else
    let price := wrap64 (cost * years) in
    if price <? 0 then GPanic else
    let time := wrap64 (years * blocks_per_year) in
    if negb sender_ok then GVal ([], false) else
    match new_expiry whois owner h time with
    | None => GVal ([], false)
    | Some e =>
      if negb ok_charge then GVal ([Ev "charge-sender" [price]], false) else
      if negb ok_pol then GVal ([Ev "charge-sender" [price]; Ev "module-to-pol" [price]], false) else
      GVal ([Ev "charge-sender" [price]; Ev "module-to-pol" [price]; Ev "set-name-expires" [e]]
              ++ (if primary || negb has_primary then [Ev "set-primary" []] else []), true)
    end
  end.

Lemma cost_pos len t c : cost_of_name len t = Some c -> 1 <= c <= 2 ^ 40.
Proof.
  unfold cost_of_name. assert (10000000 <= tld_cost t <= 50000000) by (destruct t; cbn; lia).
  destruct (len =? 0); [discriminate|].
  destruct (len =? 1); [intros [= <-]; lia|].
  destruct (len =? 2); [intros [= <-]; lia|].
  destruct (len =? 3); [intros [= <-]; lia|].
  destruct (len =? 4); [intros [= <-]; lia|].
  intros [= <-]; lia.
Qed.

Ltac Zify.zify_post_hook ::= Z.to_euclidean_division_equations.

Lemma term_rejected_gen cost years :
  1 <= cost <= 2 ^ 40 ->
  (glet t3 := (if orb (years <? 1) (cost <? 1) then GVal true
               else (glet t2 := i64quo 9223372036854775807 cost in GVal (t2 <? years))) in
   GVal (orb t3 (1681706916883 <? years)))
  = GVal (term_rejected cost years).
Proof.
  intros Hc. unfold term_rejected, i64quo, blocks_per_year, int64_max.
  destruct (Z.ltb_spec cost 1); [lia|]. destruct (Z.eqb_spec cost 0); [lia|].
  rewrite !Z.gtb_ltb.
  change (2 ^ 63 - 1) with 9223372036854775807.
  change (9223372036854775807 / 5484530) with 1681706916883.
  assert (E : wrap64 (Z.quot 9223372036854775807 cost) = 9223372036854775807 / cost).
  { rewrite Z.quot_div_nonneg by lia. apply wrap_small.
    assert (0 <= 9223372036854775807 / cost <= 9223372036854775807); [|lia].
    split; [apply Z.div_pos; lia | apply Z.div_le_upper_bound; nia]. }
  destruct (years <? 1); cbn [orb gbind]; [reflexivity|]. rewrite E. reflexivity.
Qed.

Theorem gen_RegisterRNSName_model len t years h sender_ok whois owner ok_charge ok_pol primary has_primary :
  gen_RegisterRNSName true (is_reserved t) (tld_cost t) len years h sender_ok
    (w_found whois) (w_expires whois) (w_other whois owner) ok_charge true ok_pol primary has_primary
  = register_events len t years h sender_ok whois owner ok_charge ok_pol primary has_primary.
Proof.
  unfold gen_RegisterRNSName, register_events. cbn [negb].
  destruct (is_reserved t); [reflexivity|].
  rewrite gen_GetCostOfName_model. cbn [gbind].
  destruct (cost_of_name len t) as [cost|] eqn:EC; [|reflexivity]. cbn [negb].
  pose proof (cost_pos len t cost EC) as Hc.
  pose proof (term_rejected_gen cost years Hc) as TR.
  destruct (if orb (years <? 1) (cost <? 1) then GVal true
            else (glet t2 := i64quo 9223372036854775807 cost in GVal (t2 <? years))) as [t3|] eqn:E3;
    cbn [gbind] in TR |- *; [|discriminate].
  injection TR as TR. rewrite TR.
  destruct (term_rejected cost years); [reflexivity|].
  unfold gcoin64, i64mul. destruct (wrap64 (cost * years) <? 0); [reflexivity|]. cbn [gbind].
  destruct sender_ok; cbn [negb]; [|reflexivity].
  unfold new_expiry, w_found, w_expires, w_other, i64sub, i64add, blocks_per_year, int64_max.
  change (2 ^ 63 - 1) with 9223372036854775807. cbv zeta.
  destruct whois as [w|]; cbn [andb]; rewrite ?Z.gtb_ltb.
  - destruct (h <? n_expires w); rewrite ?Z.gtb_ltb.
    + destruct (negb (N.eqb (n_owner w) owner)); [reflexivity|]. rewrite ?Z.gtb_ltb.
      destruct (wrap64 (9223372036854775807 - n_expires w) <? wrap64 (years * 5484530)); [reflexivity|].
      destruct ok_charge; cbn [negb app]; [|reflexivity].
      destruct ok_pol; cbn [negb app]; [|reflexivity].
      destruct (primary || negb has_primary); reflexivity.
    + destruct (wrap64 (9223372036854775807 - h) <? wrap64 (years * 5484530)); [reflexivity|].
      destruct ok_charge; cbn [negb app]; [|reflexivity].
      destruct ok_pol; cbn [negb app]; [|reflexivity].
      destruct (primary || negb has_primary); reflexivity.
  - destruct (wrap64 (9223372036854775807 - h) <? wrap64 (years * 5484530)); [reflexivity|].
    destruct ok_charge; cbn [negb app]; [|reflexivity].
    destruct ok_pol; cbn [negb app]; [|reflexivity].
    destruct (primary || negb has_primary); reflexivity.
Qed.

(* ---------------- the model's step is the interpretation of those events over its bank and stores ---------------- *)

Definition is_some {A} (o : option A) : bool := match o with Some _ => true | None => false end.

(* the answers the model's bank gives to the two transfers of a registration *)
Definition ok_charge_of (acc : accts) (s : rstate) (owner : N) (price : Z) : bool :=
  negb (price =? 0) && is_some (send (s_bank s) owner (a_mod acc) price).
Definition ok_pol_of (acc : accts) (s : rstate) (owner : N) (price : Z) : bool :=
  match send (s_bank s) owner (a_mod acc) price with
  | Some b1 => is_some (send b1 (a_mod acc) (a_pol acc) price)
  | None => false
  end.
Definition has_primary_of (s : rstate) (idx owner : N) (r : name_rec) : bool :=
  match aget N.eqb (s_primary s) owner with
  | Some p => has_name (aset N.eqb (s_names s) idx r) p
  | None => false
  end.

Theorem register_is_the_interpretation acc s op idx len t :
  o_basic_ok op = true -> o_parse op = Some (idx, len, t) ->
  let whois := aget N.eqb (s_names s) idx in
  let owner := o_sender op in
  let price := match cost_of_name len t with Some c => wrap64 (c * o_years op) | None => 0 end in
  let e0 := match new_expiry whois owner (o_height op) (wrap64 (o_years op * blocks_per_year)) with Some e => e | None => 0 end in
  let r := {| n_owner := owner; n_expires := e0; n_data := o_data op; n_locked := 0; n_subs := 0 |} in
  register acc s op
  = match register_events len t (o_years op) (o_height op) (o_sender_ok op) whois owner
            (ok_charge_of acc s owner price) (ok_pol_of acc s owner price) (o_primary op) (has_primary_of s idx owner r) with
    | GPanic => (Panic, s)
    | GVal (_, false) => (Fail, s)
    | GVal (evs, true) =>
        match send (s_bank s) owner (a_mod acc) price with
        | Some b1 =>
            match send b1 (a_mod acc) (a_pol acc) price with
            | Some b2 =>
                (Ok, {| s_names := aset N.eqb (s_names s) idx r;
                        s_primary := if existsb (fun ev => match ev with Ev tag _ => String.eqb tag "set-primary" end) evs
                                     then aset N.eqb (s_primary s) owner idx else s_primary s;
                        s_bank := b2 |})
            | None => (Fail, s)
            end
        | None => (Fail, s)
        end
    end.
Proof.
  intros Hb Hp. cbv zeta. unfold register, register_events. rewrite Hb, Hp. cbn [negb].
  destruct (is_reserved t); [reflexivity|].
  destruct (cost_of_name len t) as [cost|]; [|reflexivity].
  destruct (term_rejected cost (o_years op)); [reflexivity|]. cbv zeta.
  destruct (wrap64 (cost * o_years op) <? 0); [reflexivity|].
  destruct (o_sender_ok op); cbn [negb]; [|reflexivity].
  destruct (new_expiry (aget N.eqb (s_names s) idx) (o_sender op) (o_height op) (wrap64 (o_years op * blocks_per_year)))
    as [e|]; [|reflexivity].
  unfold ok_charge_of, ok_pol_of, has_primary_of.
  destruct (wrap64 (cost * o_years op) =? 0); cbn [negb andb]; [reflexivity|].
  destruct (send (s_bank s) (o_sender op) (a_mod acc) (wrap64 (cost * o_years op))) as [b1|]; cbn [is_some negb]; [|reflexivity].
  destruct (send b1 (a_mod acc) (a_pol acc) (wrap64 (cost * o_years op))) as [b2|]; cbn [is_some negb]; [|reflexivity].
  destruct (o_primary op || negb _); reflexivity.
Qed.
