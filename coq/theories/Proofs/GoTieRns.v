(* Tie by proof between keeper.GetCostOfName as generated from x/rns/keeper/utils.go's current source
   (Gen/GoRns.v) and the model of C16 (Model/RnsReg.v).  The base cost of a TLD (a map lookup in
   types.TLDCost) is a read of the generated function; the tie instantiates it with the model's table,
   whose two entries the correspondence compares with the running code on every run. *)
From Coq Require Import ZArith List Bool Lia.
From JK Require Import Base.Dec Base.GoSem Gen.GoRns Model.RnsReg.
Open Scope Z_scope.

Lemma wrap_small x : - 2 ^ 63 <= x <= 2 ^ 63 - 1 -> wrap64 x = x.
Proof. intros. apply wrap64_id. unfold int64_min, int64_max. lia. Qed.

Lemma gen_GetCostOfName_model len t :
  gen_GetCostOfName (tld_cost t) len
  = GVal (match cost_of_name len t with Some c => (c, true) | None => (0, false) end).
Proof.
  unfold gen_GetCostOfName, cost_of_name, i64mul. cbv zeta.
  assert (0 <= tld_cost t <= 50000000) by (destruct t; cbn; lia).
  destruct (len =? 0); [reflexivity|].
  destruct (len =? 1); [rewrite wrap_small by lia; reflexivity|].
  destruct (len =? 2); [rewrite wrap_small by lia; reflexivity|].
  destruct (len =? 3); [rewrite wrap_small by lia; reflexivity|].
  destruct (len =? 4); [rewrite wrap_small by lia; reflexivity|].
  reflexivity.
Qed.

(* the price list of the property, read off the generated function *)
Lemma gen_GetCostOfName_price_list len t :
  1 <= len -> gen_GetCostOfName (tld_cost t) len = GVal (listed_price len t, true).
Proof.
  intros Hl. rewrite gen_GetCostOfName_model. unfold cost_of_name, listed_price.
  destruct (Z.eqb_spec len 0); [lia|].
  destruct t; cbn [tld_cost];
    destruct (len =? 1); [reflexivity| |reflexivity|];
    destruct (len =? 2); [reflexivity| |reflexivity|];
    destruct (len =? 3); [reflexivity| |reflexivity|];
    destruct (len =? 4); reflexivity.
Qed.
