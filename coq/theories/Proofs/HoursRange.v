From Coq Require Import ZArith Lia.
From JK Require Import Base.Dec.
Open Scope Z_scope.

Lemma chop_round_abs d : Z.abs (chop_round d) = chop_nn (Z.abs d).
Proof.
  unfold chop_round. destruct (Z.ltb_spec d 0).
  - rewrite Z.abs_opp. rewrite (Z.abs_neq d) by lia. apply Z.abs_eq. apply chop_nn_nonneg. lia.
  - rewrite (Z.abs_eq d) by lia. apply Z.abs_eq. apply chop_nn_nonneg. lia.
Qed.

Lemma quot_abs_div a b : b <> 0 -> Z.abs (Z.quot a b) = Z.abs a / Z.abs b.
Proof.
  intros Hb. rewrite <- Z.quot_abs by assumption. apply Z.quot_div_nonneg; lia.
Qed.

(* |trunc (Dec(y) / Dec(h))| <= |y| for a positive whole divisor: a count of hours taken from an int64 count of
   milliseconds always fits int64 *)
Lemma dtrunc_dquo_dec_abs y h : 0 < h -> Z.abs (dtrunc (dquo (dec y) (dec h))) <= Z.abs y.
Proof.
  intros Hh. pose proof P18_pos as HP.
  unfold dtrunc, dquo, dec.
  set (d := Z.quot (y * P18 * P18 * P18) (h * P18)).
  assert (Hd : Z.abs d <= Z.abs y * P18 * P18).
  { unfold d. rewrite quot_abs_div by nia.
    replace (Z.abs (y * P18 * P18 * P18)) with (Z.abs y * P18 * P18 * P18) by (rewrite !Z.abs_mul, (Z.abs_eq P18) by lia; ring).
    rewrite (Z.abs_eq (h * P18)) by nia.
    transitivity (Z.abs y * P18 * P18 * P18 / P18).
    - apply Z.div_le_compat_l; [nia|nia].
    - rewrite Z.div_mul by lia. lia. }
  assert (Hc : Z.abs (chop_round d) <= Z.abs y * P18).
  { rewrite chop_round_abs. pose proof (chop_nn_bounds (Z.abs d) (Z.abs_nonneg d)) as [B _]. nia. }
  rewrite quot_abs_div by lia. rewrite (Z.abs_eq P18) by lia.
  apply Z.div_le_upper_bound; [lia|]. nia.
Qed.

Lemma hours_fit_int64 x h :
  0 < h -> int64_min <= x <= int64_max -> in_int64 (dtrunc (dquo (dec (Z.quot x 1000000)) (dec h))) = true.
Proof.
  intros Hh Hx. apply in_int64_iff.
  pose proof (dtrunc_dquo_dec_abs (Z.quot x 1000000) h Hh) as B.
  assert (Z.abs (Z.quot x 1000000) <= Z.abs x).
  { rewrite quot_abs_div by lia. apply Z.div_le_upper_bound; lia. }
  unfold int64_min, int64_max in *.
  assert (Z.abs (Z.quot x 1000000) <= 2 ^ 62).
  { rewrite quot_abs_div by lia. apply Z.div_le_upper_bound; [lia|]. change (Z.abs 1000000) with 1000000. lia. }
  lia.
Qed.
