(* Ties by proof between the three units of keeper.rewardAllProviders generated from the current source
   (Gen/GoReward.v: the guard, per prover, per released coin) and the payout model of C03 (Model/Rewards.v). *)
From Coq Require Import ZArith NArith List Bool String Lia.
From JK Require Import Base.Dec Base.AList Base.GoSem Gen.GoReward Model.Rewards.
Import ListNotations.
Open Scope Z_scope.

Lemma dec_eq0 n : (dec n =? 0) = (n =? 0).
Proof.
  unfold dec. pose proof P18_pos.
  destruct (Z.eqb_spec n 0) as [->|N]; [reflexivity|].
  destruct (Z.eqb_spec (n * P18) 0); [nia|reflexivity].
Qed.

(* nothing is paid when nothing (or a degenerate total) is stored; otherwise the provers are paid relative to
   the total as a Dec *)
Lemma gen_rewardGuard_spec total :
  gen_rewardGuard total = GVal (if total <=? 0 then [] else [Ev "pay-provers-of" [dec total]]).
Proof. unfold gen_rewardGuard. destruct (total <=? 0); reflexivity. Qed.

(* one prover: skipped when its tracked size is not positive or its address does not parse; otherwise its
   share is Quo(worth, total) *)
Lemma gen_rewardProver_spec worth total ok :
  0 < total ->
  gen_rewardProver worth (dec total) ok
  = GVal (if worth <=? 0 then [] else if ok then [Ev "pay-share" [dquo (dec worth) (dec total)]] else []).
Proof.
  intros Ht. unfold gen_rewardProver, gdec_quo. rewrite dec_eq0.
  destruct (worth <=? 0); [reflexivity|].
  destruct (Z.eqb_spec total 0); [lia|]. cbn [gbind]. destruct ok; reflexivity.
Qed.

(* one released coin for one prover: trunc(share * amount), a panic when that is negative *)
Lemma gen_rewardCoin_spec amount pct ok :
  gen_rewardCoin amount pct ok
  = let owed := dtrunc (dmul pct (dec amount)) in
    if owed <? 0 then GPanic else GVal [Ev "pay" [owed]].
Proof.
  unfold gen_rewardCoin, gcoin64. cbv zeta. destruct (dtrunc (dmul pct (dec amount)) <? 0); [reflexivity|].
  cbn [gbind app]. destruct ok; reflexivity.
Qed.

(* ---- the model follows: pay_coin moves exactly the announced amount (when the module can pay it) and panics
   exactly when the generated code does *)
Lemma pay_coin_follows macct to share b c :
  pay_coin macct to share b c
  = match gen_rewardCoin (snd c) share true with
    | GPanic => Panic
    | GVal [Ev _ [owed]] =>
        if owed =? 0 then Ok b
        else if owed <=? bal b macct (fst c)
             then Ok (credit (credit b macct (fst c) (- owed)) to (fst c) owed) else Ok b
    | GVal _ => Ok b
    end.
Proof.
  rewrite gen_rewardCoin_spec. unfold pay_coin. cbv zeta.
  destruct (dtrunc (dmul share (dec (snd c))) <? 0); reflexivity.
Qed.

Lemma pay_prover_follows macct accts total tr coins b p :
  0 < total ->
  pay_prover macct accts total tr coins b p
  = match gen_rewardProver (aval N.eqb tr p) (dec total)
            (match aget N.eqb accts p with Some _ => true | None => false end) with
    | GVal [Ev _ [share]] =>
        match aget N.eqb accts p with Some a => ofold (pay_coin macct a share) coins b | None => Ok b end
    | _ => Ok b
    end.
Proof.
  intros Ht. rewrite gen_rewardProver_spec by assumption. unfold pay_prover. cbv zeta.
  destruct (aval N.eqb tr p <=? 0); [reflexivity|].
  destruct (aget N.eqb accts p); reflexivity.
Qed.

Lemma reward_all_follows macct accts total tr coins b :
  reward_all macct accts total tr coins b
  = match gen_rewardGuard total with
    | GVal [] => Ok b
    | _ => ofold (pay_prover macct accts total tr coins) (nsort (akeys tr)) b
    end.
Proof.
  rewrite gen_rewardGuard_spec. unfold reward_all. destruct (total <=? 0); reflexivity.
Qed.
