(* Ties by proof between the two units of keeper.pullTokensFromGauges generated from the current source
   (Gen/GoGauge.v: per gauge, per recorded coin of a gauge) and the model of C12 (Model/Gauge.v). *)
From Coq Require Import ZArith NArith List Bool String Lia.
From JK Require Import Base.Dec Base.GoSem Gen.GoGauge Model.Gauge.
Import ListNotations.
Open Scope Z_scope.

Lemma dec_eq0 n : (dec n =? 0) = (n =? 0).
Proof.
  unfold dec. pose proof P18_pos.
  destruct (Z.eqb_spec n 0) as [->|N]; [reflexivity|].
  destruct (Z.eqb_spec (n * P18) 0); [nia|reflexivity].
Qed.

Lemma gsat64_tsub a b : gsat64 (a - b) = tsub a b.
Proof.
  unfold gsat64, tsub, int64_min, int64_max, max_dur, min_dur. cbv zeta.
  destruct (Z.ltb_spec (a - b) (- 2 ^ 63)), (Z.ltb_spec (2 ^ 63 - 1) (a - b)); try reflexivity; lia.
Qed.

(* what one gauge does in a reward block, as far as the gauge record and the ratio are concerned *)
Definition gauge_events (start end_ now : Z) (escrow_empty : bool) : gres (list gev) :=
  if end_ <? now then GVal [Ev "remove-gauge" []]
  else if end_ <=? start then GVal [Ev "remove-gauge" []]
  else if escrow_empty then GVal [Ev "remove-gauge" []]
  else match gauge_ratio start end_ now with
       | None => GoSem.GPanic
       | Some r => GVal [Ev "release-coins-at-ratio" [r]]
       end.

Lemma gen_pullGauge_model start end_ now escrow_empty :
  gen_pullGauge start end_ now true escrow_empty = gauge_events start end_ now escrow_empty.
Proof.
  unfold gen_pullGauge, gauge_events, gauge_ratio, micros, gdec_quo. rewrite !gsat64_tsub, dec_eq0.
  destruct (end_ <? now); [reflexivity|].
  replace (orb (end_ <? start) (end_ =? start)) with (end_ <=? start)
    by (destruct (Z.ltb_spec end_ start), (Z.eqb_spec end_ start), (Z.leb_spec end_ start); try reflexivity; lia).
  destruct (end_ <=? start); [reflexivity|]. cbn [negb].
  destruct escrow_empty; [reflexivity|].
  destruct (Z.quot (tsub end_ start) 1000 =? 0); reflexivity.
Qed.

(* the model's [pull_one] takes the same decisions in the same order *)
Lemma pull_one_follows_gauge_events now g snap :
  pull_one now g snap
  = match gauge_events (g_start g) (g_end g) now (cempty snap) with
    | GVal [Ev _ [r]] =>
        match pull_coins r snap (g_coins g) with None => Gauge.GPanic | Some (b, mv) => GDone true b mv end
    | GVal _ => GDone false snap []
    | GoSem.GPanic => Gauge.GPanic
    end.
Proof.
  unfold pull_one, gauge_events.
  destruct (g_end g <? now); [reflexivity|].
  destruct (g_end g <=? g_start g); [reflexivity|].
  destruct (cempty snap); [reflexivity|].
  destruct (gauge_ratio (g_start g) (g_end g) now); reflexivity.
Qed.

(* one recorded coin of one gauge *)
Lemma gen_pullCoin_model A bal ratio ok :
  gen_pullCoin A bal ratio ok
  = match pull_coin ratio bal A with
    | CPanic => GoSem.GPanic
    | CMove d _ => GVal (if d =? 0 then [] else [Ev "to-distribute" [d]; Ev "escrow-to-module" [d]])
    end.
Proof.
  unfold gen_pullCoin, pull_coin, gdec_trunc64, gcoin64.
  destruct (dtrunc64 (dmul ratio (dec A) - dec (A - bal))) as [amt|]; [|reflexivity]. cbn [gbind].
  destruct (Z.eqb_spec amt 0) as [E|E]; [reflexivity|].
  destruct (amt <? 0); [reflexivity|]. cbn [gbind app].
  destruct (amt <=? bal); destruct (Z.eqb_spec amt 0); try contradiction; destruct ok; reflexivity.
Qed.

(* what reaches the module account is what was announced, exactly when the escrow can pay it *)
Lemma pull_coin_moves ratio bal A d m :
  pull_coin ratio bal A = CMove d m -> m = (if d <=? bal then d else 0) /\ 0 <= d.
Proof.
  unfold pull_coin. destruct (dtrunc64 _) as [amt|]; [|discriminate].
  destruct (Z.eqb_spec amt 0) as [->|E].
  - intros [= <- <-]. destruct (0 <=? bal); split; try reflexivity; lia.
  - destruct (Z.ltb_spec amt 0); [discriminate|].
    destruct (amt <=? bal) eqn:L; intros [= <- <-]; rewrite ?L; split; try reflexivity; lia.
Qed.
