(* Proofs about Model/Notifications.v: key layout facts at byte-string level, the store invariant,
   refinement of the abstract specification, and the history-level corollaries of C18.

   String-level facts used (all proved here, none assumed):
     - "%d" of an int64 never contains '/', and is injective                      (dec_nosl, dec_inj)
     - for slash-free a, a':  a ++ "/" ++ r = a' ++ "/" ++ r'  ->  a = a' /\ r = r'   (split_first_slash)
   The only thing assumed about account strings is that the canonical spelling returned by
   AccAddress.String() contains no '/' (wf_op; bech32's alphabet has none) - equal length is not needed. *)
From Coq Require Import ZArith NArith List Bool Lia Decimal DecimalZ Sorted.
From JK Require Import Base.Bytes Base.AList Model.Notifications.
Import ListNotations.

(* ------------------------------------------------------------------ bytes *)
Lemma beqb_spec a b : beqb a b = true <-> a = b.
Proof.
  revert b. induction a as [|x a IH]; destruct b as [|y b]; cbn; try (split; [discriminate|discriminate]); [tauto|].
  rewrite andb_true_iff, N.eqb_eq, IH. split; [intros [-> ->]; reflexivity | intros E; inversion E; auto].
Qed.
Lemma beqb_refl a : beqb a a = true.
Proof. apply beqb_spec. reflexivity. Qed.
Lemma beqb_false a b : beqb a b = false <-> a <> b.
Proof.
  split.
  - intros E H. apply beqb_spec in H. congruence.
  - intros H. destruct (beqb a b) eqn:E; [apply beqb_spec in E; contradiction | reflexivity].
Qed.

Lemma bool_eq_iff (a b : bool) : (a = true <-> b = true) -> a = b.
Proof. intros H. destruct a, b; try reflexivity; [symmetry|]; apply H; reflexivity. Qed.

Definition nosl (b : bytes) : Prop := has_slash b = false.

Lemma nosl_nil : nosl [].
Proof. reflexivity. Qed.
Lemma nosl_cons c b : nosl (c :: b) <-> c <> slash /\ nosl b.
Proof.
  unfold nosl, has_slash. cbn. rewrite orb_false_iff, N.eqb_neq. tauto.
Qed.
Lemma nosl_app a b : nosl (a ++ b) <-> nosl a /\ nosl b.
Proof.
  unfold nosl, has_slash. rewrite existsb_app, orb_false_iff. tauto.
Qed.
Lemma not_nosl_mid a r : ~ nosl (a ++ slash :: r).
Proof.
  intros H. apply nosl_app in H as [_ H]. apply nosl_cons in H as [H _]. apply H. reflexivity.
Qed.

Lemma count_slash_app a b : count_slash (a ++ b) = (count_slash a + count_slash b)%nat.
Proof. induction a as [|c a IH]; cbn; [reflexivity|]. destruct (c =? slash)%N; cbn; rewrite IH; reflexivity. Qed.
Lemma count_slash_nosl a : nosl a -> count_slash a = O.
Proof.
  induction a as [|c a IH]; intros H; cbn; [reflexivity|].
  apply nosl_cons in H as [H1 H2]. apply N.eqb_neq in H1. rewrite H1. auto.
Qed.
Lemma count_slash_cons_slash r : count_slash (slash :: r) = S (count_slash r).
Proof. reflexivity. Qed.

(* the first '/' of a string determines the split *)
Lemma split_first_slash a a' r r' :
  nosl a -> nosl a' -> a ++ slash :: r = a' ++ slash :: r' -> a = a' /\ r = r'.
Proof.
  revert a'. induction a as [|c a IH]; intros [|c' a'] Ha Ha' E; cbn in E.
  - inversion E. auto.
  - inversion E; subst. apply nosl_cons in Ha' as [N _]. exfalso. apply N. reflexivity.
  - inversion E; subst. apply nosl_cons in Ha as [N _]. exfalso. apply N. reflexivity.
  - inversion E; subst. apply nosl_cons in Ha as [_ Ha]. apply nosl_cons in Ha' as [_ Ha'].
    destruct (IH a' Ha Ha' H1) as [-> ->]. auto.
Qed.

(* ... and when only one side is known slash-free but both tails are *)
Lemma split_slash_tail f b d d' :
  nosl b -> nosl d' -> f ++ slash :: d = b ++ slash :: d' -> f = b /\ d = d'.
Proof.
  revert f. induction b as [|c b IH]; intros [|c' f] Hb Hd E; cbn in E.
  - inversion E. auto.
  - inversion E; subst. exfalso. exact (not_nosl_mid _ _ Hd).
  - inversion E; subst. apply nosl_cons in Hb as [N _]. exfalso. apply N. reflexivity.
  - inversion E; subst. apply nosl_cons in Hb as [_ Hb].
    destruct (IH f Hb Hd H1) as [-> ->]. auto.
Qed.

(* ------------------------------------------------------------------ %d *)
Lemma uint_bytes_digits u : Forall (fun c => (48 <= c <= 57)%N) (uint_bytes u).
Proof. induction u; cbn; constructor; auto; lia. Qed.

Lemma uint_bytes_nosl u : nosl (uint_bytes u).
Proof.
  induction u; cbn; try exact nosl_nil; apply nosl_cons; (split; [unfold slash; lia | assumption]).
Qed.

Lemma dec_nosl z : nosl (dec z).
Proof.
  unfold dec, int_bytes. destruct (Z.to_int z); [apply uint_bytes_nosl|].
  apply nosl_cons. split; [unfold slash; lia | apply uint_bytes_nosl].
Qed.

Lemma uint_bytes_inj u v : uint_bytes u = uint_bytes v -> u = v.
Proof.
  revert v. induction u; destruct v; cbn; intros E; try reflexivity; try discriminate;
    inversion E; f_equal; auto.
Qed.

Lemma uint_bytes_no_minus u r : uint_bytes u <> 45%N :: r.
Proof. destruct u; cbn; discriminate. Qed.

Lemma int_bytes_inj i j : int_bytes i = int_bytes j -> i = j.
Proof.
  destruct i as [u|u], j as [v|v]; cbn; intros E.
  - f_equal. apply uint_bytes_inj. exact E.
  - exfalso. exact (uint_bytes_no_minus _ _ E).
  - exfalso. symmetry in E. exact (uint_bytes_no_minus _ _ E).
  - inversion E. f_equal. apply uint_bytes_inj. assumption.
Qed.

Lemma dec_inj a b : dec a = dec b -> a = b.
Proof.
  unfold dec. intros E. apply int_bytes_inj in E.
  rewrite <- (DecimalZ.of_to a), <- (DecimalZ.of_to b), E. reflexivity.
Qed.

(* ------------------------------------------------------------------ keys *)
Lemma count_nkey a b t : nosl a -> nosl b -> count_slash (nkey a b t) = 2%nat.
Proof.
  intros Ha Hb. unfold nkey. rewrite count_slash_app, count_slash_cons_slash, count_slash_app, count_slash_cons_slash.
  rewrite (count_slash_nosl a Ha), (count_slash_nosl b Hb), (count_slash_nosl _ (dec_nosl t)). reflexivity.
Qed.
Lemma count_nkey_ge a b t : (2 <= count_slash (nkey a b t))%nat.
Proof.
  unfold nkey. rewrite count_slash_app, count_slash_cons_slash, count_slash_app, count_slash_cons_slash. lia.
Qed.
Lemma count_bkey a b : nosl a -> nosl b -> count_slash (bkey a b) = 1%nat.
Proof.
  intros Ha Hb. unfold bkey. rewrite count_slash_app, count_slash_cons_slash.
  rewrite (count_slash_nosl a Ha), (count_slash_nosl b Hb). reflexivity.
Qed.
Lemma is_note_nkey a b t : nosl a -> nosl b -> is_note_key (nkey a b t) = true.
Proof. intros. unfold is_note_key. rewrite count_nkey by assumption. reflexivity. Qed.
Lemma is_note_bkey a b : nosl a -> nosl b -> is_note_key (bkey a b) = false.
Proof. intros. unfold is_note_key. rewrite count_bkey by assumption. reflexivity. Qed.

(* a notification key with ANY from string and time equals a stored notification key only if all
   three components agree (delete names from/time freely) *)
Lemma nkey_inj a f t a' b' t' :
  nosl a -> nosl a' -> nosl b' -> nkey a f t = nkey a' b' t' -> a = a' /\ f = b' /\ t = t'.
Proof.
  intros Ha Ha' Hb' E. unfold nkey in E.
  destruct (split_first_slash _ _ _ _ Ha Ha' E) as [-> E2].
  destruct (split_slash_tail _ _ _ _ Hb' (dec_nosl t') E2) as [-> E3].
  apply dec_inj in E3. auto.
Qed.
Lemma bkey_inj a b a' b' : nosl a -> nosl a' -> bkey a b = bkey a' b' -> a = a' /\ b = b'.
Proof. intros Ha Ha' E. exact (split_first_slash _ _ _ _ Ha Ha' E). Qed.
Lemma nkey_not_bkey a f t o b : nosl o -> nosl b -> nkey a f t <> bkey o b.
Proof.
  intros Ho Hb E. pose proof (count_nkey_ge a f t) as G. rewrite E, count_bkey in G by assumption. lia.
Qed.

Lemma is_prefix_spec p k : is_prefix p k = true <-> exists r, k = p ++ r.
Proof.
  revert k. induction p as [|x p IH]; intros k; cbn.
  - split; [intros _; exists k; reflexivity | reflexivity].
  - destruct k as [|y k]; [split; [discriminate | intros [r E]; discriminate]|].
    rewrite andb_true_iff, N.eqb_eq, IH. split.
    + intros [-> [r ->]]. exists r. reflexivity.
    + intros [r E]. inversion E. split; [reflexivity | exists r; reflexivity].
Qed.

(* prefix iteration with "a/" selects exactly the keys whose first component is a *)
Lemma prefix_nkey a a' b t : nosl a -> nosl a' -> (is_prefix (a ++ [slash]) (nkey a' b t) = true <-> a = a').
Proof.
  intros Ha Ha'. rewrite is_prefix_spec. split.
  - intros [r E]. unfold nkey in E. rewrite <- app_assoc in E. cbn in E.
    symmetry in E. destruct (split_first_slash _ _ _ _ Ha Ha' E) as [-> _]. reflexivity.
  - intros ->. exists (b ++ slash :: dec t). unfold nkey. rewrite <- app_assoc. reflexivity.
Qed.

(* ------------------------------------------------------------------ store operations *)
Lemma In_kv_insert s k v e : In e (kv_insert s k v) <-> e = (k, v) \/ In e s.
Proof.
  induction s as [|[k' v'] r IH]; cbn.
  - intuition congruence.
  - destruct (bcmp k k'); cbn; try rewrite IH; intuition congruence.
Qed.

Lemma In_kv_del s k k' v : In (k', v) (kv_del s k) <-> k' <> k /\ In (k', v) s.
Proof.
  unfold kv_del. induction s as [|[k0 v0] r IH]; cbn; [tauto|].
  destruct (beqb k k0) eqn:E; cbn; rewrite IH.
  - apply beqb_spec in E. subst k0. intuition congruence.
  - apply beqb_false in E. intuition congruence.
Qed.

Lemma In_kv_set s k v k' v' : In (k', v') (kv_set s k v) <-> (k', v') = (k, v) \/ (k' <> k /\ In (k', v') s).
Proof. unfold kv_set. rewrite In_kv_insert, In_kv_del. tauto. Qed.

Lemma keys_kv_insert s k v x : In x (map fst (kv_insert s k v)) <-> x = k \/ In x (map fst s).
Proof.
  induction s as [|[k' v'] r IH]; cbn.
  - intuition congruence.
  - destruct (bcmp k k'); cbn; try rewrite IH; intuition congruence.
Qed.

Lemma nodup_kv_insert s k v : ~ In k (map fst s) -> NoDup (map fst s) -> NoDup (map fst (kv_insert s k v)).
Proof.
  induction s as [|[k' v'] r IH]; cbn; intros Hn ND.
  - constructor; [tauto | constructor].
  - destruct (bcmp k k'); cbn; try (constructor; [exact Hn | exact ND]).
    inversion ND as [|? ? H1 H2]; subst. constructor.
    + rewrite keys_kv_insert. intuition congruence.
    + apply IH; tauto.
Qed.

Lemma nodup_kv_set s k v : NoDup (map fst s) -> NoDup (map fst (kv_set s k v)).
Proof.
  intros ND. unfold kv_set. apply nodup_kv_insert.
  - unfold kv_del. intros H. apply (akeys_adel_in beqb beqb_spec) in H. tauto.
  - apply (nodup_adel beqb beqb_spec). exact ND.
Qed.

Lemma kv_get_In s k v : kv_get s k = Some v -> In (k, v) s.
Proof.
  unfold kv_get. induction s as [|[k' v'] r IH]; cbn; [discriminate|].
  destruct (beqb k k') eqn:E.
  - apply beqb_spec in E. subst. intros H. inversion H. auto.
  - auto.
Qed.
Lemma kv_get_None s k : kv_get s k = None <-> forall v, ~ In (k, v) s.
Proof.
  unfold kv_get. induction s as [|[k' v'] r IH]; cbn; [tauto|].
  destruct (beqb k k') eqn:E.
  - apply beqb_spec in E. subst. split; [discriminate | intros H; exfalso; apply (H v'); auto].
  - apply beqb_false in E. rewrite IH. split; intros H v; [intros [C|C]; [congruence | exact (H v C)] | intros C; apply (H v); auto].
Qed.
Lemma kv_get_nodup s k v : NoDup (map fst s) -> In (k, v) s -> kv_get s k = Some v.
Proof.
  unfold kv_get. induction s as [|[k' v'] r IH]; cbn; [tauto|]. intros ND [E|H].
  - inversion E; subst. rewrite beqb_refl. reflexivity.
  - inversion ND as [|? ? H1 H2]; subst. destruct (beqb k k') eqn:E.
    + apply beqb_spec in E. subst. exfalso. apply H1. apply (in_map fst) in H. exact H.
    + auto.
Qed.
Lemma kv_has_true s k : kv_has s k = true <-> exists v, In (k, v) s.
Proof.
  unfold kv_has. destruct (kv_get s k) eqn:E.
  - split; [intros _; exists n; apply kv_get_In; exact E | reflexivity].
  - split; [discriminate | intros [v H]; exfalso; exact (proj1 (kv_get_None s k) E v H)].
Qed.
Lemma kv_has_false s k : kv_has s k = false <-> forall v, ~ In (k, v) s.
Proof.
  unfold kv_has. destruct (kv_get s k) eqn:E.
  - split; [discriminate | intros H; exfalso; exact (H n (kv_get_In _ _ _ E))].
  - rewrite <- kv_get_None. tauto.
Qed.

(* ------------------------------------------------------------------ the invariant *)
Definition note_entry (k : bytes) (v : note) : Prop :=
  k = nkey_of v /\ nosl (n_to v) /\ nosl (n_from v).
Definition blk_entry (k : bytes) (v : note) : Prop :=
  k = bkey (n_to v) (n_from v) /\ nosl (n_to v) /\ nosl (n_from v) /\ v = block_entry (n_to v) (n_from v).
Definition entry_ok (k : bytes) (v : note) : Prop := note_entry k v \/ blk_entry k v.
Definition Inv (s : store) : Prop :=
  (forall k v, In (k, v) s -> entry_ok k v) /\ NoDup (map fst s).

Lemma note_entry_key k v : note_entry k v -> is_note_key k = true.
Proof. intros [-> [A B]]. apply is_note_nkey; assumption. Qed.
Lemma blk_entry_key k v : blk_entry k v -> is_note_key k = false.
Proof. intros [-> [A [B _]]]. apply is_note_bkey; assumption. Qed.
Lemma entry_note k v : entry_ok k v -> is_note_key k = true -> note_entry k v.
Proof. intros [H|H] E; [exact H | apply blk_entry_key in H; congruence]. Qed.
Lemma entry_blk k v : entry_ok k v -> is_note_key k = false -> blk_entry k v.
Proof. intros [H|H] E; [apply note_entry_key in H; congruence | exact H]. Qed.

Lemma Inv_nil : Inv [].
Proof. split; [intros k v [] | constructor]. Qed.

Lemma Inv_kv_set s k v : Inv s -> entry_ok k v -> Inv (kv_set s k v).
Proof.
  intros [H ND] E. split.
  - intros k' v' I. apply In_kv_set in I as [I|[_ I]]; [inversion I; subst; exact E | exact (H _ _ I)].
  - apply nodup_kv_set. exact ND.
Qed.
Lemma Inv_kv_del s k : Inv s -> Inv (kv_del s k).
Proof.
  intros [H ND]. split.
  - intros k' v' I. apply In_kv_del in I as [_ I]. exact (H _ _ I).
  - apply (nodup_adel beqb beqb_spec). exact ND.
Qed.

(* well-formed operations: canonical spellings (glue) contain no '/' *)
Definition wf_oaddr (t : option bytes) : Prop := forall a, t = Some a -> nosl a.
Definition wf_op (o : op) : Prop :=
  wf_oaddr (sg_canon (op_signer o)) /\
  match o with
  | Create _ t _ _ _ _ => wf_oaddr t
  | Delete _ _ _ => True
  | Block _ ts => Forall wf_oaddr ts
  end.

(* ------------------------------------------------------------------ the queries under the invariant *)
Lemma In_q_all s n : In n (q_all s) <-> exists k, In (k, n) s /\ is_note_key k = true.
Proof.
  unfold q_all. rewrite in_map_iff. split.
  - intros [[k v] [E I]]. cbn in E. subst. apply filter_In in I as [I F]. exists k. auto.
  - intros [k [I F]]. exists (k, n). split; [reflexivity | apply filter_In; auto].
Qed.
Lemma In_q_blocks s p : In p (q_blocks s) <-> exists k v, In (k, v) s /\ is_note_key k = false /\ p = (n_to v, n_from v).
Proof.
  unfold q_blocks. rewrite in_map_iff. split.
  - intros [[k v] [E I]]. cbn in E. apply filter_In in I as [I F]. cbn [fst] in F. apply negb_true_iff in F. exists k, v. auto.
  - intros [k [v [I [F E]]]]. exists (k, v). split; [cbn; auto | apply filter_In; cbn [fst]; rewrite F; auto].
Qed.

Lemma q_all_inv s n : Inv s -> (In n (q_all s) <-> In (nkey_of n, n) s /\ nosl (n_to n) /\ nosl (n_from n)).
Proof.
  intros [H _]. rewrite In_q_all. split.
  - intros [k [I F]]. destruct (entry_note _ _ (H _ _ I) F) as [-> [A B]]. auto.
  - intros [I [A B]]. exists (nkey_of n). split; [exact I | apply is_note_nkey; assumption].
Qed.
Lemma q_blocks_inv s o b : Inv s -> (In (o, b) (q_blocks s) <-> In (bkey o b, block_entry o b) s /\ nosl o /\ nosl b).
Proof.
  intros [H _]. rewrite In_q_blocks. split.
  - intros [k [v [I [F E]]]]. inversion E; subst. destruct (entry_blk _ _ (H _ _ I) F) as [-> [A [B C]]].
    rewrite <- C. auto.
  - intros [I [A B]]. exists (bkey o b), (block_entry o b). split; [exact I|]. split; [apply is_note_bkey; assumption | reflexivity].
Qed.

(* the inbox listing is literally the abstract inbox *)
Lemma q_by_address_inbox s a : Inv s -> nosl a -> q_by_address s a = inbox (abs s) a.
Proof.
  intros [H _] Ha. unfold q_by_address, inbox, abs, q_all. cbn [sp_notes].
  induction s as [|[k v] r IH]; [reflexivity|].
  assert (Hr : forall k v, In (k, v) r -> entry_ok k v) by (intros; apply H; right; assumption).
  specialize (IH Hr). cbn [filter map fst snd]. destruct (is_note_key k) eqn:F.
  - destruct (entry_note _ _ (H k v (or_introl eq_refl)) F) as [Ek [A B]].
    rewrite andb_true_r.
    assert (E : is_prefix (a ++ [slash]) k = beqb (n_to v) a).
    { subst k. apply bool_eq_iff. unfold nkey_of. rewrite (prefix_nkey a (n_to v) _ _ Ha A), beqb_spec. split; congruence. }
    rewrite E. cbn [filter map fst snd]. destruct (beqb (n_to v) a); cbn [filter map fst snd]; rewrite IH; reflexivity.
  - rewrite andb_false_r. exact IH.
Qed.

Lemma In_inbox sp a n : In n (inbox sp a) <-> In n (sp_notes sp) /\ n_to n = a.
Proof. unfold inbox. rewrite filter_In, beqb_spec. tauto. Qed.

Lemma nodup_values (l : store) :
  NoDup (map fst l) -> (forall k v, In (k, v) l -> k = nkey_of v) -> NoDup (map snd l).
Proof.
  induction l as [|[k v] r IH]; cbn; intros ND H; [constructor|].
  inversion ND as [|? ? H1 H2]; subst. constructor.
  - intros C. apply in_map_iff in C as [[k' v'] [E I]]. cbn in E. subst v'.
    apply H1. rewrite (H k v (or_introl eq_refl)). rewrite <- (H k' v (or_intror I)).
    apply (in_map fst) in I. exact I.
  - apply IH; [exact H2 | intros; apply H; right; assumption].
Qed.
Lemma nodup_map_fst_filter {A B} (f : A * B -> bool) l : NoDup (map fst l) -> NoDup (map fst (filter f l)).
Proof.
  induction l as [|x r IH]; cbn; intros ND; [constructor|]. inversion ND as [|? ? H1 H2]; subst.
  destruct (f x); cbn; [constructor; [|auto] | auto].
  intros C. apply H1. apply in_map_iff in C as [y [E I]]. apply filter_In in I as [I _].
  rewrite <- E. apply in_map. exact I.
Qed.
Lemma q_all_nodup s : Inv s -> NoDup (q_all s).
Proof.
  intros [H ND]. unfold q_all. apply nodup_values.
  - apply nodup_map_fst_filter. exact ND.
  - intros k v I. apply filter_In in I as [I F]. cbn in F. destruct (entry_note _ _ (H _ _ I) F) as [E _]. exact E.
Qed.

(* ------------------------------------------------------------------ effect of each write on the two views *)
Lemma same_slot_true to from t n : same_slot to from t n = true <-> n_to n = to /\ n_from n = from /\ n_time n = t.
Proof. unfold same_slot. rewrite !andb_true_iff, !beqb_spec, Z.eqb_eq. tauto. Qed.

Lemma has_note_spec s to from t :
  Inv s -> nosl to -> nosl from ->
  kv_has s (nkey to from t) = existsb (same_slot to from t) (q_all s).
Proof.
  intros I A B. apply bool_eq_iff. rewrite kv_has_true, existsb_exists. split.
  - intros [v Hv]. exists v. destruct I as [H ND].
    destruct (entry_note _ _ (H _ _ Hv) (is_note_nkey _ _ t A B)) as [E [A' B']].
    unfold nkey_of in E. destruct (nkey_inj _ _ _ _ _ _ A A' B' E) as [E1 [E2 E3]].
    split; [|apply same_slot_true; auto].
    apply In_q_all. exists (nkey to from t). split; [exact Hv | apply is_note_nkey; assumption].
  - intros [n [Hn S]]. apply same_slot_true in S as [E1 [E2 E3]]. apply (q_all_inv _ _ I) in Hn as [Hn _].
    exists n. unfold nkey_of in Hn. rewrite E1, E2, E3 in Hn. exact Hn.
Qed.

Lemma has_block_spec s owner sender :
  Inv s -> nosl owner -> nosl sender ->
  kv_has s (bkey owner sender) = is_blocked (abs s) owner sender.
Proof.
  intros I A B. apply bool_eq_iff. unfold is_blocked, abs. cbn [sp_blocked]. rewrite kv_has_true, existsb_exists. split.
  - intros [v Hv]. exists (owner, sender). cbn [fst snd]. rewrite !beqb_refl. split; [|reflexivity].
    destruct I as [H ND]. destruct (entry_blk _ _ (H _ _ Hv) (is_note_bkey _ _ A B)) as [E [A' [B' C]]].
    destruct (bkey_inj _ _ _ _ A A' E) as [E1 E2].
    apply In_q_blocks. exists (bkey owner sender), v. split; [exact Hv|]. split; [apply is_note_bkey; assumption | congruence].
  - intros [[o b] [Hp S]]. cbn [fst snd] in S. apply andb_true_iff in S as [S1 S2].
    apply beqb_spec in S1, S2. subst o b. apply (q_blocks_inv _ _ _ I) in Hp as [Hp _]. eexists. exact Hp.
Qed.

(* writing a notification *)
Lemma q_all_set_note s n :
  Inv s -> nosl (n_to n) -> nosl (n_from n) -> kv_has s (nkey_of n) = false ->
  forall x, In x (q_all (kv_set s (nkey_of n) n)) <-> x = n \/ In x (q_all s).
Proof.
  intros I A B Hn x. rewrite !In_q_all. split.
  - intros [k [Hk F]]. apply In_kv_set in Hk as [Hk|[_ Hk]]; [inversion Hk; auto | right; exists k; auto].
  - intros [->|[k [Hk F]]].
    + exists (nkey_of n). split; [apply In_kv_set; auto | apply is_note_nkey; assumption].
    + exists k. split; [|exact F]. apply In_kv_set. right. split; [|exact Hk].
      intros ->. exact (proj1 (kv_has_false _ _) Hn _ Hk).
Qed.
Lemma q_blocks_set_note s k n :
  is_note_key k = true -> forall p, In p (q_blocks (kv_set s k n)) <-> In p (q_blocks s).
Proof.
  intros F p. rewrite !In_q_blocks. split.
  - intros [k' [v [Hk [F' E]]]]. apply In_kv_set in Hk as [Hk|[_ Hk]]; [inversion Hk; subst; congruence | exists k', v; auto].
  - intros [k' [v [Hk [F' E]]]]. exists k', v. split; [|auto]. apply In_kv_set. right. split; [congruence | exact Hk].
Qed.

(* deleting under a notification-shaped key *)
Lemma q_all_del s me from t :
  Inv s -> nosl me ->
  forall x, In x (q_all (kv_del s (nkey me from t))) <-> In x (q_all s) /\ same_slot me from t x = false.
Proof.
  intros I A x. rewrite (q_all_inv _ _ (Inv_kv_del _ _ I)), (q_all_inv _ _ I), In_kv_del. split.
  - intros [[Hne Hx] [A' B']]. split; [auto|]. destruct (same_slot me from t x) eqn:S; [|reflexivity].
    apply same_slot_true in S as [E1 [E2 E3]]. exfalso. apply Hne. unfold nkey_of. congruence.
  - intros [[Hx [A' B']] S]. split; [|auto]. split; [|exact Hx]. intros E. unfold nkey_of in E.
    symmetry in E. destruct (nkey_inj _ _ _ _ _ _ A A' B' E) as [E1 [E2 E3]].
    assert (same_slot me from t x = true) by (apply same_slot_true; auto). congruence.
Qed.
Lemma q_blocks_del s a f t :
  Inv s -> forall p, In p (q_blocks (kv_del s (nkey a f t))) <-> In p (q_blocks s).
Proof.
  intros I [o b]. rewrite (q_blocks_inv _ _ _ (Inv_kv_del _ _ I)), (q_blocks_inv _ _ _ I), In_kv_del. split; [tauto|].
  intros [H [A B]]. split; [|auto]. split; [|exact H]. intros E. symmetry in E. exact (nkey_not_bkey _ _ _ _ _ A B E).
Qed.

(* writing a block entry *)
Lemma blk_entry_block_entry o b : nosl o -> nosl b -> blk_entry (bkey o b) (block_entry o b).
Proof. intros A B. unfold blk_entry. cbn. auto. Qed.
Lemma q_all_set_block s o b :
  nosl o -> nosl b -> forall x, In x (q_all (kv_set s (bkey o b) (block_entry o b))) <-> In x (q_all s).
Proof.
  intros A B x. rewrite !In_q_all. pose proof (is_note_bkey _ _ A B) as F. split.
  - intros [k [Hk F']]. apply In_kv_set in Hk as [Hk|[_ Hk]]; [inversion Hk; subst; congruence | exists k; auto].
  - intros [k [Hk F']]. exists k. split; [|exact F']. apply In_kv_set. right. split; [congruence | exact Hk].
Qed.
Lemma q_blocks_set_block s o b :
  Inv s -> nosl o -> nosl b ->
  forall p, In p (q_blocks (kv_set s (bkey o b) (block_entry o b))) <-> p = (o, b) \/ In p (q_blocks s).
Proof.
  intros I A B [o' b'].
  assert (I' : Inv (kv_set s (bkey o b) (block_entry o b))) by (apply Inv_kv_set; [exact I | right; apply blk_entry_block_entry; assumption]).
  rewrite (q_blocks_inv _ _ _ I'), (q_blocks_inv _ _ _ I), In_kv_set. split.
  - intros [[H|[_ H]] [A' B']].
    + inversion H as [[E1 E2]]. destruct (bkey_inj _ _ _ _ A' A E1) as [-> ->]. auto.
    + auto.
  - intros [H|[H [A' B']]].
    + inversion H; subst. auto.
    + split; [|auto]. destruct (list_eq_dec N.eq_dec (bkey o' b') (bkey o b)) as [E|E].
      * destruct (bkey_inj _ _ _ _ A' A E) as [-> ->]. auto.
      * auto.
Qed.

(* ------------------------------------------------------------------ invariant preservation *)
Lemma block_loop_facts me : nosl me -> forall ts s, Inv s -> Forall wf_oaddr ts ->
  let r := h_block_loop s me ts in
  Inv (fst r) /\
  match all_some ts with
  | Some addrs => snd r = Ok /\ (forall x, In x (q_all (fst r)) <-> In x (q_all s)) /\
                  (forall p, In p (q_blocks (fst r)) <-> In p (map (fun a => (me, a)) addrs) \/ In p (q_blocks s))
  | None => snd r = Fail
  end.
Proof.
  intros A ts. induction ts as [|[a|] ts IH]; intros s I W; cbn [h_block_loop all_some].
  - cbn. split; [exact I|]. split; [reflexivity|]. split; [tauto | tauto].
  - inversion W as [|? ? Wa Wr]; subst. pose proof (Wa a eq_refl) as B.
    assert (I' : Inv (kv_set s (bkey me a) (block_entry me a))) by (apply Inv_kv_set; [exact I | right; apply blk_entry_block_entry; assumption]).
    specialize (IH _ I' Wr). cbn zeta in IH. destruct IH as [J K]. split; [exact J|].
    destruct (all_some ts) as [addrs|]; [|exact K].
    destruct K as [K1 [K2 K3]]. split; [exact K1|]. split.
    + intros x. rewrite K2. apply q_all_set_block; assumption.
    + intros p. rewrite K3, (q_blocks_set_block _ _ _ I A B). cbn [map In]. intuition congruence.
  - cbn. split; [exact I | reflexivity].
Qed.

Lemma sg_name_canon c a : sg_canon c = Some a -> sg_name c = a.
Proof. unfold sg_name. intros ->. reflexivity. Qed.

Lemma step_Inv s o : Inv s -> wf_op o -> Inv (fst (step s o)).
Proof.
  intros I [Ws W]. unfold step. destruct (validate_basic o) eqn:V; [|exact I].
  unfold validate_basic in V. destruct (sg_canon (op_signer o)) as [me|] eqn:C; [|discriminate].
  pose proof (Ws me eq_refl) as A.
  destruct o as [cr tg now co pr j | cr f t | cr ts]; cbn [handler op_signer] in *.
  - unfold h_create. rewrite (sg_name_canon _ _ C). destruct (negb j); [exact I|].
    destruct tg as [to|]; [|exact I]. pose proof (W to eq_refl) as B.
    destruct (kv_has s (bkey to me)); [exact I|].
    destruct (kv_has s (nkey_of (mkNote to me now co pr))); [exact I|].
    cbn [fst]. apply Inv_kv_set; [exact I|]. left. unfold note_entry. cbn. auto.
  - unfold h_delete. cbn [fst]. apply Inv_kv_del. exact I.
  - unfold h_block. rewrite (sg_name_canon _ _ C).
    pose proof (block_loop_facts me A ts s I W) as [J _].
    destruct (h_block_loop s me ts) as [s' [|]]; [exact J | exact I].
Qed.

Lemma run_from_Inv ops : forall s, Inv s -> Forall wf_op ops -> Inv (run_from s ops).
Proof.
  induction ops as [|o ops IH]; intros s I W; cbn; [exact I|].
  inversion W; subst. apply IH; [apply step_Inv; assumption | assumption].
Qed.
Lemma run_Inv ops : Forall wf_op ops -> Inv (run ops).
Proof. apply run_from_Inv. exact Inv_nil. Qed.

(* ------------------------------------------------------------------ refinement *)
Definition spec_equiv (a b : spec) : Prop :=
  (forall n, In n (sp_notes a) <-> In n (sp_notes b)) /\ (forall p, In p (sp_blocked a) <-> In p (sp_blocked b)).

Lemma spec_equiv_refl a : spec_equiv a a.
Proof. split; tauto. Qed.
Lemma spec_equiv_trans a b c : spec_equiv a b -> spec_equiv b c -> spec_equiv a c.
Proof. intros [H1 H2] [H3 H4]. split; intros x; [rewrite H1; apply H3 | rewrite H2; apply H4]. Qed.

Lemma existsb_equiv {A} (f : A -> bool) l l' : (forall x, In x l <-> In x l') -> existsb f l = existsb f l'.
Proof.
  intros H. apply bool_eq_iff. rewrite !existsb_exists. split; intros [x [I F]]; exists x; split; auto; apply H; exact I.
Qed.

(* the abstract step only depends on the sets *)
Lemma spec_step_equiv a b o :
  spec_equiv a b -> spec_equiv (fst (spec_step a o)) (fst (spec_step b o)) /\ snd (spec_step a o) = snd (spec_step b o).
Proof.
  intros [H1 H2]. unfold spec_step. destruct (sg_canon (op_signer o)) as [me|]; [|split; [split; assumption | reflexivity]].
  destruct o as [cr tg now co pr j | cr f t | cr ts].
  - destruct tg as [to|]; [|split; [split; assumption | reflexivity]].
    destruct (negb j); [split; [split; assumption | reflexivity]|].
    unfold is_blocked. rewrite (existsb_equiv _ _ _ H2).
    destruct (existsb _ (sp_blocked b)); [split; [split; assumption | reflexivity]|].
    rewrite (existsb_equiv _ _ _ H1).
    destruct (existsb _ (sp_notes b)); [split; [split; assumption | reflexivity]|].
    cbn. split; [|reflexivity]. split; [|assumption]. intros n. cbn. rewrite H1. tauto.
  - cbn. split; [|reflexivity]. split; [|assumption]. intros n. cbn. rewrite !filter_In, H1. tauto.
  - destruct (all_some ts); [|split; [split; assumption | reflexivity]].
    cbn. split; [|reflexivity]. split; [assumption|]. intros p. cbn. rewrite !in_app_iff, H2. tauto.
Qed.

(* one message: the store's abstraction moves as the specification says, with the same outcome *)
Lemma refinement_step s o :
  Inv s -> wf_op o ->
  spec_equiv (abs (fst (step s o))) (fst (spec_step (abs s) o)) /\ snd (step s o) = snd (spec_step (abs s) o).
Proof.
  intros I [Ws W]. unfold step, validate_basic, spec_step.
  destruct (sg_canon (op_signer o)) as [me|] eqn:C; [|split; [apply spec_equiv_refl | reflexivity]].
  pose proof (Ws me eq_refl) as A.
  destruct o as [cr tg now co pr j | cr f t | cr ts]; cbn [handler op_signer] in *.
  - unfold h_create. rewrite (sg_name_canon _ _ C).
    destruct j; cbn [negb]; [|destruct tg; split; try apply spec_equiv_refl; reflexivity].
    destruct tg as [to|]; [|split; [apply spec_equiv_refl | reflexivity]]. pose proof (W to eq_refl) as B.
    rewrite (has_block_spec _ _ _ I B A).
    destruct (is_blocked (abs s) to me); [split; [apply spec_equiv_refl | reflexivity]|].
    set (n0 := mkNote to me now co pr).
    assert (HK : kv_has s (nkey_of n0) = existsb (same_slot to me now) (q_all s)) by (apply (has_note_spec _ _ _ now I B A)).
    rewrite HK. change (sp_notes (abs s)) with (q_all s).
    destruct (existsb (same_slot to me now) (q_all s)) eqn:X; [split; [apply spec_equiv_refl | reflexivity]|].
    cbn [fst snd]. split; [|reflexivity]. split; cbn [abs sp_notes sp_blocked].
    + intros n. rewrite (q_all_set_note s n0 I B A HK). cbn [In]. intuition congruence.
    + intros p. apply q_blocks_set_note. apply is_note_nkey; assumption.
  - unfold h_delete. rewrite (sg_name_canon _ _ C). cbn [fst snd]. split; [|reflexivity].
    split; cbn [abs sp_notes sp_blocked].
    + intros n. rewrite (q_all_del _ _ _ _ I A), filter_In, negb_true_iff. tauto.
    + intros p. apply q_blocks_del. exact I.
  - unfold h_block. rewrite (sg_name_canon _ _ C).
    pose proof (block_loop_facts me A ts s I W) as [J K]. cbn zeta in K.
    destruct (all_some ts) as [addrs|].
    + destruct K as [K1 [K2 K3]]. destruct (h_block_loop s me ts) as [s' [|]]; cbn [fst snd] in *; [|discriminate].
      split; [|reflexivity]. split; cbn [abs sp_notes sp_blocked].
      * exact K2.
      * intros p. rewrite K3, in_app_iff. tauto.
    + destruct (h_block_loop s me ts) as [s' [|]]; cbn [snd] in K; [discriminate|].
      split; [apply spec_equiv_refl | reflexivity].
Qed.

(* whole histories, from any related pair of states *)
Fixpoint outs (s : store) (ops : list op) : list out :=
  match ops with [] => [] | o :: r => snd (step s o) :: outs (fst (step s o)) r end.
Fixpoint spec_outs (sp : spec) (ops : list op) : list out :=
  match ops with [] => [] | o :: r => snd (spec_step sp o) :: spec_outs (fst (spec_step sp o)) r end.
Definition spec_run_from (sp : spec) (ops : list op) : spec := fold_left (fun sp o => fst (spec_step sp o)) ops sp.

Lemma refinement_run_from ops : forall s sp,
  Inv s -> spec_equiv (abs s) sp -> Forall wf_op ops ->
  spec_equiv (abs (run_from s ops)) (spec_run_from sp ops) /\ outs s ops = spec_outs sp ops.
Proof.
  induction ops as [|o ops IH]; intros s sp I E W; cbn; [split; [exact E | reflexivity]|].
  inversion W as [|? ? Wo Wr]; subst.
  destruct (refinement_step s o I Wo) as [R1 R2]. destruct (spec_step_equiv _ _ o E) as [S1 S2].
  destruct (IH (fst (step s o)) (fst (spec_step sp o)) (step_Inv _ _ I Wo) (spec_equiv_trans _ _ _ R1 S1) Wr) as [T1 T2].
  split; [exact T1|]. rewrite R2, S2, T2. reflexivity.
Qed.

Lemma refinement_run ops :
  Forall wf_op ops ->
  spec_equiv (abs (run ops)) (spec_run ops) /\ outs [] ops = spec_outs spec_init ops.
Proof. intros W. apply refinement_run_from; [exact Inv_nil | apply spec_equiv_refl | exact W]. Qed.

(* ------------------------------------------------------------------ what one message does to the inboxes *)
(* o is a send whose notification, if accepted, is n: recipient = what the target resolved to, sender = the
   signer's account (canonical), time = block time, contents as given *)
Definition creates (o : op) (n : note) : Prop :=
  match o with
  | Create cr (Some to) now co pr _ => exists me, sg_canon cr = Some me /\ n = mkNote to me now co pr
  | _ => False
  end.
(* o is a delete signed by n's recipient (any spelling) naming n's sender and time *)
Definition deletes (o : op) (n : note) : Prop :=
  match o with
  | Delete cr f t => sg_canon cr = Some (n_to n) /\ f = n_from n /\ t = n_time n
  | _ => False
  end.

Lemma deletes_dec o n : {deletes o n} + {~ deletes o n}.
Proof.
  destruct o as [| cr f t |]; cbn; [right; tauto | | right; tauto].
  destruct (sg_canon cr) as [a|]; [|right; intros [H _]; discriminate].
  destruct (list_eq_dec N.eq_dec a (n_to n)) as [E1|E1]; [|right; intros [H _]; congruence].
  destruct (list_eq_dec N.eq_dec f (n_from n)) as [E2|E2]; [|right; tauto].
  destruct (Z.eq_dec t (n_time n)) as [E3|E3]; [|right; tauto].
  left. subst. auto.
Qed.

Lemma spec_step_notes sp o n :
  In n (sp_notes (fst (spec_step sp o))) <->
  (In n (sp_notes sp) /\ ~ deletes o n) \/ (snd (spec_step sp o) = Ok /\ creates o n).
Proof.
  unfold spec_step. destruct o as [cr tg now co pr j | cr f t | cr ts]; cbn [op_signer creates deletes].
  - assert (Keep : forall r : spec * out, r = (sp, Fail) ->
             (In n (sp_notes (fst r)) <-> (In n (sp_notes sp) /\ ~ False) \/ (snd r = Ok /\ match tg with Some to => exists me, sg_canon cr = Some me /\ n = mkNote to me now co pr | None => False end))).
    { intros r ->. cbn. split; [tauto | intros [H|[H _]]; [tauto | discriminate]]. }
    destruct (sg_canon cr) as [me|]; [|apply Keep; reflexivity].
    destruct tg as [to|]; [|apply Keep; reflexivity].
    destruct (negb j); [apply Keep; reflexivity|].
    destruct (is_blocked sp to me); [apply Keep; reflexivity|].
    destruct (existsb (same_slot to me now) (sp_notes sp)); [apply Keep; reflexivity|].
    cbn. split.
    + intros [<-|H]; [right; split; [reflexivity | exists me; auto] | left; tauto].
    + intros [[H _]|[_ [me' [E ->]]]]; [auto | left; congruence].
  - destruct (sg_canon cr) as [me|]; cbn.
    + rewrite filter_In, negb_true_iff. split.
      * intros [H S]. left. split; [exact H|]. intros [E1 [E2 E3]].
        assert (same_slot me f t n = true) by (apply same_slot_true; repeat split; congruence). congruence.
      * intros [[H D]|[_ []]]. split; [exact H|]. destruct (same_slot me f t n) eqn:S; [|reflexivity].
        apply same_slot_true in S as [E1 [E2 E3]]. exfalso. apply D. repeat split; congruence.
    + split; [intros H; left; split; [exact H | intros [E _]; discriminate] | intros [[H _]|[E _]]; [exact H | discriminate]].
  - destruct (sg_canon cr) as [me|]; [destruct (all_some ts)|]; cbn; tauto.
Qed.

Lemma step_notes s o n :
  Inv s -> wf_op o ->
  (In n (q_all (fst (step s o))) <-> (In n (q_all s) /\ ~ deletes o n) \/ (snd (step s o) = Ok /\ creates o n)).
Proof.
  intros I W. destruct (refinement_step s o I W) as [[R _] R2].
  change (q_all (fst (step s o))) with (sp_notes (abs (fst (step s o)))).
  rewrite R, R2. apply spec_step_notes.
Qed.

Lemma spec_step_blocked_mono sp o p : In p (sp_blocked sp) -> In p (sp_blocked (fst (spec_step sp o))).
Proof.
  intros H. unfold spec_step. destruct (sg_canon (op_signer o)); [|exact H].
  destruct o as [cr tg now co pr j | cr f t | cr ts].
  - destruct tg; [|exact H]. destruct (negb j); [exact H|]. destruct (is_blocked sp b0 b); [exact H|].
    destruct (existsb _ _); exact H.
  - exact H.
  - destruct (all_some ts); [|exact H]. cbn. apply in_or_app. auto.
Qed.

Lemma step_blocked_mono s o p : Inv s -> wf_op o -> In p (q_blocks s) -> In p (q_blocks (fst (step s o))).
Proof.
  intros I W H. destruct (refinement_step s o I W) as [[_ R] _].
  change (q_blocks (fst (step s o))) with (sp_blocked (abs (fst (step s o)))).
  apply R. apply spec_step_blocked_mono. exact H.
Qed.

Lemma run_from_blocked_mono ops : forall s p, Inv s -> Forall wf_op ops -> In p (q_blocks s) -> In p (q_blocks (run_from s ops)).
Proof.
  induction ops as [|o ops IH]; intros s p I W H; cbn; [exact H|]. inversion W; subst.
  apply IH; [apply step_Inv; assumption | assumption | apply step_blocked_mono; assumption].
Qed.

Lemma all_some_In {A} (l : list (option A)) l' a : all_some l = Some l' -> In (Some a) l -> In a l'.
Proof.
  revert l'. induction l as [|[x|] l IH]; cbn; intros l' E H; [tauto | | discriminate].
  destruct (all_some l) as [r|]; [|discriminate]. inversion E; subst. destruct H as [H|H]; [inversion H; left; reflexivity | right; apply IH; auto].
Qed.

(* a successful block message blocks every account its targets resolved to *)
Lemma block_establishes s cr ts owner b :
  Inv s -> wf_op (Block cr ts) -> snd (step s (Block cr ts)) = Ok -> sg_canon cr = Some owner -> In (Some b) ts ->
  In (owner, b) (q_blocks (fst (step s (Block cr ts)))).
Proof.
  intros I W S C H. destruct (refinement_step s _ I W) as [[_ R] R2].
  change (q_blocks (fst (step s (Block cr ts)))) with (sp_blocked (abs (fst (step s (Block cr ts))))).
  apply R. rewrite R2 in S. unfold spec_step in *. cbn [op_signer] in *. rewrite C in *.
  destruct (all_some ts) as [addrs|] eqn:E; [|discriminate]. cbn. apply in_or_app. left.
  apply in_map_iff. exists b. split; [reflexivity | exact (all_some_In _ _ _ E H)].
Qed.

(* a blocked account's send is refused and leaves the store as it is, however the creator is spelled *)
Lemma blocked_send_fails s cr owner b now co pr j :
  Inv s -> wf_op (Create cr (Some owner) now co pr j) -> In (owner, b) (q_blocks s) -> sg_canon cr = Some b ->
  step s (Create cr (Some owner) now co pr j) = (s, Fail).
Proof.
  intros I W H C. pose proof (refinement_step s _ I W) as [_ R2].
  assert (F : snd (step s (Create cr (Some owner) now co pr j)) = Fail).
  { rewrite R2. unfold spec_step. cbn [op_signer]. rewrite C. destruct (negb j); [reflexivity|].
    assert (is_blocked (abs s) owner b = true) as ->; [|reflexivity].
    unfold is_blocked. apply existsb_exists. exists (owner, b). cbn. rewrite !beqb_refl. auto. }
  revert F. unfold step. destruct (validate_basic _); [|reflexivity].
  destruct (handler s _) as [s' [|]]; cbn; [discriminate | reflexivity].
Qed.

(* ------------------------------------------------------------------ histories *)
Lemma run_snoc ops o : run (ops ++ [o]) = fst (step (run ops) o).
Proof. unfold run, run_from. rewrite fold_left_app. reflexivity. Qed.
Lemma run_app ops1 ops2 : run (ops1 ++ ops2) = run_from (run ops1) ops2.
Proof. unfold run, run_from. apply fold_left_app. Qed.

(* n was sent successfully at some point of the history and its recipient has not deleted it since *)
Definition sent_live (ops : list op) (n : note) : Prop :=
  exists pre c post, ops = pre ++ c :: post /\ snd (step (run pre) c) = Ok /\ creates c n /\
                     Forall (fun d => ~ deletes d n) post.

Lemma sent_live_nil n : ~ sent_live [] n.
Proof. intros [pre [c [post [E _]]]]. destruct pre; discriminate. Qed.

Lemma sent_live_snoc ops o n :
  sent_live (ops ++ [o]) n <-> (sent_live ops n /\ ~ deletes o n) \/ (snd (step (run ops) o) = Ok /\ creates o n).
Proof.
  split.
  - intros [pre [c [post [E [S [Cn F]]]]]]. destruct (@exists_last _ (c :: post)) as [l [x E']]; [discriminate|].
    destruct post as [|d post'] using rev_ind.
    + change (pre ++ [c]) with (pre ++ [c]) in E. apply app_inj_tail in E as [-> ->]. right. auto.
    + clear IHpost'. rewrite app_comm_cons, app_assoc in E. apply app_inj_tail in E as [-> ->].
      apply Forall_app in F as [F1 F2]. inversion F2; subst. left. split; [|assumption].
      exists pre, c, post'. auto.
  - intros [[[pre [c [post [E [S [Cn F]]]]]] D]|[S Cn]].
    + exists pre, c, (post ++ [o]). subst ops. rewrite <- app_assoc. cbn. repeat split; auto.
      apply Forall_app. split; [exact F | constructor; [exact D | constructor]].
    + exists ops, o, []. repeat split; auto.
Qed.

(* C18, main clause: after any history the notifications in the store are exactly those sent and not deleted *)
Lemma q_all_is_sent_live ops n : Forall wf_op ops -> (In n (q_all (run ops)) <-> sent_live ops n).
Proof.
  induction ops as [|o ops IH] using rev_ind; intros W.
  - cbn. split; [tauto | intros H; exact (sent_live_nil _ H)].
  - apply Forall_app in W as [W1 W2]. inversion W2; subst.
    rewrite run_snoc, (step_notes _ _ _ (run_Inv _ W1) H1), sent_live_snoc, (IH W1). tauto.
Qed.

Lemma inbox_is_sent_live ops a n :
  Forall wf_op ops -> nosl a ->
  (In n (q_by_address (run ops) a) <-> sent_live ops n /\ n_to n = a).
Proof.
  intros W A. rewrite (q_by_address_inbox _ _ (run_Inv _ W) A), In_inbox. cbn [abs sp_notes].
  rewrite (q_all_is_sent_live _ _ W). tauto.
Qed.

Lemma inbox_nodup s a : Inv s -> nosl a -> NoDup (q_by_address s a).
Proof.
  intros I A. rewrite (q_by_address_inbox _ _ I A). unfold inbox. apply NoDup_filter. apply q_all_nodup. exact I.
Qed.

(* single lookup agrees with the listing *)
Lemma q_one_spec s n : Inv s -> (q_one s (n_to n) (n_from n) (n_time n) = Some n <-> In n (q_all s)).
Proof.
  intros I. unfold q_one. split.
  - intros H. apply kv_get_In in H. destruct I as [HI _].
    apply In_q_all. exists (nkey (n_to n) (n_from n) (n_time n)). split; [exact H|].
    destruct (HI _ _ H) as [[_ [A B]]|[_ [A [B _]]]]; apply is_note_nkey; assumption.
  - intros H. apply (q_all_inv _ _ I) in H as [H _]. destruct I as [_ ND]. apply kv_get_nodup; assumption.
Qed.

(* blocking is by account: once owner's successful block message named something that resolved to b,
   every later send by account b (whatever the spelling of its creator string) to a target resolving to
   owner is refused and changes nothing *)
Lemma blocked_sender_cannot_deliver ops1 ops2 crb ts owner b crs now co pr j :
  Forall wf_op ops1 -> wf_op (Block crb ts) -> Forall wf_op ops2 -> wf_op (Create crs (Some owner) now co pr j) ->
  snd (step (run ops1) (Block crb ts)) = Ok -> sg_canon crb = Some owner -> In (Some b) ts ->
  sg_canon crs = Some b ->
  let s := run (ops1 ++ Block crb ts :: ops2) in
  step s (Create crs (Some owner) now co pr j) = (s, Fail).
Proof.
  intros W1 Wb W2 Wc S C H Cs s.
  assert (Ws : Forall wf_op (ops1 ++ Block crb ts :: ops2)) by (apply Forall_app; split; [assumption | constructor; assumption]).
  apply blocked_send_fails with (b := b); [apply run_Inv; exact Ws | exact Wc | | exact Cs].
  unfold s. rewrite run_app. cbn [run_from fold_left].
  apply run_from_blocked_mono; [apply step_Inv; [apply run_Inv|]; assumption | assumption|].
  apply block_establishes; try assumption. apply run_Inv. assumption.
Qed.

(* only the recipient deletes: an entry that a message removes was removed by a delete signed by its recipient *)
Lemma only_recipient_deletes s o n :
  Inv s -> wf_op o -> In n (q_all s) -> ~ In n (q_all (fst (step s o))) -> deletes o n.
Proof.
  intros I W H N. destruct (deletes_dec o n) as [D|D]; [exact D|].
  exfalso. apply N. apply (step_notes _ _ _ I W). left. auto.
Qed.

(* no message makes an entry appear except a successful send of exactly that entry *)
Lemma no_foreign_entries s o n :
  Inv s -> wf_op o -> ~ In n (q_all s) -> In n (q_all (fst (step s o))) -> snd (step s o) = Ok /\ creates o n.
Proof.
  intros I W N H. apply (step_notes _ _ _ I W) in H as [[H _]|H]; [contradiction | exact H].
Qed.

Lemma non_create_adds_nothing s o n :
  Inv s -> wf_op o -> (forall cr t now co pr j, o <> Create cr t now co pr j) ->
  In n (q_all (fst (step s o))) -> In n (q_all s).
Proof.
  intros I W NC H. apply (step_notes _ _ _ I W) in H as [[H _]|[_ C]]; [exact H|].
  destruct o; cbn in C; try contradiction. exfalso. eapply NC. reflexivity.
Qed.

(* when a send is accepted: well-formed message, resolvable target, sender not blocked by the recipient at
   that moment, and no live notification under the same (recipient, sender, block time) *)
Lemma send_accepted_iff s cr tg now co pr j :
  Inv s -> wf_op (Create cr tg now co pr j) ->
  (snd (step s (Create cr tg now co pr j)) = Ok <->
   exists me to, sg_canon cr = Some me /\ tg = Some to /\ j = true /\ ~ In (to, me) (q_blocks s) /\
                 forall n, In n (q_all s) -> ~ (n_to n = to /\ n_from n = me /\ n_time n = now)).
Proof.
  intros I W. destruct (refinement_step s _ I W) as [_ R]. rewrite R. unfold spec_step. cbn [op_signer].
  destruct (sg_canon cr) as [me|]; [|split; [discriminate | intros [? [? [E _]]]; discriminate]].
  destruct tg as [to|]; [|split; [discriminate | intros [? [? [_ [E _]]]]; discriminate]].
  destruct j; cbn [negb]; [|split; [discriminate | intros [? [? [_ [_ [E _]]]]]; discriminate]].
  destruct (is_blocked (abs s) to me) eqn:B.
  { split; [discriminate|]. intros [me' [to' [E1 [E2 [_ [NB _]]]]]]. inversion E1; inversion E2; subst. exfalso. apply NB.
    unfold is_blocked in B. apply existsb_exists in B as [[o b] [H S]]. cbn in S. apply andb_true_iff in S as [S1 S2].
    apply beqb_spec in S1, S2. subst. exact H. }
  destruct (existsb (same_slot to me now) (sp_notes (abs s))) eqn:X.
  { split; [discriminate|]. intros [me' [to' [E1 [E2 [_ [_ NS]]]]]]. inversion E1; inversion E2; subst. exfalso.
    apply existsb_exists in X as [n [H S]]. apply same_slot_true in S. exact (NS n H S). }
  split; [|reflexivity]. intros _. exists me, to. repeat split; try reflexivity.
  - intros H. assert (is_blocked (abs s) to me = true); [|congruence].
    unfold is_blocked. apply existsb_exists. exists (to, me). cbn. rewrite !beqb_refl. auto.
  - intros n H S. assert (existsb (same_slot to me now) (sp_notes (abs s)) = true); [|congruence].
    apply existsb_exists. exists n. split; [exact H | apply same_slot_true; exact S].
Qed.

(* ------------------------------------------------------------------ statements as used by Props/C18.v *)
Lemma keys_disjoint a f t o b : nosl o -> nosl b ->
  nkey a f t <> bkey o b /\ is_note_key (bkey o b) = false /\ (nosl a -> nosl f -> is_note_key (nkey a f t) = true).
Proof. intros Ho Hb. split; [apply nkey_not_bkey; assumption|]. split; [apply is_note_bkey; assumption | apply is_note_nkey]. Qed.

Lemma inbox_query_is_abstract_inbox s a : Inv s -> nosl a -> q_by_address s a = inbox (abs s) a /\ NoDup (q_by_address s a).
Proof. intros I A. split; [apply q_by_address_inbox | apply inbox_nodup]; assumption. Qed.

Lemma all_and_lookup_are_sent_live ops n : Forall wf_op ops ->
  (In n (q_all (run ops)) <-> sent_live ops n) /\
  (q_one (run ops) (n_to n) (n_from n) (n_time n) = Some n <-> sent_live ops n).
Proof.
  intros W. split; [apply q_all_is_sent_live; exact W|].
  rewrite (q_one_spec _ _ (run_Inv _ W)). apply q_all_is_sent_live. exact W.
Qed.

Lemma send_accepted_iff_hist ops cr tg now co pr j : Forall wf_op ops -> wf_op (Create cr tg now co pr j) ->
  let s := run ops in
  (snd (step s (Create cr tg now co pr j)) = Ok <->
   exists me to, sg_canon cr = Some me /\ tg = Some to /\ j = true /\ ~ In (to, me) (q_blocks s) /\
                 forall n, In n (q_all s) -> ~ (n_to n = to /\ n_from n = me /\ n_time n = now)).
Proof. intros W Wc s. apply send_accepted_iff; [apply run_Inv; exact W | exact Wc]. Qed.

Lemma only_recipient_deletes_hist ops o n : Forall wf_op ops -> wf_op o ->
  In n (q_all (run ops)) -> ~ In n (q_all (run (ops ++ [o]))) -> deletes o n.
Proof. intros W Wo H N. rewrite run_snoc in N. exact (only_recipient_deletes _ _ _ (run_Inv _ W) Wo H N). Qed.

Lemma no_foreign_entries_hist ops o n : Forall wf_op ops -> wf_op o ->
  ~ In n (q_all (run ops)) -> In n (q_all (run (ops ++ [o]))) -> snd (step (run ops) o) = Ok /\ creates o n.
Proof. intros W Wo N H. rewrite run_snoc in H. exact (no_foreign_entries _ _ _ (run_Inv _ W) Wo N H). Qed.

Lemma non_create_adds_nothing_hist ops o n : Forall wf_op ops -> wf_op o ->
  (forall cr t now co pr j, o <> Create cr t now co pr j) ->
  In n (q_all (run (ops ++ [o]))) -> In n (q_all (run ops)).
Proof. intros W Wo NC H. rewrite run_snoc in H. exact (non_create_adds_nothing _ _ _ (run_Inv _ W) Wo NC H). Qed.

(* ------------------------------------------------------------------ iteration order *)
(* the store is kept in ascending byte order of its keys (what the IAVL iterator yields), so every listing is
   in ascending order of to/from/time keys; together with the membership theorems this fixes the listing *)

Lemma bcmp_eq a : forall b, bcmp a b = Eq <-> a = b.
Proof.
  induction a as [|x a IH]; intros [|y b]; cbn; try (split; discriminate); [tauto|].
  destruct (N.compare_spec x y) as [E|L|L].
  - subst. rewrite IH. split; [intros ->; reflexivity | intros E; inversion E; reflexivity].
  - split; [discriminate | intros E; inversion E; lia].
  - split; [discriminate | intros E; inversion E; lia].
Qed.
Lemma bcmp_antisym a : forall b, bcmp a b = CompOpp (bcmp b a).
Proof.
  induction a as [|x a IH]; intros [|y b]; cbn; try reflexivity.
  rewrite (N.compare_antisym y x). destruct (y ?= x)%N; cbn; [apply IH | reflexivity | reflexivity].
Qed.
Lemma bcmp_gt_lt a b : bcmp a b = Gt -> bcmp b a = Lt.
Proof. intros H. rewrite bcmp_antisym, H. reflexivity. Qed.
Lemma bcmp_trans a : forall b c, bcmp a b = Lt -> bcmp b c = Lt -> bcmp a c = Lt.
Proof.
  induction a as [|x a IH]; intros [|y b] [|z c]; cbn; try discriminate; try reflexivity.
  destruct (N.compare_spec x y) as [E1|L1|L1]; try discriminate;
  destruct (N.compare_spec y z) as [E2|L2|L2]; try discriminate; intros H1 H2.
  - subst. rewrite N.compare_refl. eapply IH; eassumption.
  - subst. apply N.compare_lt_iff in L2. rewrite L2. reflexivity.
  - subst. apply N.compare_lt_iff in L1. rewrite L1. reflexivity.
  - assert (x < z)%N as L by lia. apply N.compare_lt_iff in L. rewrite L. reflexivity.
Qed.
Lemma bcmp_irrefl a : bcmp a a <> Lt.
Proof. rewrite (proj2 (bcmp_eq a a) eq_refl). discriminate. Qed.

Definition entry_lt (e1 e2 : bytes * note) : Prop := bcmp (fst e1) (fst e2) = Lt.
Definition sorted (s : store) : Prop := StronglySorted entry_lt s.

Lemma sorted_kv_insert s k v : sorted s -> ~ In k (map fst s) -> sorted (kv_insert s k v).
Proof.
  induction s as [|[k' v'] r IH]; cbn; intros S N.
  - constructor; constructor.
  - inversion S as [|? ? S' F]; subst. destruct (bcmp k k') eqn:C.
    + apply bcmp_eq in C. subst. tauto.
    + constructor; [exact S|]. constructor; [exact C|].
      apply Forall_forall. intros e He. rewrite Forall_forall in F. specialize (F e He).
      unfold entry_lt in *. cbn [fst] in *. eapply bcmp_trans; eassumption.
    + constructor; [apply IH; tauto|]. apply Forall_forall. intros e He. apply In_kv_insert in He as [->|He].
      * unfold entry_lt. cbn [fst]. apply bcmp_gt_lt. exact C.
      * rewrite Forall_forall in F. exact (F e He).
Qed.
Lemma sorted_kv_del s k : sorted s -> sorted (kv_del s k).
Proof.
  unfold kv_del, sorted. induction s as [|[k' v'] r IH]; cbn; intros S; [constructor|].
  inversion S as [|? ? S' F]; subst. destruct (beqb k k'); [apply IH; exact S'|].
  constructor; [apply IH; exact S'|]. apply Forall_forall. intros [k0 v0] He.
  change (adel beqb r k) with (kv_del r k) in He. apply In_kv_del in He as [_ He].
  rewrite Forall_forall in F. exact (F _ He).
Qed.
Lemma sorted_kv_set s k v : sorted s -> sorted (kv_set s k v).
Proof.
  intros S. unfold kv_set. apply sorted_kv_insert; [apply sorted_kv_del; exact S|].
  unfold kv_del. intros H. apply (akeys_adel_in beqb beqb_spec) in H. tauto.
Qed.

Lemma block_loop_sorted me ts : forall s, sorted s -> sorted (fst (h_block_loop s me ts)).
Proof.
  induction ts as [|[a|] ts IH]; intros s S; cbn; [exact S | | exact S]. apply IH. apply sorted_kv_set. exact S.
Qed.
Lemma step_sorted s o : sorted s -> sorted (fst (step s o)).
Proof.
  intros S. unfold step. destruct (validate_basic o); [|exact S].
  destruct o as [cr tg now co pr j | cr f t | cr ts]; cbn [handler].
  - unfold h_create. destruct (negb j); [exact S|]. destruct tg; [|exact S].
    destruct (kv_has _ _); [exact S|]. destruct (kv_has _ _); [exact S|]. cbn. apply sorted_kv_set. exact S.
  - unfold h_delete. cbn. apply sorted_kv_del. exact S.
  - unfold h_block. pose proof (block_loop_sorted (sg_name cr) ts s S).
    destruct (h_block_loop s (sg_name cr) ts) as [s' [|]]; [assumption | exact S].
Qed.
Lemma run_sorted ops : sorted (run ops).
Proof.
  unfold run. assert (G : forall s, sorted s -> sorted (run_from s ops)).
  { induction ops as [|o ops IH]; intros s S; cbn; [exact S | apply IH; apply step_sorted; exact S]. }
  apply G. constructor.
Qed.

Definition note_lt (n1 n2 : note) : Prop := bcmp (nkey_of n1) (nkey_of n2) = Lt.

Lemma q_all_sorted s : (forall k v, In (k, v) s -> entry_ok k v) -> sorted s -> StronglySorted note_lt (q_all s).
Proof.
  unfold q_all. induction s as [|[k v] r IH]; intros H S; cbn [filter map fst]; [constructor|].
  inversion S as [|? ? S' F]; subst.
  assert (Hr : forall k v, In (k, v) r -> entry_ok k v) by (intros; apply H; right; assumption).
  destruct (is_note_key k) eqn:K; [|auto]. cbn [map snd]. constructor; [auto|].
  destruct (entry_note _ _ (H k v (or_introl eq_refl)) K) as [Ek _].
  apply Forall_forall. intros n Hn. apply in_map_iff in Hn as [[k' v'] [E He]]. cbn in E. subst v'.
  apply filter_In in He as [He K']. cbn [fst] in K'.
  destruct (entry_note _ _ (Hr _ _ He) K') as [Ek' _].
  rewrite Forall_forall in F. specialize (F _ He). unfold entry_lt in F. cbn [fst] in F.
  unfold note_lt. rewrite <- Ek, <- Ek'. exact F.
Qed.

Lemma StronglySorted_filter {A} (R : A -> A -> Prop) f l : StronglySorted R l -> StronglySorted R (filter f l).
Proof.
  induction l as [|x l IH]; cbn; intros S; [constructor|]. inversion S as [|? ? S' F]; subst.
  destruct (f x); [|auto]. constructor; [auto|]. apply Forall_forall. intros y Hy. apply filter_In in Hy as [Hy _].
  rewrite Forall_forall in F. auto.
Qed.

Lemma inbox_sorted s a : Inv s -> sorted s -> nosl a -> StronglySorted note_lt (q_by_address s a).
Proof.
  intros I S A. rewrite (q_by_address_inbox _ _ I A). unfold inbox. apply StronglySorted_filter.
  apply q_all_sorted; [exact (proj1 I) | exact S].
Qed.

(* a strictly sorted list is determined by its elements *)
Lemma sorted_unique (l1 : list note) : forall l2,
  StronglySorted note_lt l1 -> StronglySorted note_lt l2 -> (forall n, In n l1 <-> In n l2) -> l1 = l2.
Proof.
  assert (Irr : forall n, ~ note_lt n n) by (intros n; apply bcmp_irrefl).
  assert (Tr : forall a b c, note_lt a b -> note_lt b c -> note_lt a c) by (intros a b c; apply bcmp_trans).
  induction l1 as [|x l1 IH]; intros [|y l2] S1 S2 E.
  - reflexivity.
  - exfalso. apply (proj2 (E y)). left. reflexivity.
  - exfalso. apply (proj1 (E x)). left. reflexivity.
  - inversion S1 as [|? ? S1' F1]; inversion S2 as [|? ? S2' F2]; subst.
    rewrite Forall_forall in F1, F2.
    assert (x = y).
    { destruct (proj1 (E x) (or_introl eq_refl)) as [->|Hx]; [reflexivity|].
      destruct (proj2 (E y) (or_introl eq_refl)) as [->|Hy]; [reflexivity|].
      exfalso. apply (Irr x). apply (Tr _ y _); [apply F1; exact Hy | apply F2; exact Hx]. }
    subst y. f_equal. apply IH; try assumption. intros n. split; intros Hn.
    + destruct (proj1 (E n) (or_intror Hn)) as [->|H]; [exfalso; exact (Irr _ (F1 _ Hn)) | exact H].
    + destruct (proj2 (E n) (or_intror Hn)) as [->|H]; [exfalso; exact (Irr _ (F2 _ Hn)) | exact H].
Qed.

(* the listing of an address after any history is THE key-ordered enumeration of what was sent to it and
   not deleted: any sorted list with that content is the listing *)
Lemma inbox_listing_determined ops a l :
  Forall wf_op ops -> nosl a -> StronglySorted note_lt l ->
  (forall n, In n l <-> sent_live ops n /\ n_to n = a) -> q_by_address (run ops) a = l.
Proof.
  intros W A S E. apply sorted_unique; [apply inbox_sorted; [apply run_Inv; exact W | apply run_sorted | exact A] | exact S|].
  intros n. rewrite (inbox_is_sent_live _ _ _ W A). symmetry. apply E.
Qed.
