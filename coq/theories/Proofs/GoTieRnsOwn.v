(* Ties by proof between the rns handlers that change a name's owner or move bid escrow, as generated from the
   current source (Gen/GoRnsOwn.v: BuyName, AddBid, CancelOneBid, AcceptOneBid, TransferName), and the model of
   C08 / C09 (Model/Rns.v): each model step is the interpretation of the generated function's outcome on the reads
   taken from the model's state, with the answers of the model's bank.  A signer is a valid address (the messages
   passed ValidateBasic), so the address parses. *)
From Coq Require Import ZArith NArith List Bool String Lia.
From JK Require Import Base.Dec Base.AList Base.GoSem Gen.GoRnsOwn Model.Rns.
Import ListNotations.
Open Scope Z_scope.

Definition is_some {A} (o : option A) : bool := match o with Some _ => true | None => false end.
Definition ok_of (r : gres (list gev * bool)) : bool := match r with GVal (_, true) => true | _ => false end.

(* ---------------- closed forms: every refusal comes before the first effect ---------------- *)
Lemma gen_BuyName_spec sender_ok listed parse_ok name_found h expires own_name stale price_ok ok_charge ok_pay :
  gen_BuyName sender_ok listed parse_ok name_found h expires own_name stale price_ok ok_charge ok_pay
  = if negb (sender_ok && listed && parse_ok && name_found && negb (expires <? h) && negb own_name && negb stale && price_ok)
    then GVal ([], false)
    else if negb ok_charge then GVal ([Ev "buyer-pays-listed-price" []], false)
    else if negb ok_pay then GVal ([Ev "buyer-pays-listed-price" []; Ev "listed-price-to-listing-owner" []], false)
    else GVal ([Ev "buyer-pays-listed-price" []; Ev "listed-price-to-listing-owner" []; Ev "remove-listing" [];
                Ev "owner-becomes-buyer" []; Ev "set-name" []], true).
Proof.
  unfold gen_BuyName.
  destruct sender_ok, listed, parse_ok, name_found; try reflexivity; cbn [negb andb].
  destruct (expires <? h); [reflexivity|]. destruct own_name, stale, price_ok; try reflexivity; cbn [negb andb].
  destruct ok_charge; [|reflexivity]. destruct ok_pay; reflexivity.
Qed.

Lemma gen_AddBid_spec sender_ok price_ok ok_escrow replaced old_price_ok ok_refund :
  gen_AddBid sender_ok price_ok ok_escrow replaced old_price_ok ok_refund
  = if negb (sender_ok && price_ok) then GVal ([], false)
    else if negb ok_escrow then GVal ([Ev "escrow-new-bid" []], false)
    else if replaced then
      (if negb old_price_ok then GVal ([Ev "escrow-new-bid" []], false)
       else if negb ok_refund then GVal ([Ev "escrow-new-bid" []; Ev "refund-replaced-bid" []], false)
       else GVal ([Ev "escrow-new-bid" []; Ev "refund-replaced-bid" []; Ev "set-bid" []], true))
    else GVal ([Ev "escrow-new-bid" []; Ev "set-bid" []], true).
Proof.
  unfold gen_AddBid. destruct sender_ok, price_ok; try reflexivity; cbn [negb andb].
  destruct ok_escrow; [|reflexivity]. destruct replaced; [|reflexivity].
  destruct old_price_ok; [|reflexivity]. destruct ok_refund; reflexivity.
Qed.

Lemma gen_CancelOneBid_spec sender_ok bid_found price_ok ok_refund :
  gen_CancelOneBid sender_ok bid_found price_ok ok_refund
  = if negb (sender_ok && bid_found && price_ok) then GVal ([], false)
    else if negb ok_refund then GVal ([Ev "refund-bid-to-sender" []], false)
    else GVal ([Ev "refund-bid-to-sender" []; Ev "remove-bid" []], true).
Proof.
  unfold gen_CancelOneBid. destruct sender_ok, bid_found, price_ok; try reflexivity; cbn [negb andb].
  destruct ok_refund; reflexivity.
Qed.

Lemma gen_AcceptOneBid_spec sender_ok parse_ok name_found h expires not_owner locked bid_found price_ok ok_pay :
  gen_AcceptOneBid sender_ok parse_ok name_found h expires not_owner locked bid_found price_ok ok_pay
  = if negb (sender_ok && parse_ok && name_found && negb (expires <? h) && negb not_owner && negb (h <? locked) && bid_found && price_ok)
    then GVal ([], false)
    else if negb ok_pay then GVal ([Ev "bid-to-signer" []], false)
    else GVal ([Ev "bid-to-signer" []; Ev "remove-bid" []; Ev "owner-becomes-bidder" []; Ev "set-name" []], true).
Proof.
  unfold gen_AcceptOneBid. destruct sender_ok, parse_ok, name_found; try reflexivity; cbn [negb andb].
  destruct (expires <? h); [reflexivity|]. destruct not_owner; [reflexivity|]. cbn [negb andb].
  destruct (h <? locked); [reflexivity|]. destruct bid_found, price_ok; try reflexivity; cbn [negb andb].
  destruct ok_pay; reflexivity.
Qed.

Lemma gen_TransferName_spec sender_ok parse_ok name_found h expires not_owner locked :
  gen_TransferName sender_ok parse_ok name_found h expires not_owner locked
  = if negb (sender_ok && parse_ok && name_found && negb (expires <? h) && negb not_owner && negb (h <? locked))
    then GVal ([], false)
    else GVal ([Ev "owner-becomes-receiver" []; Ev "set-name" []], true).
Proof.
  unfold gen_TransferName. destruct sender_ok, parse_ok, name_found; try reflexivity; cbn [negb andb].
  destruct (expires <? h); [reflexivity|]. destruct not_owner; [reflexivity|]. cbn [negb andb].
  destruct (h <? locked); reflexivity.
Qed.

(* ---------------- the model's steps ---------------- *)
Definition the_name (s : state) (n : nm) : option name_rec :=
  match nm_key n with Some k => get_name s k | None => None end.

Theorem do_buy_is_the_interpretation s (sg : addr) n :
  let sl := get_sale s (nm_full n) in
  let w := the_name s n in
  let price := match sl with Some x => f_price x | None => None end in
  let cs := match price with Some p => new_coins p | None => [] end in
  let b1 := send (bank_of s) (fst sg) rns_mod cs in
  let b2 := match b1, sl with Some b, Some x => send b rns_mod (fst (f_owner x)) cs | _, _ => None end in
  do_buy s sg n
  = if ok_of (gen_BuyName true (is_some sl) (is_some (nm_key n)) (is_some w) (height s)
                (match w with Some r => n_expires r | None => 0 end)
                (match w with Some r => addr_eqb (n_value r) sg | None => false end)
                (match w, sl with Some r, Some x => negb (addr_eqb (n_value r) (f_owner x)) | _, _ => false end)
                (is_some price) (is_some b1) (is_some b2))
    then match b2, nm_key n, w with
         | Some b, Some k, Some r =>
             Some (set_names (set_forsale (set_bank s b) (adel N.eqb (forsale s) (nm_full n)))
                             (aset N.eqb (names s) k (with_owner_reset r sg)))
         | _, _, _ => None
         end
    else None.
Proof.
  cbv zeta. rewrite gen_BuyName_spec. unfold do_buy, the_name, ok_of. cbv zeta.
  destruct (get_sale s (nm_full n)) as [sl|]; cbn [is_some andb negb]; [|reflexivity].
  destruct (nm_key n) as [k|]; cbn [is_some andb negb]; [|reflexivity].
  destruct (get_name s k) as [w|]; cbn [is_some andb negb]; [|reflexivity].
  rewrite Z.gtb_ltb. destruct (n_expires w <? height s); cbn [andb negb]; [reflexivity|].
  destruct (addr_eqb (n_value w) sg); cbn [andb negb]; [reflexivity|].
  destruct (addr_eqb (n_value w) (f_owner sl)); cbn [andb negb]; [|reflexivity].
  destruct (f_price sl) as [p|]; cbn [is_some andb negb]; [|reflexivity].
  destruct (send (bank_of s) (fst sg) rns_mod (new_coins p)) as [b1|]; cbn [is_some negb]; [|reflexivity].
  destruct (send b1 rns_mod (fst (f_owner sl)) (new_coins p)); reflexivity.
Qed.

Theorem do_bid_is_the_interpretation s (sg : addr) n price :
  let idx := (canon sg, nm_full n) in
  let old := get_bid s idx in
  let b1 := match price with Some p => send (bank_of s) (fst sg) rns_mod p | None => None end in
  let b2 := match b1, old with Some b, Some o => send b rns_mod (fst sg) (b_price o) | Some b, None => Some b | None, _ => None end in
  do_bid s sg n price
  = if ok_of (gen_AddBid true (is_some price) (is_some b1) (is_some old) true (is_some b2))
    then match b2, price with
         | Some b, Some p => Some (set_bids (set_bank s b) (aset bidkey_eqb (bids s) idx {| b_bidder := canon sg; b_price := p |}))
         | _, _ => None
         end
    else None.
Proof.
  cbv zeta. rewrite gen_AddBid_spec. unfold do_bid, ok_of. cbv zeta.
  destruct price as [p|]; cbn [is_some andb negb]; [|reflexivity].
  destruct (send (bank_of s) (fst sg) rns_mod p) as [b1|]; cbn [is_some negb]; [|reflexivity].
  destruct (get_bid s (canon sg, nm_full n)) as [o|]; cbn [is_some negb]; [|reflexivity].
  destruct (send b1 rns_mod (fst sg) (b_price o)); reflexivity.
Qed.

Theorem do_cancel_is_the_interpretation s (sg : addr) n :
  let idx := (sg, nm_full n) in
  let bd := get_bid s idx in
  let b1 := match bd with Some x => send (bank_of s) rns_mod (fst sg) (b_price x) | None => None end in
  do_cancel s sg n
  = if ok_of (gen_CancelOneBid true (is_some bd) true (is_some b1))
    then match b1 with Some b => Some (set_bids (set_bank s b) (adel bidkey_eqb (bids s) idx)) | None => None end
    else None.
Proof.
  cbv zeta. rewrite gen_CancelOneBid_spec. unfold do_cancel, ok_of. cbv zeta.
  destruct (get_bid s (sg, nm_full n)) as [bd|]; cbn [is_some andb negb]; [|reflexivity].
  destruct (send (bank_of s) rns_mod (fst sg) (b_price bd)); reflexivity.
Qed.

Theorem do_accept_is_the_interpretation s (sg : addr) n (from : addr) :
  let w := the_name s n in
  let idx := (from, nm_full n) in
  let bd := get_bid s idx in
  let b1 := match bd with Some x => send (bank_of s) rns_mod (fst sg) (b_price x) | None => None end in
  do_accept s sg n from
  = if ok_of (gen_AcceptOneBid true (is_some (nm_key n)) (is_some w) (height s)
                (match w with Some r => n_expires r | None => 0 end)
                (match w with Some r => negb (addr_eqb (n_value r) (canon sg)) | None => false end)
                (match w with Some r => n_locked r | None => 0 end)
                (is_some bd) true (is_some b1))
    then match b1, nm_key n, w, bd with
         | Some b, Some k, Some r, Some x =>
             Some (set_names (set_bids (set_bank s b) (adel bidkey_eqb (bids s) idx))
                             (aset N.eqb (names s) k (with_owner_reset r (b_bidder x))))
         | _, _, _, _ => None
         end
    else None.
Proof.
  cbv zeta. rewrite gen_AcceptOneBid_spec. unfold do_accept, the_name, ok_of. cbv zeta.
  destruct (nm_key n) as [k|]; cbn [is_some andb negb]; [|reflexivity].
  destruct (get_name s k) as [w|]; cbn [is_some andb negb]; [|reflexivity].
  rewrite !Z.gtb_ltb. destruct (n_expires w <? height s); cbn [andb negb]; [reflexivity|].
  destruct (addr_eqb (n_value w) (canon sg)); cbn [andb negb]; [|reflexivity].
  destruct (height s <? n_locked w); cbn [andb negb]; [reflexivity|].
  destruct (get_bid s (from, nm_full n)) as [bd|]; cbn [is_some andb negb]; [|reflexivity].
  destruct (send (bank_of s) rns_mod (fst sg) (b_price bd)); reflexivity.
Qed.

Theorem do_transfer_is_the_interpretation s (sg : addr) n (receiver : addr) :
  let w := the_name s n in
  do_transfer s sg n receiver
  = if ok_of (gen_TransferName true (is_some (nm_key n)) (is_some w) (height s)
                (match w with Some r => n_expires r | None => 0 end)
                (match w with Some r => negb (addr_eqb (n_value r) (canon sg)) | None => false end)
                (match w with Some r => n_locked r | None => 0 end))
    then match nm_key n, w with
         | Some k, Some r => Some (set_names s (aset N.eqb (names s) k (with_owner_reset r receiver)))
         | _, _ => None
         end
    else None.
Proof.
  cbv zeta. rewrite gen_TransferName_spec. unfold do_transfer, the_name, ok_of.
  destruct (nm_key n) as [k|]; cbn [is_some andb negb]; [|reflexivity].
  destruct (get_name s k) as [w|]; cbn [is_some andb negb]; [|reflexivity].
  rewrite !Z.gtb_ltb. destruct (n_expires w <? height s); cbn [andb negb]; [reflexivity|].
  destruct (addr_eqb (n_value w) (canon sg)); cbn [andb negb]; [|reflexivity].
  destruct (height s <? n_locked w); reflexivity.
Qed.

(* ---------------- listing and delisting ---------------- *)
Lemma gen_List_spec listed parse_ok name_found not_owner h locked expires :
  gen_List listed parse_ok name_found not_owner h locked expires
  = if negb listed && parse_ok && name_found && negb not_owner && negb (h <? locked) && negb (expires <? h)
    then GVal ([Ev "set-listing" []], true) else GVal ([], false).
Proof.
  unfold gen_List. destruct listed, parse_ok, name_found, not_owner; try reflexivity; cbn [negb andb].
  destruct (h <? locked); [reflexivity|]. destruct (expires <? h); reflexivity.
Qed.

Lemma gen_Delist_spec listed parse_ok name_found not_lister stale :
  gen_Delist listed parse_ok name_found not_lister stale
  = if listed && parse_ok && name_found && negb not_lister && negb stale
    then GVal ([Ev "remove-listing" []], true) else GVal ([], false).
Proof. unfold gen_Delist. destruct listed, parse_ok, name_found, not_lister, stale; reflexivity. Qed.

Theorem do_list_is_the_interpretation s (sg : addr) n price :
  let w := the_name s n in
  do_list s sg n price
  = if ok_of (gen_List (is_some (get_sale s (nm_full n))) (is_some (nm_key n)) (is_some w)
                (match w with Some r => negb (addr_eqb (n_value r) sg) | None => false end) (height s)
                (match w with Some r => n_locked r | None => 0 end) (match w with Some r => n_expires r | None => 0 end))
    then Some (set_forsale s (aset N.eqb (forsale s) (nm_full n) {| f_price := price; f_owner := sg |}))
    else None.
Proof.
  cbv zeta. rewrite gen_List_spec. unfold do_list, the_name, ok_of.
  destruct (get_sale s (nm_full n)); cbn [is_some andb negb]; [reflexivity|].
  destruct (nm_key n) as [k|]; cbn [is_some andb negb]; [|reflexivity].
  destruct (get_name s k) as [w|]; cbn [is_some andb negb]; [|reflexivity].
  destruct (addr_eqb (n_value w) sg); cbn [andb negb]; [|reflexivity].
  rewrite !Z.gtb_ltb. destruct (height s <? n_locked w); cbn [andb negb]; [reflexivity|].
  destruct (n_expires w <? height s); reflexivity.
Qed.

Theorem do_delist_is_the_interpretation s (sg : addr) n :
  let sl := get_sale s (nm_full n) in
  let w := the_name s n in
  do_delist s sg n
  = if ok_of (gen_Delist (is_some sl) (is_some (nm_key n)) (is_some w)
                (match sl with Some x => negb (addr_eqb (f_owner x) sg) | None => false end)
                (match w, sl with Some r, Some x => negb (addr_eqb (n_value r) (f_owner x)) | _, _ => false end))
    then Some (set_forsale s (adel N.eqb (forsale s) (nm_full n)))
    else None.
Proof.
  cbv zeta. rewrite gen_Delist_spec. unfold do_delist, the_name, ok_of.
  destruct (get_sale s (nm_full n)) as [sl|]; cbn [is_some andb negb]; [|reflexivity].
  destruct (nm_key n) as [k|]; cbn [is_some andb negb]; [|reflexivity].
  destruct (get_name s k) as [w|]; cbn [is_some andb negb]; [|reflexivity].
  destruct (addr_eqb (f_owner sl) sg); cbn [andb negb]; [|reflexivity].
  destruct (addr_eqb (n_value w) (f_owner sl)); reflexivity.
Qed.

(* ---------------- data and records of a name ---------------- *)
Lemma gen_UpdateName_spec parse_ok name_found sender_ok not_owner h expires :
  gen_UpdateName parse_ok name_found sender_ok not_owner h expires
  = if parse_ok && name_found && sender_ok && negb not_owner && negb (expires <? h)
    then GVal ([Ev "data-becomes-the-message's" []; Ev "set-name" []], true)
    else GVal ([], false).
Proof.
  unfold gen_UpdateName. destruct parse_ok, name_found, sender_ok, not_owner; try reflexivity; cbn [negb andb].
  destruct (expires <? h); reflexivity.
Qed.

Lemma gen_AddRecord_spec parse_ok name_found h expires not_owner value_has_dot label_taken :
  gen_AddRecord parse_ok name_found h expires not_owner value_has_dot label_taken
  = if parse_ok && name_found && negb (expires <? h) && negb not_owner && negb value_has_dot && negb label_taken
    then GVal ([Ev "append-record" []; Ev "set-name" []], true)
    else GVal ([], false).
Proof.
  unfold gen_AddRecord. destruct parse_ok, name_found; try reflexivity; cbn [negb andb].
  destruct (expires <? h); [reflexivity|]. destruct not_owner, value_has_dot, label_taken; reflexivity.
Qed.

Lemma gen_DelRecord_spec parse_ok has_sub name_found h expires not_owner record_present :
  gen_DelRecord parse_ok has_sub name_found h expires not_owner record_present
  = if parse_ok && has_sub && name_found && negb (expires <? h) && negb not_owner && record_present
    then GVal ([Ev "records-without-the-label" []; Ev "set-name" []], true)
    else GVal ([], false).
Proof.
  unfold gen_DelRecord. destruct parse_ok, has_sub, name_found; try reflexivity; cbn [negb andb].
  destruct (expires <? h); [reflexivity|]. destruct not_owner, record_present; reflexivity.
Qed.

Theorem do_update_is_the_interpretation s (sg : addr) n data :
  let w := the_name s n in
  do_update s sg n data
  = if ok_of (gen_UpdateName (is_some (nm_key n)) (is_some w) true
                (match w with Some r => negb (addr_eqb (n_value r) (canon sg)) | None => false end)
                (height s) (match w with Some r => n_expires r | None => 0 end))
    then match nm_key n, w with
         | Some k, Some r => Some (set_names s (aset N.eqb (names s) k (with_data r data)))
         | _, _ => None
         end
    else None.
Proof.
  cbv zeta. rewrite gen_UpdateName_spec. unfold do_update, the_name, ok_of.
  destruct (nm_key n) as [k|]; cbn [is_some andb negb]; [|reflexivity].
  destruct (get_name s k) as [w|]; cbn [is_some andb negb]; [|reflexivity].
  destruct (addr_eqb (n_value w) (canon sg)); cbn [andb negb]; [|reflexivity].
  rewrite Z.gtb_ltb. destruct (n_expires w <? height s); reflexivity.
Qed.

Theorem do_add_record_is_the_interpretation s (sg : addr) n rec_raw rec_lower value value_has_dot data :
  let w := the_name s n in
  do_add_record s sg n rec_raw rec_lower value value_has_dot data
  = if ok_of (gen_AddRecord (is_some (nm_key n)) (is_some w) (height s) (match w with Some r => n_expires r | None => 0 end)
                (match w with Some r => negb (addr_eqb sg (n_value r)) | None => false end) value_has_dot
                (match w with Some r => existsb (fun sd => N.eqb (sr_name sd) rec_raw) (n_subs r) | None => false end))
    then match nm_key n, w with
         | Some k, Some r =>
             Some (set_names s (aset N.eqb (names s) k
                    (with_subs r (n_subs r ++ [{| sr_name := rec_lower; sr_value := value; sr_data := data; sr_expires := n_expires r |}]))))
         | _, _ => None
         end
    else None.
Proof.
  cbv zeta. rewrite gen_AddRecord_spec. unfold do_add_record, the_name, ok_of.
  destruct (nm_key n) as [k|]; cbn [is_some andb negb]; [|reflexivity].
  destruct (get_name s k) as [w|]; cbn [is_some andb negb]; [|reflexivity].
  rewrite Z.gtb_ltb. destruct (n_expires w <? height s); cbn [andb negb]; [reflexivity|].
  destruct (addr_eqb sg (n_value w)); cbn [andb negb]; [|reflexivity].
  destruct value_has_dot; cbn [andb negb]; [reflexivity|].
  destruct (existsb _ (n_subs w)); reflexivity.
Qed.

Theorem do_del_record_is_the_interpretation s (sg : addr) n sub :
  let w := match nm_key n, sub with Some _, Some (_, k) => get_name s k | _, _ => None end in
  do_del_record s sg n sub
  = if ok_of (gen_DelRecord (is_some (nm_key n)) (is_some sub) (is_some w) (height s) (match w with Some r => n_expires r | None => 0 end)
                (match w with Some r => negb (addr_eqb sg (n_value r)) | None => false end)
                (match w, sub with Some r, Some (label, _) => existsb (fun sd => N.eqb (sr_name sd) label) (n_subs r) | _, _ => false end))
    then match sub, w with
         | Some (label, k), Some r =>
             Some (set_names s (aset N.eqb (names s) k (with_subs r (filter (fun sd => negb (N.eqb (sr_name sd) label)) (n_subs r)))))
         | _, _ => None
         end
    else None.
Proof.
  cbv zeta. rewrite gen_DelRecord_spec. unfold do_del_record, ok_of.
  destruct (nm_key n) as [k0|]; cbn [is_some andb negb]; [|reflexivity].
  destruct sub as [[label k]|]; cbn [is_some andb negb]; [|reflexivity].
  destruct (get_name s k) as [w|]; cbn [is_some andb negb]; [|reflexivity].
  rewrite Z.gtb_ltb. destruct (n_expires w <? height s); cbn [andb negb]; [reflexivity|].
  destruct (addr_eqb sg (n_value w)); cbn [andb negb]; [|reflexivity].
  destruct (existsb _ (n_subs w)); reflexivity.
Qed.
