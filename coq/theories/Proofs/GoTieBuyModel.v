(* The model of C04 (Model/StoragePay.v buy_storage) follows the closed form the generated BuyStorage was proved
   equal to (Proofs/GoTieBuy.v): same refusals, same panics, success exactly when the model's bank answers every
   transfer, and the amounts of the events are the model's amounts. *)
From Coq Require Import ZArith NArith List Bool String Lia.
From JK Require Import Base.Dec Base.AList Base.GoSem Proofs.GoTieBuy Model.StoragePay Proofs.StoragePayProofs Proofs.HoursRange.
Import ListNotations.
Open Scope Z_scope.

Definition is_some {A} (o : option A) : bool := match o with Some _ => true | None => false end.

Section Buy.
  Variables (e : env) (m : buy_msg) (s : pstate) (fa : acct).

  Definition payer := AUser (b_payer m).
  Definition the_plan := aget acct_eqb (s_plans s) fa.
  Definition ref_resolves := is_some (resolve (b_ref m)).
  Definition ref_is_creator := match resolve (b_ref m) with Some ra => acct_eqb ra payer | None => false end.

  (* the answers the model's bank gives to the four transfers, for the amounts the model computes from price p *)
  Definition oracles_for (p : Z) : bool * bool * bool * bool :=
    let tp := to_pay_of m p in
    match send (s_bank s) payer AMod tp with
    | None => (false, false, false, false)
    | Some b1 =>
      let ref_dec := dquo_int (dec (e_refc e)) 100 in
      let spc := dtrunc (dmul (dec tp) (dec 1 - ref_dec - pol_dec e m - discount_dec m)) in
      let k : gkey := (e_height e, (e_now e + StoragePay.buy_duration m) / 1000, spc) in
      match send b1 AMod (escrow k) spc with
      | None => (true, false, false, false)
      | Some b2 =>
        match send b2 AMod APol (dtrunc (dmul (dec tp) (pol_dec e m))) with
        | None => (true, true, false, false)
        | Some b3 =>
          let ref_cut := dtrunc (dmul (dec tp) ref_dec) in
          (true, true, true,
           match referrer m with
           | Some ra => negb (is_blocked ra (b_ref_blocked m)) && is_some (send b3 AMod ra ref_cut)
           | None => is_some (send b3 AMod AFee ref_cut)
           end)
        end
      end
    end.
  Definition oracles : bool * bool * bool * bool :=
    match base_price e m s with BPrice p _ => oracles_for p | _ => (false, false, false, false) end.

  (* buy_storage after the price is known *)
  Definition model_tail (p used : Z) : out * pstate :=
    let to_pay := to_pay_of m p in
    let pol' := pol_dec e m in
    let discount := discount_dec m in
    match send (s_bank s) payer AMod to_pay with
    | None => (Fail, s)
    | Some b1 =>
      let end_ns := e_now e + StoragePay.buy_duration m in
      let spi := {| p_start := e_now e; p_end := end_ns; p_avail := b_bytes m; p_used := used |} in
      let plans' := aset acct_eqb (s_plans s) fa spi in
      let ref_dec := dquo_int (dec (e_refc e)) 100 in
      let spr := dec 1 - ref_dec - pol' - discount in
      let spc := dtrunc (dmul (dec to_pay) spr) in
      if spc <? 0 then (Panic, s) else
      let k : gkey := (e_height e, end_ns / 1000, spc) in
      let gauges' := new_gauge (s_gauges s) k spc in
      match send b1 AMod (escrow k) spc with
      | None => (Fail, s)
      | Some b2 =>
        let pol_cut := dtrunc (dmul (dec to_pay) pol') in
        if pol_cut <? 0 then (Panic, s) else
        match send b2 AMod APol pol_cut with
        | None => (Fail, s)
        | Some b3 =>
          let ref_cut := dtrunc (dmul (dec to_pay) ref_dec) in
          if ref_cut <? 0 then (Panic, s) else
          let final b4 := (Ok, {| s_bank := b4; s_gauges := gauges'; s_plans := plans' |}) in
          match referrer m with
          | Some ra =>
            if is_blocked ra (b_ref_blocked m) then (Fail, s)
            else match send b3 AMod ra ref_cut with None => (Fail, s) | Some b4 => final b4 end
          | None =>
            match send b3 AMod AFee ref_cut with None => (Fail, s) | Some b4 => final b4 end
          end
        end
      end
    end.

  (* Ok is claimed outright; only the state reached is taken from the model's own step *)
  Definition verdict (r : gres (list gev * bool)) (ok : out * pstate) : out * pstate :=
    match r with GPanic => (Panic, s) | GVal (_, false) => (Fail, s) | GVal (_, true) => (Ok, snd ok) end.

  Lemma referred_eq : ref_resolves && (negb true || negb ref_is_creator) = is_some (referrer m).
  Proof.
    unfold ref_resolves, ref_is_creator, referrer, payer. destruct (resolve (b_ref m)) as [ra|]; [|reflexivity].
    cbn. destruct (acct_eqb ra (AUser (b_payer m))); reflexivity.
  Qed.

  Lemma tail_follows evs0 p used :
    0 <= p ->
    let '(okc, okf, okp, okr) := oracles_for p in
    model_tail p used
    = verdict (buy_tail evs0 p used (b_bytes m) (StoragePay.buy_duration m) ref_resolves true ref_is_creator (e_pol e) (e_refc e)
                        okc true okf true okp okr okr) (model_tail p used).
  Proof.
    intros Hp. unfold oracles_for, model_tail, buy_tail, verdict. rewrite referred_eq.
    unfold to_pay_of, pol_dec, discount_dec. cbv zeta.
    destruct (referrer m) as [ra|]; cbn [is_some andb negb orb].
    - (* referred *)
      set (long := 365 * 24 * HOUR_MS <? Z.quot (StoragePay.buy_duration m) 1000000).
      assert (N95 : (dtrunc (dmul (dec p) d_0_95) <? 0) = false).
      { unfold d_0_95. rewrite share_exact. apply Z.ltb_ge. apply Z.quot_pos; lia. }
      assert (N90 : (dtrunc (dmul (dec p) d_0_90) <? 0) = false).
      { unfold d_0_90. rewrite share_exact. apply Z.ltb_ge. apply Z.quot_pos; lia. }
      destruct long; rewrite ?N95, ?N90; cbn [andb negb];
        repeat (cbn [is_some negb andb app snd fst];
                match goal with
                | |- ?x = ?x => reflexivity
                | |- context [match send ?b ?f ?t ?x with _ => _ end] => destruct (send b f t x)
                | |- context [if ?c then _ else _] => destruct c
                end).
    - repeat (cbn [is_some negb andb app snd fst];
              match goal with
              | |- ?x = ?x => reflexivity
              | |- context [match send ?b ?f ?t ?x with _ => _ end] => destruct (send b f t x)
              | |- context [if ?c then _ else _] => destruct c
              end).
  Qed.

  Definition base_hours : Z :=
    dtrunc (dquo (dec (Z.quot (StoragePay.buy_duration m) 1000000)) (dec HOUR_MS)).
  Definition prorated_hours (pi : plan) : Z :=
    dtrunc (dquo (dec (Z.quot (sat64 (p_end pi - e_now e)) 1000000)) (dec HOUR_MS)).

  (* the two hour counts are an int64 count of nanoseconds divided by 3.6e12: they fit int64 *)
  Lemma base_hours_fit : in_int64 base_hours = true.
  Proof.
    unfold base_hours. apply hours_fit_int64; [reflexivity|].
    unfold StoragePay.buy_duration, wrap64, int64_min, int64_max.
    pose proof (Z.mod_pos_bound (b_days m * DAY_NS + 2 ^ 63) (2 ^ 64) ltac:(lia)). lia.
  Qed.
  Lemma prorated_hours_fit pi : in_int64 (prorated_hours pi) = true.
  Proof.
    unfold prorated_hours. apply hours_fit_int64; [reflexivity|].
    unfold sat64. destruct (Z.ltb_spec (p_end pi - e_now e) int64_min); [unfold int64_min, int64_max; lia|].
    destruct (Z.ltb_spec int64_max (p_end pi - e_now e)); [unfold int64_min, int64_max; lia|lia].
  Qed.

  Lemma buy_storage_tail p used :
    base_price e m s = BPrice p used -> b_for m = Some fa -> buy_storage e m s = model_tail p used.
  Proof. intros Hb Hf. unfold buy_storage, model_tail. rewrite Hb, Hf. reflexivity. Qed.

  Theorem buy_storage_follows_the_closed_form acc_exists :
    0 < b_days m -> b_for m = Some fa ->
    let '(okc, okf, okp, okr) := oracles in
    let pl := the_plan in
    buy_storage e m s
    = verdict (buy_spec true (b_days m) (b_bytes m) (negb (b_ujkl m)) true acc_exists (is_some pl)
                 (match pl with Some pi => p_used pi | None => 0 end) (match pl with Some pi => p_avail pi | None => 0 end)
                 (match pl with Some pi => p_end pi | None => 0 end) (e_now e) (e_ppt e) (e_jkl e)
                 ref_resolves true ref_is_creator (e_pol e) (e_refc e) okc true okf true okp okr okr)
              (buy_storage e m s).
  Proof.
    intros Hd Hf.
    assert (Hh : in_int64 base_hours = true) by apply base_hours_fit.
    assert (Hp : forall pi, the_plan = Some pi -> in_int64 (prorated_hours pi) = true) by (intros pi _; apply prorated_hours_fit).
    (* first: what the price is *)
    destruct (base_price e m s) as [| |p used] eqn:BP.
    - (* refused before any effect *)
      unfold oracles. rewrite BP. cbv zeta.
      unfold buy_storage. rewrite BP.
      revert BP. unfold base_price, buy_spec, the_plan in *. rewrite Hf.
      destruct (Z.leb_spec (b_days m) 0); [lia|].
      change (GoTieBuy.buy_duration (b_days m)) with (StoragePay.buy_duration m). cbn [negb]. cbv zeta.
      destruct (StoragePay.buy_duration m <? MONTH_NS); [reflexivity|].
      destruct (Z.quot (b_bytes m) GB <=? 0); [reflexivity|].
      destruct (b_ujkl m); cbn [negb]; [|reflexivity].
      fold base_hours. rewrite Hh. cbn [negb].
      destruct (storage_cost (e_ppt e) (e_jkl e) (Z.quot (b_bytes m) GB) base_hours) as [cost|]; [|discriminate].
      destruct (cost <? 0); [discriminate|].
      destruct (aget acct_eqb (s_plans s) fa) as [pi|] eqn:PL; cbn [is_some]; [|discriminate].
      destruct (b_bytes m <? p_used pi); [reflexivity|].
      destruct (e_now e <? p_end pi); [|discriminate].
      unfold upgrade_price, upgrade_spec. cbv zeta. specialize (Hp pi eq_refl). unfold prorated_hours in Hp.
      unfold dtrunc64. rewrite Hp.
      destruct (storage_cost _ _ _ _) as [old|]; [|discriminate].
      destruct (_ <=? 0); [reflexivity|]. destruct (b_bytes m <? p_used pi); [reflexivity|].
      destruct (cost - old <=? 0); [reflexivity|discriminate].
    - (* a panic while pricing *)
      unfold oracles. rewrite BP. cbv zeta.
      unfold buy_storage. rewrite BP.
      revert BP. unfold base_price, buy_spec, the_plan in *. rewrite Hf.
      destruct (Z.leb_spec (b_days m) 0); [lia|].
      change (GoTieBuy.buy_duration (b_days m)) with (StoragePay.buy_duration m). cbn [negb]. cbv zeta.
      destruct (StoragePay.buy_duration m <? MONTH_NS); [discriminate|].
      destruct (Z.quot (b_bytes m) GB <=? 0); [discriminate|].
      destruct (b_ujkl m); cbn [negb]; [|discriminate].
      fold base_hours. rewrite Hh. cbn [negb].
      destruct (storage_cost (e_ppt e) (e_jkl e) (Z.quot (b_bytes m) GB) base_hours) as [cost|]; [|reflexivity].
      destruct (cost <? 0); [reflexivity|].
      destruct (aget acct_eqb (s_plans s) fa) as [pi|] eqn:PL; cbn [is_some]; [|discriminate].
      destruct (b_bytes m <? p_used pi); [discriminate|].
      destruct (e_now e <? p_end pi); [|discriminate].
      unfold upgrade_price, upgrade_spec. cbv zeta. specialize (Hp pi eq_refl). unfold prorated_hours in Hp.
      unfold dtrunc64. rewrite Hp.
      destruct (storage_cost _ _ _ _) as [old|]; [|reflexivity].
      destruct (_ <=? 0); [discriminate|]. destruct (b_bytes m <? p_used pi); [discriminate|].
      destruct (cost - old <=? 0); discriminate.
    - (* a price: the rest is the tail *)
      pose proof (base_price_nonneg e m s p used BP) as [P0 _].
      rewrite (buy_storage_tail p used BP Hf).
      unfold oracles. rewrite BP.
      pose proof (tail_follows (if acc_exists then [] else [Ev "new-account" []]) p used P0) as TF.
      destruct (oracles_for p) as [[[okc okf] okp] okr]. cbv zeta.
      revert BP. unfold base_price, buy_spec, the_plan in *. rewrite Hf.
      destruct (Z.leb_spec (b_days m) 0); [lia|].
      change (GoTieBuy.buy_duration (b_days m)) with (StoragePay.buy_duration m). cbn [negb]. cbv zeta.
      destruct (StoragePay.buy_duration m <? MONTH_NS); [discriminate|].
      destruct (Z.quot (b_bytes m) GB <=? 0); [discriminate|].
      destruct (b_ujkl m); cbn [negb]; [|discriminate].
      fold base_hours. rewrite Hh. cbn [negb].
      destruct (storage_cost (e_ppt e) (e_jkl e) (Z.quot (b_bytes m) GB) base_hours) as [cost|]; [|discriminate].
      destruct (cost <? 0); [discriminate|].
      destruct (aget acct_eqb (s_plans s) fa) as [pi|] eqn:PL; cbn [is_some].
      + destruct (b_bytes m <? p_used pi); [discriminate|].
        destruct (e_now e <? p_end pi).
        * unfold upgrade_price, upgrade_spec. cbv zeta. specialize (Hp pi eq_refl). unfold prorated_hours in Hp.
          unfold dtrunc64. rewrite Hp.
          destruct (storage_cost _ _ _ _) as [old|]; [|discriminate].
          destruct (_ <=? 0); [discriminate|]. destruct (b_bytes m <? p_used pi); [discriminate|].
          destruct (cost - old <=? 0); [discriminate|].
          intros [= <- <-]. exact TF.
        * intros [= <- <-]. exact TF.
      + intros [= <- <-]. exact TF.
  Qed.
End Buy.
