(* Proofs about the provider / collateral model (property C15 and the provider part of C11). *)
From Coq Require Import ZArith NArith List Bool Lia.
From JK Require Import Base.AList Model.Collateral.
Import ListNotations.
Open Scope Z_scope.

(* ------------------------------------------------------------------ keys *)

Lemma Neqb_spec a b : N.eqb a b = true <-> a = b.
Proof. apply N.eqb_eq. Qed.

Lemma sg_eqb_spec (a b : signer) : sg_eqb a b = true <-> a = b.
Proof.
  destruct a as [a1 a2], b as [b1 b2]. unfold sg_eqb; cbn. rewrite andb_true_iff, N.eqb_eq, eqb_true_iff.
  split; [intros [-> ->]; reflexivity | intros E; inversion E; auto].
Qed.

Lemma sg_dec (a b : signer) : a = b \/ a <> b.
Proof. destruct (sg_eqb a b) eqn:E; [left; apply sg_eqb_spec; exact E | right; intros H; apply sg_eqb_spec in H; congruence]. Qed.

Lemma aget_aset {V} (ll : list (signer * V)) (k k' : signer) (v : V) :
  aget sg_eqb (aset sg_eqb ll k v) k' = if sg_eqb k' k then Some v else aget sg_eqb ll k'.
Proof.
  destruct (sg_eqb k' k) eqn:E.
  - apply sg_eqb_spec in E; subst. apply (aget_aset_same sg_eqb sg_eqb_spec).
  - apply (aget_aset_other sg_eqb sg_eqb_spec). intros H; apply sg_eqb_spec in H; congruence.
Qed.

Lemma aget_adel (k k' : signer) {V} (ll : list (signer * V)) :
  aget sg_eqb (adel sg_eqb ll k) k' = if sg_eqb k' k then None else aget sg_eqb ll k'.
Proof.
  destruct (sg_eqb k' k) eqn:E.
  - apply sg_eqb_spec in E; subst. apply aget_adel_same.
  - apply (aget_adel_other sg_eqb sg_eqb_spec). intros H; apply sg_eqb_spec in H; congruence.
Qed.

Lemma sg_eqb_neq (a b : signer) : a <> b -> sg_eqb a b = false.
Proof. intros H. destruct (sg_eqb a b) eqn:E; [apply sg_eqb_spec in E; contradiction | reflexivity]. Qed.

Lemma sg_eqb_refl (a : signer) : sg_eqb a a = true.
Proof. apply sg_eqb_spec; reflexivity. Qed.

(* ------------------------------------------------------------------ bank *)

Lemma bal_credit b a x y : bal (credit b a x) y = bal b y + (if N.eqb y a then x else 0).
Proof.
  unfold bal, credit, aval. destruct (N.eqb y a) eqn:E.
  - apply N.eqb_eq in E; subst y. rewrite (aget_aset_same N.eqb Neqb_spec). fold (aval N.eqb b a). reflexivity.
  - rewrite (aget_aset_other N.eqb Neqb_spec) by (intros ->; rewrite N.eqb_refl in E; discriminate). lia.
Qed.

(* what a successful transfer does to every balance *)
Lemma send_bal b f t x b' : send b f t x = Some b' ->
  forall a, bal b' a = bal b a - (if N.eqb a f then x else 0) + (if N.eqb a t then x else 0).
Proof.
  unfold send. intros H a. destruct (x =? 0) eqn:E0.
  - apply Z.eqb_eq in E0. inversion H; subst. destruct (N.eqb a f), (N.eqb a t); lia.
  - destruct (x <=? bal b f); [|discriminate]. inversion H; subst. rewrite !bal_credit.
    destruct (N.eqb a f), (N.eqb a t); lia.
Qed.

Lemma send_ok b f t x : 0 <= x <= bal b f -> exists b', send b f t x = Some b'.
Proof.
  intros H. unfold send. destruct (x =? 0); [eauto|].
  destruct (Z.leb_spec x (bal b f)); [eauto | lia].
Qed.

Lemma send_some_cond b f t x b' : send b f t x = Some b' -> x = 0 \/ x <= bal b f.
Proof.
  unfold send. destruct (x =? 0) eqn:E; [apply Z.eqb_eq in E; auto|].
  destruct (Z.leb_spec x (bal b f)); [auto | discriminate].
Qed.

(* ------------------------------------------------------------------ sums over part of the keys *)

Definition lsum (P : signer -> bool) (l : list (signer * Z)) : Z :=
  asum (filter (fun kv => P (fst kv)) l).

Lemma lsum_aset P l k v : NoDup (akeys l) ->
  lsum P (aset sg_eqb l k v) = lsum P l - (if P k then aval sg_eqb l k else 0) + (if P k then v else 0).
Proof.
  unfold lsum, aval. induction l as [|[k' v'] r IH]; cbn; intros ND.
  - destruct (P k); cbn; lia.
  - inversion ND as [|? ? Hn Hr]; subst. specialize (IH Hr). destruct (sg_eqb k k') eqn:E; cbn.
    + apply sg_eqb_spec in E; subst k'. destruct (P k); cbn; lia.
    + destruct (P k'); cbn; rewrite IH; lia.
Qed.

Lemma lsum_adel P l k : NoDup (akeys l) ->
  lsum P (adel sg_eqb l k) = lsum P l - (if P k then aval sg_eqb l k else 0).
Proof.
  unfold lsum, aval. induction l as [|[k' v'] r IH]; cbn; intros ND.
  - destruct (P k); lia.
  - inversion ND as [|? ? Hn Hr]; subst. destruct (sg_eqb k k') eqn:E; cbn.
    + apply sg_eqb_spec in E; subst k'.
      assert (aget sg_eqb r k = None) as G by (apply (aget_none_notin sg_eqb sg_eqb_spec); exact Hn).
      rewrite IH by exact Hr. rewrite G. destruct (P k); cbn; lia.
    + specialize (IH Hr). destruct (P k'); cbn; rewrite IH; lia.
Qed.

Lemma asum_ge_member (l : list (signer * Z)) k v :
  Forall (fun kv => 0 <= snd kv) l -> aget sg_eqb l k = Some v -> 0 <= v <= asum l.
Proof.
  induction l as [|[k' v'] r IH]; cbn; intros F G; [discriminate|].
  inversion F as [|? ? H0 Hr]; subst; cbn in H0.
  assert (0 <= asum r) as Hs.
  { clear -Hr. induction r as [|[a b] q IHq]; cbn; [lia|]. inversion Hr; subst; cbn in *. specialize (IHq H2). lia. }
  destruct (sg_eqb k k'); [inversion G; subst; lia | specialize (IH Hr G); lia].
Qed.

Lemma forall_aset (Q : Z -> Prop) (l : list (signer * Z)) k v :
  Forall (fun kv => Q (snd kv)) l -> Q v -> Forall (fun kv => Q (snd kv)) (aset sg_eqb l k v).
Proof.
  induction l as [|[k' v'] r IH]; cbn; intros F Hv; [constructor; [exact Hv | constructor]|].
  inversion F; subst. destruct (sg_eqb k k'); constructor; auto.
Qed.

Lemma forall_adel (Q : Z -> Prop) (l : list (signer * Z)) k :
  Forall (fun kv => Q (snd kv)) l -> Forall (fun kv => Q (snd kv)) (adel sg_eqb l k).
Proof.
  induction l as [|[k' v'] r IH]; cbn; intros F; [constructor|].
  inversion F; subst. destruct (sg_eqb k k'); [auto | constructor; auto].
Qed.

(* ------------------------------------------------------------------ inversion of the two money handlers *)

Lemma init_inv s c vb ipok ip space kb s' o :
  init_provider s c vb ipok ip space kb = (s', o) ->
  (o <> Ok /\ s' = s) \/
  (o = Ok /\ vb = true /\ ipok = true /\ get_prov s c = None /\ 0 <= st_price s /\
   exists b, send (st_bank s) (acct c) escrow (st_price s) = Some b /\
     s' = with_money s
            (aset sg_eqb (st_prov s) c {| p_addr := c; p_ip := ip; p_space := space; p_creator := c; p_burned := 0;
                                          p_keybase := kb; p_claimers := [] |})
            (aset sg_eqb (st_coll s) c (st_price s)) b).
Proof.
  unfold init_provider. intros H.
  destruct vb, ipok; cbn [andb negb] in H; try (inversion H; subst; left; split; [discriminate | reflexivity]).
  destruct (get_prov s c) eqn:G; [inversion H; subst; left; split; [discriminate | reflexivity]|].
  destruct (Z.ltb_spec (st_price s) 0); [inversion H; subst; left; split; [discriminate | reflexivity]|].
  destruct (snd c) eqn:Hu; [inversion H; subst; left; split; [discriminate | reflexivity]|].
  destruct (send (st_bank s) (acct c) escrow (st_price s)) as [b|] eqn:S;
    [|inversion H; subst; left; split; [discriminate | reflexivity]].
  inversion H; subst. right. repeat split; auto. exists b. split; reflexivity.
Qed.

(* since the repair "register a provider only under the canonical spelling": an accepted
   registration was signed with the canonical (lower-case) spelling *)
Lemma init_ok_canonical s c vb ipok ip space kb s' :
  init_provider s c vb ipok ip space kb = (s', Ok) -> snd c = false.
Proof.
  unfold init_provider. intros H.
  destruct (negb (vb && ipok)); [discriminate|].
  destruct (get_prov s c); [discriminate|].
  destruct (st_price s <? 0); [discriminate|].
  destruct (snd c); [discriminate | reflexivity].
Qed.

Lemma shutdown_inv s c vb s' o :
  shutdown_provider s c vb = (s', o) ->
  (o <> Ok /\ s' = s) \/
  (o = Ok /\ vb = true /\ get_prov s c <> None /\
   ((get_coll s c = None /\ s' = with_prov s (adel sg_eqb (st_prov s) c)) \/
    (exists amt b, get_coll s c = Some amt /\ 0 <= amt /\ is_blocked s (acct c) = false /\
       send (st_bank s) escrow (acct c) amt = Some b /\
       s' = with_money s (adel sg_eqb (st_prov s) c) (adel sg_eqb (st_coll s) c) b))).
Proof.
  unfold shutdown_provider. intros H.
  destruct vb; cbn [negb] in H; [|inversion H; subst; left; split; [discriminate | reflexivity]].
  destruct (get_prov s c) eqn:G; [|inversion H; subst; left; split; [discriminate | reflexivity]].
  destruct (get_coll s c) as [amt|] eqn:C.
  - destruct (Z.ltb_spec amt 0); [inversion H; subst; left; split; [discriminate | reflexivity]|].
    destruct (is_blocked s (acct c)) eqn:B; [inversion H; subst; left; split; [discriminate | reflexivity]|].
    destruct (send (st_bank s) escrow (acct c) amt) as [b|] eqn:S;
      [|inversion H; subst; left; split; [discriminate | reflexivity]].
    inversion H; subst. right. split; [reflexivity|]. split; [reflexivity|]. split; [discriminate|].
    right. exists amt, b. repeat split; auto.
  - inversion H; subst. right. split; [reflexivity|]. split; [reflexivity|]. split; [discriminate|].
    left. split; reflexivity.
Qed.

(* the record-management messages: either nothing happens or exactly one SetProviders of an
   updated copy of the signer's own record *)
Definition same_addr (f : prov -> prov) : Prop := forall p, p_addr (f p) = p_addr p.

Lemma upd_inv s c ok f s' o : upd_prov s c ok f = (s', o) ->
  (o <> Ok /\ s' = s) \/ (o = Ok /\ ok = true /\ exists p, get_prov s c = Some p /\ s' = set_prov s (f p)).
Proof.
  unfold upd_prov. intros H. destruct ok; cbn [negb] in H; [|inversion H; subst; left; split; [discriminate | reflexivity]].
  destruct (get_prov s c) as [p|] eqn:G; inversion H; subst; [right | left; split; [discriminate | reflexivity]].
  repeat split; auto. exists p. split; reflexivity.
Qed.

Lemma burn_inv s c :
  burn s c = s \/ exists p p', get_prov s c = Some p /\ p_addr p' = p_addr p /\ burn s c = set_prov s p'.
Proof.
  unfold burn. destruct (upd_prov s c true _) as [s1 o1] eqn:U. apply upd_inv in U. cbn [fst].
  destruct U as [[_ ->]|(_ & _ & p & G & ->)]; [left; reflexivity | right].
  eexists p, _. split; [exact G|]. split; [|reflexivity]. reflexivity.
Qed.

(* every non-money operation is "nothing" or "SetProviders (g p)" for the signer's record p, g keeping Address *)
Lemma mgmt_inv s o c : op_signer o = Some c ->
  match o with OInit _ _ _ _ _ _ | OShutdown _ _ => False | _ => True end ->
  (snd (step s o) <> Ok /\ fst (step s o) = s) \/
  (snd (step s o) = Ok /\ exists p p', get_prov s c = Some p /\ p_addr p' = p_addr p /\ fst (step s o) = set_prov s p').
Proof.
  intros Hs Hk. destruct o; cbn in Hs; try discriminate; try contradiction; inversion Hs; subst; cbn [step].
  - (* set ip *)
    unfold set_ip. destruct (upd_prov s c (vb && ipok) _) as [s1 o1] eqn:U. apply upd_inv in U.
    cbn [fst snd]. destruct U as [[? ?]|[? [_ [p [G ->]]]]]; [left; auto | right; split; auto]. eexists p, _. split; [first [eassumption | reflexivity]|]. refine (conj _ eq_refl). reflexivity.
  - unfold set_keybase. destruct (upd_prov s c vb _) as [s1 o1] eqn:U. apply upd_inv in U.
    cbn [fst snd]. destruct U as [[? ?]|[? [_ [p [G ->]]]]]; [left; auto | right; split; auto]. eexists p, _. split; [first [eassumption | reflexivity]|]. refine (conj _ eq_refl). reflexivity.
  - unfold set_space. destruct (upd_prov s c vb _) as [s1 o1] eqn:U. apply upd_inv in U.
    cbn [fst snd]. destruct U as [[? ?]|[? [_ [p [G ->]]]]]; [left; auto | right; split; auto]. eexists p, _. split; [first [eassumption | reflexivity]|]. refine (conj _ eq_refl). reflexivity.
  - (* add claimer *)
    unfold add_claimer. destruct vb; cbn [negb]; [|left; split; [discriminate | reflexivity]].
    destruct (get_prov s c) as [p|] eqn:G; [|left; split; [discriminate | reflexivity]].
    destruct (existsb (sg_eqb cl) (p_claimers p)); [left; split; [discriminate | reflexivity]|].
    right; split; [reflexivity|]. eexists p, _. split; [first [eassumption | reflexivity]|]. refine (conj _ eq_refl). reflexivity.
  - unfold remove_claimer. destruct vb; cbn [negb]; [|left; split; [discriminate | reflexivity]].
    destruct (get_prov s c) as [p|] eqn:G; [|left; split; [discriminate | reflexivity]].
    destruct (p_claimers p) eqn:PC; [left; split; [discriminate | reflexivity]|]. rewrite <- PC.
    destruct (Nat.eqb _ _); [left; split; [discriminate | reflexivity]|].
    right; split; [reflexivity|]. eexists p, _. split; [first [eassumption | reflexivity]|]. refine (conj _ eq_refl). reflexivity.
Qed.

(* ------------------------------------------------------------------ the invariants *)

(* the escrow holds exactly the recorded collaterals *)
Definition backed (s : state) : Prop := bal (st_bank s) escrow = asum (st_coll s).

Definition Inv (s : state) : Prop :=
  backed s /\
  NoDup (akeys (st_coll s)) /\
  (forall c, get_prov s c = None -> get_coll s c = None) /\      (* collateral records belong to providers *)
  is_blocked s escrow = true.                                     (* module accounts are blocked recipients *)

Definition nonneg (s : state) : Prop := Forall (fun kv => 0 <= snd kv) (st_coll s).

(* every record sits under the key its Address field names *)
Definition addr_ok (s : state) : Prop := forall k p, get_prov s k = Some p -> p_addr p = k.

(* operations are not signed by the escrow module account (it has no key) *)
Definition signed_ok (o : op) : Prop := op_account o <> Some escrow.

Lemma aval_none (l : list (signer * Z)) k : aget sg_eqb l k = None -> aval sg_eqb l k = 0.
Proof. unfold aval. intros ->. reflexivity. Qed.
Lemma aval_some (l : list (signer * Z)) k v : aget sg_eqb l k = Some v -> aval sg_eqb l k = v.
Proof. unfold aval. intros ->. reflexivity. Qed.

Lemma get_prov_set s p k : get_prov (set_prov s p) k = if sg_eqb k (p_addr p) then Some p else get_prov s k.
Proof. unfold get_prov, set_prov, with_prov; cbn. apply aget_aset. Qed.

Lemma Inv_set_prov s p : Inv s -> Inv (set_prov s p).
Proof.
  intros (B & ND & CP & BL). unfold Inv, backed, set_prov, with_prov, get_coll, is_blocked in *; cbn.
  repeat split; auto. intros c G. apply CP. fold (set_prov s p) in G. unfold get_prov in *. cbn in G.
  rewrite aget_aset in G. destruct (sg_eqb c (p_addr p)); [discriminate | exact G].
Qed.

Lemma step_Inv s o : Inv s -> signed_ok o -> Inv (fst (step s o)).
Proof.
  intros I SO. pose proof I as (B & ND & CP & BL). unfold signed_ok in SO.
  destruct o.
  - (* init *)
    cbn [step]. destruct (init_provider s c vb ipok ip space kb) as [s' o] eqn:H. cbn [fst].
    apply init_inv in H. destruct H as [[_ ->]|(_ & _ & _ & G & Hp & b & S & ->)]; [exact I|].
    cbn in SO. assert (acct c <> escrow) as NE by (intros E; apply SO; rewrite E; reflexivity).
    pose proof (send_bal _ _ _ _ _ S escrow) as Hb.
    rewrite N.eqb_refl in Hb. rewrite (proj2 (N.eqb_neq escrow (acct c))) in Hb by auto.
    unfold Inv, backed, with_money, get_prov, get_coll, is_blocked in *; cbn. repeat split; auto.
    + rewrite asum_aset by exact ND. rewrite aval_none by (apply CP; exact G). lia.
    + apply (nodup_aset sg_eqb sg_eqb_spec); exact ND.
    + intros d. rewrite !aget_aset. destruct (sg_eqb d c); [discriminate | apply CP].
  - (* shutdown *)
    cbn [step]. destruct (shutdown_provider s c vb) as [s' o] eqn:H. cbn [fst].
    apply shutdown_inv in H.
    destruct H as [[_ ->]|(_ & _ & G & [[C ->]|(amt & b & C & Ha & Bk & S & ->)])]; [exact I| |].
    + unfold Inv, backed, with_prov, get_prov, get_coll, is_blocked in *; cbn. repeat split; auto.
      intros d. rewrite aget_adel. destruct (sg_eqb d c) eqn:E; [apply sg_eqb_spec in E; subst; auto | apply CP].
    + cbn in SO. assert (acct c <> escrow) as NE by (intros E; apply SO; rewrite E; reflexivity).
      pose proof (send_bal _ _ _ _ _ S escrow) as Hb.
      rewrite N.eqb_refl in Hb. rewrite (proj2 (N.eqb_neq escrow (acct c))) in Hb by auto.
      unfold Inv, backed, with_money, get_prov, get_coll, is_blocked in *; cbn. repeat split; auto.
      * rewrite (asum_adel sg_eqb sg_eqb_spec) by exact ND. rewrite (aval_some _ _ _ C). lia.
      * apply (nodup_adel sg_eqb sg_eqb_spec); exact ND.
      * intros d. rewrite !aget_adel. destruct (sg_eqb d c); [reflexivity | apply CP].
  - (* price *)
    cbn [step]. unfold set_price. destruct (v <=? 1); cbn; exact I.
  - pose proof (mgmt_inv s (OSetIp c vb ipok ip) c eq_refl Logic.I) as [[_ ->]|[_ (p & p' & _ & _ & ->)]]; [exact I | apply Inv_set_prov; exact I].
  - pose proof (mgmt_inv s (OSetKeybase c vb kb) c eq_refl Logic.I) as [[_ ->]|[_ (p & p' & _ & _ & ->)]]; [exact I | apply Inv_set_prov; exact I].
  - pose proof (mgmt_inv s (OSetSpace c vb space) c eq_refl Logic.I) as [[_ ->]|[_ (p & p' & _ & _ & ->)]]; [exact I | apply Inv_set_prov; exact I].
  - pose proof (mgmt_inv s (OAddClaimer c vb cl) c eq_refl Logic.I) as [[_ ->]|[_ (p & p' & _ & _ & ->)]]; [exact I | apply Inv_set_prov; exact I].
  - pose proof (mgmt_inv s (ORemoveClaimer c vb cl) c eq_refl Logic.I) as [[_ ->]|[_ (p & p' & _ & _ & ->)]]; [exact I | apply Inv_set_prov; exact I].
  - (* a bank send to the escrow address is refused *)
    cbn [step]. unfold donate. destruct (x <=? 0); [exact I|]. rewrite BL. exact I.
  - cbn [step fst]. destruct (burn_inv s c) as [->|(p & p' & _ & _ & ->)]; [exact I | apply Inv_set_prov; exact I].
Qed.

Lemma run_Inv ops : forall s, Inv s -> Forall signed_ok ops -> Inv (run s ops).
Proof.
  induction ops as [|o r IH]; intros s I F; [exact I|].
  inversion F; subst. unfold run; cbn [fold_left]. apply IH; [apply step_Inv; assumption | assumption].
Qed.

Lemma genesis_Inv price b blocked supply :
  bal b escrow = 0 -> In escrow blocked -> Inv (genesis price b blocked supply).
Proof.
  intros Hb Hin. unfold Inv, backed, genesis, get_coll, is_blocked; cbn. repeat split; auto; [constructor|].
  apply existsb_exists. exists escrow. split; [exact Hin | apply N.eqb_refl].
Qed.

(* ---- recorded amounts stay non-negative ---- *)

Lemma step_nonneg s o : nonneg s -> nonneg (fst (step s o)).
Proof.
  intros NN. destruct o.
  - cbn [step]. destruct (init_provider s c vb ipok ip space kb) as [s' o] eqn:H. cbn [fst]. apply init_inv in H.
    destruct H as [[_ ->]|(_ & _ & _ & _ & Hp & b & _ & ->)]; [exact NN|].
    unfold nonneg, with_money; cbn. apply forall_aset; [exact NN | exact Hp].
  - cbn [step]. destruct (shutdown_provider s c vb) as [s' o] eqn:H. cbn [fst]. apply shutdown_inv in H.
    destruct H as [[_ ->]|(_ & _ & _ & [[_ ->]|(amt & b & _ & _ & _ & _ & ->)])]; [exact NN | exact NN |].
    unfold nonneg, with_money; cbn. apply forall_adel. exact NN.
  - cbn [step]. unfold set_price. destruct (v <=? 1); exact NN.
  - pose proof (mgmt_inv s (OSetIp c vb ipok ip) c eq_refl Logic.I) as [[_ ->]|[_ (p & p' & _ & _ & ->)]]; exact NN.
  - pose proof (mgmt_inv s (OSetKeybase c vb kb) c eq_refl Logic.I) as [[_ ->]|[_ (p & p' & _ & _ & ->)]]; exact NN.
  - pose proof (mgmt_inv s (OSetSpace c vb space) c eq_refl Logic.I) as [[_ ->]|[_ (p & p' & _ & _ & ->)]]; exact NN.
  - pose proof (mgmt_inv s (OAddClaimer c vb cl) c eq_refl Logic.I) as [[_ ->]|[_ (p & p' & _ & _ & ->)]]; exact NN.
  - pose proof (mgmt_inv s (ORemoveClaimer c vb cl) c eq_refl Logic.I) as [[_ ->]|[_ (p & p' & _ & _ & ->)]]; exact NN.
  - cbn [step]. unfold donate. destruct (x <=? 0); [exact NN|]. destruct (is_blocked s escrow); [exact NN|].
    destruct (send _ _ _ _); exact NN.
  - cbn [step fst]. destruct (burn_inv s c) as [->|(p & p' & _ & _ & ->)]; exact NN.
Qed.

Lemma run_nonneg ops : forall s, nonneg s -> nonneg (run s ops).
Proof.
  induction ops as [|o r IH]; intros s NN; [exact NN|].
  unfold run; cbn [fold_left]. apply IH. apply step_nonneg. exact NN.
Qed.

Lemma good_over_histories ops s :
  Inv s -> nonneg s -> Forall signed_ok ops -> Inv (run s ops) /\ nonneg (run s ops).
Proof. intros I NN F. split; [apply run_Inv; assumption | apply run_nonneg; assumption]. Qed.

Lemma genesis_good price b blocked supply :
  bal b escrow = 0 -> In escrow blocked ->
  Inv (genesis price b blocked supply) /\ nonneg (genesis price b blocked supply).
Proof. intros. split; [apply genesis_Inv; assumption | constructor]. Qed.

(* ------------------------------------------------------------------ T1: the escrow is exactly backed *)

Lemma escrow_backed_over_histories ops s :
  Inv s -> Forall signed_ok ops ->
  bal (st_bank (run s ops)) escrow = asum (st_coll (run s ops)).
Proof. intros I F. exact (proj1 (run_Inv ops s I F)). Qed.

Lemma escrow_backed_from_genesis price b blocked supply ops :
  bal b escrow = 0 -> In escrow blocked -> Forall signed_ok ops ->
  let s := run (genesis price b blocked supply) ops in bal (st_bank s) escrow = asum (st_coll s).
Proof. intros Hb Hin F. apply escrow_backed_over_histories; [apply genesis_Inv; assumption | exact F]. Qed.

(* ------------------------------------------------------------------ T2: init locks the current price *)

Lemma init_locks s c vb ipok ip space kb :
  acct c <> escrow ->
  let s' := fst (init_provider s c vb ipok ip space kb) in
  let o := snd (init_provider s c vb ipok ip space kb) in
  (o = Ok ->
     vb = true /\ ipok = true /\ get_prov s c = None /\ 0 <= st_price s /\
     bal (st_bank s') (acct c) = bal (st_bank s) (acct c) - st_price s /\
     bal (st_bank s') escrow = bal (st_bank s) escrow + st_price s /\
     (forall a, a <> acct c -> a <> escrow -> bal (st_bank s') a = bal (st_bank s) a) /\
     get_coll s' c = Some (st_price s) /\
     (exists p, get_prov s' c = Some p /\ p_addr p = c /\ p_creator p = c) /\
     (forall d, d <> c -> get_coll s' d = get_coll s d /\ get_prov s' d = get_prov s d) /\
     st_price s' = st_price s) /\
  (o <> Ok -> s' = s).
Proof.
  intros NE s' o. subst s' o.
  destruct (init_provider s c vb ipok ip space kb) as [s' o] eqn:H. cbn [fst snd].
  apply init_inv in H. destruct H as [[NO ->]|(-> & -> & -> & G & Hp & b & S & ->)].
  - split; [intros; contradiction | reflexivity].
  - split; [intros _ | intros X; contradiction].
    pose proof (send_bal _ _ _ _ _ S) as Hb.
    unfold with_money, get_coll, get_prov; cbn. repeat split; auto.
    + rewrite Hb, N.eqb_refl, (proj2 (N.eqb_neq (acct c) escrow)) by auto. lia.
    + rewrite Hb, N.eqb_refl, (proj2 (N.eqb_neq escrow (acct c))) by auto. lia.
    + intros a H1 H2. rewrite Hb, (proj2 (N.eqb_neq a (acct c))), (proj2 (N.eqb_neq a escrow)) by auto. lia.
    + rewrite aget_aset. rewrite sg_eqb_refl. reflexivity.
    + eexists. rewrite aget_aset. rewrite sg_eqb_refl. repeat split; reflexivity.
    + rewrite aget_aset. rewrite sg_eqb_neq by auto. reflexivity.
    + rewrite aget_aset. rewrite sg_eqb_neq by auto. reflexivity.
Qed.

Lemma init_succeeds s c ip space kb :
  snd c = false ->
  get_prov s c = None -> 0 <= st_price s <= bal (st_bank s) (acct c) ->
  snd (init_provider s c true true ip space kb) = Ok.
Proof.
  intros Hc G H. unfold init_provider. cbn [andb negb]. rewrite G.
  destruct (Z.ltb_spec (st_price s) 0); [lia|]. rewrite Hc.
  destruct (send_ok (st_bank s) (acct c) escrow (st_price s) H) as [b ->]. reflexivity.
Qed.

(* ------------------------------------------------------------------ T3: shutdown returns the recorded amount *)

Definition recorded (s : state) (c : signer) : Z := match get_coll s c with Some a => a | None => 0 end.

Lemma shutdown_returns s c vb :
  acct c <> escrow ->
  let s' := fst (shutdown_provider s c vb) in
  let o := snd (shutdown_provider s c vb) in
  (o = Ok ->
     vb = true /\ get_prov s c <> None /\
     get_prov s' c = None /\ get_coll s' c = None /\
     bal (st_bank s') (acct c) = bal (st_bank s) (acct c) + recorded s c /\
     bal (st_bank s') escrow = bal (st_bank s) escrow - recorded s c /\
     (forall a, a <> acct c -> a <> escrow -> bal (st_bank s') a = bal (st_bank s) a) /\
     (forall d, d <> c -> get_coll s' d = get_coll s d /\ get_prov s' d = get_prov s d) /\
     st_price s' = st_price s) /\
  (o <> Ok -> s' = s).
Proof.
  intros NE s' o. subst s' o.
  destruct (shutdown_provider s c vb) as [s' o] eqn:H. cbn [fst snd].
  apply shutdown_inv in H.
  destruct H as [[NO ->]|(-> & -> & G & [[C ->]|(amt & b & C & Ha & Bk & S & ->)])].
  - split; [intros; contradiction | reflexivity].
  - split; [intros _ | intros X; contradiction].
    unfold recorded, with_prov, get_coll, get_prov in *; cbn. rewrite C. repeat split; auto; try lia.
    + rewrite aget_adel, sg_eqb_refl. reflexivity.
    + rewrite aget_adel, sg_eqb_neq by auto. reflexivity.
  - split; [intros _ | intros X; contradiction].
    pose proof (send_bal _ _ _ _ _ S) as Hb.
    unfold recorded, with_money, get_coll, get_prov in *; cbn. rewrite C. repeat split; auto.
    + rewrite aget_adel, sg_eqb_refl. reflexivity.
    + rewrite aget_adel, sg_eqb_refl. reflexivity.
    + rewrite Hb, N.eqb_refl, (proj2 (N.eqb_neq (acct c) escrow)) by auto. lia.
    + rewrite Hb, N.eqb_refl, (proj2 (N.eqb_neq escrow (acct c))) by auto. lia.
    + intros a H1 H2. rewrite Hb, (proj2 (N.eqb_neq a (acct c))), (proj2 (N.eqb_neq a escrow)) by auto. lia.
    + rewrite aget_adel, sg_eqb_neq by auto. reflexivity.
    + rewrite aget_adel, sg_eqb_neq by auto. reflexivity.
Qed.

(* the refund does not look at the current price *)
Lemma shutdown_ignores_price s c vb v :
  shutdown_provider (with_price s v) c vb =
  (with_price (fst (shutdown_provider s c vb)) v, snd (shutdown_provider s c vb)).
Proof.
  unfold shutdown_provider, get_prov, get_coll, is_blocked, with_price; cbn.
  destruct vb; cbn; [|reflexivity].
  destruct (aget sg_eqb (st_prov s) c); [|reflexivity].
  destruct (aget sg_eqb (st_coll s) c) as [amt|]; [|reflexivity].
  destruct (amt <? 0); [reflexivity|].
  destruct (existsb (N.eqb (acct c)) (st_blocked s)); [reflexivity|].
  destruct (send (st_bank s) escrow (acct c) amt); reflexivity.
Qed.

(* on a backed escrow every provider that is not a blocked (module) account gets its collateral back *)
Lemma shutdown_succeeds s c :
  Inv s -> nonneg s -> get_prov s c <> None -> is_blocked s (acct c) = false ->
  snd (shutdown_provider s c true) = Ok.
Proof.
  intros (B & ND & CP & BL) NN G Bk. unfold shutdown_provider. cbn [negb].
  destruct (get_prov s c) eqn:GP; [|contradiction].
  destruct (get_coll s c) as [amt|] eqn:C; [|reflexivity].
  pose proof (asum_ge_member _ _ _ NN C) as [H0 H1].
  destruct (Z.ltb_spec amt 0); [lia|]. rewrite Bk.
  unfold backed in B. rewrite <- B in H1.
  destruct (send_ok (st_bank s) escrow (acct c) amt (conj H0 H1)) as [b ->]. reflexivity.
Qed.

(* ------------------------------------------------------------------ T4: no second, no foreign claim *)

Lemma shutdown_without_record s c vb : get_prov s c = None -> shutdown_provider s c vb = (s, Fail).
Proof. intros G. unfold shutdown_provider. destruct vb; cbn [negb]; [rewrite G|]; reflexivity. Qed.

Lemma second_shutdown_fails s c vb vb' :
  snd (shutdown_provider s c vb) = Ok ->
  let s' := fst (shutdown_provider s c vb) in shutdown_provider s' c vb' = (s', Fail).
Proof.
  intros H s'. apply shutdown_without_record. subst s'.
  destruct (shutdown_provider s c vb) as [s1 o] eqn:E. cbn [fst snd] in *. subst o.
  apply shutdown_inv in E.
  destruct E as [[NO _]|(_ & _ & _ & [[_ ->]|(amt & b & _ & _ & _ & _ & ->)])]; [contradiction| |];
    unfold get_prov, with_prov, with_money; cbn; rewrite aget_adel, sg_eqb_refl; reflexivity.
Qed.

(* a shutdown signed by any other spelling (another account, or the same account spelled in the
   other case) leaves c's provider and collateral records alone, and c's account untouched unless
   it is the signer's own account *)
Lemma foreign_shutdown_harmless s c d vb :
  d <> c ->
  let s' := fst (shutdown_provider s d vb) in
  get_coll s' c = get_coll s c /\ get_prov s' c = get_prov s c /\
  (acct d <> acct c -> acct c <> escrow -> bal (st_bank s') (acct c) = bal (st_bank s) (acct c)).
Proof.
  intros ND s'. subst s'. destruct (shutdown_provider s d vb) as [s1 o] eqn:E. cbn [fst].
  apply shutdown_inv in E.
  destruct E as [[_ ->]|(_ & _ & _ & [[_ ->]|(amt & b & _ & _ & _ & S & ->)])]; [auto| |].
  - unfold get_coll, get_prov, with_prov; cbn. rewrite aget_adel, sg_eqb_neq by auto. auto.
  - unfold get_coll, get_prov, with_money; cbn. rewrite !aget_adel, sg_eqb_neq by auto. repeat split; auto.
    intros H1 H2. rewrite (send_bal _ _ _ _ _ S).
    rewrite (proj2 (N.eqb_neq (acct c) escrow)), (proj2 (N.eqb_neq (acct c) (acct d))) by auto. lia.
Qed.

(* ---- wealth: liquid balance plus everything locked under either spelling of the account ---- *)

Definition locked (s : state) (a : N) : Z := lsum (fun c => N.eqb (acct c) a) (st_coll s).
Definition wealth (s : state) (a : N) : Z := bal (st_bank s) a + locked s a.

Lemma step_wealth s o a : Inv s -> signed_ok o -> a <> escrow -> wealth (fst (step s o)) a = wealth s a.
Proof.
  intros (B & ND & CP & BL) SO NE. unfold signed_ok in SO. destruct o.
  - cbn [step]. destruct (init_provider s c vb ipok ip space kb) as [s' o] eqn:H. cbn [fst]. apply init_inv in H.
    destruct H as [[_ ->]|(_ & _ & _ & G & Hp & b & S & ->)]; [reflexivity|].
    cbn in SO. assert (acct c <> escrow) as NC by (intros E; apply SO; rewrite E; reflexivity).
    unfold wealth, locked, with_money; cbn [st_bank st_coll]. rewrite lsum_aset by exact ND.
    rewrite (send_bal _ _ _ _ _ S), (proj2 (N.eqb_neq a escrow)) by auto.
    rewrite aval_none by (apply CP; exact G). rewrite (N.eqb_sym a). destruct (N.eqb (acct c) a); lia.
  - cbn [step]. destruct (shutdown_provider s c vb) as [s' o] eqn:H. cbn [fst]. apply shutdown_inv in H.
    destruct H as [[_ ->]|(_ & _ & G & [[C ->]|(amt & b & C & Ha & Bk & S & ->)])]; [reflexivity|reflexivity|].
    unfold wealth, locked, with_money; cbn [st_bank st_coll]. rewrite lsum_adel by exact ND.
    rewrite (send_bal _ _ _ _ _ S), (proj2 (N.eqb_neq a escrow)) by auto.
    rewrite (aval_some _ _ _ C). rewrite (N.eqb_sym a). destruct (N.eqb (acct c) a); lia.
  - cbn [step]. unfold set_price. destruct (v <=? 1); reflexivity.
  - pose proof (mgmt_inv s (OSetIp c vb ipok ip) c eq_refl Logic.I) as [[_ ->]|[_ (p & p' & _ & _ & ->)]]; reflexivity.
  - pose proof (mgmt_inv s (OSetKeybase c vb kb) c eq_refl Logic.I) as [[_ ->]|[_ (p & p' & _ & _ & ->)]]; reflexivity.
  - pose proof (mgmt_inv s (OSetSpace c vb space) c eq_refl Logic.I) as [[_ ->]|[_ (p & p' & _ & _ & ->)]]; reflexivity.
  - pose proof (mgmt_inv s (OAddClaimer c vb cl) c eq_refl Logic.I) as [[_ ->]|[_ (p & p' & _ & _ & ->)]]; reflexivity.
  - pose proof (mgmt_inv s (ORemoveClaimer c vb cl) c eq_refl Logic.I) as [[_ ->]|[_ (p & p' & _ & _ & ->)]]; reflexivity.
  - cbn [step]. unfold donate. destruct (x <=? 0); [reflexivity|]. rewrite BL. reflexivity.
  - cbn [step fst]. destruct (burn_inv s c) as [->|(p & p' & _ & _ & ->)]; reflexivity.
Qed.

Lemma run_wealth ops : forall s a, Inv s -> Forall signed_ok ops -> a <> escrow -> wealth (run s ops) a = wealth s a.
Proof.
  induction ops as [|o r IH]; intros s a I F NE; [reflexivity|].
  inversion F; subst. unfold run; cbn [fold_left]. fold (run (fst (step s o)) r).
  rewrite IH by (try apply step_Inv; assumption). apply step_wealth; assumption.
Qed.

(* after any history, what is recorded for a provider is what it gets *)
Lemma claimable_after_any_history ops s c amt :
  Inv s -> nonneg s -> Forall signed_ok ops ->
  let s1 := run s ops in
  get_prov s1 c <> None -> get_coll s1 c = Some amt ->
  is_blocked s1 (acct c) = false -> acct c <> escrow ->
  snd (shutdown_provider s1 c true) = Ok /\
  bal (st_bank (fst (shutdown_provider s1 c true))) (acct c) = bal (st_bank s1) (acct c) + amt /\
  get_coll (fst (shutdown_provider s1 c true)) c = None.
Proof.
  intros I NN F s1 G C Bk NE.
  assert (Inv s1) as I1 by (apply run_Inv; assumption).
  assert (nonneg s1) as N1 by (apply run_nonneg; assumption).
  pose proof (shutdown_succeeds s1 c I1 N1 G Bk) as OK.
  pose proof (shutdown_returns s1 c true NE) as [H _]. specialize (H OK).
  destruct H as (_ & _ & _ & HC & HB & _). unfold recorded in HB. rewrite C in HB. auto.
Qed.

(* ------------------------------------------------------------------ C11 (provider part): frames *)

Lemma set_prov_frame s p d : d <> p_addr p -> get_prov (set_prov s p) d = get_prov s d.
Proof. intros H. rewrite get_prov_set, sg_eqb_neq by auto. reflexivity. Qed.

Lemma step_addr_ok s o : addr_ok s -> addr_ok (fst (step s o)).
Proof.
  intros A.
  assert (SP : forall c p p', get_prov s c = Some p -> p_addr p' = p_addr p -> addr_ok (set_prov s p')).
  { intros c p p' G E k q. rewrite get_prov_set. destruct (sg_eqb k (p_addr p')) eqn:X.
    - apply sg_eqb_spec in X. intros Q; inversion Q; subst; auto.
    - apply A. }
  destruct o.
  - cbn [step]. destruct (init_provider s c vb ipok ip space kb) as [s' o] eqn:H. cbn [fst]. apply init_inv in H.
    destruct H as [[_ ->]|(_ & _ & _ & G & Hp & b & S & ->)]; [exact A|].
    intros k q. unfold get_prov, with_money; cbn. rewrite aget_aset.
    destruct (sg_eqb k c) eqn:X; [apply sg_eqb_spec in X; intros Q; inversion Q; subst; reflexivity | apply A].
  - cbn [step]. destruct (shutdown_provider s c vb) as [s' o] eqn:H. cbn [fst]. apply shutdown_inv in H.
    destruct H as [[_ ->]|(_ & _ & G & [[C ->]|(amt & b & C & Ha & Bk & S & ->)])]; [exact A| |];
      intros k q; unfold get_prov, with_prov, with_money; cbn; rewrite aget_adel;
      (destruct (sg_eqb k c); [discriminate | apply A]).
  - cbn [step]. unfold set_price. destruct (v <=? 1); exact A.
  - pose proof (mgmt_inv s (OSetIp c vb ipok ip) c eq_refl Logic.I) as [[_ ->]|[_ (p & p' & G & E & ->)]]; [exact A | eapply SP; eauto].
  - pose proof (mgmt_inv s (OSetKeybase c vb kb) c eq_refl Logic.I) as [[_ ->]|[_ (p & p' & G & E & ->)]]; [exact A | eapply SP; eauto].
  - pose proof (mgmt_inv s (OSetSpace c vb space) c eq_refl Logic.I) as [[_ ->]|[_ (p & p' & G & E & ->)]]; [exact A | eapply SP; eauto].
  - pose proof (mgmt_inv s (OAddClaimer c vb cl) c eq_refl Logic.I) as [[_ ->]|[_ (p & p' & G & E & ->)]]; [exact A | eapply SP; eauto].
  - pose proof (mgmt_inv s (ORemoveClaimer c vb cl) c eq_refl Logic.I) as [[_ ->]|[_ (p & p' & G & E & ->)]]; [exact A | eapply SP; eauto].
  - cbn [step]. unfold donate. destruct (x <=? 0); [exact A|]. destruct (is_blocked s escrow); [exact A|].
    destruct (send _ _ _ _); exact A.
  - cbn [step fst]. destruct (burn_inv s c) as [->|(p & p' & G & E & ->)]; [exact A | eapply SP; eauto].
Qed.

Lemma run_addr_ok ops : forall s, addr_ok s -> addr_ok (run s ops).
Proof.
  induction ops as [|o r IH]; intros s A; [exact A|].
  unfold run; cbn [fold_left]. apply IH. apply step_addr_ok. exact A.
Qed.

Lemma genesis_addr_ok price b blocked supply : addr_ok (genesis price b blocked supply).
Proof. intros k p. unfold get_prov, genesis; cbn. discriminate. Qed.

(* what a message signed by c may touch *)
Definition money_op (o : op) : bool := match o with OInit _ _ _ _ _ _ | OShutdown _ _ => true | _ => false end.

Lemma provider_frame s o c :
  addr_ok s -> op_signer o = Some c ->
  let s' := fst (step s o) in
  (forall d, d <> c -> get_prov s' d = get_prov s d /\ get_coll s' d = get_coll s d) /\
  (forall a, a <> acct c -> a <> escrow -> bal (st_bank s') a = bal (st_bank s) a) /\
  st_price s' = st_price s /\ st_supply s' = st_supply s /\ st_proofs s' = st_proofs s /\
  st_blocked s' = st_blocked s /\
  (money_op o = false -> st_bank s' = st_bank s /\ st_coll s' = st_coll s) /\
  (snd (step s o) <> Ok -> s' = s).
Proof.
  intros A Hs s'. subst s'.
  destruct (money_op o) eqn:M.
  - destruct o; cbn in M; try discriminate; cbn in Hs; inversion Hs; subst; cbn [step].
    + destruct (init_provider s c vb ipok ip space kb) as [s' o] eqn:H. cbn [fst snd]. apply init_inv in H.
      destruct H as [[NO ->]|(-> & _ & _ & G & Hp & b & S & ->)].
      * repeat split; auto; discriminate.
      * unfold get_prov, get_coll, with_money; cbn. repeat split; try discriminate; try contradiction.
        -- rewrite aget_aset. rewrite sg_eqb_neq by auto. reflexivity.
        -- rewrite aget_aset. rewrite sg_eqb_neq by auto. reflexivity.
        -- intros a H1 H2. rewrite (send_bal _ _ _ _ _ S), (proj2 (N.eqb_neq a (acct c))), (proj2 (N.eqb_neq a escrow)) by auto. lia.
    + destruct (shutdown_provider s c vb) as [s' o] eqn:H. cbn [fst snd]. apply shutdown_inv in H.
      destruct H as [[NO ->]|(-> & _ & G & [[C ->]|(amt & b & C & Ha & Bk & S & ->)])].
      * repeat split; auto; discriminate.
      * unfold get_prov, get_coll, with_prov; cbn. repeat split; try discriminate; try contradiction; auto.
        rewrite aget_adel, sg_eqb_neq by auto. reflexivity.
      * unfold get_prov, get_coll, with_money; cbn. repeat split; try discriminate; try contradiction.
        -- rewrite aget_adel, sg_eqb_neq by auto. reflexivity.
        -- rewrite aget_adel, sg_eqb_neq by auto. reflexivity.
        -- intros a H1 H2. rewrite (send_bal _ _ _ _ _ S), (proj2 (N.eqb_neq a escrow)), (proj2 (N.eqb_neq a (acct c))) by auto. lia.
  - assert (K : match o with OInit _ _ _ _ _ _ | OShutdown _ _ => False | _ => True end)
      by (destruct o; cbn in M; try discriminate; exact I).
    pose proof (mgmt_inv s o c Hs K) as [[NO ->]|[OKk (p & p' & G & E & ->)]].
    + repeat split; auto.
    + pose proof (A _ _ G) as Ac. rewrite <- E in Ac.
      repeat split; auto; try reflexivity.
      * apply set_prov_frame. rewrite Ac. auto.
      * intros X. rewrite OKk in X. contradiction.
Qed.

(* exactly which field of the own record each successful message rewrites *)
Lemma own_record_change s o c :
  addr_ok s -> op_signer o = Some c -> money_op o = false -> snd (step s o) = Ok ->
  exists p, get_prov s c = Some p /\
    get_prov (fst (step s o)) c = Some
      match o with
      | OSetIp _ _ _ ip => {| p_addr := p_addr p; p_ip := ip; p_space := p_space p; p_creator := p_creator p;
                              p_burned := p_burned p; p_keybase := p_keybase p; p_claimers := p_claimers p |}
      | OSetKeybase _ _ kb => {| p_addr := p_addr p; p_ip := p_ip p; p_space := p_space p; p_creator := p_creator p;
                                 p_burned := p_burned p; p_keybase := kb; p_claimers := p_claimers p |}
      | OSetSpace _ _ sp => {| p_addr := p_addr p; p_ip := p_ip p; p_space := sp; p_creator := p_creator p;
                               p_burned := p_burned p; p_keybase := p_keybase p; p_claimers := p_claimers p |}
      | OAddClaimer _ _ cl => with_claimers p (p_claimers p ++ [cl])
      | ORemoveClaimer _ _ cl => with_claimers p (filter (fun x => negb (sg_eqb x cl)) (p_claimers p))
      | _ => p
      end.
Proof.
  intros A Hs M OKk.
  destruct o; cbn in M; try discriminate; cbn in Hs; inversion Hs; subst; cbn [step] in *.
  - unfold set_ip in *. destruct (upd_prov s c (vb && ipok) _) as [s1 o1] eqn:U. cbn [fst snd] in *. subst o1.
    apply upd_inv in U. destruct U as [[X _]|(_ & _ & p & G & ->)]; [contradiction|].
    exists p. split; [exact G|]. rewrite get_prov_set. cbn [p_addr]. rewrite (A _ _ G), sg_eqb_refl. reflexivity.
  - unfold set_keybase in *. destruct (upd_prov s c vb _) as [s1 o1] eqn:U. cbn [fst snd] in *. subst o1.
    apply upd_inv in U. destruct U as [[X _]|(_ & _ & p & G & ->)]; [contradiction|].
    exists p. split; [exact G|]. rewrite get_prov_set. cbn [p_addr]. rewrite (A _ _ G), sg_eqb_refl. reflexivity.
  - unfold set_space in *. destruct (upd_prov s c vb _) as [s1 o1] eqn:U. cbn [fst snd] in *. subst o1.
    apply upd_inv in U. destruct U as [[X _]|(_ & _ & p & G & ->)]; [contradiction|].
    exists p. split; [exact G|]. rewrite get_prov_set. cbn [p_addr]. rewrite (A _ _ G), sg_eqb_refl. reflexivity.
  - unfold add_claimer in *. destruct vb; cbn [negb] in *; [|discriminate].
    destruct (get_prov s c) as [p|] eqn:G; [|discriminate].
    destruct (existsb (sg_eqb cl) (p_claimers p)); [discriminate|]. cbn [fst].
    exists p. split; [reflexivity|]. rewrite get_prov_set. unfold with_claimers at 1; cbn [p_addr].
    rewrite (A _ _ G), sg_eqb_refl. reflexivity.
  - unfold remove_claimer in *. destruct vb; cbn [negb] in *; [|discriminate].
    destruct (get_prov s c) as [p|] eqn:G; [|discriminate].
    destruct (p_claimers p) eqn:PC; [discriminate|]. rewrite <- PC in *.
    destruct (Nat.eqb _ _); [discriminate|]. cbn [fst].
    exists p. split; [reflexivity|]. rewrite get_prov_set. unfold with_claimers at 1; cbn [p_addr].
    rewrite (A _ _ G), sg_eqb_refl. reflexivity.
Qed.

(* ---- the reward block's strike: the record stays, no collateral record and no balance moves ---- *)
Lemma burn_keeps_record_and_money s c :
  addr_ok s ->
  st_coll (burn s c) = st_coll s /\ st_bank (burn s c) = st_bank s /\ st_price (burn s c) = st_price s /\
  (forall d, get_prov (burn s c) d = None <-> get_prov s d = None) /\
  (forall d, d <> c -> get_prov (burn s c) d = get_prov s d).
Proof.
  intros A. destruct (burn_inv s c) as [->|(p & p' & G & E & ->)].
  - repeat split; auto.
  - pose proof (A _ _ G) as Ac. rewrite <- E in Ac.
    split; [reflexivity|]. split; [reflexivity|]. split; [reflexivity|]. split.
    + intros d. rewrite get_prov_set. destruct (sg_eqb d (p_addr p')) eqn:X.
      * apply sg_eqb_spec in X. subst d. rewrite Ac, G. split; discriminate.
      * tauto.
    + intros d Nd. apply set_prov_frame. rewrite Ac. exact Nd.
Qed.
