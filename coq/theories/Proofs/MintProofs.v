(* Proofs about the mint model (property C13). *)
From Coq Require Import ZArith NArith List Bool Lia.
From JK Require Import Base.Dec Base.AList Model.Mint.
Import ListNotations.
Open Scope Z_scope.

Definition P16 : Z := 10 ^ 16.
Lemma P18_100 : P18 = 100 * P16. Proof. vm_compute. reflexivity. Qed.
Lemma P16_pos : 0 < P16. Proof. reflexivity. Qed.
Global Opaque P16.

Lemma Neqb_spec a b : N.eqb a b = true <-> a = b.
Proof. apply N.eqb_eq. Qed.

(* ---------- arithmetic of the emission and of the three shares ---------- *)

Lemma share_floor r e : 0 <= r -> 0 <= e -> share r e = (r * e) / 100.
Proof.
  intros Hr He. unfold share, dmul_int, dquo_int, dec, dtrunc.
  pose proof P16_pos as H16. rewrite P18_100.
  replace (r * (100 * P16)) with ((r * P16) * 100) by ring.
  rewrite Z.quot_mul by lia.
  rewrite quot_nonneg_floor by nia.
  replace (r * P16 * e) with ((r * e) * P16) by ring.
  apply Z.div_mul_cancel_r; lia.
Qed.

Lemma share_bounds r e : 0 <= r -> 0 <= e ->
  0 <= share r e /\ 100 * share r e <= r * e < 100 * share r e + 100.
Proof.
  intros Hr He. rewrite share_floor by assumption.
  pose proof (Z.div_mod (r * e) 100 ltac:(lia)). pose proof (Z.mod_pos_bound (r * e) 100 ltac:(lia)).
  assert (0 <= r * e / 100) by (apply Z.div_pos; nia). lia.
Qed.

Lemma decrease_nonneg d b : 0 <= d -> 0 < b -> 0 <= dquo (dec d) (dec b).
Proof.
  intros Hd Hb. pose proof P18_pos. unfold dec.
  rewrite dquo_nonneg by nia. apply chop_nn_nonneg. apply Z.div_pos; nia.
Qed.

Lemma mint_for_block_bounds prev b d :
  0 <= prev -> 0 < b -> 0 <= d -> 0 <= mint_for_block prev b d <= prev.
Proof.
  intros Hp Hb Hd. unfold mint_for_block, mint_for_block_raw.
  pose proof (decrease_nonneg d b Hd Hb) as Hq. pose proof P18_pos as HP.
  set (q := dquo (dec d) (dec b)) in *.
  assert (Hle : dtrunc (dec prev - q) <= prev).
  { unfold dtrunc. rewrite <- (Z.quot_mul prev P18) at 2 by lia.
    apply Z.quot_le_mono; [lia | unfold dec; lia]. }
  destruct (Z.ltb_spec (dtrunc (dec prev - q)) 0); lia.
Qed.

(* ---------- the bank ---------- *)

Lemma bal_credit b a x y : bal (credit b a x) y = bal b y + (if N.eqb y a then x else 0).
Proof.
  unfold bal, credit, aval. destruct (N.eqb y a) eqn:E.
  - apply N.eqb_eq in E; subst y. rewrite (aget_aset_same N.eqb Neqb_spec). fold (aval N.eqb b a). reflexivity.
  - rewrite (aget_aset_other N.eqb Neqb_spec) by (intros ->; rewrite N.eqb_refl in E; discriminate). lia.
Qed.

Lemma pay_bal acc b to x b' :
  pay acc b to x = Some b' ->
  forall y, bal b' y = bal b y - (if N.eqb y (a_mod acc) then x else 0) + (if N.eqb y to then x else 0).
Proof.
  unfold pay. destruct (Z.eqb_spec x 0) as [->|Hx].
  - intros [= <-] y. destruct (N.eqb y (a_mod acc)), (N.eqb y to); lia.
  - destruct (x <=? bal b (a_mod acc)); [|discriminate]. intros [= <-] y.
    rewrite !bal_credit. destruct (N.eqb y (a_mod acc)), (N.eqb y to); lia.
Qed.

Lemma pay_ok acc b to x : 0 <= x <= bal b (a_mod acc) -> exists b', pay acc b to x = Some b'.
Proof.
  intros [H0 H1]. unfold pay. destruct (x =? 0); [eexists; reflexivity|].
  destruct (Z.leb_spec x (bal b (a_mod acc))); [eexists; reflexivity | lia].
Qed.

(* ---------- one block ---------- *)

Definition prev_emission (p : mparams) (s : mstate) : Z :=
  match m_last s with Some m => m | None => tokens_per_block p end.

Definition emission_of (p : mparams) (s : mstate) : Z :=
  mint_for_block (prev_emission p s) bpy (mint_decrease p).

Definition ok_state (acc : maccts) (s : mstate) : Prop :=
  0 <= bal (m_bank s) (a_mod acc) /\ (forall m, m_last s = Some m -> 0 <= m).

Definition ind (c : bool) (x : Z) : Z := if c then x else 0.

Lemma block_mint_spec acc p s :
  valid_params p -> ok_state acc s ->
  let e := emission_of p s in
  let r := block_mint acc p s in
  let a := share (staker_ratio p) e in
  let b := share (dev_ratio p) e in
  let c := share (prov_ratio p) e in
  r_recorded r = true /\ r_emission r = e /\
  m_supply (r_state r) = m_supply s + e /\ m_last (r_state r) = Some e /\
  0 <= e <= prev_emission p s /\
  (forall y, bal (m_bank (r_state r)) y
             = bal (m_bank s) y + ind (N.eqb y (a_mod acc)) (e - a - b - c)
               + ind (N.eqb y (a_fee acc)) a + ind (N.eqb y (a_dev acc)) b + ind (N.eqb y (a_stip acc)) c) /\
  ok_state acc (r_state r).
Proof.
  intros (Ht & Hd & Hs & Hv & Hpr & Hsum & Hstip) [Hmod Hlast]. cbv zeta.
  unfold block_mint. cbv zeta. fold (prev_emission p s). fold (emission_of p s).
  assert (Hprev : 0 <= prev_emission p s).
  { unfold prev_emission. destruct (m_last s) as [m|] eqn:E; [apply Hlast; reflexivity | exact Ht]. }
  pose proof (mint_for_block_bounds (prev_emission p s) bpy (mint_decrease p) Hprev ltac:(reflexivity) Hd) as He.
  fold (emission_of p s) in He. set (e := emission_of p s) in *.
  destruct (share_bounds (staker_ratio p) e Hs ltac:(lia)) as [Ha0 Ha].
  destruct (share_bounds (dev_ratio p) e Hv ltac:(lia)) as [Hb0 Hb].
  destruct (share_bounds (prov_ratio p) e Hpr ltac:(lia)) as [Hc0 Hc].
  set (a := share (staker_ratio p) e) in *. set (b := share (dev_ratio p) e) in *.
  set (c := share (prov_ratio p) e) in *.
  assert (Habc : a + b + c <= e) by nia.
  set (b0 := credit (m_bank s) (a_mod acc) e).
  assert (Hb0m : bal b0 (a_mod acc) = bal (m_bank s) (a_mod acc) + e).
  { unfold b0. rewrite bal_credit, N.eqb_refl. reflexivity. }
  destruct (pay_ok acc b0 (a_fee acc) a ltac:(lia)) as [b1 P1]. rewrite P1.
  pose proof (pay_bal _ _ _ _ _ P1) as B1.
  assert (Hb1m : bal (m_bank s) (a_mod acc) + e - a <= bal b1 (a_mod acc)).
  { rewrite B1, N.eqb_refl, Hb0m. destruct (N.eqb (a_mod acc) (a_fee acc)); lia. }
  destruct (pay_ok acc b1 (a_dev acc) b ltac:(lia)) as [b2 P2]. rewrite P2.
  pose proof (pay_bal _ _ _ _ _ P2) as B2.
  assert (Hb2m : bal (m_bank s) (a_mod acc) + e - a - b <= bal b2 (a_mod acc)).
  { rewrite B2, N.eqb_refl. destruct (N.eqb (a_mod acc) (a_dev acc)); lia. }
  rewrite Hstip. cbn [negb].
  destruct (pay_ok acc b2 (a_stip acc) c ltac:(lia)) as [b3 P3]. rewrite P3.
  pose proof (pay_bal _ _ _ _ _ P3) as B3.
  cbn [r_recorded r_emission r_state m_supply m_last m_bank].
  assert (Hall : forall y, bal b3 y = bal (m_bank s) y + ind (N.eqb y (a_mod acc)) (e - a - b - c)
               + ind (N.eqb y (a_fee acc)) a + ind (N.eqb y (a_dev acc)) b + ind (N.eqb y (a_stip acc)) c).
  { intros y. rewrite B3, B2, B1. unfold b0. rewrite bal_credit. unfold ind.
    destruct (N.eqb y (a_mod acc)), (N.eqb y (a_fee acc)), (N.eqb y (a_dev acc)), (N.eqb y (a_stip acc)); lia. }
  repeat split; try reflexivity; try lia; try exact Hall.
  - rewrite Hall, N.eqb_refl. unfold ind.
    destruct (N.eqb (a_mod acc) (a_fee acc)), (N.eqb (a_mod acc) (a_dev acc)), (N.eqb (a_mod acc) (a_stip acc)); lia.
  - intros m [= <-]. lia.
Qed.

(* ---------- runs of consecutive blocks ---------- *)

Fixpoint chain_le (prev : Z) (l : list Z) : Prop :=
  match l with [] => True | x :: r => 0 <= x <= prev /\ chain_le x r end.

Fixpoint supplies_ok (acc : maccts) (s : mstate) (rs : list mresult) : Prop :=
  match rs with
  | [] => True
  | r :: rest => r_recorded r = true /\ m_supply (r_state r) = m_supply s + r_emission r /\ supplies_ok acc (r_state r) rest
  end.

Lemma run_emissions acc ps : forall s,
  Forall valid_params ps -> ok_state acc s ->
  match ps with
  | [] => True
  | p :: _ => chain_le (prev_emission p s) (map r_emission (run_blocks acc ps s))
  end /\ supplies_ok acc s (run_blocks acc ps s).
Proof.
  induction ps as [|p ps IH]; intros s HV Hs; [split; exact I|].
  inversion HV as [|? ? Hp Hps]; subst.
  destruct (block_mint_spec acc p s Hp Hs) as (Hrec & Hem & Hsup & Hlast & Hbound & _ & Hok).
  cbn [run_blocks map]. destruct (IH (r_state (block_mint acc p s)) Hps Hok) as [IHc IHs].
  split.
  - cbn [chain_le]. split; [rewrite Hem; exact Hbound|].
    destruct ps as [|p' ps']; [exact I|].
    unfold prev_emission in IHc. rewrite Hlast in IHc. rewrite Hem. exact IHc.
  - cbn [supplies_ok]. rewrite Hem. repeat split; assumption.
Qed.

(* the state before any block of a run satisfies ok_state, so the one-block facts below
   hold for every block of every run *)
Definition final_state (acc : maccts) (ps : list mparams) (s : mstate) : mstate :=
  fold_left (fun st p => r_state (block_mint acc p st)) ps s.

Lemma final_state_ok acc ps : forall s,
  Forall valid_params ps -> ok_state acc s -> ok_state acc (final_state acc ps s).
Proof.
  induction ps as [|p ps IH]; intros s HV Hs; [exact Hs|].
  inversion HV as [|? ? Hp Hps]; subst. cbn [final_state fold_left]. apply IH; [exact Hps|].
  destruct (block_mint_spec acc p s Hp Hs) as (_ & _ & _ & _ & _ & _ & Hok). exact Hok.
Qed.

Lemma neq_eqb_false a b : a <> b -> N.eqb a b = false.
Proof. intros H. apply N.eqb_neq. exact H. Qed.

Lemma split_exact acc p s :
  valid_params p -> ok_state acc s -> NoDup [a_fee acc; a_dev acc; a_stip acc; a_mod acc] ->
  let r := block_mint acc p s in
  let e := r_emission r in
  bal (m_bank (r_state r)) (a_fee acc) = bal (m_bank s) (a_fee acc) + (staker_ratio p * e) / 100 /\
  bal (m_bank (r_state r)) (a_dev acc) = bal (m_bank s) (a_dev acc) + (dev_ratio p * e) / 100 /\
  bal (m_bank (r_state r)) (a_stip acc) = bal (m_bank s) (a_stip acc) + (prov_ratio p * e) / 100.
Proof.
  intros Hp Hs ND. cbv zeta.
  destruct (block_mint_spec acc p s Hp Hs) as (_ & Hem & _ & _ & Hb & Hall & _).
  destruct Hp as (Ht & Hd & Hsr & Hv & Hpr & Hsum & Hstip).
  rewrite Hem. set (e := emission_of p s) in *.
  inversion ND as [|? ? N1 ND1]; subst. inversion ND1 as [|? ? N2 ND2]; subst.
  inversion ND2 as [|? ? N3 ND3]; subst. cbn [In] in N1, N2, N3.
  rewrite !Hall. unfold ind.
  rewrite !N.eqb_refl.
  rewrite (neq_eqb_false (a_fee acc) (a_mod acc)), (neq_eqb_false (a_fee acc) (a_dev acc)),
          (neq_eqb_false (a_fee acc) (a_stip acc)), (neq_eqb_false (a_dev acc) (a_mod acc)),
          (neq_eqb_false (a_dev acc) (a_fee acc)), (neq_eqb_false (a_dev acc) (a_stip acc)),
          (neq_eqb_false (a_stip acc) (a_mod acc)), (neq_eqb_false (a_stip acc) (a_fee acc)),
          (neq_eqb_false (a_stip acc) (a_dev acc)) by (intros E; rewrite ?E in *; intuition congruence).
  rewrite !share_floor by lia. lia.
Qed.

Lemma module_remainder acc p s :
  valid_params p -> ok_state acc s ->
  a_mod acc <> a_fee acc -> a_mod acc <> a_dev acc -> a_mod acc <> a_stip acc ->
  let r := block_mint acc p s in
  let e := r_emission r in
  let kept := bal (m_bank (r_state r)) (a_mod acc) - bal (m_bank s) (a_mod acc) in
  let rest := 100 - (staker_ratio p + dev_ratio p + prov_ratio p) in
  0 <= 100 * kept - e * rest < 300.
Proof.
  intros Hp Hs N1 N2 N3. cbv zeta.
  destruct (block_mint_spec acc p s Hp Hs) as (_ & Hem & _ & _ & Hb & Hall & _).
  destruct Hp as (Ht & Hd & Hsr & Hv & Hpr & Hsum & Hstip).
  rewrite Hem. set (e := emission_of p s) in *.
  rewrite Hall. unfold ind. rewrite N.eqb_refl.
  rewrite (neq_eqb_false _ _ N1), (neq_eqb_false _ _ N2), (neq_eqb_false _ _ N3).
  destruct (share_bounds (staker_ratio p) e Hsr ltac:(lia)) as [_ Ha].
  destruct (share_bounds (dev_ratio p) e Hv ltac:(lia)) as [_ Hb'].
  destruct (share_bounds (prov_ratio p) e Hpr ltac:(lia)) as [_ Hc].
  nia.
Qed.

Lemma others_untouched acc p s y :
  valid_params p -> ok_state acc s ->
  y <> a_mod acc -> y <> a_fee acc -> y <> a_dev acc -> y <> a_stip acc ->
  bal (m_bank (r_state (block_mint acc p s))) y = bal (m_bank s) y.
Proof.
  intros Hp Hs N0 N1 N2 N3.
  destruct (block_mint_spec acc p s Hp Hs) as (_ & _ & _ & _ & _ & Hall & _).
  rewrite Hall. unfold ind.
  rewrite (neq_eqb_false _ _ N0), (neq_eqb_false _ _ N1), (neq_eqb_false _ _ N2), (neq_eqb_false _ _ N3). lia.
Qed.

(* ---------- any assignment of the receivers, coinciding ones included ---------- *)
(* every account's balance moves by exactly the shares addressed to it (the mint module keeps the rest) *)
Lemma every_account_gets_its_shares acc p s y :
  valid_params p -> ok_state acc s ->
  let r := block_mint acc p s in
  let e := r_emission r in
  bal (m_bank (r_state r)) y
  = bal (m_bank s) y
    + ind (N.eqb y (a_mod acc)) (e - (staker_ratio p * e) / 100 - (dev_ratio p * e) / 100 - (prov_ratio p * e) / 100)
    + ind (N.eqb y (a_fee acc)) ((staker_ratio p * e) / 100)
    + ind (N.eqb y (a_dev acc)) ((dev_ratio p * e) / 100)
    + ind (N.eqb y (a_stip acc)) ((prov_ratio p * e) / 100).
Proof.
  intros Hp Hs. cbv zeta.
  destruct (block_mint_spec acc p s Hp Hs) as (_ & Hem & _ & _ & Hb & Hall & _).
  destruct Hp as (Ht & Hd & Hsr & Hv & Hpr & Hsum & Hstip).
  rewrite Hem. rewrite Hall. rewrite !share_floor by lia. reflexivity.
Qed.

(* the stipend routed to the developer-grants pool: that one account receives both shares *)
Lemma split_when_stipend_is_dev_pool acc p s :
  valid_params p -> ok_state acc s ->
  a_stip acc = a_dev acc -> a_dev acc <> a_fee acc -> a_dev acc <> a_mod acc -> a_fee acc <> a_mod acc ->
  let r := block_mint acc p s in
  let e := r_emission r in
  bal (m_bank (r_state r)) (a_dev acc) = bal (m_bank s) (a_dev acc) + (dev_ratio p * e) / 100 + (prov_ratio p * e) / 100 /\
  bal (m_bank (r_state r)) (a_fee acc) = bal (m_bank s) (a_fee acc) + (staker_ratio p * e) / 100.
Proof.
  intros Hp Hs E N1 N2 N3. cbv zeta.
  rewrite !(every_account_gets_its_shares acc p s _ Hp Hs). rewrite E. unfold ind.
  rewrite !N.eqb_refl.
  rewrite (neq_eqb_false (a_dev acc) (a_mod acc)), (neq_eqb_false (a_dev acc) (a_fee acc)),
          (neq_eqb_false (a_fee acc) (a_mod acc)), (neq_eqb_false (a_fee acc) (a_dev acc)) by congruence.
  split; lia.
Qed.
