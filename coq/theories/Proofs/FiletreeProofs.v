(* Proofs about the file-tree model (property C10).  Everything is proved for an arbitrary
   hash function H, JSON parser and JSON renderer (section variables). *)
From Coq Require Import NArith List Bool Lia.
From JK Require Import Base.Bytes Base.AList Hash.Sha256 Model.Paths Model.Filetree Proofs.PathsProofs.
Import ListNotations.
Open Scope N_scope.

(* ---------- byte strings, association lists ---------- *)

Lemma beqb_spec a b : beqb a b = true <-> a = b.
Proof.
  revert b; induction a as [|x a IH]; intros [|y b]; cbn; split; intros E; try reflexivity; try discriminate.
  - apply andb_true_iff in E as [E1 E2]. apply N.eqb_eq in E1. apply IH in E2. subst. reflexivity.
  - injection E as -> ->. rewrite N.eqb_refl. apply IH. reflexivity.
Qed.

Lemma beqb_refl a : beqb a a = true.
Proof. apply beqb_spec. reflexivity. Qed.

Section Maps.
  Context {V : Type}.
  Implicit Types (l : list (bytes * V)).

  Lemma get_set_same l k v : aget beqb (aset beqb l k v) k = Some v.
  Proof. apply aget_aset_same. exact beqb_spec. Qed.
  Lemma get_set_other l k k' v : k' <> k -> aget beqb (aset beqb l k v) k' = aget beqb l k'.
  Proof. apply aget_aset_other. exact beqb_spec. Qed.
  Lemma get_del_same l k : aget beqb (adel beqb l k) k = None.
  Proof. apply aget_adel_same. Qed.
  Lemma get_del_other l k k' : k' <> k -> aget beqb (adel beqb l k) k' = aget beqb l k'.
  Proof. apply aget_adel_other. exact beqb_spec. Qed.

  Lemma get_some_in l k v : aget beqb l k = Some v -> In (k, v) l.
  Proof.
    induction l as [|[k' v'] r IH]; cbn; [discriminate|].
    destruct (beqb k k') eqn:E.
    - apply beqb_spec in E. subst. intros [= ->]. left. reflexivity.
    - intros G. right. apply IH. exact G.
  Qed.

  Lemma in_nodup_get l k v : NoDup (akeys l) -> In (k, v) l -> aget beqb l k = Some v.
  Proof.
    induction l as [|[k' v'] r IH]; cbn; intros ND I; [contradiction|].
    inversion ND as [|? ? Hn Hr]; subst.
    destruct I as [E|I].
    - injection E as -> ->. rewrite beqb_refl. reflexivity.
    - destruct (beqb k k') eqn:E.
      + apply beqb_spec in E. subst. exfalso. apply Hn. apply in_map_iff. exists (k', v). split; [reflexivity|exact I].
      + apply IH; assumption.
  Qed.
End Maps.

(* ---------- hex digits, slashes ---------- *)

Definition hexdigit (c : N) : Prop := (48 <= c <= 57) \/ (97 <= c <= 102).
Definition hex64 (s : bytes) : Prop := length s = 64%nat /\ Forall hexdigit s.

Lemma hexd_digit n : n < 16 -> hexdigit (hexd n).
Proof. intros L. unfold hexdigit, hexd. destruct (N.ltb_spec n 10); lia. Qed.

Lemma hexd_not_slash n : (hexd n =? slash) = false.
Proof. apply N.eqb_neq. unfold hexd, slash. destruct (N.ltb_spec n 10); lia. Qed.

Lemma hex_no_slash bs : has_slash (hex bs) = false.
Proof.
  induction bs as [|b bs IH]; [reflexivity|].
  unfold hex in *. cbn [map concat app]. unfold has_slash in *. cbn [existsb].
  rewrite !hexd_not_slash. exact IH.
Qed.

Lemma hex_digits bs : Forall (fun b => b < 256) bs -> Forall hexdigit (hex bs).
Proof.
  induction 1 as [|b bs Hb _ IH]; [constructor|].
  unfold hex in *. cbn [map concat app].
  constructor; [|constructor; [|exact IH]].
  - apply hexd_digit. apply N.div_lt_upper_bound; lia.
  - apply hexd_digit. apply N.mod_lt. lia.
Qed.

(* a slash-free string followed by '/' is a prefix in exactly one way *)
Lemma slash_prefix_cases a : has_slash a = false -> forall a' X Y,
  a ++ slash :: X = a' ++ slash :: Y ->
  (a' = a /\ X = Y) \/ (exists z, a' = a ++ slash :: z /\ X = z ++ slash :: Y).
Proof.
  induction a as [|h t IH]; intros Hs a' X Y E.
  - destruct a' as [|c r]; cbn in E.
    + injection E as ->. left. split; reflexivity.
    + injection E as <- ->. right. exists r. split; reflexivity.
  - unfold has_slash in Hs. cbn [existsb] in Hs. apply orb_false_iff in Hs as [Hh Ht].
    destruct a' as [|c r]; cbn in E.
    + injection E as -> _. rewrite N.eqb_refl in Hh. discriminate.
    + injection E as <- E. destruct (IH Ht r X Y E) as [[-> ->]|[z [-> ->]]].
      * left. split; reflexivity.
      * right. exists z. split; reflexivity.
Qed.

(* key_aliasing_impossible, string level: a probe with ANY strings (a', o') produces the key
   of a slash-free pair (a, o) only if it is that pair *)
Lemma files_key_inj a o a' o' :
  has_slash a = false -> has_slash o = false ->
  files_key a' o' = files_key a o -> a' = a /\ o' = o.
Proof.
  intros Ha Ho E. unfold files_key in E. symmetry in E.
  destruct (slash_prefix_cases a Ha a' _ _ E) as [[-> E2]|[z [-> E2]]].
  - split; [reflexivity|]. apply app_inj_tail in E2 as [E2 _]. symmetry. exact E2.
  - exfalso. change (o ++ [slash]) with (o ++ slash :: []) in E2.
    destruct (slash_prefix_cases o Ho z [] _ E2) as [[_ E3]|[z' [_ E3]]].
    + destruct o'; discriminate E3.
    + destruct z'; discriminate E3.
Qed.

(* ---------- access lists ---------- *)

Lemma add_all_spec ids : forall m keys m', add_all m ids keys = Some m' ->
  (forall id, ~ In id ids -> mget m' id = mget m id) /\
  (forall id, In id ids -> exists i key, nth_error ids i = Some id /\ nth_error keys i = Some key /\
                                     mget m' id = Some key).
Proof.
  induction ids as [|v ids IH]; intros m keys m' E; cbn in E.
  - injection E as <-. split; [reflexivity|]. intros id [].
  - destruct keys as [|k keys]; [discriminate|].
    destruct (IH _ _ _ E) as [IH1 IH2]. split.
    + intros id N. rewrite IH1 by (intros C; apply N; right; exact C).
      apply get_set_other. intros ->. apply N. left. reflexivity.
    + intros id I. destruct (in_dec bytes_eq_dec id ids) as [I'|N'].
      * destruct (IH2 id I') as [i [key [A [B C]]]]. exists (S i), key. auto.
      * destruct I as [->|I]; [|contradiction].
        exists O, k. split; [reflexivity|]. split; [reflexivity|].
        rewrite IH1 by exact N'. apply get_set_same.
Qed.

Lemma add_all_none ids : forall m keys, add_all m ids keys = None -> (length keys < length ids)%nat.
Proof.
  induction ids as [|v ids IH]; intros m keys E; cbn in E; [discriminate|].
  destruct keys as [|k keys]; cbn; [lia|]. apply IH in E. lia.
Qed.

Lemma del_all_spec ids : forall m id,
  mget (del_all m ids) id = if in_dec bytes_eq_dec id ids then None else mget m id.
Proof.
  unfold del_all. induction ids as [|v ids IH]; intros m id; cbn [fold_left].
  - destruct (in_dec bytes_eq_dec id []) as [[]|_]. reflexivity.
  - rewrite IH. destruct (in_dec bytes_eq_dec id ids) as [I|N];
      destruct (in_dec bytes_eq_dec id (v :: ids)) as [I'|N']; try reflexivity.
    + exfalso. apply N'. right. exact I.
    + destruct I' as [->|I']; [|contradiction]. apply get_del_same.
    + apply get_del_other. intros ->. apply N'. left. reflexivity.
Qed.

Lemma add_all_opt_spec ids m keys m' : add_all_opt m ids keys = Some m' ->
  (forall id, ~ In id ids -> oget m' id = oget m id) /\
  (forall id, In id ids -> exists i key, nth_error ids i = Some id /\ nth_error keys i = Some key /\
                                     oget m' id = Some key).
Proof.
  destruct ids as [|v ids].
  - cbn. intros [= <-]. split; [reflexivity|]. intros id [].
  - cbn [add_all_opt]. destruct m as [m0|]; [|discriminate].
    destruct (add_all m0 (v :: ids) keys) as [m1|] eqn:A; [|discriminate].
    intros [= <-]. cbn [oget]. apply add_all_spec. exact A.
Qed.

Lemma del_all_opt_spec ids m id :
  oget (del_all_opt m ids) id = if in_dec bytes_eq_dec id ids then None else oget m id.
Proof.
  destruct m as [m0|]; cbn [del_all_opt oget]; [apply del_all_spec|].
  destruct (in_dec bytes_eq_dec id ids); reflexivity.
Qed.

(* ---------- the model ---------- *)

Section FiletreeProofs.
  Variable H : bytes -> bytes.
  Variable parse : bytes -> parsed.
  Variable render : option acl -> bytes.

  Notation make_owner := (make_owner H).
  Notation is_owner := (is_owner H).
  Notation run := (run H parse render).
  Notation handle := (handle H parse render).

  (* two distinct strings with the same hash, exhibited explicitly *)
  Definition collide (x y : bytes) : Prop := x <> y /\ H x = H y.

  Lemma hexH_no_slash x : has_slash (hexH H x) = false.
  Proof. apply hex_no_slash. Qed.

  Lemma hexH_eq x y : hexH H x = hexH H y -> x = y \/ collide x y.
  Proof.
    intros E. apply hex_inj in E. destruct (bytes_eq_dec x y) as [->|N]; [left; reflexivity|].
    right. split; assumption.
  Qed.

  (* the hash produces 32 bytes *)
  Definition hash_ok : Prop := forall x, length (H x) = 32%nat /\ Forall (fun b => b < 256) (H x).

  Lemma hexH_hex64 x : hash_ok -> hex64 (hexH H x).
  Proof.
    intros HK. destruct (HK x) as [L B]. split.
    - unfold hexH. rewrite hex_length, L. reflexivity.
    - apply hex_digits. exact B.
  Qed.

  Lemma root_path_eq : root_path H = hexH H (hexH H [115]).
  Proof. reflexivity. Qed.

  (* ----- ownership is decided by hashed identity ----- *)

  Lemma is_owner_true f c : is_owner f c = true <-> f_owner f = make_owner (f_addr f) (hexH H c).
  Proof. unfold Filetree.is_owner. rewrite beqb_spec. split; intros E; symmetry; exact E. Qed.

  (* whichever account string explains the stored owner field, a signer accepted as owner
     hashes to it -- or two explicit, distinct strings collide under H *)
  Lemma owner_account_unique f c acct :
    is_owner f c = true -> f_owner f = make_owner (f_addr f) acct ->
    hexH H c = acct \/ collide (111 :: f_addr f ++ hexH H c) (111 :: f_addr f ++ acct).
  Proof.
    intros O E. apply is_owner_true in O. rewrite O in E. unfold Filetree.make_owner in E.
    destruct (hexH_eq _ _ E) as [E'|C]; [|right; exact C].
    left. injection E' as E'. apply app_inv_head in E'. exact E'.
  Qed.

  Lemma owner_signer_unique f c1 c2 :
    is_owner f c1 = true -> is_owner f c2 = true ->
    c1 = c2 \/ collide c1 c2 \/ collide (111 :: f_addr f ++ hexH H c1) (111 :: f_addr f ++ hexH H c2).
  Proof.
    intros O1 O2. apply is_owner_true in O2.
    destruct (owner_account_unique f c1 _ O1 O2) as [E|C]; [|right; right; exact C].
    destruct (hexH_eq _ _ E) as [->|C]; [left; reflexivity | right; left; exact C].
  Qed.

  (* ----- the invariant ----- *)

  Definition wf_entry (k : bytes) (f : file) : Prop :=
    k = files_key (f_addr f) (f_owner f) /\
    (exists x, f_addr f = hexH H x) /\
    (exists acct, f_owner f = make_owner (f_addr f) acct).

  Definition Inv (s : store) : Prop :=
    NoDup (akeys s) /\ forall k f, sget s k = Some f -> wf_entry k f.

  Lemma Inv_nil : Inv [].
  Proof. split; [constructor|]. intros k f E. discriminate E. Qed.

  Lemma wf_no_slash k f : wf_entry k f -> has_slash (f_addr f) = false /\ has_slash (f_owner f) = false.
  Proof.
    intros [_ [[x ->] [acct ->]]]. split; apply hexH_no_slash.
  Qed.

  Lemma Inv_set s f : Inv s -> wf_entry (files_key (f_addr f) (f_owner f)) f -> Inv (set_file s f).
  Proof.
    intros [ND W] Wf. split.
    - apply nodup_aset; [exact beqb_spec | exact ND].
    - intros k g G. unfold set_file, sget, sset in G.
      destruct (bytes_eq_dec k (files_key (f_addr f) (f_owner f))) as [->|N].
      + rewrite get_set_same in G. injection G as <-. exact Wf.
      + rewrite get_set_other in G by exact N. apply W. exact G.
  Qed.

  Lemma Inv_remove s a o : Inv s -> Inv (remove_file s a o).
  Proof.
    intros [ND W]. split.
    - apply nodup_adel; [exact beqb_spec | exact ND].
    - intros k g G. unfold remove_file, sget, sdel in G.
      destruct (bytes_eq_dec k (files_key a o)) as [->|N].
      + rewrite get_del_same in G. discriminate.
      + rewrite get_del_other in G by exact N. apply W. exact G.
  Qed.

  (* key_aliasing_impossible, store level: a lookup with ANY two strings returns an entry
     only if they are exactly that entry's address and owner *)
  Lemma lookup_hits_only_named s a' o' f :
    Inv s -> get_file s a' o' = Some f -> f_addr f = a' /\ f_owner f = o'.
  Proof.
    intros [_ W] G. pose proof (W _ _ G) as Wf. destruct (wf_no_slash _ _ Wf) as [Sa So].
    destruct Wf as [K _]. apply files_key_inj in K as [-> ->]; auto.
  Qed.

  Lemma lookup_wf s a o f : Inv s -> get_file s a o = Some f -> wf_entry (files_key a o) f.
  Proof. intros [_ W] G. apply W. exact G. Qed.

  Lemma wf_with_owner f acct : (exists x, f_addr f = hexH H x) ->
    let f' := with_owner f (make_owner (f_addr f) acct) in
    wf_entry (files_key (f_addr f') (f_owner f')) f'.
  Proof. intros X. split; [reflexivity|]. split; [exact X|]. exists acct. reflexivity. Qed.

  Lemma wf_with_acl k f x key : wf_entry key f ->
    wf_entry (files_key (f_addr (with_acl k f x)) (f_owner (with_acl k f x))) (with_acl k f x).
  Proof. intros [_ [A O]]. destruct k; (split; [reflexivity|]; split; [exact A | exact O]). Qed.

  Lemma with_acl_key k f x : files_key (f_addr (with_acl k f x)) (f_owner (with_acl k f x)) = files_key (f_addr f) (f_owner f).
  Proof. destruct k; reflexivity. Qed.

  Lemma Inv_handle s o : Inv s -> Inv (fst (handle s o)).
  Proof.
    intros I. destruct o; cbn [Filetree.handle fst].
    - (* provision *) unfold make_root. apply Inv_set; [exact I|]. cbn [f_addr f_owner].
      split; [reflexivity|]. split; [exists (hexH H [115]); apply root_path_eq|]. eexists. reflexivity.
    - (* post *) unfold post_file.
      destruct (get_file s hparent _) as [pf|]; [|exact I].
      destruct (has_access H parse KEdit pf creator) as [[|]|]; try exact I.
      cbn [fst]. apply Inv_set; [exact I|]. cbn [f_addr f_owner].
      split; [reflexivity|]. split; [eexists; reflexivity | eexists; reflexivity].
    - (* delete *) unfold delete_file.
      destruct (get_file s hpath _) as [f|]; [|exact I].
      destruct (is_owner f creator); [|exact I]. cbn [fst]. apply Inv_remove. exact I.
    - (* change owner *) unfold change_owner.
      destruct (get_file s address (make_owner address fileowner)) as [f|] eqn:G; [|exact I].
      destruct (is_owner f creator); [|exact I].
      destruct (get_file s address (make_owner address newowner)); [exact I|].
      cbn [fst]. apply Inv_remove. apply Inv_set; [exact I|].
      destruct (lookup_hits_only_named _ _ _ _ I G) as [Ea _].
      destruct (lookup_wf _ _ _ _ I G) as [_ [X _]].
      rewrite <- Ea. apply wf_with_owner. exact X.
    - (* add *) unfold add_acl.
      destruct (get_file s address fileowner) as [f|] eqn:G; [|exact I].
      destruct (is_owner f creator); [|exact I].
      destruct (parse (acl_of k f)) as [|m]; [exact I|].
      destruct (add_all_opt m _ _) as [m'|]; [|exact I].
      cbn [fst]. apply Inv_set; [exact I|]. eapply wf_with_acl. eapply lookup_wf; eassumption.
    - (* remove *) unfold remove_acl.
      destruct (get_file s address fileowner) as [f|] eqn:G; [|exact I].
      destruct (is_owner f creator); [|exact I].
      destruct (parse (acl_of k f)) as [|m]; [exact I|].
      cbn [fst]. apply Inv_set; [exact I|]. eapply wf_with_acl. eapply lookup_wf; eassumption.
    - (* reset *) unfold reset_acl.
      destruct (get_file s address fileowner) as [f|] eqn:G; [|exact I].
      destruct (is_owner f creator); [|exact I].
      destruct (parse (acl_of k f)) as [|m]; [exact I|].
      cbn [fst]. apply Inv_set; [exact I|]. eapply wf_with_acl. eapply lookup_wf; eassumption.
  Qed.

  Lemma Inv_run s cv o : Inv s -> Inv (fst (run s cv o)).
  Proof.
    intros I. unfold Filetree.run. destruct (cv && validate_basic o); [apply Inv_handle; exact I | exact I].
  Qed.

  Lemma Inv_run_all ms : forall s, Inv s -> Inv (run_all H parse render ms s).
  Proof.
    induction ms as [|[cv o] ms IH]; intros s I; [exact I|].
    unfold run_all. cbn [fold_left]. apply IH. unfold exec. cbn [fst snd]. apply Inv_run. exact I.
  Qed.

  (* stored_keys_wellformed *)
  Lemma stored_wellformed s k f : hash_ok -> Inv s -> In (k, f) s ->
    k = files_key (f_addr f) (f_owner f) /\ hex64 (f_addr f) /\ hex64 (f_owner f).
  Proof.
    intros HK [ND W] I. apply in_nodup_get in I; [|exact ND].
    destruct (W _ _ I) as [K [[x Ex] [acct Eo]]]. split; [exact K|].
    rewrite Eo, Ex. split; apply hexH_hex64; exact HK.
  Qed.
  (* ----- what one message may do ----- *)

  Definition frame (s s' : store) (ks : list bytes) : Prop :=
    forall k, ~ In k ks -> sget s' k = sget s k.

  (* the entry a message names: looked up under (a, o) and carrying exactly that address and owner *)
  Definition named_entry (s : store) (a o : bytes) (f : file) : Prop :=
    get_file s a o = Some f /\ f_addr f = a /\ f_owner f = o.

  Definition effect (s : store) (o : op) (s' : store) : Prop :=
    match o with
    | Provision c v e t =>
      let own := make_owner (root_path H) (hexH H c) in
      let f' := mkFile (root_path H) [] own v e t in
      sget s' (files_key (root_path H) own) = Some f' /\ is_owner f' c = true /\
      frame s s' [files_key (root_path H) own]
    | Post c acct hp hc ct v e t =>
      exists pf m, named_entry s hp (make_owner hp acct) pf /\
        parse (f_edit pf) = PMap m /\ oget m (make_editor H (f_track pf) c) <> None /\
        let a' := add_to_merkle H hp hc in
        let o' := make_owner a' acct in
        sget s' (files_key a' o') = Some (mkFile a' ct o' v e t) /\ frame s s' [files_key a' o']
    | Delete c hp acct =>
      let cur := make_owner hp acct in
      exists f, named_entry s hp cur f /\ is_owner f c = true /\
        sget s' (files_key hp cur) = None /\ frame s s' [files_key hp cur]
    | ChangeOwner c a fo no =>
      let cur := make_owner a fo in
      let new := make_owner a no in
      exists f, named_entry s a cur f /\ is_owner f c = true /\ get_file s a new = None /\
        sget s' (files_key a cur) = None /\ sget s' (files_key a new) = Some (with_owner f new) /\
        frame s s' [files_key a cur; files_key a new]
    | AddAcl k c ids keys a fo =>
      exists f m m', named_entry s a fo f /\ is_owner f c = true /\ parse (acl_of k f) = PMap m /\
        sget s' (files_key a fo) = Some (with_acl k f (render m')) /\ frame s s' [files_key a fo] /\
        (forall id, ~ In id (split_comma ids) -> oget m' id = oget m id) /\
        (forall id, In id (split_comma ids) -> exists i key,
            nth_error (split_comma ids) i = Some id /\ nth_error (split_comma keys) i = Some key /\
            oget m' id = Some key)
    | RemoveAcl k c ids a fo =>
      exists f m m', named_entry s a fo f /\ is_owner f c = true /\ parse (acl_of k f) = PMap m /\
        sget s' (files_key a fo) = Some (with_acl k f (render m')) /\ frame s s' [files_key a fo] /\
        (forall id, ~ In id (split_comma ids) -> oget m' id = oget m id) /\
        (forall id, In id (split_comma ids) -> oget m' id = None)
    | ResetAcl k c a fo =>
      exists f m, named_entry s a fo f /\ is_owner f c = true /\ parse (acl_of k f) = PMap m /\
        let mine := acl_addr H k (f_track f) c in
        let key := match oget m mine with Some v => v | None => [] end in
        sget s' (files_key a fo) = Some (with_acl k f (render (Some [(mine, key)]))) /\ frame s s' [files_key a fo]
    end.

  Definition permitted (s : store) (o : op) (s' : store) (out : outcome) : Prop :=
    (s' = s /\ out <> Ok) \/ (out = Ok /\ effect s o s').

  Lemma frame_set s k f : frame s (sset s k f) [k].
  Proof. intros k' N. unfold sget, sset. apply get_set_other. intros ->. apply N. left. reflexivity. Qed.

  Lemma frame_del s k : frame s (sdel s k) [k].
  Proof. intros k' N. unfold sget, sdel. apply get_del_other. intros ->. apply N. left. reflexivity. Qed.

  Lemma named s a o f : Inv s -> get_file s a o = Some f -> named_entry s a o f.
  Proof. intros I G. destruct (lookup_hits_only_named _ _ _ _ I G) as [A O]. split; [exact G|]. split; assumption. Qed.

  Lemma acl_write s k f x a o : named_entry s a o f ->
    sget (set_file s (with_acl k f x)) (files_key a o) = Some (with_acl k f x) /\
    frame s (set_file s (with_acl k f x)) [files_key a o].
  Proof.
    intros [_ [<- <-]]. unfold set_file. rewrite with_acl_key. split; [apply get_set_same | apply frame_set].
  Qed.

  Ltac stay := left; split; [reflexivity | discriminate].

  Lemma step_permitted s cv o s' out : Inv s -> run s cv o = (s', out) -> permitted s o s' out.
  Proof.
    intros I R. unfold Filetree.run in R.
    destruct (cv && validate_basic o); [|injection R as <- <-; stay].
    destruct o; cbn [Filetree.handle] in R.
    - (* provision *) injection R as <- <-. right. split; [reflexivity|]. cbn [effect]. cbv zeta.
      unfold make_root, set_file. cbn [f_addr f_owner].
      split; [apply get_set_same|]. split; [|apply frame_set].
      apply is_owner_true. reflexivity.
    - (* post *) unfold post_file in R.
      destruct (get_file s hparent (make_owner hparent account)) as [pf|] eqn:G; [|injection R as <- <-; stay].
      unfold has_access in R. cbn [acl_of] in R.
      destruct (parse (f_edit pf)) as [|m] eqn:P; [injection R as <- <-; stay|].
      cbn [acl_addr] in R.
      destruct (oget m (make_editor H (f_track pf) creator)) as [v|] eqn:M; [|injection R as <- <-; stay].
      injection R as <- <-. right. split; [reflexivity|]. cbn [effect].
      exists pf, m. split; [apply named; assumption|]. split; [exact P|].
      split; [rewrite M; discriminate|]. cbv zeta. unfold set_file. cbn [f_addr f_owner].
      split; [apply get_set_same | apply frame_set].
    - (* delete *) unfold delete_file in R.
      destruct (get_file s hpath (make_owner hpath account)) as [f|] eqn:G; [|injection R as <- <-; stay].
      destruct (is_owner f creator) eqn:O; [|injection R as <- <-; stay].
      injection R as <- <-. right. split; [reflexivity|]. cbn [effect]. cbv zeta.
      exists f. split; [apply named; assumption|]. split; [exact O|]. unfold remove_file.
      split; [apply get_del_same | apply frame_del].
    - (* change owner *) unfold change_owner in R.
      destruct (get_file s address (make_owner address fileowner)) as [f|] eqn:G; [|injection R as <- <-; stay].
      destruct (is_owner f creator) eqn:O; [|injection R as <- <-; stay].
      destruct (get_file s address (make_owner address newowner)) as [g|] eqn:G2; [injection R as <- <-; stay|].
      injection R as <- <-. right. split; [reflexivity|]. cbn [effect]. cbv zeta.
      exists f. pose proof (named _ _ _ _ I G) as Nm. destruct Nm as [_ [Ea Eo]].
      split; [split; [exact G | split; assumption]|]. split; [exact O|]. split; [exact G2|].
      assert (NK : files_key address (make_owner address newowner) <> files_key address (make_owner address fileowner)).
      { intros C. unfold get_file in G, G2. rewrite C in G2. congruence. }
      unfold remove_file, set_file. cbn [with_owner f_addr f_owner]. rewrite Ea.
      split; [apply get_del_same|]. split.
      + unfold sget, sdel, sset. rewrite get_del_other by exact NK. apply get_set_same.
      + intros k N. unfold sget, sdel, sset.
        rewrite get_del_other by (intros ->; apply N; left; reflexivity).
        apply get_set_other. intros ->. apply N. right. left. reflexivity.
    - (* add *) unfold add_acl in R.
      destruct (get_file s address fileowner) as [f|] eqn:G; [|injection R as <- <-; stay].
      destruct (is_owner f creator) eqn:O; [|injection R as <- <-; stay].
      destruct (parse (acl_of k f)) as [|m] eqn:P; [injection R as <- <-; stay|].
      destruct (add_all_opt m (split_comma ids) (split_comma keys)) as [m'|] eqn:A; [|injection R as <- <-; stay].
      injection R as <- <-. right. split; [reflexivity|]. cbn [effect].
      exists f, m, m'. pose proof (named _ _ _ _ I G) as Nm.
      split; [exact Nm|]. split; [exact O|]. split; [exact P|].
      destruct (acl_write s k f (render m') _ _ Nm) as [W F]. split; [exact W|]. split; [exact F|].
      apply add_all_opt_spec. exact A.
    - (* remove *) unfold remove_acl in R.
      destruct (get_file s address fileowner) as [f|] eqn:G; [|injection R as <- <-; stay].
      destruct (is_owner f creator) eqn:O; [|injection R as <- <-; stay].
      destruct (parse (acl_of k f)) as [|m] eqn:P; [injection R as <- <-; stay|].
      injection R as <- <-. right. split; [reflexivity|]. cbn [effect].
      exists f, m, (del_all_opt m (split_comma ids)). pose proof (named _ _ _ _ I G) as Nm.
      split; [exact Nm|]. split; [exact O|]. split; [exact P|].
      destruct (acl_write s k f (render (del_all_opt m (split_comma ids))) _ _ Nm) as [W F].
      split; [exact W|]. split; [exact F|].
      split; intros id Hid; rewrite del_all_opt_spec;
        destruct (in_dec bytes_eq_dec id (split_comma ids)); try reflexivity; contradiction.
    - (* reset *) unfold reset_acl in R.
      destruct (get_file s address fileowner) as [f|] eqn:G; [|injection R as <- <-; stay].
      destruct (is_owner f creator) eqn:O; [|injection R as <- <-; stay].
      destruct (parse (acl_of k f)) as [|m] eqn:P; [injection R as <- <-; stay|].
      injection R as <- <-. right. split; [reflexivity|]. cbn [effect].
      exists f, m. pose proof (named _ _ _ _ I G) as Nm.
      split; [exact Nm|]. split; [exact O|]. split; [exact P|]. cbv zeta.
      exact (acl_write s k f _ _ _ Nm).
  Qed.

  (* ----- failures and unauthorised signers ----- *)

  Definition authorised (s : store) (o : op) : Prop :=
    match o with
    | Provision _ _ _ _ => True
    | Post c acct hp _ _ _ _ _ =>
      exists pf m, get_file s hp (make_owner hp acct) = Some pf /\ parse (f_edit pf) = PMap m /\
                   oget m (make_editor H (f_track pf) c) <> None
    | Delete c hp acct => exists f, get_file s hp (make_owner hp acct) = Some f /\ is_owner f c = true
    | ChangeOwner c a fo _ => exists f, get_file s a (make_owner a fo) = Some f /\ is_owner f c = true
    | AddAcl _ c _ _ a fo => exists f, get_file s a fo = Some f /\ is_owner f c = true
    | RemoveAcl _ c _ a fo => exists f, get_file s a fo = Some f /\ is_owner f c = true
    | ResetAcl _ c a fo => exists f, get_file s a fo = Some f /\ is_owner f c = true
    end.

  Lemma unauthorised_noop s cv o : ~ authorised s o -> run s cv o = (s, Fail).
  Proof.
    intros NA. unfold Filetree.run. destruct (cv && validate_basic o); [|reflexivity].
    destruct o; cbn [Filetree.handle authorised] in *.
    - exfalso. apply NA. exact I.
    - unfold post_file. destruct (get_file s hparent (make_owner hparent account)) as [pf|] eqn:G; [|reflexivity].
      unfold has_access. cbn [acl_of acl_addr]. destruct (parse (f_edit pf)) as [|m] eqn:P; [reflexivity|].
      destruct (oget m (make_editor H (f_track pf) creator)) eqn:M; [|reflexivity].
      exfalso. apply NA. exists pf, m. split; [reflexivity|]. split; [exact P|]. rewrite M. discriminate.
    - unfold delete_file. destruct (get_file s hpath (make_owner hpath account)) as [f|] eqn:G; [|reflexivity].
      destruct (is_owner f creator) eqn:O; [|reflexivity]. exfalso. apply NA. exists f. auto.
    - unfold change_owner. destruct (get_file s address (make_owner address fileowner)) as [f|] eqn:G; [|reflexivity].
      destruct (is_owner f creator) eqn:O; [|reflexivity]. exfalso. apply NA. exists f. auto.
    - unfold add_acl. destruct (get_file s address fileowner) as [f|] eqn:G; [|reflexivity].
      destruct (is_owner f creator) eqn:O; [|reflexivity]. exfalso. apply NA. exists f. auto.
    - unfold remove_acl. destruct (get_file s address fileowner) as [f|] eqn:G; [|reflexivity].
      destruct (is_owner f creator) eqn:O; [|reflexivity]. exfalso. apply NA. exists f. auto.
    - unfold reset_acl. destruct (get_file s address fileowner) as [f|] eqn:G; [|reflexivity].
      destruct (is_owner f creator) eqn:O; [|reflexivity]. exfalso. apply NA. exists f. auto.
  Qed.

  Lemma failure_noop s cv o : Inv s -> snd (run s cv o) <> Ok -> fst (run s cv o) = s.
  Proof.
    intros I NO. destruct (run s cv o) as [s' out] eqn:R. cbn [fst snd] in *.
    destruct (step_permitted _ _ _ _ _ I R) as [[E _]|[E _]]; [exact E | contradiction].
  Qed.

  (* ----- histories ----- *)

  Fixpoint trace (s : store) (ms : list (bool * op)) : list (store * op * store * outcome) :=
    match ms with
    | [] => []
    | (cv, o) :: r => (s, o, fst (run s cv o), snd (run s cv o)) :: trace (fst (run s cv o)) r
    end.

  Definition step_ok (t : store * op * store * outcome) : Prop :=
    let '(s, o, s', out) := t in Inv s /\ Inv s' /\ permitted s o s' out.

  Lemma trace_ok ms : forall s, Inv s -> Forall step_ok (trace s ms).
  Proof.
    induction ms as [|[cv o] ms IH]; intros s I; cbn [trace]; constructor.
    - split; [exact I|]. split; [apply Inv_run; exact I|].
      apply (step_permitted s cv). exact I. apply surjective_pairing.
    - apply IH. apply Inv_run. exact I.
  Qed.

  Lemma trace_unauthorised ms : forall s, Inv s ->
    Forall (fun t => let '(s0, o, s1, out) := t in ~ authorised s0 o -> s1 = s0 /\ out = Fail) (trace s ms).
  Proof.
    induction ms as [|[cv o] ms IH]; intros s I; cbn [trace]; constructor.
    - intros NA. rewrite (unauthorised_noop s cv o NA). split; reflexivity.
    - apply IH. apply Inv_run. exact I.
  Qed.
  (* ----- corollaries in the vocabulary of the property ----- *)

  Definition op_creator (o : op) : bytes :=
    match o with
    | Provision c _ _ _ | Post c _ _ _ _ _ _ _ | Delete c _ _ | ChangeOwner c _ _ _
    | AddAcl _ c _ _ _ _ | RemoveAcl _ c _ _ _ | ResetAcl _ c _ _ => c
    end.

  (* (address, owner) of the entry an owner-gated message names *)
  Definition op_target (o : op) : option (bytes * bytes) :=
    match o with
    | Delete _ hp acct => Some (hp, make_owner hp acct)
    | ChangeOwner _ a fo _ => Some (a, make_owner a fo)
    | AddAcl _ _ _ _ a fo | RemoveAcl _ _ _ a fo | ResetAcl _ _ a fo => Some (a, fo)
    | Provision _ _ _ _ | Post _ _ _ _ _ _ _ _ => None
    end.

  (* the raw store keys a message can write *)
  Definition op_touched (o : op) : list bytes :=
    match o with
    | Provision c _ _ _ => [files_key (root_path H) (make_owner (root_path H) (hexH H c))]
    | Post _ acct hp hc _ _ _ _ =>
      [files_key (add_to_merkle H hp hc) (make_owner (add_to_merkle H hp hc) acct)]
    | Delete _ hp acct => [files_key hp (make_owner hp acct)]
    | ChangeOwner _ a fo no => [files_key a (make_owner a fo); files_key a (make_owner a no)]
    | AddAcl _ _ _ _ a fo | RemoveAcl _ _ _ a fo | ResetAcl _ _ a fo => [files_key a fo]
    end.

  Lemma only_named_keys_change s cv o s' out :
    Inv s -> run s cv o = (s', out) -> frame s s' (op_touched o).
  Proof.
    intros I R. destruct (step_permitted _ _ _ _ _ I R) as [[-> _]|[_ E]]; [intros k _; reflexivity|].
    destruct o; cbn [effect op_touched] in *.
    - apply E.
    - destruct E as [pf [m [_ [_ [_ [_ F]]]]]]. exact F.
    - destruct E as [f [_ [_ [_ F]]]]. exact F.
    - destruct E as [f [_ [_ [_ [_ [_ F]]]]]]. exact F.
    - destruct E as [f [m [m' [_ [_ [_ [_ [F _]]]]]]]]. exact F.
    - destruct E as [f [m [m' [_ [_ [_ [_ [F _]]]]]]]]. exact F.
    - destruct E as [f [m [_ [_ [_ [_ F]]]]]]. exact F.
  Qed.

  Lemma mutation_requires_owner s cv o s' out a ow :
    Inv s -> op_target o = Some (a, ow) -> run s cv o = (s', out) -> s' <> s ->
    out = Ok /\ (exists f, named_entry s a ow f /\ is_owner f (op_creator o) = true) /\ effect s o s'.
  Proof.
    intros I T R NE. destruct (step_permitted _ _ _ _ _ I R) as [[E _]|[EO E]]; [contradiction|].
    split; [exact EO|]. split; [|exact E].
    destruct o; cbn [op_target] in T; try discriminate; injection T as <- <-; cbn [effect op_creator] in *.
    - destruct E as [f [Nm [O _]]]. exists f. auto.
    - destruct E as [f [Nm [O _]]]. exists f. auto.
    - destruct E as [f [m [m' [Nm [O _]]]]]. exists f. auto.
    - destruct E as [f [m [m' [Nm [O _]]]]]. exists f. auto.
    - destruct E as [f [m [Nm [O _]]]]. exists f. auto.
  Qed.

  (* an entry posted under a folder has the folder's account: whoever is accepted as owner of the
     new entry is the signer accepted as owner of the folder, or explicit strings collide *)
  Lemma posted_entry_same_owner acct pf f' c1 c2 :
    f_owner pf = make_owner (f_addr pf) acct ->
    f_owner f' = make_owner (f_addr f') acct ->
    is_owner pf c1 = true -> is_owner f' c2 = true ->
    c1 = c2 \/ collide c1 c2 \/
    collide (111 :: f_addr pf ++ hexH H c1) (111 :: f_addr pf ++ acct) \/
    collide (111 :: f_addr f' ++ hexH H c2) (111 :: f_addr f' ++ acct).
  Proof.
    intros E E' O1 O2.
    destruct (owner_account_unique pf c1 acct O1 E) as [E1|C]; [|right; right; left; exact C].
    destruct (owner_account_unique f' c2 acct O2 E') as [E2|C]; [|right; right; right; exact C].
    rewrite <- E2 in E1.
    destruct (hexH_eq _ _ E1) as [->|C]; [left; reflexivity | right; left; exact C].
  Qed.
  Lemma permitted_ok s o s' : permitted s o s' Ok -> effect s o s'.
  Proof. intros [[_ N]|[_ E]]; [exfalso; apply N; reflexivity | exact E]. Qed.

  Lemma acl_messages_exact s cv s' k c ids keys a fo :
    Inv s ->
    (run s cv (AddAcl k c ids keys a fo) = (s', Ok) ->
     exists f m m', named_entry s a fo f /\ is_owner f c = true /\ parse (acl_of k f) = PMap m /\
       sget s' (files_key a fo) = Some (with_acl k f (render m')) /\ frame s s' [files_key a fo] /\
       (forall id, ~ In id (split_comma ids) -> oget m' id = oget m id) /\
       (forall id, In id (split_comma ids) -> exists i key,
           nth_error (split_comma ids) i = Some id /\ nth_error (split_comma keys) i = Some key /\
           oget m' id = Some key)) /\
    (run s cv (RemoveAcl k c ids a fo) = (s', Ok) ->
     exists f m m', named_entry s a fo f /\ is_owner f c = true /\ parse (acl_of k f) = PMap m /\
       sget s' (files_key a fo) = Some (with_acl k f (render m')) /\ frame s s' [files_key a fo] /\
       (forall id, ~ In id (split_comma ids) -> oget m' id = oget m id) /\
       (forall id, In id (split_comma ids) -> oget m' id = None)) /\
    (run s cv (ResetAcl k c a fo) = (s', Ok) ->
     exists f m, named_entry s a fo f /\ is_owner f c = true /\ parse (acl_of k f) = PMap m /\
       let mine := acl_addr H k (f_track f) c in
       let key := match oget m mine with Some v => v | None => [] end in
       sget s' (files_key a fo) = Some (with_acl k f (render (Some [(mine, key)]))) /\
       frame s s' [files_key a fo]).
  Proof.
    intros I. split; [|split]; intros R; exact (permitted_ok _ _ _ (step_permitted _ _ _ _ _ I R)).
  Qed.
End FiletreeProofs.

(* ---------- the executable SHA-256 meets the hypothesis on the hash ---------- *)

Lemma w32_lt x : w32 x < 4294967296.
Proof.
  unfold w32. change 4294967295 with (N.ones 32). rewrite N.land_ones.
  apply N.mod_lt. discriminate.
Qed.

Lemma word_bytes_ok w : w < 4294967296 -> Forall (fun b => b < 256) (word_bytes w).
Proof.
  intros L. unfold word_bytes.
  assert (B : forall y, N.land y 255 < 256).
  { intros y. change 255 with (N.ones 8). rewrite N.land_ones. apply N.mod_lt. discriminate. }
  repeat constructor; try apply B.
  rewrite N.shiftr_div_pow2. apply N.div_lt_upper_bound; [discriminate|]. exact L.
Qed.

Definition st_ok (s : st) : Prop :=
  let '(a, b, c, d, e, f, g, h) := s in
  a < 4294967296 /\ b < 4294967296 /\ c < 4294967296 /\ d < 4294967296 /\
  e < 4294967296 /\ f < 4294967296 /\ g < 4294967296 /\ h < 4294967296.

Lemma compress_ok s blk : st_ok (compress s blk).
Proof.
  unfold compress. destruct s as [[[[[[[a b] c] d] e] f] g] h].
  destruct (fold_left round _ _) as [[[[[[[a' b'] c'] d'] e'] f'] g'] h'].
  unfold st_ok, add32. repeat split; apply w32_lt.
Qed.

Lemma fold_compress_ok bl : forall s, st_ok s -> st_ok (fold_left compress bl s).
Proof.
  induction bl as [|b bl IH]; intros s K; [exact K|]. cbn [fold_left]. apply IH. apply compress_ok.
Qed.

Lemma sha256_hash_ok : hash_ok sha256.
Proof.
  intros x. unfold sha256.
  set (ws := words (pad x)).
  set (init := match H0 with [a;b;c;d;e;f;g;h] => (a,b,c,d,e,f,g,h) | _ => (0,0,0,0,0,0,0,0) end).
  assert (K : st_ok (fold_left compress (chunks16 (length ws) ws) init)).
  { apply fold_compress_ok. unfold init, H0, st_ok. repeat split; reflexivity. }
  destruct (fold_left compress (chunks16 (length ws) ws) init) as [[[[[[[a b] c] d] e] f] g] h].
  destruct K as [Ka [Kb [Kc [Kd [Ke [Kf [Kg Kh]]]]]]].
  split; [reflexivity|].
  cbn [map concat]. repeat (apply Forall_app; split; [apply word_bytes_ok; assumption|]). constructor.
Qed.
