(* Ties by proof between InitProvider / ShutdownProvider as generated from the current source (Gen/GoCollat.v)
   and the model of C15 (Model/Collateral.v): the model's step is the interpretation of the generated events with
   its bank's answers. *)
From Coq Require Import ZArith NArith List Bool String Lia.
From JK Require Import Base.Dec Base.AList Base.GoSem Gen.GoCollat Model.Collateral.
Import ListNotations.
Open Scope Z_scope.

Definition is_some {A} (o : option A) : bool := match o with Some _ => true | None => false end.

(* closed forms *)
Lemma gen_InitProvider_spec found price creator_ok not_canonical ok_lock :
  gen_InitProvider found price creator_ok not_canonical ok_lock
  = if found then GVal ([], false)
    else if price <? 0 then GPanic
    else if negb creator_ok then GVal ([], false)
    else if not_canonical then GVal ([], false)
    else if negb ok_lock then GVal ([Ev "lock-collateral" [price]], false)
    else GVal ([Ev "lock-collateral" [price]; Ev "record-collateral" [price]; Ev "set-provider" []], true).
Proof.
  unfold gen_InitProvider, gcoin64. destruct found; [reflexivity|].
  destruct (price <? 0); [reflexivity|]. cbn [gbind].
  destruct creator_ok; cbn [negb]; [|reflexivity]. destruct not_canonical; [reflexivity|].
  destruct ok_lock; reflexivity.
Qed.

Lemma gen_ShutdownProvider_spec prov_found coll_found amount creator_ok ok_return :
  gen_ShutdownProvider prov_found coll_found amount creator_ok ok_return
  = if negb prov_found then GVal ([], false)
    else if negb coll_found then GVal ([Ev "remove-provider" []], true)
    else if amount <? 0 then GPanic
    else if negb creator_ok then GVal ([], false)
    else if negb ok_return then GVal ([Ev "return-collateral" [amount]], false)
    else GVal ([Ev "return-collateral" [amount]; Ev "remove-collateral" []; Ev "remove-provider" []], true).
Proof.
  unfold gen_ShutdownProvider, gcoin64. destruct prov_found; cbn [negb]; [|reflexivity].
  destruct coll_found; cbn [negb]; [|reflexivity].
  destruct (amount <? 0); [reflexivity|]. cbn [gbind].
  destruct creator_ok; cbn [negb]; [|reflexivity]. destruct ok_return; reflexivity.
Qed.

(* the model: registration (after ValidateBasic) locks exactly the current price, records exactly that amount, and
   writes the provider record -- and does nothing at all otherwise *)
Theorem init_provider_is_the_interpretation s c ip space kb :
  let lock := send (st_bank s) (acct c) escrow (st_price s) in
  init_provider s c true true ip space kb
  = match gen_InitProvider (is_some (get_prov s c)) (st_price s) true (snd c) (is_some lock) with
    | GPanic => (s, Panic)
    | GVal (_, false) => (s, Fail)
    | GVal ([Ev _ [locked]; Ev _ [recorded]; _], true) =>
        match lock with
        | Some b =>
            let rec := {| p_addr := c; p_ip := ip; p_space := space; p_creator := c; p_burned := 0;
                          p_keybase := kb; p_claimers := [] |} in
            (with_money s (aset sg_eqb (st_prov s) c rec) (aset sg_eqb (st_coll s) c recorded) b, Ok)
        | None => (s, Fail)
        end
    | GVal (_, true) => (s, Fail)
    end.
Proof.
  cbv zeta. rewrite gen_InitProvider_spec. unfold init_provider. cbn [andb negb].
  destruct (get_prov s c); cbn [is_some]; [reflexivity|].
  destruct (st_price s <? 0); [reflexivity|]. cbn [negb].
  destruct (snd c); [reflexivity|].
  destruct (send (st_bank s) (acct c) escrow (st_price s)); reflexivity.
Qed.

(* shutdown returns exactly the recorded amount and removes both records; a provider without collateral on record
   is just removed; a blocked recipient or an escrow that cannot pay makes the message fail *)
Theorem shutdown_provider_is_the_interpretation s c :
  let amount := match get_coll s c with Some a => a | None => 0 end in
  let back := if is_blocked s (acct c) then None else send (st_bank s) escrow (acct c) amount in
  shutdown_provider s c true
  = match gen_ShutdownProvider (is_some (get_prov s c)) (is_some (get_coll s c)) amount true (is_some back) with
    | GPanic => (s, Panic)
    | GVal (_, false) => (s, Fail)
    | GVal ([Ev _ []], true) => (with_prov s (adel sg_eqb (st_prov s) c), Ok)
    | GVal (_, true) =>
        match back with
        | Some b => (with_money s (adel sg_eqb (st_prov s) c) (adel sg_eqb (st_coll s) c) b, Ok)
        | None => (s, Fail)
        end
    end.
Proof.
  cbv zeta. rewrite gen_ShutdownProvider_spec. unfold shutdown_provider. cbn [negb].
  destruct (get_prov s c); cbn [is_some negb]; [|reflexivity].
  destruct (get_coll s c) as [amt|]; cbn [is_some negb]; [|reflexivity].
  destruct (amt <? 0); [reflexivity|].
  destruct (is_blocked s (acct c)); cbn [is_some negb]; [reflexivity|].
  destruct (send (st_bank s) escrow (acct c) amt); reflexivity.
Qed.
