(* C11 — own-resource frames: proofs over Model/OwnResource.v.
   For each family: a one-step frame (the message changes only the resource of its signer / fails
   when the signer is not the resource's creator) and its lift over arbitrary histories
   (no sequence of messages signed by other accounts changes the resource). *)
From Coq Require Import ZArith NArith List Bool Lia.
From JK Require Import Base.AList.
From JK Require Import Base.Dec.
From JK Require Import Model.OwnResource.
Import ListNotations.
Open Scope Z_scope.

(* ---------------------------------------------------------------- equalities *)
Lemma Neqb_spec : forall a b : N, N.eqb a b = true <-> a = b.
Proof. exact N.eqb_eq. Qed.

Lemma sp_eqb_spec : forall a b : spelling, sp_eqb a b = true <-> a = b.
Proof.
  intros [a u] [b v]. unfold sp_eqb. cbn. rewrite andb_true_iff, N.eqb_eq, Bool.eqb_true_iff.
  split; [intros [-> ->]; reflexivity | intros H; injection H as -> ->; split; reflexivity].
Qed.

Lemma fkey_eqb_spec : forall a b : fkey, fkey_eqb a b = true <-> a = b.
Proof.
  intros [[m s] t] [[m' s'] t']. unfold fkey_eqb. cbn.
  rewrite !andb_true_iff, N.eqb_eq, sp_eqb_spec, Z.eqb_eq.
  split; [intros [[-> ->] ->]; reflexivity | intros H; injection H as -> -> ->; repeat split].
Qed.

Lemma sp_neq_of_acct (a b : spelling) : acct a <> acct b -> a <> b.
Proof. intros H E. apply H. rewrite E. reflexivity. Qed.

(* ---------------------------------------------------------------- oracle *)
Lemma ostep_fail_unchanged st op st' : ostep st op = (st', Fail) -> st' = st.
Proof.
  destruct op as [s n fo t | s n d t]; cbn.
  - destruct (aget N.eqb st n); [intros H; injection H as <-; reflexivity|].
    destruct fo; intros H; [discriminate | injection H as <-; reflexivity].
  - destruct (aget N.eqb st n) as [f|]; [|intros H; injection H as <-; reflexivity].
    destruct (sp_eqb (f_owner f) s); intros H; [discriminate | injection H as <-; reflexivity].
Qed.

(* an accepted update was signed with exactly the string the feed was created with *)
Lemma oupdate_ok_owner st s n d t st' :
  ostep st (OUpdate s n d t) = (st', Ok) -> exists f, aget N.eqb st n = Some f /\ f_owner f = s.
Proof.
  cbn. destruct (aget N.eqb st n) as [f|]; [|discriminate].
  destruct (sp_eqb (f_owner f) s) eqn:E; [|discriminate].
  intros _. exists f. split; [reflexivity | apply sp_eqb_spec; exact E].
Qed.

Lemma ocreate_ok_owned st s n fo t st' :
  ostep st (OCreate s n fo t) = (st', Ok) ->
  aget N.eqb st n = None /\ aget N.eqb st' n = Some {| f_owner := s; f_data := 0%N; f_time := t |}.
Proof.
  cbn. destruct (aget N.eqb st n); [discriminate|]. destruct fo; [|discriminate].
  intros H; injection H as <-. split; [reflexivity | apply (aget_aset_same N.eqb Neqb_spec)].
Qed.

(* one step: a feed is left exactly as it is by every message not signed with its owner string *)
Lemma ostep_frame st op n f :
  aget N.eqb st n = Some f -> oop_signer op <> f_owner f -> aget N.eqb (fst (ostep st op)) n = Some f.
Proof.
  intros Hn Hs. destruct op as [s m fo t | s m d t]; cbn in *.
  - destruct (aget N.eqb st m) eqn:Em; [exact Hn|]. destruct fo; [|exact Hn]. cbn.
    rewrite (aget_aset_other N.eqb Neqb_spec); [exact Hn|]. intros ->. rewrite Hn in Em. discriminate.
  - destruct (aget N.eqb st m) as [g|] eqn:Em; [|exact Hn].
    destruct (sp_eqb (f_owner g) s) eqn:E; [|exact Hn]. cbn.
    apply sp_eqb_spec in E.
    rewrite (aget_aset_other N.eqb Neqb_spec); [exact Hn|].
    intros ->. rewrite Hn in Em. injection Em as <-. apply Hs. symmetry. exact E.
Qed.

(* the owner stamp of an existing feed never changes, and feeds never disappear *)
Lemma ostep_owner_stable st op n f :
  aget N.eqb st n = Some f ->
  exists f', aget N.eqb (fst (ostep st op)) n = Some f' /\ f_owner f' = f_owner f.
Proof.
  intros Hn. destruct op as [s m fo t | s m d t]; cbn.
  - destruct (aget N.eqb st m) eqn:Em; [exists f; split; [exact Hn|reflexivity]|].
    destruct fo; [|exists f; split; [exact Hn|reflexivity]]. cbn.
    exists f. split; [|reflexivity].
    rewrite (aget_aset_other N.eqb Neqb_spec); [exact Hn|]. intros ->. rewrite Hn in Em. discriminate.
  - destruct (aget N.eqb st m) as [g|] eqn:Em; [|exists f; split; [exact Hn|reflexivity]].
    destruct (sp_eqb (f_owner g) s); [|exists f; split; [exact Hn|reflexivity]]. cbn.
    destruct (N.eqb n m) eqn:Enm.
    + apply N.eqb_eq in Enm; subst m. rewrite Hn in Em. injection Em as <-.
      eexists. split; [apply (aget_aset_same N.eqb Neqb_spec) | reflexivity].
    + exists f. split; [|reflexivity].
      rewrite (aget_aset_other N.eqb Neqb_spec); [exact Hn|]. intros ->. rewrite N.eqb_refl in Enm. discriminate.
Qed.

Lemma orun_frame ops : forall st n f,
  aget N.eqb st n = Some f -> Forall (fun op => oop_signer op <> f_owner f) ops ->
  aget N.eqb (orun st ops) n = Some f.
Proof.
  induction ops as [|op ops IH]; intros st n f Hn HF; cbn; [exact Hn|].
  inversion HF as [|? ? H1 H2]; subst. apply IH; [|exact H2]. apply ostep_frame; assumption.
Qed.

Lemma orun_frame_acct ops st n f :
  aget N.eqb st n = Some f -> Forall (fun op => acct (oop_signer op) <> acct (f_owner f)) ops ->
  aget N.eqb (orun st ops) n = Some f.
Proof.
  intros Hn HF. apply orun_frame; [exact Hn|].
  eapply Forall_impl; [|exact HF]. intros op H. apply sp_neq_of_acct. exact H.
Qed.

Lemma orun_owner_stable ops : forall st n f,
  aget N.eqb st n = Some f -> exists f', aget N.eqb (orun st ops) n = Some f' /\ f_owner f' = f_owner f.
Proof.
  induction ops as [|op ops IH]; intros st n f Hn; cbn; [exists f; split; [exact Hn|reflexivity]|].
  destruct (ostep_owner_stable st op n f Hn) as [f1 [H1 H2]].
  destruct (IH _ _ _ H1) as [f2 [H3 H4]]. exists f2. split; [exact H3 | congruence].
Qed.

(* ---------------------------------------------------------------- rns primary pointers *)
(* account level: a message never writes a pointer of another account *)
Lemma pstep_frame_acct st op k : acct k <> acct (pop_signer op) -> aget sp_eqb (fst (pstep st op)) k = aget sp_eqb st k.
Proof.
  destruct op as [s [nm|] | s [|] [nm|]]; cbn; intros H; try reflexivity;
    apply (aget_aset_other sp_eqb sp_eqb_spec); intros E; apply H; rewrite E; reflexivity.
Qed.

(* spelling level for MakePrimary: only the pointer under the signer's own address string *)
Lemma pstep_frame_make st s parsed k : k <> s -> aget sp_eqb (fst (pstep st (PMake s parsed))) k = aget sp_eqb st k.
Proof.
  destruct parsed as [nm|]; cbn; intros H; [|reflexivity].
  apply (aget_aset_other sp_eqb sp_eqb_spec). exact H.
Qed.

Lemma pstep_fail_unchanged st op st' : pstep st op = (st', Fail) -> st' = st.
Proof.
  destruct op as [s [nm|] | s [|] [nm|]]; cbn; intros H; try discriminate; injection H as <-; reflexivity.
Qed.

Lemma prun_cons st op ops : prun st (op :: ops) = prun (fst (pstep st op)) ops.
Proof. reflexivity. Qed.

Lemma prun_frame_acct ops st a :
  Forall (fun op => acct (pop_signer op) <> a) ops ->
  forall k, acct k = a -> aget sp_eqb (prun st ops) k = aget sp_eqb st k.
Proof.
  revert st. induction ops as [|op ops IH]; intros st HF k Hk; [reflexivity|].
  inversion HF as [|? ? H1 H2]; subst. rewrite prun_cons, IH by (try exact H2; reflexivity).
  apply pstep_frame_acct. intros E. apply H1. symmetry. exact E.
Qed.

(* ---------------------------------------------------------------- storage DeleteFile *)
Lemma in_adel_in {V} (l : list (fkey * V)) k0 k v : In (k, v) (adel fkey_eqb l k0) -> In (k, v) l.
Proof.
  induction l as [|[k1 v1] r IH]; cbn; [tauto|].
  destruct (fkey_eqb k0 k1); cbn; intros H; [right; apply IH; exact H|].
  destruct H as [H|H]; [left; exact H | right; apply IH; exact H].
Qed.

Lemma aget_in {V} (l : list (fkey * V)) k v : aget fkey_eqb l k = Some v -> exists k', k' = k /\ In (k', v) l.
Proof.
  induction l as [|[k1 v1] r IH]; cbn; [discriminate|].
  destruct (fkey_eqb k k1) eqn:E.
  - intros H; injection H as ->. apply fkey_eqb_spec in E. subst k1. exists k. split; [reflexivity | left; reflexivity].
  - intros H. destruct (IH H) as [k' [-> Hin]]. exists k. split; [reflexivity | right; exact Hin].
Qed.

(* files under every other key are untouched (in particular every file of another account) *)
Lemma sstep_files_frame st op k :
  k <> (match op with SDelete s m t => (m, s, t) end) ->
  aget fkey_eqb (s_files (fst (sstep st op))) k = aget fkey_eqb (s_files st) k.
Proof.
  destruct op as [s m t]; cbn. intros H.
  destruct (aget fkey_eqb (s_files st) (m, s, t)); cbn; [|reflexivity].
  apply (aget_adel_other fkey_eqb fkey_eqb_spec). exact H.
Qed.

Lemma sstep_files_frame_owner st op k :
  fkey_owner k <> sop_signer op ->
  aget fkey_eqb (s_files (fst (sstep st op))) k = aget fkey_eqb (s_files st) k.
Proof.
  intros H. apply sstep_files_frame. destruct op as [s m t]. intros ->. apply H. reflexivity.
Qed.

(* the space accounting of every other address string is untouched *)
Lemma sstep_pay_frame st op a :
  files_keyed_by_owner st -> a <> sop_signer op ->
  aget sp_eqb (s_pay (fst (sstep st op))) a = aget sp_eqb (s_pay st) a.
Proof.
  intros Inv H. destruct op as [s m t]; cbn in *.
  destruct (aget fkey_eqb (s_files st) (m, s, t)) as [f|] eqn:Ef; cbn; [|reflexivity].
  destruct (aget_in _ _ _ Ef) as [k' [-> Hin]]. pose proof (Inv _ _ Hin) as Ho. cbn in Ho.
  destruct (sf_expires f <=? 0); [|reflexivity].
  destruct (aget sp_eqb (s_pay st) (sf_owner f)); [|reflexivity].
  apply (aget_aset_other sp_eqb sp_eqb_spec). rewrite Ho. exact H.
Qed.

(* only proof records listed in the deleted file go away *)
Lemma sstep_proofs_frame st s m t x :
  In x (s_proofs st) ->
  (forall f, aget fkey_eqb (s_files st) (m, s, t) = Some f -> ~ In x (sf_proofs f)) ->
  In x (s_proofs (fst (sstep st (SDelete s m t)))).
Proof.
  intros Hx Hn. cbn. destruct (aget fkey_eqb (s_files st) (m, s, t)) as [f|]; cbn; [|exact Hx].
  unfold remove_ids. apply filter_In. split; [exact Hx|].
  apply negb_true_iff. destruct (existsb (N.eqb x) (sf_proofs f)) eqn:E; [|reflexivity].
  apply existsb_exists in E. destruct E as [y [Hy Hxy]]. apply N.eqb_eq in Hxy. subst y.
  exfalso. exact (Hn f eq_refl Hy).
Qed.

Lemma sstep_inv st op : files_keyed_by_owner st -> files_keyed_by_owner (fst (sstep st op)).
Proof.
  intros Inv. destruct op as [s m t]; cbn.
  destruct (aget fkey_eqb (s_files st) (m, s, t)); cbn; [|exact Inv].
  intros k f Hin. apply (Inv k f). eapply in_adel_in. exact Hin.
Qed.

Lemma srun_inv ops : forall st, files_keyed_by_owner st -> files_keyed_by_owner (srun st ops).
Proof.
  induction ops as [|op ops IH]; intros st Inv; cbn; [exact Inv|]. apply IH. apply sstep_inv. exact Inv.
Qed.

Lemma srun_cons st op ops : srun st (op :: ops) = srun (fst (sstep st op)) ops.
Proof. reflexivity. Qed.

Lemma srun_frame ops : forall st a,
  files_keyed_by_owner st -> Forall (fun op => sop_signer op <> a) ops ->
  (forall k, fkey_owner k = a -> aget fkey_eqb (s_files (srun st ops)) k = aget fkey_eqb (s_files st) k) /\
  aget sp_eqb (s_pay (srun st ops)) a = aget sp_eqb (s_pay st) a.
Proof.
  induction ops as [|op ops IH]; intros st a Inv HF; [split; reflexivity|].
  inversion HF as [|? ? H1 H2]; subst. rewrite srun_cons.
  destruct (IH (fst (sstep st op)) a (sstep_inv st op Inv) H2) as [A B]. split.
  - intros k Hk. rewrite A by exact Hk. apply sstep_files_frame_owner. rewrite Hk. intros E. apply H1. symmetry. exact E.
  - rewrite B. apply sstep_pay_frame; [exact Inv|]. intros E. apply H1. symmetry. exact E.
Qed.

Lemma files_keyed_by_owner_b_spec st : files_keyed_by_owner_b st = true <-> files_keyed_by_owner st.
Proof.
  unfold files_keyed_by_owner_b, files_keyed_by_owner. rewrite forallb_forall. split.
  - intros H k f Hin. apply sp_eqb_spec. exact (H (k, f) Hin).
  - intros H [k f] Hin. apply sp_eqb_spec. exact (H k f Hin).
Qed.

(* ---------------------------------------------------------------- wasm binding *)
Lemma wasm_guard_only_contract ct msg c : wasm_guard ct msg = Some c -> c = (ct, false).
Proof.
  destruct msg as [[cr vb]|]; cbn; [|discriminate].
  destruct (sp_eqb cr (ct, false)) eqn:E; [|discriminate].
  destruct vb; [|discriminate]. intros H; injection H as <-. apply sp_eqb_spec. exact E.
Qed.

Lemma wstep_frame files ct msg m h posted k :
  fkey_owner k <> (ct, false) ->
  aget fkey_eqb (fst (wstep files ct msg m h posted)) k = aget fkey_eqb files k.
Proof.
  intros H. unfold wstep. destruct (wasm_guard ct msg) as [c|] eqn:G; [|reflexivity].
  apply wasm_guard_only_contract in G. subst c.
  destruct posted; [|reflexivity]. cbn.
  apply (aget_aset_other fkey_eqb fkey_eqb_spec). intros ->. apply H. reflexivity.
Qed.

Lemma wstep_ok_creator files ct cr vb m h posted files' :
  wstep files ct (Some (cr, vb)) m h posted = (files', Ok) -> cr = (ct, false) /\ vb = true.
Proof.
  unfold wstep. destruct (wasm_guard ct (Some (cr, vb))) as [c|] eqn:G; [|discriminate].
  intros _. pose proof (wasm_guard_only_contract _ _ _ G) as ->. cbn in G.
  destruct (sp_eqb cr (ct, false)) eqn:E; [|discriminate]. destruct vb; [|discriminate].
  injection G as ->. split; reflexivity.
Qed.

(* ---------------------------------------------------------------- notifications *)
Lemma filter_filter_comm {A} (p q : A -> bool) l : filter p (filter q l) = filter q (filter p l).
Proof.
  induction l as [|x l IH]; cbn; [reflexivity|].
  destruct (q x) eqn:Q, (p x) eqn:P; cbn; rewrite ?P, ?Q, IH; reflexivity.
Qed.

Lemma filter_all_true {A} (p q : A -> bool) l :
  (forall x, q x = true -> p x = true) -> filter p (filter q l) = filter q l.
Proof.
  intros H. induction l as [|x l IH]; cbn; [reflexivity|].
  destruct (q x) eqn:Q; cbn; [rewrite (H x Q), IH; reflexivity | exact IH].
Qed.

Lemma ndelete_inbox_frame st s from t a :
  a <> acct s -> inbox (fst (nstep st (NDelete s from t))) a = inbox st a.
Proof.
  intros H. unfold inbox. cbn. rewrite filter_filter_comm. apply filter_all_true.
  intros [[to fr] tm] Hq. cbn in Hq. apply N.eqb_eq in Hq. subst to.
  apply negb_true_iff. unfold note_eqb. cbn.
  destruct (N.eqb a (acct s)) eqn:E; [apply N.eqb_eq in E; contradiction | reflexivity].
Qed.

Lemma ndelete_blocks_frame st s from t : n_blocks (fst (nstep st (NDelete s from t))) = n_blocks st.
Proof. reflexivity. Qed.

Lemma add_blocks_frame owner a : owner <> a -> forall targets bl bl',
  add_blocks owner targets bl = Some bl' ->
  filter (fun b => N.eqb (fst b) a) bl' = filter (fun b => N.eqb (fst b) a) bl.
Proof.
  intros Hne. induction targets as [|[x|] r IH]; intros bl bl'; cbn.
  - intros H; injection H as <-. reflexivity.
  - intros H. rewrite (IH _ _ H). destruct (existsb (block_eqb (owner, x)) bl); [reflexivity|].
    rewrite filter_app. cbn.
    destruct (N.eqb owner a) eqn:E; [apply N.eqb_eq in E; contradiction | apply app_nil_r].
  - discriminate.
Qed.

Lemma nblock_blocklist_frame st s targets a :
  a <> acct s -> blocklist (fst (nstep st (NBlock s targets))) a = blocklist st a.
Proof.
  intros H. unfold blocklist. cbn.
  destruct (add_blocks (acct s) targets (n_blocks st)) as [bl|] eqn:E; cbn; [|reflexivity].
  eapply add_blocks_frame; [|exact E]. intros E'. apply H. symmetry. exact E'.
Qed.

Lemma nblock_notes_frame st s targets : n_notes (fst (nstep st (NBlock s targets))) = n_notes st.
Proof. cbn. destruct (add_blocks (acct s) targets (n_blocks st)); reflexivity. Qed.

Lemma nstep_frame st op a :
  a <> acct (nop_signer op) ->
  inbox (fst (nstep st op)) a = inbox st a /\ blocklist (fst (nstep st op)) a = blocklist st a.
Proof.
  intros H. destruct op as [s f t | s ts].
  - split; [apply ndelete_inbox_frame; exact H | reflexivity].
  - split; [unfold inbox; rewrite nblock_notes_frame; reflexivity | apply nblock_blocklist_frame; exact H].
Qed.

Lemma nrun_cons st op ops : nrun st (op :: ops) = nrun (fst (nstep st op)) ops.
Proof. reflexivity. Qed.

Lemma nrun_frame ops : forall st a,
  Forall (fun op => acct (nop_signer op) <> a) ops ->
  inbox (nrun st ops) a = inbox st a /\ blocklist (nrun st ops) a = blocklist st a.
Proof.
  induction ops as [|op ops IH]; intros st a HF; [split; reflexivity|].
  inversion HF as [|? ? H1 H2]; subst. rewrite nrun_cons.
  destruct (IH (fst (nstep st op)) a H2) as [A B].
  destruct (nstep_frame st op a) as [C D]; [intros E; apply H1; symmetry; exact E|].
  split; congruence.
Qed.

(* a delete removes at most the named entry of the signer's own inbox; a block only adds *)
Lemma ndelete_only_named st s from t n :
  In n (n_notes st) -> n <> (acct s, from, t) -> In n (n_notes (fst (nstep st (NDelete s from t)))).
Proof.
  intros Hin Hne. cbn. apply filter_In. split; [exact Hin|]. apply negb_true_iff.
  destruct (note_eqb n (acct s, from, t)) eqn:E; [|reflexivity].
  exfalso. apply Hne. destruct n as [[a b] c]. unfold note_eqb in E. cbn in E.
  apply andb_true_iff in E. destruct E as [E E3]. apply andb_true_iff in E. destruct E as [E1 E2].
  apply N.eqb_eq in E1, E2. apply Z.eqb_eq in E3. subst. reflexivity.
Qed.

(* ---- statements of Props/C11.v *)
Lemma update_feed_only_by_feed_creator_thm :
  forall st s name data now st',
    ostep st (OUpdate s name data now) = (st', Ok) ->
    (exists f, aget N.eqb st name = Some f /\ f_owner f = s) /\
    (forall n, n <> name -> aget N.eqb st' n = aget N.eqb st n).
Proof.
  intros st s name data now st' H. split; [exact (oupdate_ok_owner _ _ _ _ _ _ H)|].
  intros n Hn. destruct (oupdate_ok_owner _ _ _ _ _ _ H) as [f [Hf _]].
  cbn in H. rewrite Hf in H. destruct (sp_eqb (f_owner f) s); [|discriminate].
  injection H as <-. apply (aget_aset_other N.eqb Neqb_spec). exact Hn.
Qed.

Lemma feed_untouched_by_other_accounts_thm :
  forall ops st name f,
    aget N.eqb st name = Some f ->
    Forall (fun op => acct (oop_signer op) <> acct (f_owner f)) ops ->
    aget N.eqb (orun st ops) name = Some f.
Proof. intros. eapply orun_frame_acct; eassumption. Qed.

Lemma feed_owner_never_changes_thm :
  forall ops st name f,
    aget N.eqb st name = Some f ->
    exists f', aget N.eqb (orun st ops) name = Some f' /\ f_owner f' = f_owner f.
Proof. intros. apply orun_owner_stable. assumption. Qed.

Lemma make_primary_only_own_pointer_thm :
  forall st s parsed k, k <> s ->
    aget sp_eqb (fst (pstep st (PMake s parsed))) k = aget sp_eqb st k.
Proof. intros st s parsed k H. apply pstep_frame_make. exact H. Qed.

Lemma rns_messages_touch_only_own_primary_pointer_thm :
  forall st op k, acct k <> acct (pop_signer op) ->
    aget sp_eqb (fst (pstep st op)) k = aget sp_eqb st k.
Proof. exact pstep_frame_acct. Qed.

Lemma storage_delete_only_own_files_thm :
  forall st s merkle start,
    (forall k, k <> (merkle, s, start) ->
       aget fkey_eqb (s_files (fst (sstep st (SDelete s merkle start)))) k = aget fkey_eqb (s_files st) k) /\
    (files_keyed_by_owner st -> forall a, a <> s ->
       aget sp_eqb (s_pay (fst (sstep st (SDelete s merkle start)))) a = aget sp_eqb (s_pay st) a) /\
    (files_keyed_by_owner st -> files_keyed_by_owner (fst (sstep st (SDelete s merkle start)))).
Proof.
  intros st s merkle start. split; [|split].
  - intros k H. apply (sstep_files_frame st (SDelete s merkle start) k). exact H.
  - intros Inv a H. apply (sstep_pay_frame st (SDelete s merkle start) a Inv). exact H.
  - intros Inv. apply sstep_inv. exact Inv.
Qed.

Lemma delete_notification_only_own_inbox_thm :
  forall st s from time,
    (forall a, a <> acct s -> inbox (fst (nstep st (NDelete s from time))) a = inbox st a) /\
    n_blocks (fst (nstep st (NDelete s from time))) = n_blocks st /\
    (forall n, In n (n_notes st) -> n <> (acct s, from, time) ->
               In n (n_notes (fst (nstep st (NDelete s from time))))).
Proof.
  intros st s from time. split; [|split].
  - intros a H. apply ndelete_inbox_frame. exact H.
  - reflexivity.
  - intros n H1 H2. apply ndelete_only_named; assumption.
Qed.

Lemma block_list_only_own_thm :
  forall st s targets,
    (forall a, a <> acct s -> blocklist (fst (nstep st (NBlock s targets))) a = blocklist st a) /\
    n_notes (fst (nstep st (NBlock s targets))) = n_notes st.
Proof.
  intros st s targets. split; [intros a H; apply nblock_blocklist_frame; exact H | apply nblock_notes_frame].
Qed.
