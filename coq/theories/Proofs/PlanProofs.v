(* Lemmas and invariants for the plan-space model (Model/Plan.v). *)
From Coq Require Import ZArith NArith List Bool Lia.
Require Import ZifyBool.
From JK Require Import Base.Dec Base.AList Model.Plan.
Import ListNotations.
Open Scope Z_scope.

(* ---------- keys *)
Lemma neqb_spec : forall a b : N, N.eqb a b = true <-> a = b.
Proof. intros. apply N.eqb_eq. Qed.

Lemma fkey_eqb_spec : forall a b : fkey, fkey_eqb a b = true <-> a = b.
Proof.
  intros [[m1 o1] s1] [[m2 o2] s2]. unfold fkey_eqb, k_merkle, k_owner, k_start. cbn.
  rewrite !andb_true_iff, !N.eqb_eq, Z.eqb_eq. split.
  - intros [[-> ->] ->]. reflexivity.
  - intros E. inversion E. auto.
Qed.

(* ---------- association lists: membership *)
Section AL.
  Context {K V : Type}.
  Variable eqb : K -> K -> bool.
  Hypothesis eqb_spec : forall a b, eqb a b = true <-> a = b.

  Lemma aget_in (l : list (K * V)) k v : aget eqb l k = Some v -> In (k, v) l.
  Proof.
    induction l as [|[k' v'] r IH]; cbn; [discriminate|].
    destruct (eqb k k') eqn:E.
    - apply eqb_spec in E. subst. intros H. inversion H. left. reflexivity.
    - intros H. right. exact (IH H).
  Qed.

  Lemma in_aget (l : list (K * V)) k v : NoDup (akeys l) -> In (k, v) l -> aget eqb l k = Some v.
  Proof.
    induction l as [|[k' v'] r IH]; cbn; intros ND H; [contradiction|].
    inversion ND as [|? ? Hn Hr]; subst.
    destruct H as [H|H].
    - inversion H; subst. rewrite (eqb_refl eqb eqb_spec). reflexivity.
    - destruct (eqb k k') eqn:E.
      + apply eqb_spec in E. subst. exfalso. apply Hn. change k' with (fst (k', v)). apply in_map. exact H.
      + exact (IH Hr H).
  Qed.

  Lemma in_adel (l : list (K * V)) k x : In x (adel eqb l k) -> In x l /\ fst x <> k.
  Proof.
    induction l as [|[k' v'] r IH]; cbn; [intros []|].
    destruct (eqb k k') eqn:E.
    - intros H. destruct (IH H). split; [right|]; assumption.
    - intros [H|H].
      + subst x. split; [left; reflexivity|]. cbn. intros ->. rewrite (eqb_refl eqb eqb_spec) in E. discriminate.
      + destruct (IH H). split; [right|]; assumption.
  Qed.

  Lemma in_aset (l : list (K * V)) k v x : In x (aset eqb l k v) -> x = (k, v) \/ In x l.
  Proof.
    induction l as [|[k' v'] r IH]; cbn.
    - intros [H|[]]. left. auto.
    - destruct (eqb k k') eqn:E; cbn.
      + intros [H|H]; [left; auto | right; right; exact H].
      + intros [H|H]; [right; left; exact H|]. destruct (IH H); [left | right; right]; assumption.
  Qed.

  Lemma adel_absent (l : list (K * V)) k : aget eqb l k = None -> adel eqb l k = l.
  Proof.
    induction l as [|[k' v'] r IH]; cbn; [reflexivity|].
    destruct (eqb k k'); [discriminate|]. intros H. rewrite (IH H). reflexivity.
  Qed.

  Lemma aget_some_aset_other (l : list (K * V)) k v k' :
    aget eqb l k' <> None -> aget eqb (aset eqb l k v) k' <> None.
  Proof.
    intros H. destruct (eqb k' k) eqn:E.
    - apply eqb_spec in E. subst. rewrite (aget_aset_same eqb eqb_spec). discriminate.
    - rewrite (aget_aset_other eqb eqb_spec); [exact H|]. intros ->. rewrite (eqb_refl eqb eqb_spec) in E. discriminate.
  Qed.
End AL.

(* ---------- the footprint sum *)
Definition file_ok (f : file) : Prop :=
  0 < f_size f /\ 0 < f_maxp f /\ f_size f * f_maxp f <= int64_max.
Definition files_ok (l : list (fkey * file)) : Prop := forall kf, In kf l -> file_ok (snd kf).

Lemma contrib_nonneg a kf : file_ok (snd kf) -> 0 <= contrib a kf.
Proof. unfold contrib, file_ok. intros (A & B & _). destruct (_ && _); nia. Qed.

Lemma plan_sum_nonneg l a : files_ok l -> 0 <= plan_sum l a.
Proof.
  induction l as [|kf r IH]; cbn; intros H; [lia|].
  pose proof (contrib_nonneg a kf (H kf (or_introl eq_refl))).
  assert (0 <= plan_sum r a) by (apply IH; intros x Hx; apply H; right; exact Hx). lia.
Qed.

Lemma plan_sum_adel l k f a :
  NoDup (akeys l) -> aget fkey_eqb l k = Some f ->
  plan_sum (adel fkey_eqb l k) a = plan_sum l a - contrib a (k, f).
Proof.
  induction l as [|[k' f'] r IH]; cbn; intros ND H; [discriminate|].
  inversion ND as [|? ? Hn Hr]; subst.
  destruct (fkey_eqb k k') eqn:E.
  - apply fkey_eqb_spec in E. subst k'. inversion H; subst f'.
    rewrite (adel_absent fkey_eqb) by (apply (aget_none_notin fkey_eqb fkey_eqb_spec); exact Hn). lia.
  - cbn. rewrite (IH Hr H). lia.
Qed.

Lemma plan_sum_aset_new l k f a :
  aget fkey_eqb l k = None -> plan_sum (aset fkey_eqb l k f) a = plan_sum l a + contrib a (k, f).
Proof.
  induction l as [|[k' f'] r IH]; cbn; intros H; [lia|].
  destruct (fkey_eqb k k') eqn:E; [discriminate|]. cbn. rewrite (IH H). lia.
Qed.

Lemma plan_sum_aset_same l k f f' a :
  aget fkey_eqb l k = Some f -> contrib a (k, f') = contrib a (k, f) ->
  plan_sum (aset fkey_eqb l k f') a = plan_sum l a.
Proof.
  induction l as [|[k' f0] r IH]; cbn; intros H C; [discriminate|].
  destruct (fkey_eqb k k') eqn:E.
  - apply fkey_eqb_spec in E. subst k'. inversion H; subst f0. cbn. lia.
  - cbn. rewrite (IH H C). lia.
Qed.

Lemma plan_sum_zero l a :
  (forall k f, In (k, f) l -> k_owner k = a -> plan_paid f = true -> False) -> plan_sum l a = 0.
Proof.
  induction l as [|[k f] r IH]; cbn; intros H; [reflexivity|].
  rewrite IH by (intros k0 f0 Hin; apply (H k0 f0); right; exact Hin).
  unfold contrib. cbn. destruct (N.eqb (k_owner k) a) eqn:E; cbn; [|lia].
  destruct (plan_paid f) eqn:P; [|lia]. exfalso. apply (H k f); [left; reflexivity | apply N.eqb_eq; exact E | exact P].
Qed.

Lemma plan_sum_ge_member l k f a :
  NoDup (akeys l) -> files_ok l -> aget fkey_eqb l k = Some f -> contrib a (k, f) <= plan_sum l a.
Proof.
  intros ND OK H. pose proof (plan_sum_adel l k f a ND H) as E.
  assert (0 <= plan_sum (adel fkey_eqb l k) a).
  { apply plan_sum_nonneg. intros x Hx. apply OK. exact (proj1 (in_adel fkey_eqb fkey_eqb_spec l k x Hx)). }
  lia.
Qed.

(* ---------- the invariant *)
Record Inv (s : state) : Prop := {
  inv_ndp : NoDup (akeys (plans s));
  inv_ndf : NoDup (akeys (files s));
  (* live files passed ValidateBasic; a file posted against a plan has an owner with a plan record *)
  inv_files : forall k f, In (k, f) (files s) ->
      file_ok f /\ (plan_paid f = true -> get_plan s (k_owner k) <> None);
  (* every plan: used = footprint of the live plan-paid files of its account, within [0, available] *)
  inv_plans : forall a p, get_plan s a = Some p ->
      p_used p = plan_sum (files s) a /\ 0 <= p_used p <= p_avail p /\ p_avail p <= int64_max
}.

Lemma inv_init : Inv init.
Proof.
  split; cbn; [constructor | constructor | intros k f [] | intros x p H; discriminate].
Qed.

Lemma inv_files_ok s : Inv s -> files_ok (files s).
Proof. intros I [k f] H. exact (proj1 (inv_files s I k f H)). Qed.

Lemma footprint_ok f : file_ok f -> footprint f = f_size f * f_maxp f /\ 0 < footprint f <= int64_max.
Proof.
  unfold file_ok, footprint. intros (A & B & C).
  rewrite wrap64_id by (unfold int64_min, int64_max in *; nia). nia.
Qed.

(* ---------- RemoveFile *)
Definition clamp0 (u : Z) : Z := if u <? 0 then 0 else u.

Lemma remove_file_absent s k : get_file s k = None -> remove_file s k = s.
Proof. unfold remove_file. intros ->. reflexivity. Qed.

Lemma remove_file_files s k : files (remove_file s k) = adel fkey_eqb (files s) k.
Proof.
  unfold remove_file. destruct (get_file s k) as [f|] eqn:G.
  - cbn. destruct (plan_paid f); [destruct (get_plan s (k_owner k))|]; reflexivity.
  - symmetry. apply (adel_absent fkey_eqb). exact G.
Qed.

Lemma remove_file_gone s k : get_file (remove_file s k) k = None.
Proof. unfold get_file. rewrite remove_file_files. apply aget_adel_same. Qed.

Lemma remove_file_plans_raw s k f a :
  get_file s k = Some f ->
  get_plan (remove_file s k) a =
    match get_plan s a with
    | None => None
    | Some p => Some (if N.eqb a (k_owner k) && plan_paid f
                      then with_used p (clamp0 (wrap64 (p_used p - footprint f))) else p)
    end.
Proof.
  intros G. unfold remove_file. rewrite G. unfold get_plan at 1. cbn [plans].
  destruct (plan_paid f) eqn:P.
  - destruct (get_plan s (k_owner k)) as [p0|] eqn:GP.
    + unfold set_plan. cbn [plans]. destruct (N.eqb a (k_owner k)) eqn:E.
      * apply N.eqb_eq in E. subst a. rewrite (aget_aset_same N.eqb neqb_spec).
        unfold get_plan in GP |- *. rewrite GP. reflexivity.
      * rewrite (aget_aset_other N.eqb neqb_spec) by (intros ->; rewrite N.eqb_refl in E; discriminate).
        unfold get_plan. destruct (aget N.eqb (plans s) a); reflexivity.
    + unfold get_plan in *. destruct (N.eqb a (k_owner k)) eqn:E.
      * apply N.eqb_eq in E. subst a. rewrite GP. reflexivity.
      * destruct (aget N.eqb (plans s) a); reflexivity.
  - rewrite andb_false_r. unfold get_plan. destruct (aget N.eqb (plans s) a); reflexivity.
Qed.

Lemma with_used_same p : with_used p (p_used p) = p.
Proof. destruct p. reflexivity. Qed.

(* under the invariant nothing wraps and nothing is clamped: the plan gets back exactly the footprint *)
Lemma remove_file_plans s k f a :
  Inv s -> get_file s k = Some f ->
  get_plan (remove_file s k) a =
    match get_plan s a with
    | None => None
    | Some p => Some (with_used p (p_used p - contrib a (k, f)))
    end.
Proof.
  intros I G. rewrite (remove_file_plans_raw s k f a G).
  destruct (get_plan s a) as [p|] eqn:GP; [|reflexivity]. f_equal.
  pose proof (aget_in fkey_eqb fkey_eqb_spec _ _ _ G) as Hin.
  destruct (inv_files s I k f Hin) as [FO _].
  destruct (footprint_ok f FO) as [FE FR].
  unfold contrib. cbn [fst snd]. rewrite (N.eqb_sym (k_owner k) a).
  destruct (N.eqb a (k_owner k) && plan_paid f) eqn:C.
  - destruct (inv_plans s I a p GP) as (U & R & M).
    pose proof (plan_sum_ge_member (files s) k f a (inv_ndf s I) (inv_files_ok s I) G) as GE.
    unfold contrib in GE. cbn [fst snd] in GE. rewrite (N.eqb_sym (k_owner k) a), C in GE.
    rewrite FE. rewrite wrap64_id by (unfold int64_min, int64_max in *; lia).
    unfold clamp0. destruct (Z.ltb_spec (p_used p - f_size f * f_maxp f) 0); [lia | reflexivity].
  - rewrite Z.sub_0_r. symmetry. apply with_used_same.
Qed.

Lemma remove_file_inv s k : Inv s -> Inv (remove_file s k).
Proof.
  intros I. destruct (get_file s k) as [f|] eqn:G; [|rewrite remove_file_absent by exact G; exact I].
  assert (PL : forall a, get_plan (remove_file s k) a =
     match get_plan s a with None => None | Some p => Some (with_used p (p_used p - contrib a (k, f))) end)
    by (intros a; apply remove_file_plans; assumption).
  split.
  - unfold remove_file. rewrite G. cbn [plans].
    destruct (plan_paid f); [destruct (get_plan s (k_owner k))|]; cbn [plans set_plan];
      try apply (nodup_aset N.eqb neqb_spec); exact (inv_ndp s I).
  - rewrite remove_file_files. apply (nodup_adel fkey_eqb fkey_eqb_spec). exact (inv_ndf s I).
  - intros k0 f0 Hin. rewrite remove_file_files in Hin.
    apply (in_adel fkey_eqb fkey_eqb_spec) in Hin. destruct Hin as [Hin _].
    destruct (inv_files s I k0 f0 Hin) as [FO HP]. split; [exact FO|].
    intros P. specialize (HP P). rewrite PL. destruct (get_plan s (k_owner k0)); [discriminate | contradiction].
  - intros a p' H. rewrite PL in H. destruct (get_plan s a) as [p|] eqn:GP; [|discriminate].
    inversion H; subst p'. clear H. cbn [with_used p_used p_avail].
    destruct (inv_plans s I a p GP) as (U & R & M).
    rewrite remove_file_files, (plan_sum_adel _ k f a (inv_ndf s I) G).
    pose proof (plan_sum_ge_member (files s) k f a (inv_ndf s I) (inv_files_ok s I) G).
    pose proof (contrib_nonneg a (k, f) (proj1 (inv_files s I k f (aget_in fkey_eqb fkey_eqb_spec _ _ _ G)))).
    repeat split; lia.
Qed.

(* ---------- storing a new file *)
Lemma add_payonce_inv s k f :
  Inv s -> get_file s k = None -> file_ok f -> plan_paid f = false ->
  Inv {| plans := plans s; files := aset fkey_eqb (files s) k f |}.
Proof.
  intros I G FO P. split; cbn [plans files].
  - exact (inv_ndp s I).
  - apply (nodup_aset fkey_eqb fkey_eqb_spec). exact (inv_ndf s I).
  - intros k0 f0 Hin. apply (in_aset fkey_eqb) in Hin. destruct Hin as [E|Hin].
    + inversion E; subst. split; [exact FO|]. rewrite P. discriminate.
    + exact (inv_files s I k0 f0 Hin).
  - intros a p H. unfold get_plan in H. cbn [plans] in H.
    destruct (inv_plans s I a p H) as (U & R & M).
    rewrite (plan_sum_aset_new _ k f a G). unfold contrib. cbn [snd]. rewrite P, andb_false_r.
    repeat split; lia.
Qed.

Lemma add_planpaid_inv s k f p :
  Inv s -> get_file s k = None -> file_ok f -> plan_paid f = true ->
  get_plan s (k_owner k) = Some p -> p_used p + f_size f * f_maxp f <= p_avail p ->
  Inv {| plans := aset N.eqb (plans s) (k_owner k) (with_used p (p_used p + f_size f * f_maxp f));
         files := aset fkey_eqb (files s) k f |}.
Proof.
  intros I G FO P GP LE. split; cbn [plans files].
  - apply (nodup_aset N.eqb neqb_spec). exact (inv_ndp s I).
  - apply (nodup_aset fkey_eqb fkey_eqb_spec). exact (inv_ndf s I).
  - intros k0 f0 Hin. unfold get_plan. cbn [plans]. apply (in_aset fkey_eqb) in Hin. destruct Hin as [E|Hin].
    + inversion E; subst. split; [exact FO|]. intros _. rewrite (aget_aset_same N.eqb neqb_spec). discriminate.
    + destruct (inv_files s I k0 f0 Hin) as [FO0 HP]. split; [exact FO0|]. intros P0.
      apply (aget_some_aset_other N.eqb neqb_spec). exact (HP P0).
  - intros a q H. unfold get_plan in H. cbn [plans] in H.
    rewrite (plan_sum_aset_new _ k f a G). unfold contrib. cbn [fst snd]. rewrite P, andb_true_r.
    destruct (N.eqb (k_owner k) a) eqn:E.
    + apply N.eqb_eq in E. subst a. rewrite (aget_aset_same N.eqb neqb_spec) in H. inversion H; subst q.
      cbn [with_used p_used p_avail]. destruct (inv_plans s I _ p GP) as (U & R & M).
      destruct FO as (A & B & C). repeat split; nia.
    + rewrite (aget_aset_other N.eqb neqb_spec) in H by (intros ->; rewrite N.eqb_refl in E; discriminate).
      destruct (inv_plans s I a q H) as (U & R & M). repeat split; lia.
Qed.

(* MsgPostFile.ValidateBasic *)
Lemma validate_basic_ok sz mp :
  (sz <=? 0) = false -> (mp <=? 0) = false -> (sz >? Z.quot int64_max mp) = false ->
  0 < sz /\ 0 < mp /\ sz * mp <= int64_max.
Proof.
  intros A B C. assert (0 < sz) by lia. assert (0 < mp) by lia. repeat split; try assumption.
  assert (sz <= Z.quot int64_max mp) by lia.
  rewrite Z.quot_div_nonneg in H1 by (unfold int64_max; lia).
  pose proof (Z.mul_div_le int64_max mp H0). nia.
Qed.

Definition post_key (h : Z) (m : post_msg) : fkey := (pm_merkle m, pm_creator m, h).
Definition post_new (w : Z) (m : post_msg) : file :=
  {| f_size := pm_size m; f_maxp := pm_maxp m; f_expires := pm_expires m; f_pi := w; f_provers := 0 |}.

Lemma post_file_inv s h now w m : Inv s -> Inv (fst (post_file s h now w m)).
Proof.
  intros I. unfold post_file.
  destruct (pm_size m <=? 0) eqn:V1; [exact I|].
  destruct (pm_maxp m <=? 0) eqn:V2; [exact I|].
  destruct (pm_size m >? Z.quot int64_max (pm_maxp m)) eqn:V3; [exact I|].
  destruct (negb (pm_note_ok m)); [exact I|].
  pose proof (validate_basic_ok _ _ V1 V2 V3) as FO.
  fold (post_key h m). fold (post_new w m).
  set (s1 := remove_file s (post_key h m)).
  assert (I1 : Inv s1) by (apply remove_file_inv; exact I).
  assert (G1 : get_file s1 (post_key h m) = None) by apply remove_file_gone.
  assert (FOK : file_ok (post_new w m)) by exact FO.
  destruct (pm_expires m >? 0) eqn:EX.
  - destruct (post_days (pm_expires m) h <=? 0); [exact I|].
    destruct (pm_pay_ok m); [|exact I]. cbn [fst].
    apply add_payonce_inv; try assumption. unfold plan_paid, post_new. cbn. lia.
  - unfold get_plan at 1. cbn [plans]. fold (get_plan s1 (pm_creator m)).
    destruct (get_plan s1 (pm_creator m)) as [p|] eqn:GP; [|exact I].
    destruct (p_end p <? now); [exact I|].
    destruct (inv_plans s1 I1 _ p GP) as (U & R & M).
    destruct FO as (A & B & C).
    rewrite (wrap64_id (pm_size m * pm_maxp m)) by (unfold int64_min, int64_max in *; nia).
    rewrite (wrap64_id (p_avail p - p_used p)) by (unfold int64_min, int64_max in *; lia).
    destruct (pm_size m * pm_maxp m >? p_avail p - p_used p) eqn:SP; [exact I|].
    cbn [fst]. rewrite wrap64_id by (unfold int64_min, int64_max in *; nia).
    unfold set_plan. cbn [plans files].
    change (pm_creator m) with (k_owner (post_key h m)).
    apply (add_planpaid_inv s1 (post_key h m) (post_new w m) p); try assumption.
    + unfold plan_paid, post_new. cbn. lia.
    + cbn [post_new f_size f_maxp]. lia.
Qed.

(* ---------- DeleteFile, reward blocks, prover changes *)
Lemma delete_file_inv s c mk st : Inv s -> Inv (fst (delete_file s c mk st)).
Proof. intros I. cbn. apply remove_file_inv. exact I. Qed.

Lemma drop_fold_inv h l s : Inv s -> Inv (fold_left (drop_step h) l s).
Proof.
  revert s. induction l as [|kf r IH]; cbn; intros s I; [exact I|].
  apply IH. unfold drop_step. destruct (dropped h kf); [apply remove_file_inv|]; exact I.
Qed.

Lemma reward_block_inv s h cw : Inv s -> Inv (reward_block s h cw).
Proof.
  intros I. unfold reward_block. destruct (Z.rem h cw >? 0); [exact I|]. apply drop_fold_inv. exact I.
Qed.

Lemma set_provers_inv s k n : Inv s -> Inv (set_provers s k n).
Proof.
  intros I. unfold set_provers. destruct (get_file s k) as [f|] eqn:G; [|exact I].
  pose proof (aget_in fkey_eqb fkey_eqb_spec _ _ _ G) as Hin.
  destruct (inv_files s I k f Hin) as [FO HP].
  split; cbn [plans files].
  - exact (inv_ndp s I).
  - apply (nodup_aset fkey_eqb fkey_eqb_spec). exact (inv_ndf s I).
  - intros k0 f0 H0. apply (in_aset fkey_eqb) in H0. destruct H0 as [E|H0].
    + inversion E; subst. split; [exact FO|]. exact HP.
    + exact (inv_files s I k0 f0 H0).
  - intros a p H. unfold get_plan in H. cbn [plans] in H.
    destruct (inv_plans s I a p H) as (U & R & M).
    rewrite (plan_sum_aset_same _ k f _ a G) by reflexivity. repeat split; lia.
Qed.

(* ---------- BuyStorage *)
Lemma buy_storage_inv s now m : Inv s -> bm_bytes m <= int64_max -> Inv (fst (buy_storage s now m)).
Proof.
  intros I BM. unfold buy_storage.
  destruct (bm_days m <=? 0); [exact I|].
  destruct (negb (bm_resolve_ok m)); [exact I|].
  destruct (buy_duration (bm_days m) <? month_ns); [exact I|].
  destruct (Z.quot (bm_bytes m) gb <=? 0) eqn:GB; [exact I|].
  destruct (negb (bm_denom_ok m)); [exact I|].
  assert (POS : 0 < bm_bytes m).
  { destruct (Z.ltb_spec 0 (bm_bytes m)) as [L|L]; [exact L|]. exfalso.
    assert (Z.quot (bm_bytes m) gb <= 0); [|lia].
    rewrite <- (Z.opp_involutive (bm_bytes m)), Z.quot_opp_l by (unfold gb; lia).
    assert (0 <= Z.quot (- bm_bytes m) gb) by (apply Z.quot_pos; unfold gb; lia). lia. }
  set (blocked := match get_plan s (bm_for m) with Some p => _ | None => false end).
  destruct blocked eqn:BL; [exact I|].
  destruct (negb (bm_pay_ok m)); [exact I|]. cbn [fst].
  split; cbn [set_plan plans files].
  - apply (nodup_aset N.eqb neqb_spec). exact (inv_ndp s I).
  - exact (inv_ndf s I).
  - intros k f Hin. destruct (inv_files s I k f Hin) as [FO HP]. split; [exact FO|]. intros P.
    unfold get_plan. cbn [plans]. apply (aget_some_aset_other N.eqb neqb_spec). exact (HP P).
  - intros a q H. unfold get_plan, set_plan in H. cbn [plans] in H.
    destruct (N.eqb a (bm_for m)) eqn:E.
    + apply N.eqb_eq in E. subst a. rewrite (aget_aset_same N.eqb neqb_spec) in H. inversion H; subst q. clear H.
      cbn [p_used p_avail]. subst blocked.
      change (aget N.eqb (plans s) (bm_for m)) with (get_plan s (bm_for m)).
      destruct (get_plan s (bm_for m)) as [p|] eqn:GP.
      * destruct (inv_plans s I _ p GP) as (U & R & M).
        cbn beta iota in BL |- *. cbn [p_used p_avail].
        destruct (p_used p >? bm_bytes m) eqn:C; [discriminate|]. repeat split; lia.
      * cbn beta iota. cbn [p_used p_avail]. rewrite (plan_sum_zero (files s) (bm_for m)); [repeat split; lia|].
        intros k f Hin O P. destruct (inv_files s I k f Hin) as [_ HP]. apply (HP P). rewrite O. exact GP.
    + rewrite (aget_aset_other N.eqb neqb_spec) in H by (intros ->; rewrite N.eqb_refl in E; discriminate).
      exact (inv_plans s I a q H).
Qed.

(* ---------- all histories *)
(* message fields are Go int64 values; the only place where that matters is the size of a bought plan *)
Definition op_wf (o : op) : Prop :=
  match o with OpBuy _ m => bm_bytes m <= int64_max | _ => True end.

Lemma step_inv s o : Inv s -> op_wf o -> Inv (step s o).
Proof.
  intros I W. destruct o; unfold step; cbn [apply].
  - apply buy_storage_inv; assumption.
  - apply post_file_inv; assumption.
  - apply delete_file_inv; assumption.
  - cbn [fst]. apply reward_block_inv; assumption.
  - cbn [fst]. apply set_provers_inv; assumption.
Qed.

Lemma run_inv ops : forall s, Inv s -> Forall op_wf ops -> Inv (run s ops).
Proof.
  induction ops as [|o r IH]; intros s I W; [exact I|].
  inversion W; subst. cbn. apply IH; [apply step_inv|]; assumption.
Qed.

Lemma space_used_matches_live_files ops s a p :
  Inv s -> Forall op_wf ops -> get_plan (run s ops) a = Some p ->
  p_used p = plan_sum (files (run s ops)) a /\ 0 <= p_used p <= p_avail p.
Proof.
  intros I W G. destruct (inv_plans _ (run_inv ops s I W) a p G) as (U & R & _). split; assumption.
Qed.

(* ---------- PostFile: rejections and acceptance *)
Lemma post_fail_unchanged s h now w m :
  snd (post_file s h now w m) <> PlOk -> fst (post_file s h now w m) = s.
Proof.
  unfold post_file.
  repeat match goal with
  | |- context [if ?c then _ else _] => destruct c
  | |- context [match ?c with Some _ => _ | None => _ end] => destruct c
  end; cbn; intros H; try reflexivity; exfalso; apply H; reflexivity.
Qed.

Lemma post_out_not_panic s h now w m : snd (post_file s h now w m) <> PlPanic.
Proof.
  unfold post_file.
  repeat match goal with
  | |- context [if ?c then _ else _] => destruct c
  | |- context [match ?c with Some _ => _ | None => _ end] => destruct c
  end; cbn; discriminate.
Qed.

(* what a file already stored under the posted key gives back to the creator's plan *)
Definition released (s : state) (h : Z) (m : post_msg) : Z :=
  match get_file s (post_key h m) with
  | Some f => contrib (pm_creator m) (post_key h m, f)
  | None => 0
  end.

Lemma plan_after_release s h m :
  Inv s ->
  get_plan (remove_file s (post_key h m)) (pm_creator m) =
  match get_plan s (pm_creator m) with
  | None => None
  | Some p => Some (with_used p (p_used p - released s h m))
  end.
Proof.
  intros I. unfold released. destruct (get_file s (post_key h m)) as [f|] eqn:G.
  - apply remove_file_plans; assumption.
  - rewrite remove_file_absent by exact G. destruct (get_plan s (pm_creator m)) as [p|]; [|reflexivity].
    rewrite Z.sub_0_r, with_used_same. reflexivity.
Qed.

Lemma post_rejects_without_plan_or_space s h now w m :
  Inv s -> pm_expires m <= 0 ->
  (get_plan s (pm_creator m) = None \/
   exists p, get_plan s (pm_creator m) = Some p /\
     (p_end p < now \/ pm_size m * pm_maxp m > p_avail p - (p_used p - released s h m))) ->
  post_file s h now w m = (s, PlFail).
Proof.
  intros I EX H. unfold post_file.
  destruct (pm_size m <=? 0) eqn:V1; [reflexivity|].
  destruct (pm_maxp m <=? 0) eqn:V2; [reflexivity|].
  destruct (pm_size m >? Z.quot int64_max (pm_maxp m)) eqn:V3; [reflexivity|].
  destruct (negb (pm_note_ok m)); [reflexivity|].
  destruct (validate_basic_ok _ _ V1 V2 V3) as (A & B & C).
  fold (post_key h m).
  replace (pm_expires m >? 0) with false by lia.
  unfold get_plan at 1. cbn [plans]. fold (get_plan (remove_file s (post_key h m)) (pm_creator m)).
  pose proof (remove_file_inv s (post_key h m) I) as I1.
  pose proof (plan_after_release s h m I) as PR.
  destruct H as [H|(p & GP & H)].
  - rewrite H in PR. rewrite PR. reflexivity.
  - rewrite GP in PR. rewrite PR. cbn [with_used p_end p_avail p_used].
    destruct (inv_plans _ I1 _ _ PR) as (_ & R & M). cbn [with_used p_used p_avail] in R, M.
    destruct (Z.ltb_spec (p_end p) now) as [L|L]; [reflexivity|].
    destruct H as [H|H]; [lia|].
    rewrite (wrap64_id (pm_size m * pm_maxp m)) by (unfold int64_min, int64_max in *; nia).
    rewrite (wrap64_id (p_avail p - _)) by (unfold int64_min, int64_max in *; lia).
    destruct (Z.gtb_spec (pm_size m * pm_maxp m) (p_avail p - (p_used p - released s h m))); [reflexivity | lia].
Qed.

Lemma post_accepts_eq s h now w m p :
  Inv s -> pm_expires m <= 0 ->
  0 < pm_size m -> 0 < pm_maxp m -> pm_size m * pm_maxp m <= int64_max -> pm_note_ok m = true ->
  get_plan s (pm_creator m) = Some p -> now <= p_end p ->
  pm_size m * pm_maxp m <= p_avail p - (p_used p - released s h m) ->
  post_file s h now w m =
  ({| plans := aset N.eqb (plans (remove_file s (post_key h m))) (pm_creator m)
                 (with_used p (p_used p - released s h m + pm_size m * pm_maxp m));
      files := aset fkey_eqb (files (remove_file s (post_key h m))) (post_key h m) (post_new w m) |}, PlOk).
Proof.
  intros I EX A B C NO GP LV SP. unfold post_file.
  replace (pm_size m <=? 0) with false by lia.
  replace (pm_maxp m <=? 0) with false by lia.
  assert (V3 : (pm_size m >? Z.quot int64_max (pm_maxp m)) = false).
  { rewrite Z.quot_div_nonneg by (unfold int64_max; lia).
    assert (pm_size m <= int64_max / pm_maxp m); [|lia].
    apply Z.div_le_lower_bound; [lia|]. rewrite Z.mul_comm. exact C. }
  rewrite V3, NO. cbn [negb].
  fold (post_key h m). fold (post_new w m).
  replace (pm_expires m >? 0) with false by lia.
  unfold get_plan at 1. cbn [plans]. fold (get_plan (remove_file s (post_key h m)) (pm_creator m)).
  pose proof (remove_file_inv s (post_key h m) I) as I1.
  pose proof (plan_after_release s h m I) as PR. rewrite GP in PR. rewrite PR.
  cbn [with_used p_end p_avail p_used].
  destruct (inv_plans _ I1 _ _ PR) as (_ & R & M). cbn [with_used p_used p_avail] in R, M.
  replace (p_end p <? now) with false by lia.
  rewrite (wrap64_id (pm_size m * pm_maxp m)) by (unfold int64_min, int64_max in *; nia).
  rewrite (wrap64_id (p_avail p - _)) by (unfold int64_min, int64_max in *; lia).
  replace (pm_size m * pm_maxp m >? p_avail p - (p_used p - released s h m)) with false by lia.
  rewrite wrap64_id by (unfold int64_min, int64_max in *; lia).
  unfold set_plan, with_used. cbn [plans files p_avail p_used p_end]. reflexivity.
Qed.

Lemma post_accepts_within_space s h now w m p :
  Inv s -> pm_expires m <= 0 ->
  0 < pm_size m -> 0 < pm_maxp m -> pm_size m * pm_maxp m <= int64_max -> pm_note_ok m = true ->
  get_plan s (pm_creator m) = Some p -> now <= p_end p ->
  pm_size m * pm_maxp m <= p_avail p - (p_used p - released s h m) ->
  snd (post_file s h now w m) = PlOk /\
  get_plan (fst (post_file s h now w m)) (pm_creator m) =
    Some (with_used p (p_used p - released s h m + pm_size m * pm_maxp m)) /\
  get_file (fst (post_file s h now w m)) (post_key h m) = Some (post_new w m) /\
  (forall a, a <> pm_creator m -> get_plan (fst (post_file s h now w m)) a = get_plan s a) /\
  (forall k, k <> post_key h m -> get_file (fst (post_file s h now w m)) k = get_file s k).
Proof.
  intros I EX A B C NO GP LV SP.
  rewrite (post_accepts_eq s h now w m p) by assumption.
  cbn [fst snd]. unfold get_plan, get_file. cbn [plans files].
  split; [reflexivity|]. split; [|split; [|split]].
  - rewrite (aget_aset_same N.eqb neqb_spec). reflexivity.
  - rewrite (aget_aset_same fkey_eqb fkey_eqb_spec). reflexivity.
  - intros a NE. rewrite (aget_aset_other N.eqb neqb_spec) by exact NE.
    fold (get_plan (remove_file s (post_key h m)) a). fold (get_plan s a).
    destruct (get_file s (post_key h m)) as [f|] eqn:G.
    + rewrite (remove_file_plans s _ f a I G). destruct (get_plan s a) as [q|] eqn:GQ; [|reflexivity].
      unfold contrib. cbn [fst snd post_key k_owner].
      replace (N.eqb (pm_creator m) a) with false by (symmetry; apply N.eqb_neq; congruence).
      cbn [andb]. rewrite Z.sub_0_r, with_used_same. reflexivity.
    + rewrite remove_file_absent by exact G. reflexivity.
  - intros k NE. rewrite (aget_aset_other fkey_eqb fkey_eqb_spec) by exact NE.
    rewrite remove_file_files. apply (aget_adel_other fkey_eqb fkey_eqb_spec). exact NE.
Qed.

(* ---------- removal hands the footprint back *)
Lemma remove_file_others s k k' : k' <> k -> get_file (remove_file s k) k' = get_file s k'.
Proof.
  intros NE. unfold get_file. rewrite remove_file_files.
  apply (aget_adel_other fkey_eqb fkey_eqb_spec). exact NE.
Qed.

Lemma delete_returns_footprint s c mk st f :
  Inv s -> get_file s (mk, c, st) = Some f ->
  get_file (fst (delete_file s c mk st)) (mk, c, st) = None /\
  (forall k, k <> (mk, c, st) -> get_file (fst (delete_file s c mk st)) k = get_file s k) /\
  (forall a, get_plan (fst (delete_file s c mk st)) a =
     match get_plan s a with
     | None => None
     | Some p => Some (with_used p (p_used p - contrib a ((mk, c, st), f)))
     end).
Proof.
  intros I G. cbn. split; [apply remove_file_gone|]. split.
  - intros k NE. apply remove_file_others. exact NE.
  - intros a. apply remove_file_plans; assumption.
Qed.

Lemma delete_absent_unchanged s c mk st :
  get_file s (mk, c, st) = None -> fst (delete_file s c mk st) = s.
Proof. intros G. cbn. apply remove_file_absent. exact G. Qed.

(* footprints of an account's plan-paid files that a reward block at height h drops *)
Fixpoint dropped_sum (h : Z) (l : list (fkey * file)) (a : N) : Z :=
  match l with
  | [] => 0
  | kf :: r => (if dropped h kf then contrib a kf else 0) + dropped_sum h r a
  end.

Lemma with_used_twice p u v : with_used (with_used p u) v = with_used p v.
Proof. reflexivity. Qed.

Lemma drop_fold_spec h l : forall s,
  Inv s -> NoDup (akeys l) -> (forall k f, In (k, f) l -> get_file s k = Some f) ->
  (forall k, get_file (fold_left (drop_step h) l s) k =
     match aget fkey_eqb l k with
     | Some f => if dropped h (k, f) then None else get_file s k
     | None => get_file s k
     end) /\
  (forall a, get_plan (fold_left (drop_step h) l s) a =
     match get_plan s a with
     | None => None
     | Some p => Some (with_used p (p_used p - dropped_sum h l a))
     end).
Proof.
  induction l as [|[k0 f0] r IH]; intros s I ND HL; cbn [fold_left].
  - cbn. split; [reflexivity|]. intros a. destruct (get_plan s a) as [p|]; [|reflexivity].
    rewrite Z.sub_0_r, with_used_same. reflexivity.
  - inversion ND as [|? ? Hn Hr]; subst.
    assert (G0 : get_file s k0 = Some f0) by (apply HL; left; reflexivity).
    assert (NR : aget fkey_eqb r k0 = None) by (apply (aget_none_notin fkey_eqb fkey_eqb_spec); exact Hn).
    assert (NK : forall k f, In (k, f) r -> k <> k0).
    { intros k f Hin ->. apply Hn. change k0 with (fst (k0, f)). apply in_map. exact Hin. }
    destruct (dropped h (k0, f0)) eqn:D;
      [assert (DS : drop_step h s (k0, f0) = remove_file s k0) by (unfold drop_step; rewrite D; reflexivity)
      |assert (DS : drop_step h s (k0, f0) = s) by (unfold drop_step; rewrite D; reflexivity)]; rewrite DS.
    + assert (I1 : Inv (remove_file s k0)) by (apply remove_file_inv; exact I).
      assert (HL1 : forall k f, In (k, f) r -> get_file (remove_file s k0) k = Some f).
      { intros k f Hin. rewrite remove_file_others by (exact (NK k f Hin)). apply HL. right. exact Hin. }
      destruct (IH (remove_file s k0) I1 Hr HL1) as [HF HP]. split.
      * intros k. rewrite HF. cbn [aget]. destruct (fkey_eqb k k0) eqn:E.
        -- apply fkey_eqb_spec in E. subst k. rewrite NR, D. apply remove_file_gone.
        -- assert (k <> k0) by (intros ->; rewrite (proj2 (fkey_eqb_spec k0 k0) eq_refl) in E; discriminate).
           rewrite remove_file_others by assumption. reflexivity.
      * intros a. rewrite HP, (remove_file_plans s k0 f0 a I G0).
        destruct (get_plan s a) as [p|]; [|reflexivity]. cbn [dropped_sum]. rewrite D.
        rewrite with_used_twice. cbn [with_used p_used]. f_equal. f_equal. lia.
    + destruct (IH s I Hr (fun k f Hin => HL k f (or_intror Hin))) as [HF HP]. split.
      * intros k. rewrite HF. cbn [aget]. destruct (fkey_eqb k k0) eqn:E.
        -- apply fkey_eqb_spec in E. subst k. rewrite NR, D. reflexivity.
        -- reflexivity.
      * intros a. rewrite HP. destruct (get_plan s a) as [p|]; [|reflexivity]. cbn [dropped_sum]. rewrite D.
        reflexivity.
Qed.

Lemma reward_returns_footprints s h cw :
  Inv s -> Z.rem h cw <= 0 ->
  (forall k, get_file (reward_block s h cw) k =
     match get_file s k with
     | Some f => if dropped h (k, f) then None else Some f
     | None => None
     end) /\
  (forall a, get_plan (reward_block s h cw) a =
     match get_plan s a with
     | None => None
     | Some p => Some (with_used p (p_used p - dropped_sum h (files s) a))
     end).
Proof.
  intros I R. unfold reward_block. replace (Z.rem h cw >? 0) with false by lia.
  unfold drop_proverless.
  destruct (drop_fold_spec h (files s) s I (inv_ndf s I)
              (fun k f Hin => in_aget fkey_eqb fkey_eqb_spec _ _ _ (inv_ndf s I) Hin)) as [HF HP].
  split; [|exact HP].
  intros k. rewrite HF. unfold get_file. destruct (aget fkey_eqb (files s) k); reflexivity.
Qed.

Lemma reward_skipped s h cw : Z.rem h cw > 0 -> reward_block s h cw = s.
Proof. intros R. unfold reward_block. replace (Z.rem h cw >? 0) with true by lia. reflexivity. Qed.

(* the sum the invariant speaks about really is the sum over the live files: each key once *)
Lemma plan_sum_single l k f a :
  NoDup (akeys l) -> aget fkey_eqb l k = Some f ->
  plan_sum l a = contrib a (k, f) + plan_sum (adel fkey_eqb l k) a.
Proof. intros ND G. rewrite (plan_sum_adel l k f a ND G). lia. Qed.

(* ---------- GetClientFreeSpace *)
Lemma free_space_spec s a p :
  Inv s -> get_plan s a = Some p -> free_space s a = p_avail p - plan_sum (files s) a /\ 0 <= free_space s a.
Proof.
  intros I G. unfold free_space. rewrite G. destruct (inv_plans s I a p G) as (U & R & M).
  rewrite wrap64_id by (unfold int64_min, int64_max in *; lia). lia.
Qed.

(* ---------- BuyStorage: what it does to the plan *)
Lemma buy_fail_unchanged s now m : snd (buy_storage s now m) <> PlOk -> fst (buy_storage s now m) = s.
Proof.
  unfold buy_storage.
  repeat match goal with
  | |- context [if ?c then _ else _] => destruct c
  end; cbn; intros H; try reflexivity; exfalso; apply H; reflexivity.
Qed.

Lemma buy_refuses_below_usage s now m p :
  get_plan s (bm_for m) = Some p -> p_used p > bm_bytes m -> buy_storage s now m = (s, PlFail).
Proof.
  intros G L. unfold buy_storage. rewrite G. replace (p_used p >? bm_bytes m) with true by lia.
  repeat match goal with |- context [if ?c then _ else _] => destruct c end; reflexivity.
Qed.

Lemma buy_ok_carries_usage s now m :
  snd (buy_storage s now m) = PlOk ->
  get_plan (fst (buy_storage s now m)) (bm_for m) =
    Some {| p_avail := bm_bytes m;
            p_used := match get_plan s (bm_for m) with Some p => p_used p | None => 0 end;
            p_end := now + buy_duration (bm_days m) |} /\
  files (fst (buy_storage s now m)) = files s /\
  (forall a, a <> bm_for m -> get_plan (fst (buy_storage s now m)) a = get_plan s a).
Proof.
  unfold buy_storage.
  repeat match goal with
  | |- context [if ?c then _ else _] => destruct c
  end; cbn [fst snd]; try discriminate; intros _.
  unfold get_plan, set_plan. cbn [plans files]. split; [|split].
  - rewrite (aget_aset_same N.eqb neqb_spec). reflexivity.
  - reflexivity.
  - intros a NE. apply (aget_aset_other N.eqb neqb_spec). exact NE.
Qed.
