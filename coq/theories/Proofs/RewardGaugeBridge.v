(* Bridge between the two models of RunRewardBlock.

   Model/Rewards.v (C03) takes the coins that pullTokensFromGauges returns as an input [coins] of
   run_reward_block and credits them to the module account itself ([pull]); Model/Gauge.v (C12)
   computes, gauge by gauge, what pullTokensFromGauges moves from the gauge accounts into the
   module account (its [gs_pool]).  Here: the amount Gauge.v's reward block moves into the pool,
   per denomination, from a state satisfying Gauge's invariant, is a coin set satisfying what
   C03's payout theorems ask of the released coins, and equals the sum over the gauges of the
   closed form of C12.

   Translation.  Both models write a coin set as a list (denomination id, amount).
   - Gauge.v keeps one list of moved coins per gauge ([mv] of [pull_one]), with an entry (d, 0)
     for a denomination whose release truncates to 0.  [gauges_release] adds these lists up per
     denomination (coinsToDistribute.Add), [to_released] drops the zero entries (`if amt64 == 0
     { continue }`; sdk.Coins holds no zero coin): [to_released (gauges_release s now)] is the
     [coins] argument of Rewards.run_reward_block.
   - Gauge.v's module account is the coin list [gs_pool]; Rewards.v's is the row [macct] of its
     bank.  [pool_agrees] says they hold the same amounts. *)
From Coq Require Import ZArith NArith List Bool Lia.
From JK Require Import Base.Dec Base.AList Model.Rewards Proofs.RewardsProofs Proofs.RewardBlockProofs.
From JK Require Import Model.Gauge Proofs.GaugeProofs.
Import ListNotations.
Open Scope Z_scope.

(* ================= the translation functions ================= *)

(* what pull_one moves out of one gauge's account (Gauge.v computes it from the state the loop
   has reached; gauge ids are distinct, so that is the account as it was before the block) *)
Definition gauge_moved (now : Z) (s : gstate) (ig : N * gauge) : coins :=
  match pull_one now (snd ig) (escrow_of s (fst ig)) with
  | GDone _ _ mv => mv
  | GPanic => []
  end.

(* coinsToDistribute of Gauge.v's reward block: all moved coins added up per denomination *)
Definition gauges_release (s : gstate) (now : Z) : coins :=
  fold_left (fun acc ig => cadd acc (gauge_moved now s ig)) (gs_gauges s) [].

(* the [coins] input of Rewards.run_reward_block: no zero coin *)
Definition to_released (c : coins) : list (N * Z) := filter (fun p => negb (snd p =? 0)) c.

(* Rewards' bank row of the module account and Gauge's pool hold the same *)
Definition pool_agrees (macct : N) (b : bank) (pool : coins) : Prop :=
  forall d, bal b macct d = cval pool d.

(* ================= the closed form of one block's release ================= *)

(* the gauge is looked at by this block: not past its end, its account not empty *)
Definition gauge_live (now : Z) (g : gauge) (acct : coins) : bool :=
  negb (g_end g <? now) && negb (cempty acct).

(* C12's closed form for one gauge and one denomination: the cumulative amount the formula
   assigns to this block's time minus what has left the account already *)
Definition closed_release (now : Z) (g : gauge) (acct : coins) (d : N) : Z :=
  if gauge_live now g acct
  then cum_at (g_start g) (g_end g) (cval (g_coins g) d) now - (cval (g_coins g) d - cval acct d)
  else 0.

Definition release_sum (now : Z) (s : gstate) (d : N) : Z :=
  sumz (fun ig => closed_release now (snd ig) (escrow_of s (fst ig)) d) (gs_gauges s).

(* the same as a difference of two values of cum_at, when [lp id] is the instant up to which
   gauge id has released (its last reward block, or its start) *)
Definition synced (lp : N -> Z) (s : gstate) : Prop :=
  forall id g, aget N.eqb (gs_gauges s) id = Some g -> forall d,
    cval (g_coins g) d - cval (escrow_of s id) d = cum_at (g_start g) (g_end g) (cval (g_coins g) d) (lp id).

Definition release_diff (now : Z) (lp : N -> Z) (s : gstate) (d : N) : Z :=
  sumz (fun ig : N * gauge =>
          let g := snd ig in
          if gauge_live now g (escrow_of s (fst ig))
          then cum_at (g_start g) (g_end g) (cval (g_coins g) d) now
               - cum_at (g_start g) (g_end g) (cval (g_coins g) d) (lp (fst ig))
          else 0) (gs_gauges s).

(* ================= one gauge ================= *)

Lemma cum_at_zero start end_ t : wf_interval start end_ -> start <= t <= end_ -> cum_at start end_ 0 t = 0.
Proof. intros W T. pose proof (cum_at_range start end_ 0 t W T ltac:(lia)). lia. Qed.

Lemma pull_one_moved tl now g acct :
  gauge_ok tl g acct -> tl <= now ->
  exists keep b mv, pull_one now g acct = GDone keep b mv /\ NoDup (map fst mv) /\
    forall d, cval mv d = closed_release now g acct d /\ 0 <= cval mv d.
Proof.
  intros GOK Hle.
  destruct (pull_one_ok tl now g acct GOK Hle) as (keep & b & mv & P1 & CONS & NDM & P3 & P4).
  exists keep, b, mv. split; [exact P1|]. split; [exact NDM|].
  intros d. split; [|apply CONS]. unfold closed_release, gauge_live.
  destruct GOK as (S & W & ND & HC & HN).
  destruct keep.
  - destruct (P3 eq_refl) as (LE & GOK' & BB).
    destruct (Z.ltb_spec (g_end g) now) as [C|_]; [lia|].
    destruct (cempty acct) eqn:EM.
    { exfalso. unfold pull_one in P1. rewrite EM in P1.
      destruct (g_end g <? now); [discriminate|]. destruct (g_end g <=? g_start g); discriminate. }
    cbn [negb andb].
    assert (Tin : g_start g <= now <= g_end g) by lia.
    destruct (CONS d) as [C1 _].
    destruct (in_dec N.eq_dec d (map fst (g_coins g))) as [Hk|Hk].
    + apply in_map_iff in Hk as ([d' A] & E & HI). cbn in E. subst d'.
      rewrite (cval_in _ _ _ ND HI). destruct (HC d A HI) as [HA _].
      rewrite cum_at_closed by (try assumption; lia). rewrite (BB d A HI) in C1. lia.
    + destruct GOK' as (_ & _ & _ & _ & HN').
      rewrite (cval_notin _ _ Hk), cum_at_zero by assumption.
      rewrite (HN' d Hk) in C1. rewrite (HN d Hk) in *. lia.
  - destruct (P4 eq_refl) as (_ & -> & OR).
    assert (negb (g_end g <? now) && negb (cempty acct) = false) as ->.
    { destruct OR as [PE|EM]; [|rewrite EM; apply andb_false_r].
      destruct (Z.ltb_spec (g_end g) now); [reflexivity | lia]. }
    reflexivity.
Qed.

(* ================= the loop over the gauges ================= *)

Lemma release_fold tl now s0 : tl <= now ->
  forall rest st acc, NoDup (akeys rest) -> NoDup (map fst acc) ->
    (forall id g, In (id, g) rest -> escrow_of st id = escrow_of s0 id /\ gauge_ok tl g (escrow_of s0 id)) ->
    exists st', fold_left (rstep now) rest (Some st) = Some st' /\
      let acc' := fold_left (fun acc ig => cadd acc (gauge_moved now s0 ig)) rest acc in
      let sm := fun d => sumz (fun ig => closed_release now (snd ig) (escrow_of s0 (fst ig)) d) rest in
      NoDup (map fst acc') /\
      (forall d, 0 <= sm d) /\
      (forall d, cval acc' d = cval acc d + sm d) /\
      (forall d, cval (gs_pool st') d = cval (gs_pool st) d + sm d).
Proof.
  intros Hle. induction rest as [|[id0 g0] r IH]; intros st acc ND NDA HG.
  - exists st. cbn. split; [reflexivity|]. split; [exact NDA|]. split; [lia|]. split; intros d; lia.
  - inversion ND as [|? ? Hn Hr]; subst.
    destruct (HG id0 g0 (or_introl eq_refl)) as [E0 GOK].
    destruct (pull_one_moved tl now g0 (escrow_of s0 id0) GOK Hle) as (keep & b & mv & P1 & NDM & MV).
    cbn [fold_left rstep pull_gauge]. rewrite E0, P1.
    assert (GM : gauge_moved now s0 (id0, g0) = mv) by (unfold gauge_moved; cbn [fst snd]; rewrite P1; reflexivity).
    rewrite GM.
    set (st1 := {| gs_gauges := if keep then gs_gauges st else adel N.eqb (gs_gauges st) id0;
                   gs_escrow := aset N.eqb (gs_escrow st) id0 b;
                   gs_pool := cadd (gs_pool st) mv |}).
    assert (E1 : forall id, escrow_of st1 id = if N.eqb id id0 then b else escrow_of st id).
    { intros id. unfold st1. apply escrow_of_aset. reflexivity. }
    destruct (IH st1 (cadd acc mv) Hr) as (st' & F & NA' & S0 & A' & P').
    { apply nodup_cadd. exact NDA. }
    { intros id g HI. destruct (HG id g (or_intror HI)) as [E G]. split; [|exact G].
      rewrite E1. assert (NE : id <> id0) by (intros ->; apply Hn; exact (in_keys _ _ _ HI)).
      apply N.eqb_neq in NE. rewrite NE. exact E. }
    exists st'. split; [exact F|]. cbv beta zeta in *. cbn [sumz fst snd].
    split; [exact NA'|]. split; [|split].
    + intros d. destruct (MV d) as [M1 M2]. rewrite <- M1. apply Z.add_nonneg_nonneg; [exact M2 | apply S0].
    + intros d. rewrite A', cval_cadd by exact NDM. destruct (MV d) as [M1 _]. rewrite M1. symmetry. apply Z.add_assoc.
    + intros d. rewrite P'. unfold st1. cbn [gs_pool]. rewrite cval_cadd by exact NDM.
      destruct (MV d) as [M1 _]. rewrite M1. symmetry. apply Z.add_assoc.
Qed.

(* Gauge.v's reward block from a state satisfying its invariant: what arrives in the pool is
   [gauges_release], one entry per denomination, each non-negative and equal to the sum over
   the gauges of the closed form *)
Theorem gauge_release_spec tl s now :
  Inv tl s -> tl <= now ->
  exists s', reward_block s now = Some s' /\
    (forall d, cval (gs_pool s') d = cval (gs_pool s) d + cval (gauges_release s now) d) /\
    NoDup (map fst (gauges_release s now)) /\
    (forall d, cval (gauges_release s now) d = release_sum now s d) /\
    (forall d, 0 <= release_sum now s d).
Proof.
  intros [ND HG] Hle. rewrite reward_block_unfold.
  destruct (release_fold tl now s Hle (gs_gauges s) s [] ND ltac:(constructor)) as (s' & F & NA & S0 & A & P).
  { intros id g HI. split; [reflexivity|]. apply HG. apply in_aget; assumption. }
  cbv beta zeta in *. fold (gauges_release s now) in NA, A. fold (release_sum now s) in S0, A, P.
  exists s'. split; [exact F|].
  assert (A' : forall d, cval (gauges_release s now) d = release_sum now s d).
  { intros d. rewrite A. reflexivity. }
  split; [intros d; rewrite P, A'; reflexivity|]. split; [exact NA|]. split; [exact A' | exact S0].
Qed.

(* ================= the translated coin set ================= *)

Lemma relof_to_released c d : relof (to_released c) d = relof c d.
Proof.
  unfold relof, to_released. induction c as [|[d' C] r IH]; [reflexivity|].
  cbn [filter snd]. destruct (Z.eqb_spec C 0) as [->|NZ]; cbn [negb sumz fst snd].
  - rewrite IH. destruct (N.eqb d d'); lia.
  - rewrite IH. reflexivity.
Qed.

Lemma relof_cval c d : NoDup (map fst c) -> relof c d = cval c d.
Proof.
  intros ND. destruct (in_dec N.eq_dec d (map fst c)) as [Hk|Hk].
  - apply in_map_iff in Hk as ([d' C] & E & HI). cbn in E. subst d'.
    rewrite (relof_in c d C ND HI), (cval_in c d C ND HI). reflexivity.
  - rewrite (relof_notin c d Hk), (cval_notin c d Hk). reflexivity.
Qed.

Lemma nodup_to_released c : NoDup (map fst c) -> NoDup (akeys (to_released c)).
Proof.
  unfold akeys, to_released. induction c as [|[d C] r IH]; intros ND; [constructor|].
  inversion ND as [|? ? NI NDr]; subst. cbn [filter snd]. destruct (negb (C =? 0)); [|apply IH; exact NDr].
  cbn [map fst]. constructor; [|apply IH; exact NDr].
  intros I. apply NI. apply in_map_iff in I as (x & E & I). apply filter_In in I as [I _].
  rewrite <- E. apply in_map. exact I.
Qed.

Lemma in_to_released c d C : NoDup (map fst c) -> In (d, C) (to_released c) -> C <> 0 /\ C = cval c d.
Proof.
  intros ND I. apply filter_In in I as [I NZ]. cbn [snd] in NZ. split.
  - destruct (Z.eqb_spec C 0); [discriminate | assumption].
  - symmetry. apply cval_in; assumption.
Qed.

Lemma to_released_complete c d : NoDup (map fst c) -> cval c d <> 0 -> In (d, cval c d) (to_released c).
Proof.
  intros ND NZ. destruct (in_dec N.eq_dec d (map fst c)) as [Hk|Hk].
  - apply in_map_iff in Hk as ([d' C] & E & HI). cbn in E. subst d'.
    rewrite (cval_in c d C ND HI) in *. apply filter_In. split; [exact HI|]. cbn [snd].
    destruct (Z.eqb_spec C 0); [contradiction | reflexivity].
  - rewrite (cval_notin c d Hk) in NZ. contradiction.
Qed.

(* What C03's payout theorems ask of the released coins ([good_payout] / reward_block_spec:
   one entry per denomination, non-negative, present in the module account when the payout
   runs), for the coin set Gauge.v's reward block releases; every entry is the sum of the closed
   forms; and the credit run_reward_block performs ([pull]) makes Rewards' module account agree
   with Gauge's pool after its reward block. *)
Theorem gauge_release_meets_payout_hypotheses tl gs now :
  Inv tl gs -> tl <= now ->
  let coins := to_released (gauges_release gs now) in
  NoDup (akeys coins) /\
  (forall d C, In (d, C) coins -> 0 < C /\ C = release_sum now gs d) /\
  (forall d, ~ In d (akeys coins) -> release_sum now gs d = 0) /\
  (forall d, relof coins d = release_sum now gs d) /\
  exists gs', reward_block gs now = Some gs' /\
    forall macct b, pool_agrees macct b (gs_pool gs) ->
      pool_agrees macct (pull macct coins b) (gs_pool gs') /\
      ((forall d, 0 <= cval (gs_pool gs) d) ->
       forall d C, In (d, C) coins -> C <= bal (pull macct coins b) macct d).
Proof.
  intros HI Hle coins.
  destruct (gauge_release_spec tl gs now HI Hle) as (gs' & RB & POOL & ND & CL & NN).
  assert (REL : forall d, relof coins d = release_sum now gs d).
  { intros d. unfold coins. rewrite relof_to_released, relof_cval by exact ND. apply CL. }
  assert (INC : forall d C, In (d, C) coins -> 0 < C /\ C = release_sum now gs d).
  { intros d C I. destruct (in_to_released _ d C ND I) as [NZ E]. rewrite CL in E.
    pose proof (NN d). split; [lia | exact E]. }
  split; [apply nodup_to_released; exact ND|]. split; [exact INC|]. split; [|split; [exact REL|]].
  - intros d NI. rewrite <- REL. apply relof_notin. exact NI.
  - exists gs'. split; [exact RB|]. intros macct b AG.
    assert (AG' : pool_agrees macct (pull macct coins b) (gs_pool gs')).
    { intros d. rewrite bal_pull, N.eqb_refl, REL, POOL, CL, (AG d). reflexivity. }
    split; [exact AG'|]. intros P0 d C I. rewrite (AG' d), POOL, CL.
    destruct (INC d C I) as [_ E]. pose proof (P0 d). lia.
Qed.

(* ================= the whole block on both models ================= *)

(* RunRewardBlock at a reward height, its gauge side read from Gauge.v (state gs, block time
   now) and its file/payout side from Rewards.v (state s, height h): neither model panics, and
   per denomination the accounts other than the module account receive, together, at most the
   sum over the gauges of the closed-form release. *)
Theorem block_pays_at_most_gauge_release macct accts cw h tl now gs s :
  Inv tl gs -> tl <= now ->
  cw <> 0 -> Z.rem h cw <= 0 ->
  Forall wf_file (b_files s) -> bu_in64 (b_burn s) ->
  Forall (fun f => 0 <= f_size f) (b_files s) ->
  total_size (b_files s) <= int64_max ->
  (forall d, Z.of_nat (slots (b_files s)) * release_sum now gs d < 2 * P18) ->
  (forall d, 0 <= bal (b_bank s) macct d) ->
  (forall p x, aget N.eqb accts p = Some x -> x <> macct) ->
  exists gs' s',
    reward_block gs now = Some gs' /\
    run_reward_block macct accts cw h (to_released (gauges_release gs now)) s = Ok s' /\
    (forall xs d, NoDup xs -> ~ In macct xs ->
       sumz (fun x => bal (b_bank s') x d - bal (b_bank s) x d) xs <= release_sum now gs d) /\
    (forall d, bal (b_bank s) macct d <= bal (b_bank s') macct d <= bal (b_bank s) macct d + release_sum now gs d).
Proof.
  intros HI Hle CW RH WF RB S0 TM SIDE MOD ACC.
  destruct (gauge_release_meets_payout_hypotheses tl gs now HI Hle) as (CN & INC & NIC & REL & gs' & RBK & _).
  cbv zeta in *. set (coins := to_released (gauges_release gs now)) in *.
  destruct (gauge_release_spec tl gs now HI Hle) as (_ & _ & _ & _ & _ & NN).
  destruct (reward_block_spec macct accts cw h coins s CW WF RB S0 TM CN) as [_ RUN].
  - intros d C I. destruct (INC d C I). lia.
  - intros d C I. destruct (INC d C I) as [_ ->]. apply SIDE.
  - intros d _. apply MOD.
  - exact ACC.
  - destruct (RUN RH) as (s' & E & _ & _ & _ & _ & OTHER & SUM & MODB).
    exists gs', s'. split; [exact RBK|]. split; [exact E|]. split.
    + intros xs d ND NM. destruct (in_dec N.eq_dec d (akeys coins)) as [Hk|Hk].
      * apply in_map_iff in Hk as ([d' C] & Ed & I). cbn in Ed. subst d'.
        destruct (INC d C I) as [_ EC]. rewrite <- EC. apply SUM; assumption.
      * rewrite sumz_zero; [apply NN|]. intros x _. rewrite (OTHER x d Hk). lia.
    + intros d. destruct (in_dec N.eq_dec d (akeys coins)) as [Hk|Hk].
      * apply in_map_iff in Hk as ([d' C] & Ed & I). cbn in Ed. subst d'.
        destruct (INC d C I) as [_ EC]. rewrite <- EC. apply MODB. exact I.
      * rewrite (OTHER macct d Hk), (NIC d Hk). lia.
Qed.

(* ================= the release as a difference of two values of cum_at ================= *)

Lemma release_sum_synced now lp s d : NoDup (akeys (gs_gauges s)) -> synced lp s ->
  release_sum now s d = release_diff now lp s d.
Proof.
  intros ND SY. unfold release_sum, release_diff. apply sumz_ext_in. intros [id g] I. cbn [fst snd].
  unfold closed_release. destruct (gauge_live now g (escrow_of s id)); [|reflexivity].
  rewrite (SY id g (in_aget _ _ _ ND I) d). reflexivity.
Qed.

(* right after a reward block at [now] every listed gauge has released exactly cum_at now *)
Lemma synced_after_block tl s now s' :
  Inv tl s -> tl <= now -> reward_block s now = Some s' -> synced (fun _ => now) s'.
Proof.
  intros HI Hle RB. destruct (reward_block_ok tl s now HI Hle) as (s2 & RB2 & [_ HG'] & KEPT & _).
  rewrite RB in RB2. injection RB2 as <-.
  intros id g Hg d. destruct (KEPT id g Hg) as (_ & LE & BB).
  destruct (HG' id g Hg) as (S & W & ND & HC & HN).
  assert (Tin : g_start g <= now <= g_end g) by lia.
  destruct (in_dec N.eq_dec d (map fst (g_coins g))) as [Hk|Hk].
  - apply in_map_iff in Hk as ([d' A] & E & I). cbn in E. subst d'.
    rewrite (cval_in _ _ _ ND I), (BB d A I). destruct (HC d A I) as [HA _].
    rewrite cum_at_closed by (try assumption; lia). lia.
  - rewrite (cval_notin _ _ Hk), (HN d Hk), cum_at_zero by assumption. lia.
Qed.

Lemma synced_empty lp : synced lp gempty.
Proof. intros id g H. discriminate. Qed.

Lemma cum_at_start_any start end_ A : wf_interval start end_ -> cum_at start end_ A start = 0.
Proof.
  intros W. pose proof (wf_start_lt_end _ _ W). unfold cum_at.
  rewrite gauge_ratio_closed by (try assumption; lia).
  rewrite rat_at_start by (apply usec_total_pos; exact W). reflexivity.
Qed.

(* a creation (NewGauge + funding) keeps [synced]: the new gauge has released nothing, which is
   cum_at at its start *)
Lemma synced_create tl s id now e cs lp :
  Inv tl s -> synced lp s -> op_ok tl s (OpCreate id now e cs) ->
  synced (fun i => if N.eqb i id then now else lp i) (create_gauge s id now e cs).
Proof.
  intros [ND HG] SY (Hle & W & NDc & POS & HID).
  rewrite create_gauge_eq. intros id' g' Hg' d. cbn [gs_gauges] in Hg'.
  rewrite (escrow_of_aset s _ (gs_escrow s) _ id _ id' eq_refl).
  destruct (N.eqb id' id) eqn:E.
  2:{ rewrite (aget_aset_other N.eqb Neqb_spec) in Hg' by (intros ->; rewrite N.eqb_refl in E; discriminate).
      apply SY. exact Hg'. }
  apply N.eqb_eq in E; subst id'. rewrite (aget_aset_same N.eqb Neqb_spec) in Hg'.
  injection Hg' as <-. cbn [g_start g_end g_coins]. rewrite cum_at_start_any by exact W.
  rewrite cval_cadd by exact NDc.
  destruct (aget N.eqb (gs_gauges s) id) as [old|] eqn:Hold.
  - destruct HID as (S1 & S2 & _). destruct (HG id old Hold) as (OS & OW & OND & OC & ON).
    rewrite cval_cadd by exact NDc.
    assert (cval (g_coins old) d = cval (escrow_of s id) d); [|lia].
    destruct (in_dec N.eq_dec d (map fst (g_coins old))) as [Hk|Hk].
    + apply in_map_iff in Hk as ([d' A0] & Ed & HI0). cbn in Ed; subst d'.
      destruct (OC d A0 HI0) as [HA HB]. rewrite (cval_in _ _ _ OND HI0).
      pose proof (wf_start_lt_end _ _ OW).
      assert (HM : Z.min tl (g_end old) = g_start old) by lia. rewrite HM in HB.
      rewrite cumf_at_start in HB by exact OW. lia.
    + rewrite (cval_notin _ _ Hk), (ON d Hk). reflexivity.
  - destruct HID as [EZ _]. rewrite (EZ d). lia.
Qed.

(* hence along every admissible history of creations and reward blocks (C12's hist_ok) both
   Gauge's invariant and [synced] (for some assignment of last-release instants) hold *)
Lemma step_synced tl s o s' :
  Inv tl s -> (exists lp, synced lp s) -> op_ok tl s o -> gstep s o = Some s' ->
  exists lp', synced lp' s'.
Proof.
  intros HI [lp SY] HO HS. destruct o as [id now e cs|now]; cbn [gstep] in HS.
  - injection HS as <-. eexists. eapply synced_create; eassumption.
  - exists (fun _ => now). eapply synced_after_block; eassumption.
Qed.

Lemma run_synced ops : forall tl s,
  Inv tl s -> (exists lp, synced lp s) -> hist_ok tl s ops ->
  exists s', grun s ops = Some s' /\ Inv (end_time tl ops) s' /\ exists lp, synced lp s'.
Proof.
  induction ops as [|o r IH]; intros tl s HI SY HH.
  - exists s. auto.
  - destruct HH as [HO HR]. destruct (step_ok tl s o HI HO) as (s1 & S1 & I1).
    pose proof (step_synced tl s o s1 HI SY HO S1) as SY1.
    cbn [grun end_time]. rewrite S1 in *. apply IH; assumption.
Qed.

Lemma history_synced t0 ops :
  hist_ok t0 gempty ops ->
  exists s, grun gempty ops = Some s /\ Inv (end_time t0 ops) s /\ exists lp, synced lp s.
Proof.
  intros H. apply (run_synced ops t0 gempty (inv_empty t0)); [|exact H].
  exists (fun _ => 0). apply synced_empty.
Qed.

Theorem block_pays_at_most_cum_at_difference macct accts cw h tl now lp gs s :
  Inv tl gs -> synced lp gs -> tl <= now ->
  cw <> 0 -> Z.rem h cw <= 0 ->
  Forall wf_file (b_files s) -> bu_in64 (b_burn s) ->
  Forall (fun f => 0 <= f_size f) (b_files s) ->
  total_size (b_files s) <= int64_max ->
  (forall d, Z.of_nat (slots (b_files s)) * release_diff now lp gs d < 2 * P18) ->
  (forall d, 0 <= bal (b_bank s) macct d) ->
  (forall p x, aget N.eqb accts p = Some x -> x <> macct) ->
  exists gs' s',
    reward_block gs now = Some gs' /\ synced (fun _ => now) gs' /\
    run_reward_block macct accts cw h (to_released (gauges_release gs now)) s = Ok s' /\
    forall xs d, NoDup xs -> ~ In macct xs ->
      sumz (fun x => bal (b_bank s') x d - bal (b_bank s) x d) xs <= release_diff now lp gs d.
Proof.
  intros HI SY Hle CW RH WF RB S0 TM SIDE MOD ACC.
  assert (EQ : forall d, release_sum now gs d = release_diff now lp gs d)
    by (intros d; apply release_sum_synced; [apply HI | exact SY]).
  destruct (block_pays_at_most_gauge_release macct accts cw h tl now gs s HI Hle CW RH WF RB S0 TM) as (gs' & s' & RBK & RUN & SUM & _);
    try assumption.
  - intros d. rewrite EQ. apply SIDE.
  - exists gs', s'. split; [exact RBK|]. split; [eapply synced_after_block; eassumption|].
    split; [exact RUN|]. intros xs d ND NM. rewrite <- EQ. apply SUM; assumption.
Qed.
