(* Ties by proof between the authorisation skeletons of the nine filetree handlers as generated from the current
   source (Gen/GoFiletree.v) and the model of C10 (Model/Filetree.v), for every hash function, JSON parser and JSON
   printer: the model changes the tree exactly when the generated handler reaches its write, and that happens only
   after the entry was found and the ownership (or, for posts, the folder's edit access) test passed. *)
From Coq Require Import ZArith NArith List Bool String Lia.
From JK Require Import Base.Bytes Base.AList Base.GoSem Gen.GoFiletree Model.Paths Model.Filetree.
Import ListNotations.
Open Scope Z_scope.

Definition is_some {A} (o : option A) : bool := match o with Some _ => true | None => false end.
Definition ok_of (r : gres (list gev * bool)) : bool := match r with GVal (_, true) => true | _ => false end.

(* closed forms: nothing is written before every test has passed *)
Lemma gen_DeleteFile_spec found own :
  gen_DeleteFile found own = GVal (if found && own then ([Ev "remove-entry" []], true) else ([], false)).
Proof. unfold gen_DeleteFile. destruct found, own; reflexivity. Qed.

Lemma gen_ChangeOwner_spec found own target :
  gen_ChangeOwner found own target
  = GVal (if found && own && negb target
          then ([Ev "owner-becomes-new-owner" []; Ev "set-entry" []; Ev "remove-old-entry" []], true) else ([], false)).
Proof. unfold gen_ChangeOwner. destruct found, own, target; reflexivity. Qed.

Lemma gen_FtPostFile_spec pfound has_edit access_ok :
  gen_FtPostFile pfound has_edit access_ok
  = GVal (if pfound && access_ok && has_edit then ([Ev "set-entry-under-parent" []], true) else ([], false)).
Proof. unfold gen_FtPostFile. destruct pfound, access_ok, has_edit; reflexivity. Qed.

Definition acl_spec (tag : string) (found own parse_ok marshal_ok : bool) : gres (list gev * bool) :=
  GVal (if found && own && parse_ok
        then (if marshal_ok then ([Ev tag []; Ev "set-list" []; Ev "set-file" []], true) else ([Ev tag []], false))
        else ([], false)).

Lemma gen_acl_specs found own parse_ok marshal_ok :
  gen_AddViewers found own parse_ok marshal_ok = acl_spec "merge-ids-into-list" found own parse_ok marshal_ok /\
  gen_AddEditors found own parse_ok marshal_ok = acl_spec "merge-ids-into-list" found own parse_ok marshal_ok /\
  gen_RemoveViewers found own parse_ok marshal_ok = acl_spec "delete-ids-from-list" found own parse_ok marshal_ok /\
  gen_RemoveEditors found own parse_ok marshal_ok = acl_spec "delete-ids-from-list" found own parse_ok marshal_ok /\
  gen_ResetViewers found own parse_ok marshal_ok = acl_spec "list-becomes-the-signers-own-entry" found own parse_ok marshal_ok /\
  gen_ResetEditors found own parse_ok marshal_ok = acl_spec "list-becomes-the-signers-own-entry" found own parse_ok marshal_ok.
Proof.
  unfold gen_AddViewers, gen_AddEditors, gen_RemoveViewers, gen_RemoveEditors, gen_ResetViewers, gen_ResetEditors, acl_spec.
  destruct found, own, parse_ok, marshal_ok; repeat split; reflexivity.
Qed.

Section Model.
  Variable H : bytes -> bytes.
  Variable parse : bytes -> parsed.
  Variable render : option acl -> bytes.

  Theorem delete_file_is_the_interpretation s creator hpath account :
    let owner := make_owner H hpath account in
    let f := get_file s hpath owner in
    delete_file H s creator hpath account
    = if ok_of (gen_DeleteFile (is_some f) (match f with Some x => is_owner H x creator | None => false end))
      then (remove_file s hpath owner, Ok) else (s, Fail).
  Proof.
    cbv zeta. rewrite gen_DeleteFile_spec. unfold delete_file, ok_of.
    destruct (get_file s hpath (make_owner H hpath account)) as [f|]; cbn [is_some andb]; [|reflexivity].
    destruct (is_owner H f creator); reflexivity.
  Qed.

  Theorem change_owner_is_the_interpretation s creator address fileowner newowner :
    let current := make_owner H address fileowner in
    let newo := make_owner H address newowner in
    let f := get_file s address current in
    change_owner H s creator address fileowner newowner
    = if ok_of (gen_ChangeOwner (is_some f) (match f with Some x => is_owner H x creator | None => false end)
                                (is_some (get_file s address newo)))
      then match f with Some x => (remove_file (set_file s (with_owner x newo)) address current, Ok) | None => (s, Fail) end
      else (s, Fail).
  Proof.
    cbv zeta. rewrite gen_ChangeOwner_spec. unfold change_owner, ok_of.
    destruct (get_file s address (make_owner H address fileowner)) as [f|]; cbn [is_some andb]; [|reflexivity].
    destruct (is_owner H f creator); cbn [andb]; [|reflexivity].
    destruct (get_file s address (make_owner H address newowner)); reflexivity.
  Qed.

  Theorem post_file_is_the_interpretation s creator account hparent hchild contents viewers editors track :
    let parent := get_file s hparent (make_owner H hparent account) in
    let acc := match parent with Some p => has_access H parse KEdit p creator | None => None end in
    post_file H parse s creator account hparent hchild contents viewers editors track
    = if ok_of (gen_FtPostFile (is_some parent) (match acc with Some b => b | None => false end) (is_some acc))
      then let full := add_to_merkle H hparent hchild in
           (set_file s (mkFile full contents (make_owner H full account) viewers editors track), Ok)
      else (s, Fail).
  Proof.
    cbv zeta. rewrite gen_FtPostFile_spec. unfold post_file, ok_of.
    destruct (get_file s hparent (make_owner H hparent account)) as [p|]; cbn [is_some andb]; [|reflexivity].
    destruct (has_access H parse KEdit p creator) as [[|]|]; reflexivity.
  Qed.

  (* the six access-list handlers: nothing changes unless the entry exists, the signer owns it and its stored list
     parses; then exactly the named list of exactly that entry is rewritten (the id/key loop of Add can panic on a
     short key list: that is the model's Panic, below the level of this skeleton) *)
  Theorem acl_handlers_follow_the_skeleton k s creator ids keys address fileowner :
    let f := get_file s address fileowner in
    let own := match f with Some x => is_owner H x creator | None => false end in
    let pok := match f with Some x => match parse (acl_of k x) with PMap _ => true | PErr => false end | None => false end in
    let go := ok_of (acl_spec "x" (is_some f) own pok true) in
    (go = false -> add_acl H parse render k s creator ids keys address fileowner = (s, Fail) /\
                   remove_acl H parse render k s creator ids address fileowner = (s, Fail) /\
                   reset_acl H parse render k s creator address fileowner = (s, Fail)) /\
    (go = true -> exists x m, f = Some x /\ parse (acl_of k x) = PMap m /\ is_owner H x creator = true /\
       remove_acl H parse render k s creator ids address fileowner
         = (set_file s (with_acl k x (render (del_all_opt m (split_comma ids)))), Ok) /\
       reset_acl H parse render k s creator address fileowner
         = (set_file s (with_acl k x (render (Some (reset_map H k x creator m)))), Ok) /\
       add_acl H parse render k s creator ids keys address fileowner
         = match add_all_opt m (split_comma ids) (split_comma keys) with
           | None => (s, Panic)
           | Some m' => (set_file s (with_acl k x (render m')), Ok)
           end).
  Proof.
    cbv zeta. unfold acl_spec, ok_of, add_acl, remove_acl, reset_acl.
    destruct (get_file s address fileowner) as [x|]; cbn [is_some andb].
    2:{ split; [intros _; repeat split; reflexivity | discriminate]. }
    destruct (is_owner H x creator) eqn:O; cbn [andb].
    2:{ split; [intros _; repeat split; reflexivity | discriminate]. }
    destruct (parse (acl_of k x)) as [|m] eqn:P.
    - split; [intros _; repeat split; reflexivity | discriminate].
    - split; [discriminate|]. intros _. exists x, m. repeat split; try reflexivity; try assumption; try (rewrite P; reflexivity).
  Qed.
End Model.
