(* Soundness of the executable invariant of the C17 correspondence: every state on which
   [inv_b] (Corr/C17.v, evaluated on each observed pre- and post-state of the real app)
   answers true satisfies the invariant [Inv] the C17 / C01 theorems start from. *)
From Coq Require Import ZArith NArith List Bool Lia.
From JK Require Import Base.AList Model.StorageFiles Proofs.StorageFilesProofs Corr.C17.
Import ListNotations.
Open Scope Z_scope.

(* ---------- the boolean helpers ---------- *)

Lemma list_eqb_sound {A} (e : A -> A -> bool) :
  (forall a b, e a b = true -> a = b) -> forall a b, list_eqb e a b = true -> a = b.
Proof.
  intros H. induction a as [|x r IH]; intros [|y q] E; cbn in E; try discriminate; [reflexivity|].
  apply andb_true_iff in E as [E1 E2]. apply H in E1. apply IH in E2. subst. reflexivity.
Qed.

Lemma file_eqb_sound a b : file_eqb a b = true -> a = b.
Proof.
  unfold file_eqb. rewrite !andb_true_iff, !N.eqb_eq, !Z.eqb_eq.
  intros [[[[[[[[[E1 E2] E3] E4] E5] E6] E7] E8] E9] E10].
  apply (list_eqb_sound k4_eqb (fun x y => proj1 (k4_eqb_spec x y))) in E8.
  destruct a, b; cbn in *; subst; reflexivity.
Qed.

Lemma nodupb_sound {A} (e : A -> A -> bool) :
  (forall a b, e a b = true <-> a = b) -> forall l, nodupb e l = true -> NoDup l.
Proof.
  intros H. induction l as [|x r IH]; intros E; cbn in E; [constructor|].
  apply andb_true_iff in E as [E1 E2]. constructor; [|apply IH; exact E2].
  intros I. apply negb_true_iff in E1.
  assert (existsb (e x) r = true) as C by (apply existsb_exists; exists x; split; [exact I | apply H; reflexivity]).
  congruence.
Qed.

Lemma file_ok_b_sound s f : file_ok_b s f = true -> file_ok s f.
Proof.
  unfold file_ok_b. rewrite !andb_true_iff. intros [[ND L] F].
  split; [apply (nodupb_sound k4_eqb k4_eqb_spec); exact ND|].
  split; [apply Z.leb_le; exact L|].
  intros k I. rewrite forallb_forall in F. specialize (F k I).
  apply andb_true_iff in F as [A B]. apply k3_eqb_spec in A. split; [exact A|].
  destruct (get_proof s k) as [r|]; [|discriminate]. exists r. split; [reflexivity|].
  apply k4_eqb_spec. exact B.
Qed.

(* ---------- the theorem ---------- *)

Theorem inv_b_sound : forall s, inv_b s = true -> Inv s.
Proof.
  intros s. unfold inv_b. rewrite !andb_true_iff. intros [[[[N1 N2] F1] F2] FP].
  apply (nodupb_sound k3_eqb k3_eqb_spec) in N1. apply (nodupb_sound k3_eqb k3_eqb_spec) in N2.
  rewrite forallb_forall in F1, F2, FP.
  (* what the three sweeps say about a binding found by a lookup *)
  assert (H1 : forall k f, get_file s k = Some f ->
                 fk1 f = k /\ get2 s (fk2 f) = Some f /\ file_ok s f).
  { intros k f G. apply (aget_some_in k3_eqb k3_eqb_spec) in G. specialize (F1 _ G). cbn [fst snd] in F1.
    apply andb_true_iff in F1 as [F1 OK]. apply andb_true_iff in F1 as [K X].
    apply k3_eqb_spec in K. split; [symmetry; exact K|]. split; [|apply file_ok_b_sound; exact OK].
    unfold get2. destruct (aget k3_eqb (files2 s) (fk2 f)) as [g|]; [|discriminate].
    apply file_eqb_sound in X. subst g. reflexivity. }
  assert (H2 : forall k f, get2 s k = Some f -> fk2 f = k /\ get_file s (fk1 f) = Some f).
  { intros k f G. apply (aget_some_in k3_eqb k3_eqb_spec) in G. specialize (F2 _ G). cbn [fst snd] in F2.
    apply andb_true_iff in F2 as [K X]. apply k3_eqb_spec in K. split; [symmetry; exact K|].
    unfold get_file. destruct (aget k3_eqb (files1 s) (fk1 f)) as [g|]; [|discriminate].
    apply file_eqb_sound in X. subst g. reflexivity. }
  split.
  - exact N1.
  - exact N2.
  - intros m o st. destruct (get_file s (m, o, st)) as [f|] eqn:G.
    + destruct (H1 _ _ G) as (K & G2 & _). apply fk12 in K. rewrite K in G2. symmetry. exact G2.
    + destruct (get2 s (o, m, st)) as [g|] eqn:G2; [|reflexivity].
      destruct (H2 _ _ G2) as (K & G1). apply fk12 in K. rewrite K in G1. congruence.
  - intros k f G. apply (H1 _ _ G).
  - intros k r G. apply (aget_some_in k4_eqb k4_eqb_spec) in G. specialize (FP _ G). cbn [fst snd] in FP.
    apply k4_eqb_spec in FP. symmetry. exact FP.
  - intros k f G. apply (H1 _ _ G).
Qed.

(* every observed step the correspondence accepted starts and ends in a state satisfying [Inv] *)
Theorem c17_ok_states_inv pre o out_seen succ post paid :
  c17_ok (Step pre o out_seen succ post paid) = true -> Inv (state_of pre) /\ Inv (state_of post).
Proof.
  unfold c17_ok. rewrite !andb_true_iff. intros [[_ A] B]. split; apply inv_b_sound; assumption.
Qed.
