(* C01: a proof message concerns one (prover, file) pair.  Whatever PostProof does, every proof record
   other than the sender's own record on the addressed file, and every file entry other than the
   addressed one, is left exactly as it was (in particular another stored copy of the same merkle root,
   on which the sender may also be listed, is not refreshed by it). *)
From Coq Require Import ZArith NArith List Bool Lia.
From JK Require Import Base.AList Model.StorageFiles Proofs.StorageFilesProofs.
Import ListNotations.
Open Scope Z_scope.

Lemma get_proof_set_other s p k : k <> pk_of p -> get_proof (set_proof s p) k = get_proof s k.
Proof.
  intros N. unfold get_proof, set_proof, with_proofs; cbn [proofs].
  apply (aget_aset_other k4_eqb k4_eqb_spec). exact N.
Qed.
Lemma get_proof_set_file s f k : get_proof (set_file s f) k = get_proof s k.
Proof. reflexivity. Qed.
Lemma get_file_set_proof s p fk : get_file (set_proof s p) fk = get_file s fk.
Proof. reflexivity. Qed.
Lemma get_file_set_other s f fk : fk <> fk1 f -> get_file (set_file s f) fk = get_file s fk.
Proof.
  intros N. unfold get_file, set_file, with_files; cbn [files1].
  apply (aget_aset_other k3_eqb k3_eqb_spec). exact N.
Qed.
Lemma get_proof_with_ghost s g k : get_proof (with_ghost s g) k = get_proof s k. Proof. reflexivity. Qed.
Lemma get_file_with_ghost s g k : get_file (with_ghost s g) k = get_file s k. Proof. reflexivity. Qed.

Theorem postproof_frame s c m o st h tp v nc cs :
  Inv s ->
  let r := post_proof s c m o st h tp v nc cs in
  (forall k, k <> (c, o, m, st) -> get_proof (r_state r) k = get_proof s k) /\
  (forall fk, fk <> (m, o, st) -> get_file (r_state r) fk = get_file s fk).
Proof.
  intros I r. subst r. unfold post_proof.
  destruct (get_file s (m, o, st)) as [f|] eqn:GF; [|split; reflexivity].
  pose proof (inv_key s I _ _ GF) as FK.
  assert (MK : mk_pkey f c = (c, o, m, st)).
  { unfold mk_pkey. unfold fk1 in FK. inversion FK; subst. reflexivity. }
  (* the record the handler works on sits under the sender's own key of this file *)
  assert (KP : forall p, get_prover s f c = Some p -> pk_of p = (c, o, m, st)).
  { intros p G. apply get_prover_listed in G as [_ G]. rewrite <- MK. exact (inv_pkey s I _ _ G). }
  set (cand := if len f =? f_max f then _ else _).
  assert (CK : forall p b, cand = Some (p, b) -> pk_of p = (c, o, m, st)).
  { subst cand. intros p b. destruct (len f =? f_max f).
    - destruct (get_prover s f c) as [q|] eqn:G; [|discriminate]. intros E; inversion E; subst. apply KP. reflexivity.
    - destruct (contains_prover f c).
      + destruct (get_prover s f c) as [q|] eqn:G; [|discriminate]. intros E; inversion E; subst. apply KP. reflexivity.
      + destruct (len f >=? f_max f); [discriminate|]. intros E; inversion E; subst. unfold fresh_proof, pk_of; cbn.
        unfold mk_pkey in MK. exact MK. }
  destruct cand as [[p isnew]|] eqn:C; [|split; reflexivity].
  pose proof (CK p isnew eq_refl) as PK.
  destruct (negb (tp =? p_chunk p)); [split; reflexivity|].
  destruct (f_interval f =? 0); [split; reflexivity|].
  destruct (negb v); [split; reflexivity|].
  destruct (cs =? 0); [split; reflexivity|].
  cbn [r_state ok_].
  set (p' := {| p_prover := p_prover p; p_merkle := p_merkle p; p_owner := p_owner p; p_start := p_start p; p_last := h; p_chunk := nc |}).
  assert (PK' : pk_of p' = (c, o, m, st)) by exact PK.
  split.
  - intros k Nk. rewrite get_proof_with_ghost, get_proof_set_other by (rewrite PK'; exact Nk).
    destruct isnew; [|reflexivity].
    unfold add_prover. destruct (len f >=? f_max f); [reflexivity|].
    rewrite get_proof_set_file, get_proof_set_other; [reflexivity|].
    unfold fresh_proof, pk_of; cbn. unfold mk_pkey in MK. rewrite MK. exact Nk.
  - intros fk Nk. rewrite get_file_with_ghost, get_file_set_proof.
    destruct isnew; [|reflexivity].
    unfold add_prover. destruct (len f >=? f_max f); [reflexivity|].
    rewrite get_file_set_other by (rewrite fk1_with_plist, FK; exact Nk). apply get_file_set_proof.
Qed.
